#!/bin/bash
# tools/tryseed.sh <seed-id> [check ids...]: apply seeded/<id>/patch.diff (or /tmp/wt-out/<id>/patch.diff) to /repo, run the quick checks, revert.
id="$1"; shift
checks="${*:-${id:0:3}}"
p="/verif/seeded/$id/patch.diff"; [ -f "$p" ] || p="/tmp/wt-out/$id/patch.diff"
if [ -n "$(git -C /repo status --porcelain)" ]; then echo "/repo has uncommitted changes: commit or stash them first" >&2; exit 2; fi
git -C /repo apply "$p" || exit 2
for c in $checks; do
  (cd /verif && timeout 1500 ./check "$c" --tier quick 2>&1 | grep -E "^(VIOLATION|OK)" | head -2 | cut -c1-200)
  python3 - "$c" <<'PY'
import json,sys
try:
    j=json.load(open('/verif/replays/%s-quick-1.json'%sys.argv[1])); v=j.get('violation',{})
    print('   ', v.get('kind'), '|', (v.get('what') or '')[:400], '|', (v.get('obligation') or '')[:300])
except Exception as e: pass
PY
done
git -C /repo checkout -- .
git -C /verif checkout -- evidence lean/JSight/Gen 2>/dev/null
rm -f /verif/replays/*-quick-1.json
