#!/bin/bash
cd "$(dirname "$0")/.."
for c in C04 C05 C06 C07 C08 C09 C11 C13 C14 C19 C20 C01 C02 C03 C10 C12 C15 C16 C17 C18; do
  echo "=== $c"
  /usr/bin/time -f "%es %MKB" ./check $c --tier thorough 2>&1 | grep -E "^(VIOLATION|OK|KNOWN|  what|  broken|[0-9.]+s )" | cut -c1-400
done
