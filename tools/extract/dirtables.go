package main

import (
	"bytes"
	"go/ast"
	"go/printer"
	"go/token"
	"path/filepath"
	"strconv"
	"strings"
)

func nodeStr(fset *token.FileSet, n ast.Node) string {
	var b bytes.Buffer
	_ = printer.Fprint(&b, fset, n)
	return strings.Join(strings.Fields(b.String()), " ")
}

type dirTables struct {
	Kinds    []string   // Go identifiers of the Enumeration constants, in iota order
	Names    []string   // ss
	Root     []string   // IsAllowedForRootContext
	HTTP     []string   // IsHTTPRequestMethod
	Children [][]string // parent, children...
}

func identList(ee []ast.Expr) []string {
	var r []string
	for _, e := range ee {
		if id, ok := e.(*ast.Ident); ok {
			r = append(r, id.Name)
		} else {
			problem("directive tables: non-identifier in a kind list")
		}
	}
	return r
}

func switchCaseIdents(fd *ast.FuncDecl) []string {
	var out []string
	ast.Inspect(fd.Body, func(n ast.Node) bool {
		if cc, ok := n.(*ast.CaseClause); ok && cc.List != nil {
			returnsTrue := false
			for _, s := range cc.Body {
				if rs, ok := s.(*ast.ReturnStmt); ok && len(rs.Results) == 1 && isIdent(rs.Results[0], "true") {
					returnsTrue = true
				}
			}
			if returnsTrue {
				out = append(out, identList(cc.List)...)
			}
		}
		return true
	})
	return out
}

func extractDirTables(repo string) *dirTables {
	fset := token.NewFileSet()
	files := parseDir(fset, filepath.Join(repo, "directive"), func(n string) bool { return n == "enumeration.go" })
	t := &dirTables{}
	for _, f := range files {
		for _, d := range f.Decls {
			switch dd := d.(type) {
			case *ast.GenDecl:
				for _, sp := range dd.Specs {
					vs, ok := sp.(*ast.ValueSpec)
					if !ok {
						continue
					}
					if dd.Tok == token.CONST {
						// the Enumeration iota block
						isEnum := len(t.Kinds) > 0 && len(vs.Values) == 0 && vs.Type == nil
						if id, ok := vs.Type.(*ast.Ident); ok && id.Name == "Enumeration" {
							isEnum = true
						}
						if isEnum {
							for _, n := range vs.Names {
								t.Kinds = append(t.Kinds, n.Name)
							}
						}
					}
					if dd.Tok == token.VAR {
						for i, n := range vs.Names {
							if i >= len(vs.Values) {
								continue
							}
							cl, ok := vs.Values[i].(*ast.CompositeLit)
							if !ok {
								continue
							}
							switch n.Name {
							case "ss":
								for _, e := range cl.Elts {
									if bl, ok := e.(*ast.BasicLit); ok && bl.Kind == token.STRING {
										s, _ := strconv.Unquote(bl.Value)
										t.Names = append(t.Names, s)
									}
								}
							case "directiveAllowedToDirectiveContext":
								for _, e := range cl.Elts {
									kv, ok := e.(*ast.KeyValueExpr)
									if !ok {
										continue
									}
									parent, ok := kv.Key.(*ast.Ident)
									call, ok2 := kv.Value.(*ast.CallExpr)
									if !ok || !ok2 || selChain(call.Fun) != "createEnumerationSet" {
										problem("directive tables: unsupported entry in directiveAllowedToDirectiveContext")
										continue
									}
									t.Children = append(t.Children, append([]string{parent.Name}, identList(call.Args)...))
								}
							}
						}
					}
				}
			case *ast.FuncDecl:
				switch dd.Name.Name {
				case "IsAllowedForRootContext":
					t.Root = switchCaseIdents(dd)
				case "IsHTTPRequestMethod":
					t.HTTP = switchCaseIdents(dd)
				}
			}
		}
	}
	if len(t.Kinds) == 0 || len(t.Kinds) != len(t.Names) {
		problem("directive tables: %d kinds, %d names", len(t.Kinds), len(t.Names))
	}
	if len(t.Root) == 0 || len(t.Children) == 0 || len(t.HTTP) == 0 {
		problem("directive tables: admissibility tables not found")
	}
	return t
}
