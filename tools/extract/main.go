// Command extract regenerates the Lean tables and the facts file from the Go
// source of /repo (go/parser + go/ast only).
package main

import (
	"flag"
	"fmt"
	"os"
)

var problems []string

func problem(format string, a ...any) {
	p := fmt.Sprintf(format, a...)
	problems = append(problems, p)
	fmt.Println("PROBLEM " + p)
}

func main() {
	repo := flag.String("repo", "/repo", "repository")
	out := flag.String("out", "/verif/lean/JSight/Gen", "output directory for generated Lean")
	facts := flag.String("facts", "/verif/gen/facts.json", "facts file")
	flag.Parse()
	_ = os.MkdirAll(*out, 0o755)
	_ = repo
	_ = facts
	if len(problems) > 0 {
		os.Exit(1)
	}
}
