package main

import (
	"go/ast"
	"go/parser"
	"go/token"
	"path/filepath"
	"sort"
	"strconv"
	"strings"
)

// Facts about the catalog construction that the hand-written model (Model/Build.lean) relies on:
// which directive kinds have an add-function, in which order the stages of the pipeline run, and the
// message constants of package jerr.

type buildTable struct {
	DirFunctions [][2]string         // kind, method name
	CallSeq      map[string][]string // function -> methods of core it calls, in source order
	SeqOrder     []string
	ScanCalls    []scanCall
	Messages     [][2]string // constant name, text
}

type scanCall struct {
	Fn    string
	Calls []string
}

func recvCalls(fd *ast.FuncDecl) []string {
	recv := ""
	if fd.Recv != nil && len(fd.Recv.List) == 1 && len(fd.Recv.List[0].Names) == 1 {
		recv = fd.Recv.List[0].Names[0].Name
	}
	var out []string
	ast.Inspect(fd.Body, func(n ast.Node) bool {
		if ce, ok := n.(*ast.CallExpr); ok {
			if se, ok := ce.Fun.(*ast.SelectorExpr); ok {
				if id, ok := se.X.(*ast.Ident); ok && id.Name == recv && recv != "" {
					out = append(out, se.Sel.Name)
				}
			}
		}
		return true
	})
	return out
}

// allCalls: every call of the function body in source order, as a dotted name ("core.scanner.Next", "filepath.Join",
// "validateIncludeFileName"); conversions and calls through other expressions are skipped.
func allCalls(fd *ast.FuncDecl) []string {
	var name func(e ast.Expr) string
	name = func(e ast.Expr) string {
		switch x := e.(type) {
		case *ast.Ident:
			return x.Name
		case *ast.SelectorExpr:
			if p := name(x.X); p != "" {
				return p + "." + x.Sel.Name
			}
		}
		return ""
	}
	var out []string
	ast.Inspect(fd.Body, func(n ast.Node) bool {
		if ce, ok := n.(*ast.CallExpr); ok {
			if s := name(ce.Fun); s != "" {
				out = append(out, s)
			}
		}
		return true
	})
	return out
}

// the functions of the scan phase whose complete call sequence is extracted (Gen.scanCalls)
var scanPhase = map[string]bool{"scanProject": true, "drainCurrentScanner": true, "next": true, "processKeyword": true, "processParameter": true,
	"processContextEnd": true, "processEOF": true, "setCurrentDirective": true, "processCurrentDirective": true, "processInclude": true,
	"getIncludedFilePath": true, "closeLastExplicitContext": true, "checkBannedDirective": true, "isScanningFinished": true}

func extractBuildTable(repo string) *buildTable {
	t := &buildTable{CallSeq: map[string][]string{}}
	coreFuncs := map[string]*ast.FuncDecl{}
	fset := token.NewFileSet()
	wanted := []string{"processJApiProject", "compileCore", "buildCatalog", "compileCatalog", "validateCatalog", "addDirectives", "addDirectiveBranch", "addDirective"}
	want := map[string]bool{}
	for _, w := range wanted {
		want[w] = true
	}
	files, _ := filepath.Glob(filepath.Join(repo, "core", "*.go"))
	sort.Strings(files)
	for _, f := range files {
		if strings.HasSuffix(f, "_test.go") || strings.Contains(filepath.Base(f), "verif") {
			continue
		}
		af, err := parser.ParseFile(fset, f, nil, 0)
		if err != nil {
			problem("buildtable: %v", err)
			continue
		}
		for _, d := range af.Decls {
			fd, ok := d.(*ast.FuncDecl)
			if !ok || fd.Body == nil {
				continue
			}
			coreFuncs[fd.Name.Name] = fd
			if want[fd.Name.Name] && fd.Recv != nil {
				if _, dup := t.CallSeq[fd.Name.Name]; dup {
					problem("buildtable: %s defined twice", fd.Name.Name)
				}
				t.CallSeq[fd.Name.Name] = recvCalls(fd)
			}
			if fd.Name.Name == "NewJApiCore" {
				ast.Inspect(fd.Body, func(n ast.Node) bool {
					as, ok := n.(*ast.AssignStmt)
					if !ok || len(as.Lhs) != 1 || len(as.Rhs) != 1 {
						return true
					}
					if se, ok := as.Lhs[0].(*ast.SelectorExpr); !ok || se.Sel.Name != "directiveFunctions" {
						return true
					}
					cl, ok := as.Rhs[0].(*ast.CompositeLit)
					if !ok {
						problem("buildtable: directiveFunctions is not assigned a literal")
						return true
					}
					for _, e := range cl.Elts {
						kv, ok := e.(*ast.KeyValueExpr)
						if !ok {
							problem("buildtable: unexpected element in directiveFunctions")
							continue
						}
						k, ok1 := kv.Key.(*ast.SelectorExpr)
						v, ok2 := kv.Value.(*ast.SelectorExpr)
						if !ok1 || !ok2 {
							problem("buildtable: unexpected entry in directiveFunctions")
							continue
						}
						t.DirFunctions = append(t.DirFunctions, [2]string{k.Sel.Name, v.Sel.Name})
					}
					return true
				})
			}
		}
	}
	// the call sequences of the scan phase, FLATTENED: a call of another function or method of package core is followed by
	// that function's own calls (so that extracting a helper does not change the order facts read off the sequence)
	var flat func(name string, depth int, seen map[string]bool) []string
	flat = func(name string, depth int, seen map[string]bool) []string {
		fd := coreFuncs[name]
		if fd == nil || depth > 4 || seen[name] {
			return nil
		}
		seen[name] = true
		defer delete(seen, name)
		var out []string
		for _, c := range allCalls(fd) {
			out = append(out, c)
			callee := c
			if strings.HasPrefix(c, "core.") && strings.Count(c, ".") == 1 {
				callee = strings.TrimPrefix(c, "core.")
			} else if strings.Contains(c, ".") {
				continue
			}
			if !scanPhase[callee] { // the functions of the scan phase have their own entry: not expanded inside one another
				out = append(out, flat(callee, depth+1, seen)...)
			}
		}
		return out
	}
	for name := range scanPhase {
		if fd := coreFuncs[name]; fd != nil && fd.Recv != nil {
			t.ScanCalls = append(t.ScanCalls, scanCall{name, flat(name, 0, map[string]bool{})})
		} else {
			problem("buildtable: function %s of the scan phase not found in core", name)
		}
	}
	for _, w := range wanted {
		if _, ok := t.CallSeq[w]; !ok {
			problem("buildtable: function %s not found in core", w)
		}
		t.SeqOrder = append(t.SeqOrder, w)
	}
	if len(t.DirFunctions) == 0 {
		problem("buildtable: directiveFunctions not found")
	}
	// jerr message constants
	jf, _ := filepath.Glob(filepath.Join(repo, "jerr", "*.go"))
	sort.Strings(jf)
	for _, f := range jf {
		if strings.HasSuffix(f, "_test.go") {
			continue
		}
		af, err := parser.ParseFile(fset, f, nil, 0)
		if err != nil {
			continue
		}
		for _, d := range af.Decls {
			gd, ok := d.(*ast.GenDecl)
			if !ok || gd.Tok != token.CONST {
				continue
			}
			for _, sp := range gd.Specs {
				vs := sp.(*ast.ValueSpec)
				for i, n := range vs.Names {
					if i < len(vs.Values) {
						if bl, ok := vs.Values[i].(*ast.BasicLit); ok && bl.Kind == token.STRING {
							s, _ := strconv.Unquote(bl.Value)
							t.Messages = append(t.Messages, [2]string{n.Name, s})
						}
					}
				}
			}
		}
	}
	return t
}

func renderBuildTable(t *buildTable) string {
	var b strings.Builder
	b.WriteString("-- GENERATED by tools/extract from /repo/core/*.go and /repo/jerr/*.go on every check. Do not edit.\n")
	b.WriteString("import JSight.Gen.DirTables\nnamespace JSight.Gen\n\n")
	b.WriteString("/-- `core.directiveFunctions` (core/core.go NewJApiCore): directive kind ↦ the method that adds it to the catalog -/\n")
	b.WriteString("def dirFunctions : List (Kind × String) := [\n")
	for i, e := range t.DirFunctions {
		b.WriteString("  (." + e[0] + ", " + strconv.Quote(e[1]) + ")")
		if i+1 < len(t.DirFunctions) {
			b.WriteString(",")
		}
		b.WriteString("\n")
	}
	b.WriteString("]\n\n/-- the methods of the core each stage function calls, in source order -/\n")
	b.WriteString("def callSeq : List (String × List String) := [\n")
	for i, f := range t.SeqOrder {
		b.WriteString("  (" + strconv.Quote(f) + ", [" + quoteAll(t.CallSeq[f]) + "])")
		if i+1 < len(t.SeqOrder) {
			b.WriteString(",")
		}
		b.WriteString("\n")
	}
	b.WriteString("]\n\n/-- every call made by the functions of the scan phase (core/scan_project*.go, core/include.go), in source order -/\n")
	b.WriteString("def scanCalls : List (String × List String) := [\n")
	sort.Slice(t.ScanCalls, func(i, j int) bool { return t.ScanCalls[i].Fn < t.ScanCalls[j].Fn })
	for i, f := range t.ScanCalls {
		b.WriteString("  (" + strconv.Quote(f.Fn) + ", [" + quoteAll(f.Calls) + "])")
		if i+1 < len(t.ScanCalls) {
			b.WriteString(",")
		}
		b.WriteString("\n")
	}
	b.WriteString("]\n\n/-- the message constants of package jerr -/\ndef messages : List (String × String) := [\n")
	for i, m := range t.Messages {
		b.WriteString("  (" + strconv.Quote(m[0]) + ", " + strconv.Quote(m[1]) + ")")
		if i+1 < len(t.Messages) {
			b.WriteString(",")
		}
		b.WriteString("\n")
	}
	b.WriteString("]\n\nend JSight.Gen\n")
	return b.String()
}
