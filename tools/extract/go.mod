module extract

go 1.19
