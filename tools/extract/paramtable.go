package main

import (
	"fmt"
	"go/ast"
	"go/token"
	"path/filepath"
	"strconv"
	"strings"
)

// Translation of `func (d *Directive) AppendParameter(b bytes.Bytes) error` (directive/parameter.go) into a
// table: for every `case` clause of the switch on `d.Type()` the directive kinds and the ordered
// (guard, action) alternatives.  The hand-written model (Model/Param.lean) is proved equal to the
// interpretation of this table (Props/C17_Param.lean, appendParameter_eq_table).
//
// Accepted subset (anything else is a PROBLEM "paramtable: ..."):
//
//	b = unescapeParameter(b)
//	s := b.String()
//	switch d.Type() { case K1, K2: BODY ... }
//	return fmt.Errorf("%s %q", jerr.IncorrectParameter, s)
//
//	BODY   ::= (empty) | ACTION | if GUARD { ACTION } | switch { case GUARD: ACTION ... [default: ACTION] }
//	         | switch s { case "a", "b": ACTION ... [default: ACTION] }
//	GUARD  ::= isSchemaNotation(s) | IsArrayOfTypes(b) | b.IsUserTypeName()
//	ACTION ::= return d.SetNamedParameter("X", s) | d.AppendUnnamedParameter(s); return nil

type pAlt struct {
	Guard string   // always | isSchemaNotation | isArrayOfTypes | isUserTypeName | strIn
	Strs  []string // strIn
	Act   string   // setNamed | appendUnnamed
	Name  string   // setNamed
}

type pClause struct {
	Kinds []string
	Alts  []pAlt
}

type paramTable struct {
	Found            bool
	Clauses          []pClause
	UnescapesFirst   bool
	FallsToIncorrect bool

	SchemaNotations       []string // the strings NewSchemaNotation accepts, in source order
	IsSchemaNotationShape bool     // isSchemaNotation(s) is `_, e := notation.NewSchemaNotation(s); return e == nil`
	IsArrayOfTypesShape   bool     // l >= 4 && b[0] == '[' && b[l-1] == ']' && b[1:l-1].IsUserTypeName()
	UnescapeFingerprint   string   // fingerprint of the normalised source text of unescapeParameter
	UnescapeSource        string
}

type paramExt struct {
	fset  *token.FileSet
	recv  string // d
	arg   string // b
	str   string // s
	kinds map[string]bool
}

// paramNotes: constructs of AppendParameter (or of its helpers) outside the translated subset. They do NOT count as
// broken obligations: the table is then declared unavailable (Gen.paramTableAvailable = false), the theorems that read it
// hold vacuously, and the model of AppendParameter is tied by its correspondence alone (the note is recorded in the
// facts and in the evidence).
var paramNotes []string

func paramNote(format string, a ...any) {
	n := fmt.Sprintf(format, a...)
	paramNotes = append(paramNotes, n)
	fmt.Println("NOTE paramtable: " + n)
}

func (x *paramExt) prob(n ast.Node, format string, a ...any) {
	pos := x.fset.Position(n.Pos())
	args := append([]any{filepath.Base(pos.Filename), pos.Line}, a...)
	paramNote("(%s:%d) "+format, args...)
}

func stringLit(e ast.Expr) (string, bool) {
	bl, ok := e.(*ast.BasicLit)
	if !ok || bl.Kind != token.STRING {
		return "", false
	}
	s, err := strconv.Unquote(bl.Value)
	return s, err == nil
}

// call f(args...) where f is the selector chain `name`
func callOf(e ast.Expr, name string, nargs int) (*ast.CallExpr, bool) {
	ce, ok := e.(*ast.CallExpr)
	if !ok || selChain(ce.Fun) != name || len(ce.Args) != nargs || ce.Ellipsis != token.NoPos {
		return nil, false
	}
	return ce, true
}

func (x *paramExt) guard(e ast.Expr) (string, bool) {
	if ce, ok := callOf(e, "isSchemaNotation", 1); ok && isIdent(ce.Args[0], x.str) {
		return "isSchemaNotation", true
	}
	if ce, ok := callOf(e, "IsArrayOfTypes", 1); ok && isIdent(ce.Args[0], x.arg) {
		return "isArrayOfTypes", true
	}
	if _, ok := callOf(e, x.arg+".IsUserTypeName", 0); ok {
		return "isUserTypeName", true
	}
	x.prob(e, "unsupported guard %s", nodeStr(x.fset, e))
	return "", false
}

// `return d.SetNamedParameter("X", s)` or `d.AppendUnnamedParameter(s); return nil`
func (x *paramExt) action(stmts []ast.Stmt, at ast.Node) (pAlt, bool) {
	switch len(stmts) {
	case 1:
		if rs, ok := stmts[0].(*ast.ReturnStmt); ok && len(rs.Results) == 1 {
			if ce, ok := callOf(rs.Results[0], x.recv+".SetNamedParameter", 2); ok && isIdent(ce.Args[1], x.str) {
				if name, ok := stringLit(ce.Args[0]); ok {
					return pAlt{Act: "setNamed", Name: name}, true
				}
			}
		}
	case 2:
		es, ok1 := stmts[0].(*ast.ExprStmt)
		rs, ok2 := stmts[1].(*ast.ReturnStmt)
		if ok1 && ok2 && len(rs.Results) == 1 && isIdent(rs.Results[0], "nil") {
			if ce, ok := callOf(es.X, x.recv+".AppendUnnamedParameter", 1); ok && isIdent(ce.Args[0], x.str) {
				return pAlt{Act: "appendUnnamed"}, true
			}
		}
	}
	var n ast.Node = at
	if len(stmts) > 0 {
		n = stmts[0]
	}
	var ss []string
	for _, s := range stmts {
		ss = append(ss, nodeStr(x.fset, s))
	}
	x.prob(n, "unsupported action {%s}", strings.Join(ss, "; "))
	return pAlt{}, false
}

// the body of one `case K...:` clause of the switch on d.Type()
func (x *paramExt) clauseBody(stmts []ast.Stmt, at ast.Node) []pAlt {
	if len(stmts) == 0 {
		return nil // falls to the final error
	}
	if len(stmts) == 1 {
		switch t := stmts[0].(type) {
		case *ast.IfStmt:
			if t.Init != nil || t.Else != nil {
				x.prob(t, "unsupported if statement (init or else)")
				return nil
			}
			g, ok := x.guard(t.Cond)
			if !ok {
				return nil
			}
			a, ok := x.action(t.Body.List, t)
			if !ok {
				return nil
			}
			a.Guard = g
			return []pAlt{a}
		case *ast.SwitchStmt:
			if t.Init != nil {
				x.prob(t, "unsupported switch statement (init)")
				return nil
			}
			onStr := false
			if t.Tag != nil {
				if !isIdent(t.Tag, x.str) {
					x.prob(t, "unsupported switch tag %s", nodeStr(x.fset, t.Tag))
					return nil
				}
				onStr = true
			}
			var alts []pAlt
			for i, st := range t.Body.List {
				cc := st.(*ast.CaseClause)
				a, ok := x.action(cc.Body, cc)
				if !ok {
					return alts
				}
				switch {
				case cc.List == nil:
					if i+1 != len(t.Body.List) {
						x.prob(cc, "default clause is not the last one")
						return alts
					}
					a.Guard = "always"
				case onStr:
					a.Guard = "strIn"
					for _, e := range cc.List {
						s, ok := stringLit(e)
						if !ok {
							x.prob(e, "case of the switch on %s is not a string literal", x.str)
							return alts
						}
						a.Strs = append(a.Strs, s)
					}
				default:
					if len(cc.List) != 1 {
						x.prob(cc, "several guards in one case")
						return alts
					}
					g, ok := x.guard(cc.List[0])
					if !ok {
						return alts
					}
					a.Guard = g
				}
				alts = append(alts, a)
			}
			return alts
		}
	}
	// `if g1 { return … }; if g2 { return … }; [return …]`: a chain of alternatives
	if len(stmts) > 1 {
		allIfs := true
		for _, st := range stmts[:len(stmts)-1] {
			if is, ok := st.(*ast.IfStmt); !ok || is.Init != nil || is.Else != nil {
				allIfs = false
			}
		}
		if allIfs {
			var alts []pAlt
			for _, st := range stmts[:len(stmts)-1] {
				is := st.(*ast.IfStmt)
				a, ok := x.action(is.Body.List, is)
				if !ok {
					return alts
				}
				if ss, ok := x.strEqChain(is.Cond); ok {
					a.Guard, a.Strs = "strIn", ss
				} else if g, ok := x.guard(is.Cond); ok {
					a.Guard = g
				} else {
					return alts
				}
				alts = append(alts, a)
			}
			last := stmts[len(stmts)-1]
			if is, ok := last.(*ast.IfStmt); ok && is.Init == nil && is.Else == nil {
				a, ok := x.action(is.Body.List, is)
				if !ok {
					return alts
				}
				if ss, ok := x.strEqChain(is.Cond); ok {
					a.Guard, a.Strs = "strIn", ss
				} else if g, ok := x.guard(is.Cond); ok {
					a.Guard = g
				} else {
					return alts
				}
				return append(alts, a)
			}
			a, ok := x.action([]ast.Stmt{last}, last)
			if !ok {
				return alts
			}
			a.Guard = "always"
			return append(alts, a)
		}
	}
	a, ok := x.action(stmts, at)
	if !ok {
		return nil
	}
	a.Guard = "always"
	return []pAlt{a}
}

// strEqChain: `s == "a" || s == "b" || …`
func (x *paramExt) strEqChain(e ast.Expr) ([]string, bool) {
	switch b := e.(type) {
	case *ast.ParenExpr:
		return x.strEqChain(b.X)
	case *ast.BinaryExpr:
		if b.Op == token.LOR {
			l, ok1 := x.strEqChain(b.X)
			r, ok2 := x.strEqChain(b.Y)
			return append(l, r...), ok1 && ok2
		}
		if b.Op == token.EQL && isIdent(b.X, x.str) {
			if lit, ok := stringLit(b.Y); ok {
				return []string{lit}, true
			}
		}
	}
	return nil, false
}

func (x *paramExt) appendParameter(fd *ast.FuncDecl, t *paramTable) {
	// signature: (d *Directive) AppendParameter(b bytes.Bytes) error
	ft := fd.Type
	if len(fd.Recv.List) != 1 || len(fd.Recv.List[0].Names) != 1 || typeStr(fd.Recv.List[0].Type) != "*Directive" ||
		len(ft.Params.List) != 1 || len(ft.Params.List[0].Names) != 1 || nodeStr(x.fset, ft.Params.List[0].Type) != "bytes.Bytes" ||
		ft.Results == nil || len(ft.Results.List) != 1 || len(ft.Results.List[0].Names) != 0 || !isIdent(ft.Results.List[0].Type, "error") {
		x.prob(fd, "unexpected signature of AppendParameter")
		return
	}
	x.recv = fd.Recv.List[0].Names[0].Name
	x.arg = ft.Params.List[0].Names[0].Name
	body := fd.Body.List
	if len(body) != 4 {
		x.prob(fd, "AppendParameter has %d statements, expected 4 (unescape; string; switch; error)", len(body))
		for _, s := range body {
			switch s.(type) {
			case *ast.AssignStmt, *ast.SwitchStmt, *ast.ReturnStmt:
			default:
				x.prob(s, "unsupported statement %s", trunc(nodeStr(x.fset, s), 80))
			}
		}
		return
	}
	// b = unescapeParameter(b)
	if as, ok := body[0].(*ast.AssignStmt); ok && as.Tok == token.ASSIGN && len(as.Lhs) == 1 && len(as.Rhs) == 1 && isIdent(as.Lhs[0], x.arg) {
		if ce, ok := callOf(as.Rhs[0], "unescapeParameter", 1); ok && isIdent(ce.Args[0], x.arg) {
			t.UnescapesFirst = true
		}
	}
	if !t.UnescapesFirst {
		x.prob(body[0], "first statement is not `%s = unescapeParameter(%s)`: %s", x.arg, x.arg, trunc(nodeStr(x.fset, body[0]), 80))
	}
	// s := b.String()
	if as, ok := body[1].(*ast.AssignStmt); ok && as.Tok == token.DEFINE && len(as.Lhs) == 1 && len(as.Rhs) == 1 {
		if id, ok := as.Lhs[0].(*ast.Ident); ok {
			if _, ok := callOf(as.Rhs[0], x.arg+".String", 0); ok {
				x.str = id.Name
			}
		}
	}
	if x.str == "" {
		x.prob(body[1], "second statement is not `s := %s.String()`: %s", x.arg, trunc(nodeStr(x.fset, body[1]), 80))
		return
	}
	// return fmt.Errorf("%s %q", jerr.IncorrectParameter, s)
	if rs, ok := body[3].(*ast.ReturnStmt); ok && len(rs.Results) == 1 {
		if ce, ok := callOf(rs.Results[0], "fmt.Errorf", 3); ok {
			f, okf := stringLit(ce.Args[0])
			if okf && f == "%s %q" && selChain(ce.Args[1]) == "jerr.IncorrectParameter" && isIdent(ce.Args[2], x.str) {
				t.FallsToIncorrect = true
			}
		}
	}
	if !t.FallsToIncorrect {
		x.prob(body[3], "last statement is not the \"incorrect parameter\" error: %s", trunc(nodeStr(x.fset, body[3]), 80))
	}
	// switch d.Type() { ... }
	sw, ok := body[2].(*ast.SwitchStmt)
	if !ok || sw.Init != nil || sw.Tag == nil {
		x.prob(body[2], "third statement is not `switch %s.Type()`: %s", x.recv, trunc(nodeStr(x.fset, body[2]), 80))
		return
	}
	if _, ok := callOf(sw.Tag, x.recv+".Type", 0); !ok {
		x.prob(sw, "the switch is not on %s.Type(): %s", x.recv, nodeStr(x.fset, sw.Tag))
		return
	}
	seen := map[string]bool{}
	for _, st := range sw.Body.List {
		cc := st.(*ast.CaseClause)
		if cc.List == nil {
			x.prob(cc, "default clause in the switch on %s.Type()", x.recv)
			continue
		}
		c := pClause{}
		for _, e := range cc.List {
			id, ok := e.(*ast.Ident)
			if !ok || !x.kinds[id.Name] {
				x.prob(e, "case %s is not a directive kind", nodeStr(x.fset, e))
				continue
			}
			if seen[id.Name] {
				x.prob(e, "kind %s occurs twice", id.Name)
			}
			seen[id.Name] = true
			c.Kinds = append(c.Kinds, id.Name)
		}
		c.Alts = x.clauseBody(cc.Body, cc)
		t.Clauses = append(t.Clauses, c)
	}
}

func trunc(s string, n int) string {
	if len(s) > n {
		return s[:n] + "..."
	}
	return s
}

// NewSchemaNotation: `switch sn { case "a", "b": return X, nil ... default: return "", errors.New(...) }`
func (x *paramExt) schemaNotations(fd *ast.FuncDecl) []string {
	ft := fd.Type
	if fd.Recv != nil || len(ft.Params.List) != 1 || len(ft.Params.List[0].Names) != 1 || !isIdent(ft.Params.List[0].Type, "string") ||
		ft.Results == nil || len(ft.Results.List) != 2 || !isIdent(ft.Results.List[1].Type, "error") {
		x.prob(fd, "unexpected signature of NewSchemaNotation")
		return nil
	}
	arg := ft.Params.List[0].Names[0].Name
	if len(fd.Body.List) != 1 {
		x.prob(fd, "NewSchemaNotation is not a single switch")
		return nil
	}
	sw, ok := fd.Body.List[0].(*ast.SwitchStmt)
	if !ok || sw.Init != nil || !isIdent(sw.Tag, arg) {
		x.prob(fd.Body.List[0], "NewSchemaNotation is not a switch on its argument")
		return nil
	}
	var acc []string
	hasDefault := false
	for _, st := range sw.Body.List {
		cc := st.(*ast.CaseClause)
		if len(cc.Body) != 1 {
			x.prob(cc, "NewSchemaNotation: a case is not a single return")
			return nil
		}
		rs, ok := cc.Body[0].(*ast.ReturnStmt)
		if !ok || len(rs.Results) != 2 {
			x.prob(cc, "NewSchemaNotation: a case is not a single return of two values")
			return nil
		}
		succeeds := isIdent(rs.Results[1], "nil")
		if !succeeds {
			// the error must be a freshly made one (never nil)
			ce, ok := rs.Results[1].(*ast.CallExpr)
			if !ok || (selChain(ce.Fun) != "errors.New" && selChain(ce.Fun) != "fmt.Errorf") {
				x.prob(rs, "NewSchemaNotation: unsupported error value %s", nodeStr(x.fset, rs.Results[1]))
				return nil
			}
		}
		if cc.List == nil {
			hasDefault = true
			if succeeds {
				x.prob(cc, "NewSchemaNotation: the default clause succeeds")
				return nil
			}
			continue
		}
		for _, e := range cc.List {
			s, ok := stringLit(e)
			if !ok {
				x.prob(e, "NewSchemaNotation: case is not a string literal")
				return nil
			}
			if succeeds {
				acc = append(acc, s)
			}
		}
	}
	if !hasDefault {
		x.prob(sw, "NewSchemaNotation: no default clause")
		return nil
	}
	return acc
}

func findFunc(files []*ast.File, name string, method bool) *ast.FuncDecl {
	var found *ast.FuncDecl
	for _, f := range files {
		for _, d := range f.Decls {
			if fd, ok := d.(*ast.FuncDecl); ok && fd.Name.Name == name && (fd.Recv != nil) == method && fd.Body != nil {
				if found != nil {
					paramNote("%s defined twice", name)
				}
				found = fd
			}
		}
	}
	if found == nil {
		paramNote("function %s not found", name)
	}
	return found
}

// the normalised text of IsArrayOfTypes the model (Param.isArrayOfTypes) was written against
const isArrayOfTypesText = "func IsArrayOfTypes(b bytes.Bytes) bool { l := len(b) if l >= 4 && b[0] == '[' && b[l-1] == ']' { c := b[1 : l-1] if c.IsUserTypeName() { return true } } return false }"

const isSchemaNotationText = "func isSchemaNotation(s string) bool { _, e := notation.NewSchemaNotation(s) return e == nil }"

func extractParamTable(repo string, kinds []string) *paramTable {
	t := &paramTable{}
	x := &paramExt{fset: token.NewFileSet(), kinds: map[string]bool{}}
	for _, k := range kinds {
		x.kinds[k] = true
	}
	dfiles := parseDir(x.fset, filepath.Join(repo, "directive"), func(n string) bool { return n == "parameter.go" })
	if len(dfiles) == 0 {
		paramNote("directive/parameter.go not found")
		return t
	}
	if fd := findFunc(dfiles, "AppendParameter", true); fd != nil {
		t.Found = true
		x.appendParameter(fd, t)
	}
	if fd := findFunc(dfiles, "unescapeParameter", false); fd != nil {
		t.UnescapeSource = nodeStr(x.fset, fd)
		t.UnescapeFingerprint = fingerprint(t.UnescapeSource)
	}
	if fd := findFunc(dfiles, "IsArrayOfTypes", false); fd != nil {
		t.IsArrayOfTypesShape = nodeStr(x.fset, fd) == isArrayOfTypesText
	}
	if fd := findFunc(dfiles, "isSchemaNotation", false); fd != nil {
		t.IsSchemaNotationShape = nodeStr(x.fset, fd) == isSchemaNotationText
	}
	// the import path behind the package name `notation` in parameter.go
	notationImported := false
	for _, f := range dfiles {
		for _, im := range f.Imports {
			p, _ := strconv.Unquote(im.Path.Value)
			if strings.HasSuffix(p, "/jsight-api-go-library/notation") && (im.Name == nil || im.Name.Name == "notation") {
				notationImported = true
			}
		}
	}
	if !notationImported {
		paramNote("directive/parameter.go does not import the package notation of this repository")
		t.IsSchemaNotationShape = false
	}
	nfiles := parseDir(x.fset, filepath.Join(repo, "notation"), nil)
	if fd := findFunc(nfiles, "NewSchemaNotation", false); fd != nil {
		t.SchemaNotations = x.schemaNotations(fd)
	}
	return t
}

func renderParamTable(t *paramTable) string {
	var b strings.Builder
	b.WriteString("-- GENERATED by tools/extract from /repo/directive/parameter.go and /repo/notation/*.go on every check. Do not edit.\n")
	b.WriteString("import JSight.Gen.DirTables\nnamespace JSight.Gen\n\n")
	b.WriteString("/-- the conditions `AppendParameter` tests: `isSchemaNotation(s)`, `IsArrayOfTypes(b)`, `b.IsUserTypeName()`,\n    `switch s { case \"a\", \"b\": }`; `always`: an unconditional statement or a `default:` clause -/\n")
	b.WriteString("inductive PGuard where\n  | always | isSchemaNotation | isArrayOfTypes | isUserTypeName | strIn (ss : List String)\n  deriving Repr, DecidableEq\n\n")
	b.WriteString("/-- `return d.SetNamedParameter(name, s)` / `d.AppendUnnamedParameter(s); return nil` -/\n")
	b.WriteString("inductive PAct where\n  | setNamed (name : String) | appendUnnamed\n  deriving Repr, DecidableEq\n\n")
	avail := t.Found && len(paramNotes) == 0 && t.UnescapesFirst && t.FallsToIncorrect && t.IsSchemaNotationShape && t.IsArrayOfTypesShape
	b.WriteString("/-- the translator could render `AppendParameter` and its helpers (every construct inside the documented subset, the helpers\n    of the expected shape). When `false` the table below is EMPTY, the theorems that read it hold vacuously and the model\n    of `AppendParameter` is tied by its correspondence alone -/\n")
	b.WriteString("def paramTableAvailable : Bool := " + strconv.FormatBool(avail) + "\n\n")
	if !avail {
		t.Clauses = nil
	}
	b.WriteString("/-- one `case` clause of the switch on `d.Type()` in `AppendParameter`: the kinds, and the ordered (guard, action)\n    alternatives; when no guard holds the function falls through to the final \"incorrect parameter\" error -/\n")
	b.WriteString("def paramTable : List (List Kind × List (PGuard × PAct)) := [\n")
	for i, c := range t.Clauses {
		b.WriteString("  ([" + dotAll(c.Kinds) + "],\n    [")
		for j, a := range c.Alts {
			if j > 0 {
				b.WriteString(",\n     ")
			}
			g := "." + a.Guard
			if a.Guard == "strIn" {
				g = ".strIn [" + quoteAll(a.Strs) + "]"
			}
			act := "." + a.Act
			if a.Act == "setNamed" {
				act = ".setNamed " + strconv.Quote(a.Name)
			}
			b.WriteString("(" + g + ", " + act + ")")
		}
		b.WriteString("])")
		if i+1 < len(t.Clauses) {
			b.WriteString(",")
		}
		b.WriteString("\n")
	}
	b.WriteString("]\n\n")
	b.WriteString("/-- the function unescapes its argument first (`b = unescapeParameter(b)`) and takes `s := b.String()` -/\n")
	b.WriteString("def paramUnescapesFirst : Bool := " + strconv.FormatBool(t.UnescapesFirst) + "\n\n")
	b.WriteString("/-- the final statement is `return fmt.Errorf(\"%s %q\", jerr.IncorrectParameter, s)` -/\n")
	b.WriteString("def paramFallsToIncorrect : Bool := " + strconv.FormatBool(t.FallsToIncorrect) + "\n\n")
	b.WriteString("/-- `isSchemaNotation(s)` is `_, e := notation.NewSchemaNotation(s); return e == nil` -/\n")
	b.WriteString("def isSchemaNotationIsNewSchemaNotationOk : Bool := " + strconv.FormatBool(t.IsSchemaNotationShape) + "\n\n")
	b.WriteString("/-- the strings for which `notation.NewSchemaNotation` returns a nil error (the `case` lists of its switch, in\n    source order; every other string gets the \"unknown schema notation\" error of the default clause) -/\n")
	b.WriteString("def schemaNotations : List String := [" + quoteAll(t.SchemaNotations) + "]\n\n")
	b.WriteString("/-- `IsArrayOfTypes(b)` has the shape `l := len(b); l >= 4 && b[0] == '[' && b[l-1] == ']' && b[1:l-1].IsUserTypeName()` -/\n")
	b.WriteString("def isArrayOfTypesShape : Bool := " + strconv.FormatBool(t.IsArrayOfTypesShape) + "\n\n")
	b.WriteString("/-- fingerprint of the normalised source text of `unescapeParameter` (modelled by hand in Model/Unescape.lean) -/\n")
	b.WriteString("def unescapeParameterFingerprint : String := " + strconv.Quote(t.UnescapeFingerprint) + "\n\n")
	b.WriteString("end JSight.Gen\n")
	return b.String()
}
