package main

import (
	"crypto/sha256"
	"encoding/hex"
	"fmt"
	"go/ast"
	"go/parser"
	"go/token"
	"os"
	"path/filepath"
	"sort"
	"strings"
)

// ---- packages of /repo (non-test, non-verif files)

type pkgFiles struct {
	dir   string
	name  string
	fset  *token.FileSet
	files []*ast.File
}

func repoPackages(repo string) []*pkgFiles {
	var out []*pkgFiles
	_ = filepath.Walk(repo, func(p string, info os.FileInfo, err error) error {
		if err != nil || !info.IsDir() {
			return nil
		}
		base := filepath.Base(p)
		if strings.HasPrefix(base, ".") || base == "testdata" || base == "test" || base == "docs" || base == "img" || base == "mocks" {
			if p != repo {
				return filepath.SkipDir
			}
		}
		fset := token.NewFileSet()
		var files []*ast.File
		ents, _ := os.ReadDir(p)
		for _, e := range ents {
			n := e.Name()
			if e.IsDir() || !strings.HasSuffix(n, ".go") || strings.HasSuffix(n, "_test.go") || strings.Contains(n, "verif") {
				continue
			}
			f, err := parser.ParseFile(fset, filepath.Join(p, n), nil, parser.ParseComments)
			if err != nil {
				problem("parse %s: %v", n, err)
				continue
			}
			files = append(files, f)
		}
		if len(files) > 0 {
			rel, _ := filepath.Rel(repo, p)
			out = append(out, &pkgFiles{dir: rel, name: files[0].Name.Name, fset: fset, files: files})
		}
		return nil
	})
	sort.Slice(out, func(i, j int) bool { return out[i].dir < out[j].dir })
	return out
}

func fingerprint(s string) string {
	h := sha256.Sum256([]byte(s))
	return hex.EncodeToString(h[:6])
}

// ---- map ranges

type mapRange struct {
	File, Func string
	Operand    string
	Body       string // fingerprint of the normalised loop body
	Sorted     bool   // the loop only collects keys that are sorted afterwards (recognised shape)
}

func isMapType(e ast.Expr) bool {
	_, ok := e.(*ast.MapType)
	return ok
}

func extractMapRanges(pkgs []*pkgFiles) []mapRange {
	var out []mapRange
	for _, p := range pkgs {
		if strings.HasPrefix(p.dir, "internal") {
			continue
		}
		// struct fields and package-level vars with map types
		mapFields := map[string]bool{}               // field name -> map-typed in every struct of the package that has it
		structFields := map[string]map[string]bool{} // struct -> field -> is map
		mapVars := map[string]bool{}
		namedMapTypes := map[string]bool{}
		for _, f := range p.files {
			ast.Inspect(f, func(n ast.Node) bool {
				switch t := n.(type) {
				case *ast.TypeSpec:
					if isMapType(t.Type) {
						namedMapTypes[t.Name.Name] = true
					}
					if st, ok := t.Type.(*ast.StructType); ok {
						structFields[t.Name.Name] = map[string]bool{}
						for _, fl := range st.Fields.List {
							for _, n := range fl.Names {
								isM := isMapType(fl.Type)
								structFields[t.Name.Name][n.Name] = isM
								if prev, seen := mapFields[n.Name]; seen {
									mapFields[n.Name] = prev && isM
								} else {
									mapFields[n.Name] = isM
								}
							}
						}
					}
				}
				return true
			})
			for _, d := range f.Decls {
				if gd, ok := d.(*ast.GenDecl); ok && gd.Tok == token.VAR {
					for _, sp := range gd.Specs {
						vs := sp.(*ast.ValueSpec)
						isMap := vs.Type != nil && isMapType(vs.Type)
						for i, n := range vs.Names {
							if isMap {
								mapVars[n.Name] = true
							} else if i < len(vs.Values) {
								if cl, ok := vs.Values[i].(*ast.CompositeLit); ok && cl.Type != nil && isMapType(cl.Type) {
									mapVars[n.Name] = true
								}
							}
						}
					}
				}
			}
		}
		for _, f := range p.files {
			fname := filepath.Join(p.dir, filepath.Base(p.fset.Position(f.Pos()).Filename))
			for _, d := range f.Decls {
				fd, ok := d.(*ast.FuncDecl)
				if !ok || fd.Body == nil {
					continue
				}
				// local names: params and := make(map…)/map literal (value = is it map-typed)
				local := map[string]bool{}
				recvName, recvType := "", ""
				if fd.Recv != nil && len(fd.Recv.List) == 1 && len(fd.Recv.List[0].Names) == 1 {
					recvName = fd.Recv.List[0].Names[0].Name
					recvType = strings.TrimPrefix(typeStr(fd.Recv.List[0].Type), "*")
				}
				markType := func(names []*ast.Ident, t ast.Expr) {
					isMap := isMapType(t)
					if id, ok := t.(*ast.Ident); ok && namedMapTypes[id.Name] {
						isMap = true
					}
					for _, n := range names {
						local[n.Name] = isMap
					}
				}
				if fd.Type.Params != nil {
					for _, fl := range fd.Type.Params.List {
						markType(fl.Names, fl.Type)
					}
				}
				ast.Inspect(fd.Body, func(n ast.Node) bool {
					switch t := n.(type) {
					case *ast.AssignStmt:
						if t.Tok == token.DEFINE && len(t.Lhs) == len(t.Rhs) {
							for i, r := range t.Rhs {
								isMap := false
								if call, ok := r.(*ast.CallExpr); ok && isIdent(call.Fun, "make") && len(call.Args) > 0 && isMapType(call.Args[0]) {
									isMap = true
								}
								if cl, ok := r.(*ast.CompositeLit); ok && cl.Type != nil && isMapType(cl.Type) {
									isMap = true
								}
								if id, ok := t.Lhs[i].(*ast.Ident); ok && isMap {
									local[id.Name] = true
								}
							}
						}
					case *ast.DeclStmt:
						if gd, ok := t.Decl.(*ast.GenDecl); ok {
							for _, sp := range gd.Specs {
								if vs, ok := sp.(*ast.ValueSpec); ok && vs.Type != nil {
									markType(vs.Names, vs.Type)
								}
							}
						}
					case *ast.FuncLit:
						if t.Type.Params != nil {
							for _, fl := range t.Type.Params.List {
								markType(fl.Names, fl.Type)
							}
						}
					}
					return true
				})
				ast.Inspect(fd.Body, func(n ast.Node) bool {
					rs, ok := n.(*ast.RangeStmt)
					if !ok {
						return true
					}
					isMap := false
					switch x := rs.X.(type) {
					case *ast.Ident:
						if v, isLocal := local[x.Name]; isLocal {
							isMap = v
						} else {
							isMap = mapVars[x.Name]
						}
					case *ast.SelectorExpr:
						if id, ok := x.X.(*ast.Ident); ok && id.Name == recvName && structFields[recvType] != nil {
							isMap = structFields[recvType][x.Sel.Name]
						} else {
							isMap = mapFields[x.Sel.Name]
						}
					}
					if isMap {
						out = append(out, mapRange{File: fname, Func: fd.Name.Name, Operand: nodeStr(p.fset, rs.X), Body: fingerprint(nodeStr(p.fset, rs.Body))})
					}
					return true
				})
			}
		}
	}
	return out
}

// ---- package-level variables and writes to them

type globalVar struct {
	Pkg, Name, Type string
	Kind            string // "const-like" (never written), "once" (written in init / sync.Once), "mutex", "written"
	Writers         []string
}

func extractGlobals(pkgs []*pkgFiles) []globalVar {
	var out []globalVar
	for _, p := range pkgs {
		if strings.HasPrefix(p.dir, "internal") {
			continue
		}
		vars := map[string]*globalVar{}
		var order []string
		for _, f := range p.files {
			for _, d := range f.Decls {
				gd, ok := d.(*ast.GenDecl)
				if !ok || gd.Tok != token.VAR {
					continue
				}
				for _, sp := range gd.Specs {
					vs := sp.(*ast.ValueSpec)
					for _, n := range vs.Names {
						if n.Name == "_" {
							continue
						}
						t := ""
						if vs.Type != nil {
							t = nodeStr(p.fset, vs.Type)
						}
						g := &globalVar{Pkg: p.dir, Name: n.Name, Type: t, Kind: "const-like"}
						if strings.Contains(t, "sync.Mutex") || strings.Contains(t, "sync.RWMutex") || strings.Contains(t, "sync.Once") {
							g.Kind = "mutex"
						}
						vars[n.Name] = g
						order = append(order, n.Name)
					}
				}
			}
		}
		// writes: assignment / inc-dec / delete / append-store whose root identifier is an unresolved
		// (i.e. not local) identifier naming a package-level variable
		for _, f := range p.files {
			for _, d := range f.Decls {
				fd, ok := d.(*ast.FuncDecl)
				if !ok || fd.Body == nil {
					continue
				}
				var walk func(n ast.Node, inOnce bool)
				record := func(e ast.Expr, inOnce bool) {
					root := e
					for {
						switch t := root.(type) {
						case *ast.IndexExpr:
							root = t.X
							continue
						case *ast.SelectorExpr:
							root = t.X
							continue
						case *ast.StarExpr:
							root = t.X
							continue
						case *ast.ParenExpr:
							root = t.X
							continue
						}
						break
					}
					id, ok := root.(*ast.Ident)
					if !ok || id.Obj != nil && id.Obj.Pos() > fd.Pos() && id.Obj.Pos() < fd.End() {
						return // a local
					}
					g, ok := vars[id.Name]
					if !ok {
						return
					}
					where := fd.Name.Name
					if fd.Name.Name == "init" || inOnce {
						where += " (init/Once)"
						if g.Kind == "const-like" {
							g.Kind = "once"
						}
					} else if g.Kind != "mutex" {
						g.Kind = "written"
					}
					g.Writers = append(g.Writers, where)
				}
				walk = func(n ast.Node, inOnce bool) {
					ast.Inspect(n, func(n ast.Node) bool {
						switch t := n.(type) {
						case *ast.CallExpr:
							// x.Do(func(){…}) of a sync.Once
							if sel, ok := t.Fun.(*ast.SelectorExpr); ok && sel.Sel.Name == "Do" && len(t.Args) == 1 {
								if fl, ok := t.Args[0].(*ast.FuncLit); ok {
									walk(fl.Body, true)
									return false
								}
							}
							if isIdent(t.Fun, "delete") && len(t.Args) > 0 {
								record(t.Args[0], inOnce)
							}
						case *ast.AssignStmt:
							if t.Tok != token.DEFINE {
								for _, l := range t.Lhs {
									record(l, inOnce)
								}
							}
						case *ast.IncDecStmt:
							record(t.X, inOnce)
						}
						return true
					})
				}
				walk(fd.Body, false)
			}
		}
		for _, n := range order {
			out = append(out, *vars[n])
		}
	}
	return out
}

// ---- lock discipline of the generated collections

type lockFact struct {
	File, Type, Method string
	Exported           bool
	Lock               string // "Lock", "RLock", "none"
	Deferred           bool   // the matching unlock is deferred right after
	Writes             bool   // assigns m.data / m.order (or their elements)
	HasMutex           bool   // the receiver type has a field mx
}

func extractLockFacts(pkgs []*pkgFiles) []lockFact {
	var out []lockFact
	for _, p := range pkgs {
		// types with an mx field
		withMx := map[string]bool{}
		for _, f := range p.files {
			ast.Inspect(f, func(n ast.Node) bool {
				if ts, ok := n.(*ast.TypeSpec); ok {
					if st, ok := ts.Type.(*ast.StructType); ok {
						for _, fl := range st.Fields.List {
							for _, nm := range fl.Names {
								if nm.Name == "mx" {
									withMx[ts.Name.Name] = true
								}
							}
						}
					}
				}
				return true
			})
		}
		for _, f := range p.files {
			fname := filepath.Base(p.fset.Position(f.Pos()).Filename)
			if !strings.HasSuffix(fname, "_gen.go") {
				continue
			}
			for _, d := range f.Decls {
				fd, ok := d.(*ast.FuncDecl)
				if !ok || fd.Recv == nil || fd.Body == nil || len(fd.Recv.List) != 1 {
					continue
				}
				rt := strings.TrimPrefix(typeStr(fd.Recv.List[0].Type), "*")
				recv := "m"
				if len(fd.Recv.List[0].Names) == 1 {
					recv = fd.Recv.List[0].Names[0].Name
				}
				lf := lockFact{File: filepath.Join(p.dir, fname), Type: rt, Method: fd.Name.Name, Exported: fd.Name.IsExported(), Lock: "none", HasMutex: withMx[rt]}
				if len(fd.Body.List) >= 1 {
					if es, ok := fd.Body.List[0].(*ast.ExprStmt); ok {
						if call, ok := es.X.(*ast.CallExpr); ok {
							switch selChain(call.Fun) {
							case recv + ".mx.Lock":
								lf.Lock = "Lock"
							case recv + ".mx.RLock":
								lf.Lock = "RLock"
							}
						}
					}
				}
				if lf.Lock != "none" && len(fd.Body.List) >= 2 {
					if ds, ok := fd.Body.List[1].(*ast.DeferStmt); ok {
						want := recv + ".mx.Unlock"
						if lf.Lock == "RLock" {
							want = recv + ".mx.RUnlock"
						}
						lf.Deferred = selChain(ds.Call.Fun) == want
					}
				}
				ast.Inspect(fd.Body, func(n ast.Node) bool {
					if as, ok := n.(*ast.AssignStmt); ok {
						for _, l := range as.Lhs {
							s := nodeStr(p.fset, l)
							if strings.HasPrefix(s, recv+".data") || strings.HasPrefix(s, recv+".order") {
								lf.Writes = true
							}
						}
					}
					if call, ok := n.(*ast.CallExpr); ok && isIdent(call.Fun, "delete") && len(call.Args) > 0 {
						if strings.HasPrefix(nodeStr(p.fset, call.Args[0]), recv+".data") {
							lf.Writes = true
						}
					}
					return true
				})
				out = append(out, lf)
			}
		}
	}
	return out
}

// ---- go statements, time / math/rand imports (sources of nondeterminism)

func extractNondetImports(pkgs []*pkgFiles) (imports []string, goStmts []string) {
	for _, p := range pkgs {
		if strings.HasPrefix(p.dir, "internal") {
			continue
		}
		for _, f := range p.files {
			fname := filepath.Join(p.dir, filepath.Base(p.fset.Position(f.Pos()).Filename))
			for _, im := range f.Imports {
				path := strings.Trim(im.Path.Value, `"`)
				if path == "time" || path == "math/rand" || path == "crypto/rand" || path == "os/signal" {
					imports = append(imports, fname+":"+path)
				}
			}
			ast.Inspect(f, func(n ast.Node) bool {
				if g, ok := n.(*ast.GoStmt); ok {
					goStmts = append(goStmts, fmt.Sprintf("%s:%d", fname, p.fset.Position(g.Pos()).Line))
				}
				return true
			})
		}
	}
	return
}
