package main

import (
	"fmt"
	"go/ast"
	"go/parser"
	"go/token"
	"os"
	"path/filepath"
	"sort"
	"strconv"
	"strings"
)

// ---- decision-tree code of one scanner state function

type Code interface{}

type Leaf struct {
	Ops  []string
	Cont string
}

type IfB struct {
	Bytes []int
	T, E  Code
}

type IfC struct {
	Cond string
	T, E Code
}

type scanExt struct {
	fset        *token.FileSet
	consts      map[string]int  // named byte constants
	states      map[string]bool // state functions (s *Scanner, c byte)
	errWrap     map[string]bool // stateXxxError(s, expected string) wrappers
	order       []string
	bodies      map[string]*ast.FuncDecl
	cur         string
	events      map[string]bool
	evOrder     []string
	helpers     map[string]*ast.FuncDecl // step helpers (s *Scanner, c byte) that are not states: inlined at tail calls
	inlineDepth int
	preds       map[string]*ast.FuncDecl // pure predicates over one byte: func name(c byte) bool { return <expr> }
	env         map[string]ast.Expr      // parameters of the helper being inlined -> the argument expressions
}

var knownConds = map[string]string{
	"isDirective": "isDirective",
	"isDirectiveParameterHasTypeOrAnyOrEmpty": "paramsTypeOrAnyOrEmpty",
	"isDirectiveParameterHasAnyOrEmpty":       "paramsNoAnyOrEmpty",
	"isDirectiveParameterHasRegexNotation":    "paramsRegex",
}

func (x *scanExt) prob(n ast.Node, format string, a ...any) {
	pos := x.fset.Position(n.Pos())
	problem("scanner %s (%s:%d): %s", x.cur, filepath.Base(pos.Filename), pos.Line, fmt.Sprintf(format, a...))
}

func parseDir(fset *token.FileSet, dir string, filter func(string) bool) []*ast.File {
	ents, err := os.ReadDir(dir)
	if err != nil {
		problem("cannot read %s: %v", dir, err)
		return nil
	}
	var files []*ast.File
	for _, e := range ents {
		n := e.Name()
		if e.IsDir() || !strings.HasSuffix(n, ".go") || strings.HasSuffix(n, "_test.go") || strings.HasSuffix(n, "verif.go") {
			continue
		}
		if filter != nil && !filter(n) {
			continue
		}
		f, err := parser.ParseFile(fset, filepath.Join(dir, n), nil, parser.SkipObjectResolution)
		if err != nil {
			problem("parse %s: %v", n, err)
			continue
		}
		files = append(files, f)
	}
	return files
}

func extractScanner(repo string) (*scanExt, map[string]Code) {
	x := &scanExt{fset: token.NewFileSet(), consts: map[string]int{}, states: map[string]bool{}, errWrap: map[string]bool{},
		bodies: map[string]*ast.FuncDecl{}, events: map[string]bool{}, helpers: map[string]*ast.FuncDecl{}, preds: map[string]*ast.FuncDecl{}, env: map[string]ast.Expr{}}
	files := parseDir(x.fset, filepath.Join(repo, "scanner"), nil)
	// constants (constants.go) and lexeme event names
	for _, f := range files {
		for _, d := range f.Decls {
			gd, ok := d.(*ast.GenDecl)
			if !ok || gd.Tok != token.CONST {
				continue
			}
			isEvents := false
			for _, sp := range gd.Specs {
				vs := sp.(*ast.ValueSpec)
				if id, ok := vs.Type.(*ast.Ident); ok && id.Name == "LexemeEventType" {
					isEvents = true
				}
				if isEvents {
					for _, n := range vs.Names {
						x.events[n.Name] = true
						x.evOrder = append(x.evOrder, n.Name)
					}
					continue
				}
				for i, n := range vs.Names {
					if i < len(vs.Values) {
						if v, ok := byteLit(vs.Values[i]); ok {
							x.consts[n.Name] = v
						}
					}
				}
			}
		}
	}
	// functions
	for _, f := range files {
		for _, d := range f.Decls {
			fd, ok := d.(*ast.FuncDecl)
			if ok && fd.Body != nil && !strings.HasPrefix(fd.Name.Name, "state") {
				x.collectHelper(fd)
			}
			if !ok || fd.Recv != nil || !strings.HasPrefix(fd.Name.Name, "state") || fd.Body == nil {
				continue
			}
			pp := fd.Type.Params.List
			if len(pp) == 2 && typeStr(pp[1].Type) == "byte" {
				x.states[fd.Name.Name] = true
				x.order = append(x.order, fd.Name.Name)
				x.bodies[fd.Name.Name] = fd
			} else if len(pp) == 2 && typeStr(pp[1].Type) == "string" {
				x.errWrap[fd.Name.Name] = true
			} else {
				x.cur = fd.Name.Name
				x.prob(fd, "state-like function with an unsupported signature")
			}
		}
	}
	sort.Strings(x.order)
	codes := map[string]Code{}
	for _, name := range x.order {
		x.cur = name
		fd := x.bodies[name]
		if name == "stateJSchema" {
			codes[name] = &Leaf{Cont: "jschema"}
			continue
		}
		cname := fd.Type.Params.List[1].Names[0].Name
		codes[name] = normalize(x.comp(fd.Body.List, nil, cname))
	}
	return x, codes
}

func typeStr(e ast.Expr) string {
	switch t := e.(type) {
	case *ast.Ident:
		return t.Name
	case *ast.StarExpr:
		return "*" + typeStr(t.X)
	case *ast.SelectorExpr:
		return typeStr(t.X) + "." + t.Sel.Name
	}
	return "?"
}

func byteLit(e ast.Expr) (int, bool) {
	bl, ok := e.(*ast.BasicLit)
	if !ok {
		return 0, false
	}
	switch bl.Kind {
	case token.CHAR:
		s, err := strconv.Unquote(bl.Value)
		if err != nil || len(s) != 1 {
			r := []rune(s)
			if err == nil && len(r) == 1 && r[0] < 256 {
				return int(r[0]), true
			}
			return 0, false
		}
		return int(s[0]), true
	case token.INT:
		v, err := strconv.Atoi(bl.Value)
		if err != nil || v < 0 || v > 255 {
			return 0, false
		}
		return v, true
	}
	return 0, false
}

func isIdent(e ast.Expr, name string) bool {
	id, ok := e.(*ast.Ident)
	return ok && id.Name == name
}

// isSel reports whether e is the selector chain s.a.b...
func selChain(e ast.Expr) string {
	switch t := e.(type) {
	case *ast.Ident:
		return t.Name
	case *ast.SelectorExpr:
		return selChain(t.X) + "." + t.Sel.Name
	}
	return "?"
}

// byteSet of one case expression of `switch c`
func (x *scanExt) caseBytes(e ast.Expr, c string) ([]int, bool) {
	if v, ok := byteLit(e); ok {
		return []int{v}, true
	}
	if id, ok := e.(*ast.Ident); ok {
		if v, ok := x.consts[id.Name]; ok {
			return []int{v}, true
		}
	}
	if call, ok := e.(*ast.CallExpr); ok && len(call.Args) == 1 && isIdent(call.Args[0], c) {
		switch selChain(call.Fun) {
		case "caseWhitespace":
			return []int{32, 9}, true
		case "caseNewLine":
			return []int{10, 13}, true
		}
	}
	return nil, false
}

// cond parses a boolean condition into a function that builds the branch node.
func (x *scanExt) cond(e ast.Expr, c string) (func(t, f Code) Code, bool, bool) {
	// returns (builder, readsCondition, ok)
	switch t := e.(type) {
	case *ast.Ident:
		if v, ok := x.env[t.Name]; ok {
			saved := x.env
			x.env = map[string]ast.Expr{} // the argument expression belongs to the caller's scope
			b, rc, ok := x.cond(v, c)
			x.env = saved
			return b, rc, ok
		}
	case *ast.ParenExpr:
		return x.cond(t.X, c)
	case *ast.UnaryExpr:
		if t.Op == token.NOT {
			b, rc, ok := x.cond(t.X, c)
			if !ok {
				return nil, false, false
			}
			return func(tt, ff Code) Code { return b(ff, tt) }, rc, true
		}
	case *ast.BinaryExpr:
		switch t.Op {
		case token.EQL, token.NEQ:
			if isIdent(t.X, c) {
				if bs, ok := x.caseBytes(t.Y, c); ok {
					if t.Op == token.EQL {
						return func(tt, ff Code) Code { return &IfB{bs, tt, ff} }, false, true
					}
					return func(tt, ff Code) Code { return &IfB{bs, ff, tt} }, false, true
				}
			}
			// s.data[s.curIndex-1] == '*'
			if ix, ok := t.X.(*ast.IndexExpr); ok && selChain(ix.X) == "s.data" && t.Op == token.EQL {
				if be, ok := ix.Index.(*ast.BinaryExpr); ok && be.Op == token.SUB && selChain(be.X) == "s.curIndex" {
					if k, ok := byteLit(be.Y); ok && k == 1 {
						if v, ok := byteLit(t.Y); ok && v == '*' {
							return func(tt, ff Code) Code { return &IfC{"prevIsStar", tt, ff} }, true, true
						}
					}
				}
			}
		case token.LAND:
			a, ra, ok1 := x.cond(t.X, c)
			b, rb, ok2 := x.cond(t.Y, c)
			if ok1 && ok2 {
				return func(tt, ff Code) Code { return a(b(tt, ff), ff) }, ra || rb, true
			}
		case token.LOR:
			a, ra, ok1 := x.cond(t.X, c)
			b, rb, ok2 := x.cond(t.Y, c)
			if ok1 && ok2 {
				return func(tt, ff Code) Code { return a(tt, b(tt, ff)) }, ra || rb, true
			}
		}
	case *ast.CallExpr:
		name := selChain(t.Fun)
		if name == "IsNewLine" && len(t.Args) == 1 && isIdent(t.Args[0], c) {
			return func(tt, ff Code) Code { return &IfB{[]int{10, 13}, tt, ff} }, false, true
		}
		if name == "isWhitespace" && len(t.Args) == 1 && isIdent(t.Args[0], c) {
			return func(tt, ff Code) Code { return &IfB{[]int{32, 9}, tt, ff} }, false, true
		}
		if p, ok := x.preds[name]; ok && len(t.Args) == 1 && isIdent(t.Args[0], c) && x.inlineDepth < 6 {
			// a pure predicate over the byte: its defining expression
			x.inlineDepth++
			b, rc, ok := x.cond(p.Body.List[0].(*ast.ReturnStmt).Results[0], p.Type.Params.List[0].Names[0].Name)
			x.inlineDepth--
			if ok {
				return b, rc, true
			}
		}
		if strings.HasPrefix(name, "s.") && len(t.Args) == 0 {
			if cn, ok := knownConds[strings.TrimPrefix(name, "s.")]; ok {
				return func(tt, ff Code) Code { return &IfC{cn, tt, ff} }, true, true
			}
		}
	}
	return nil, false, false
}

func hasRewind(pre []string) bool {
	for _, o := range pre {
		if strings.HasPrefix(o, ".rewind") {
			return true
		}
	}
	return false
}

func cat(a []ast.Stmt, b []ast.Stmt) []ast.Stmt {
	r := make([]ast.Stmt, 0, len(a)+len(b))
	r = append(r, a...)
	return append(r, b...)
}

func cp(pre []string, more ...string) []string {
	r := make([]string, 0, len(pre)+len(more))
	r = append(r, pre...)
	return append(r, more...)
}

// comp compiles a statement list (executed after the effects `pre`) into a decision tree.
func (x *scanExt) comp(stmts []ast.Stmt, pre []string, c string) Code {
	if len(stmts) == 0 {
		x.prob(x.bodies[x.cur], "control reaches the end of the function without a return")
		return &Leaf{Ops: pre, Cont: "err"}
	}
	st, rest := stmts[0], stmts[1:]
	switch t := st.(type) {
	case *ast.ReturnStmt:
		if len(t.Results) != 1 {
			x.prob(t, "unsupported return")
			return &Leaf{Ops: pre, Cont: "err"}
		}
		return x.ret(t.Results[0], pre, c)
	case *ast.ExprStmt:
		if op, ok := x.effectCall(t.X); ok {
			if strings.HasPrefix(op, ".found") && hasRewind(pre) {
				x.prob(t, "found() after curIndex was modified in the same step")
			}
			return x.comp(rest, cp(pre, op), c)
		}
		x.prob(t, "unsupported expression statement")
	case *ast.AssignStmt:
		if op, ok := x.effectAssign(t); ok {
			return x.comp(rest, cp(pre, op), c)
		}
		// a local name for a position relative to the current index:  end := s.curIndex - 1
		if t.Tok == token.DEFINE && len(t.Lhs) == 1 && len(t.Rhs) == 1 && !hasRewind(pre) {
			if id, ok := t.Lhs[0].(*ast.Ident); ok && x.isIndexExpr(t.Rhs[0]) {
				saved := x.env
				env := map[string]ast.Expr{}
				for k, v := range saved {
					env[k] = v
				}
				env[id.Name] = t.Rhs[0]
				x.env = env
				code := x.comp(rest, pre, c)
				x.env = saved
				return code
			}
		}
		x.prob(t, "unsupported assignment")
	case *ast.IncDecStmt:
		if selChain(t.X) == "s.curIndex" && t.Tok == token.DEC {
			return x.comp(rest, cp(pre, ".rewind 1"), c)
		}
		x.prob(t, "unsupported inc/dec")
	case *ast.BlockStmt:
		return x.comp(cat(t.List, rest), pre, c)
	case *ast.IfStmt:
		if t.Init != nil {
			x.prob(t, "if with init statement")
			break
		}
		b, reads, ok := x.cond(t.Cond, c)
		if !ok {
			x.prob(t, "unsupported condition")
			break
		}
		if reads && hasRewind(pre) {
			x.prob(t, "condition evaluated after curIndex was modified")
		}
		thenC := x.comp(cat(t.Body.List, rest), pre, c)
		var elseC Code
		switch e := t.Else.(type) {
		case nil:
			elseC = x.comp(rest, pre, c)
		case *ast.BlockStmt:
			elseC = x.comp(cat(e.List, rest), pre, c)
		case *ast.IfStmt:
			elseC = x.comp(cat([]ast.Stmt{e}, rest), pre, c)
		}
		return b(thenC, elseC)
	case *ast.SwitchStmt:
		if t.Init != nil {
			x.prob(t, "switch with init statement")
			break
		}
		var def []ast.Stmt
		hasDef := false
		type clause struct {
			build func(tt, ff Code) Code
			body  []ast.Stmt
		}
		var clauses []clause
		for _, cs := range t.Body.List {
			cc := cs.(*ast.CaseClause)
			for _, s := range cc.Body {
				if br, ok := s.(*ast.BranchStmt); ok {
					x.prob(br, "branch statement (%s) in switch", br.Tok)
				}
			}
			if cc.List == nil {
				def, hasDef = cc.Body, true
				continue
			}
			if t.Tag != nil {
				if !isIdent(t.Tag, c) {
					x.prob(t, "switch on something other than the byte")
					continue
				}
				var bs []int
				for _, e := range cc.List {
					v, ok := x.caseBytes(e, c)
					if !ok {
						x.prob(e, "unsupported case expression")
						continue
					}
					bs = append(bs, v...)
				}
				bsc := bs
				clauses = append(clauses, clause{func(tt, ff Code) Code { return &IfB{bsc, tt, ff} }, cc.Body})
			} else {
				if len(cc.List) != 1 {
					x.prob(cc, "tagless switch case with several expressions")
					continue
				}
				b, reads, ok := x.cond(cc.List[0], c)
				if !ok {
					x.prob(cc, "unsupported condition")
					continue
				}
				if reads && hasRewind(pre) {
					x.prob(cc, "condition evaluated after curIndex was modified")
				}
				clauses = append(clauses, clause{b, cc.Body})
			}
		}
		_ = hasDef
		var tree Code = x.comp(cat(def, rest), pre, c)
		for i := len(clauses) - 1; i >= 0; i-- {
			tree = clauses[i].build(x.comp(cat(clauses[i].body, rest), pre, c), tree)
		}
		return tree
	default:
		x.prob(st, "unsupported statement %T", st)
	}
	return &Leaf{Ops: pre, Cont: "err"}
}

func (x *scanExt) stateRef(e ast.Expr) (string, bool) {
	if id, ok := e.(*ast.Ident); ok {
		if v, ok := x.env[id.Name]; ok {
			e = v
		}
	}
	id, ok := e.(*ast.Ident)
	if !ok || !x.states[id.Name] {
		return "", false
	}
	return id.Name, true
}

func (x *scanExt) eventRef(e ast.Expr) (string, bool) {
	id, ok := e.(*ast.Ident)
	if !ok || !x.events[id.Name] {
		return "", false
	}
	return lowerFirst(id.Name), true
}

func lowerFirst(s string) string { return strings.ToLower(s[:1]) + s[1:] }

// isIndexExpr: s.curIndex or s.curIndex - <literal>
func (x *scanExt) isIndexExpr(e ast.Expr) bool {
	if selChain(e) == "s.curIndex" {
		return true
	}
	if be, ok := e.(*ast.BinaryExpr); ok && be.Op == token.SUB && selChain(be.X) == "s.curIndex" {
		_, ok := byteLit(be.Y)
		return ok
	}
	return false
}

func (x *scanExt) effectCall(e ast.Expr) (string, bool) {
	call, ok := e.(*ast.CallExpr)
	if !ok {
		return "", false
	}
	if selChain(call.Fun) == "s.foundAt" && len(call.Args) == 2 {
		if id, ok := call.Args[0].(*ast.Ident); ok {
			if v, ok := x.env[id.Name]; ok && x.isIndexExpr(v) {
				call = &ast.CallExpr{Fun: call.Fun, Args: []ast.Expr{v, call.Args[1]}}
			}
		}
	}
	switch selChain(call.Fun) {
	case "s.found":
		if len(call.Args) == 1 {
			if ev, ok := x.eventRef(call.Args[0]); ok {
				return fmt.Sprintf(".found .%s 0", ev), true
			}
		}
	case "s.foundAt":
		if len(call.Args) == 2 {
			ev, ok := x.eventRef(call.Args[1])
			if !ok {
				return "", false
			}
			if selChain(call.Args[0]) == "s.curIndex" {
				return fmt.Sprintf(".found .%s 0", ev), true
			}
			if be, ok := call.Args[0].(*ast.BinaryExpr); ok && be.Op == token.SUB && selChain(be.X) == "s.curIndex" {
				if k, ok := byteLit(be.Y); ok {
					return fmt.Sprintf(".found .%s %d", ev, k), true
				}
			}
		}
	case "s.stepStack.Push":
		if len(call.Args) == 1 {
			if st, ok := x.stateRef(call.Args[0]); ok {
				return ".push ." + st, true
			}
			if selChain(call.Args[0]) == "s.step" {
				return ".pushCur", true
			}
		}
	}
	return "", false
}

func (x *scanExt) effectAssign(t *ast.AssignStmt) (string, bool) {
	if len(t.Lhs) != 1 || len(t.Rhs) != 1 {
		return "", false
	}
	lhs := selChain(t.Lhs[0])
	switch {
	case lhs == "s.step" && t.Tok == token.ASSIGN:
		if st, ok := x.stateRef(t.Rhs[0]); ok {
			return ".setStep ." + st, true
		}
		if call, ok := t.Rhs[0].(*ast.CallExpr); ok && selChain(call.Fun) == "s.stepStack.Pop" {
			return ".popToStep", true
		}
	case lhs == "s.curIndex" && t.Tok == token.SUB_ASSIGN:
		if k, ok := byteLit(t.Rhs[0]); ok {
			return fmt.Sprintf(".rewind %d", k), true
		}
	}
	return "", false
}

// collectHelper registers step helpers (inlined where they are tail-called) and pure byte predicates.
//
//	func name(s *Scanner, …) *jerr.JApiError        func (s *Scanner) name(…) *jerr.JApiError
//
// with further parameters of type byte (at most one), bool or stepFunc;   func name(c byte) bool { return <expr> }
func (x *scanExt) collectHelper(fd *ast.FuncDecl) {
	res := fd.Type.Results
	if res == nil || len(res.List) != 1 {
		return
	}
	var params []*ast.Field
	for _, f := range fd.Type.Params.List {
		for _, n := range f.Names {
			params = append(params, &ast.Field{Names: []*ast.Ident{n}, Type: f.Type})
		}
	}
	if typeStr(res.List[0].Type) == "bool" && fd.Recv == nil && len(params) == 1 && typeStr(params[0].Type) == "byte" && len(fd.Body.List) == 1 {
		if r, ok := fd.Body.List[0].(*ast.ReturnStmt); ok && len(r.Results) == 1 {
			x.preds[fd.Name.Name] = fd
		}
		return
	}
	if typeStr(res.List[0].Type) != "*jerr.JApiError" {
		return
	}
	name := fd.Name.Name
	if fd.Recv != nil {
		if len(fd.Recv.List) != 1 || len(fd.Recv.List[0].Names) != 1 || fd.Recv.List[0].Names[0].Name != "s" || typeStr(fd.Recv.List[0].Type) != "*Scanner" {
			return
		}
		name = "s." + name
	} else {
		if len(params) == 0 || params[0].Names[0].Name != "s" || typeStr(params[0].Type) != "*Scanner" {
			return
		}
	}
	bytes := 0
	for _, p := range params {
		switch typeStr(p.Type) {
		case "byte":
			bytes++
		case "bool", "stepFunc", "*Scanner":
		default:
			return
		}
	}
	if bytes > 1 {
		return
	}
	if _, special := map[string]bool{"s.startComment": true, "s.endCommentLine": true, "s.japiErrorUnexpectedChar": true, "s.japiErrorBasic": true, "s.japiError": true, "s.scanEnumBody": true}[name]; special {
		return
	}
	x.helpers[name] = fd
}

// inlineHelper: the body of a tail-called helper in place; its parameters are bound to the argument expressions.
func (x *scanExt) inlineHelper(h *ast.FuncDecl, call *ast.CallExpr, pre []string, c string) (Code, bool) {
	var names []string
	var types []string
	for _, f := range h.Type.Params.List {
		for _, n := range f.Names {
			names = append(names, n.Name)
			types = append(types, typeStr(f.Type))
		}
	}
	if len(names) != len(call.Args) || x.inlineDepth >= 4 {
		return nil, false
	}
	saved := x.env
	env := map[string]ast.Expr{}
	for k, v := range saved {
		env[k] = v
	}
	byteName := c
	for i, a := range call.Args {
		switch types[i] {
		case "*Scanner":
			if !isIdent(a, "s") {
				return nil, false
			}
		case "byte":
			if !isIdent(a, c) {
				return nil, false
			}
			byteName = names[i]
		default:
			// an argument that is itself a parameter of the enclosing helper is resolved now
			if id, ok := a.(*ast.Ident); ok {
				if v, ok := saved[id.Name]; ok {
					a = v
				}
			}
			env[names[i]] = a
		}
	}
	x.env = env
	x.inlineDepth++
	code := x.comp(h.Body.List, pre, byteName)
	x.inlineDepth--
	x.env = saved
	return code, true
}

func (x *scanExt) ret(e ast.Expr, pre []string, c string) Code {
	if isIdent(e, "nil") {
		return &Leaf{Ops: pre, Cont: "done"}
	}
	call, ok := e.(*ast.CallExpr)
	if !ok {
		x.prob(e, "unsupported return value")
		return &Leaf{Ops: pre, Cont: "err"}
	}
	name := selChain(call.Fun)
	if id, ok := call.Fun.(*ast.Ident); ok {
		if v, ok := x.env[id.Name]; ok {
			name = selChain(v)
		}
	}
	switch {
	case x.states[name]:
		if len(call.Args) == 2 && isIdent(call.Args[0], "s") && isIdent(call.Args[1], c) {
			if name == "stateJSchema" {
				return &Leaf{Ops: pre, Cont: "jschema"}
			}
			return &Leaf{Ops: pre, Cont: "call ." + name}
		}
	case x.errWrap[name]:
		return &Leaf{Ops: pre, Cont: "err"}
	case x.helpers[name] != nil:
		// tail call of a step helper: its body, in place
		if code, ok := x.inlineHelper(x.helpers[name], call, pre, c); ok {
			return code
		}
	case name == "s.step":
		if len(call.Args) == 2 && isIdent(call.Args[0], "s") && isIdent(call.Args[1], c) {
			return &Leaf{Ops: pre, Cont: "redispatch"}
		}
	case name == "s.startComment":
		if !x.states["stateCommentStarted"] {
			x.prob(e, "startComment: stateCommentStarted does not exist")
		}
		return &Leaf{Ops: cp(pre, ".pushCur", ".setStep .stateCommentStarted"), Cont: "done"}
	case name == "s.endCommentLine":
		return &Leaf{Ops: cp(pre, ".popToStep"), Cont: "redispatch"}
	case name == "s.japiErrorUnexpectedChar", name == "s.japiErrorBasic", name == "s.japiError":
		return &Leaf{Ops: pre, Cont: "err"}
	case name == "s.scanEnumBody":
		return &Leaf{Ops: pre, Cont: "enumBody"}
	}
	x.prob(e, "unsupported return call %s", name)
	return &Leaf{Ops: pre, Cont: "err"}
}

// ---- normal form: two state functions that make the same decisions give the same tree

// spec resolves every byte test of the tree for the byte b (-1 = a byte that no test mentions).
func spec(c Code, b int) Code {
	switch t := c.(type) {
	case *IfB:
		for _, v := range t.Bytes {
			if v == b {
				return spec(t.T, b)
			}
		}
		return spec(t.E, b)
	case *IfC:
		tt, ee := spec(t.T, b), spec(t.E, b)
		if renderCode(tt, "") == renderCode(ee, "") {
			return tt
		}
		return &IfC{t.Cond, tt, ee}
	case *Leaf:
		l := &Leaf{Ops: t.Ops, Cont: t.Cont}
		// `s.step = X; return X(s, c)` and `s.step = X; return s.step(s, c)` are the same continuation
		if strings.HasPrefix(l.Cont, "call .") {
			last := ""
			for _, o := range l.Ops {
				if strings.HasPrefix(o, ".setStep ") {
					last = strings.TrimPrefix(o, ".setStep ")
				}
				if o == ".popToStep" {
					last = ""
				}
			}
			if last != "" && last == strings.TrimPrefix(l.Cont, "call ") {
				l.Cont = "redispatch"
			}
		}
		return l
	}
	return c
}

func mentioned(c Code, into map[int]bool) {
	switch t := c.(type) {
	case *IfB:
		for _, v := range t.Bytes {
			into[v] = true
		}
		mentioned(t.T, into)
		mentioned(t.E, into)
	case *IfC:
		mentioned(t.T, into)
		mentioned(t.E, into)
	}
}

// normalize: the bytes are partitioned by the decision they lead to; one test per class, classes in the order
// of their smallest byte, the class of the unmentioned bytes last (as the final else).
func normalize(c Code) Code {
	vals := map[int]bool{}
	mentioned(c, vals)
	def := spec(c, -1)
	defKey := renderCode(def, "")
	type class struct {
		bytes []int
		tree  Code
	}
	byKey := map[string]*class{}
	var keys []string
	var sorted []int
	for v := range vals {
		sorted = append(sorted, v)
	}
	sort.Ints(sorted)
	for _, v := range sorted {
		t := spec(c, v)
		k := renderCode(t, "")
		if k == defKey {
			continue
		}
		if byKey[k] == nil {
			byKey[k] = &class{tree: t}
			keys = append(keys, k)
		}
		byKey[k].bytes = append(byKey[k].bytes, v)
	}
	var out Code = def
	for i := len(keys) - 1; i >= 0; i-- {
		cl := byKey[keys[i]]
		out = &IfB{cl.bytes, cl.tree, out}
	}
	return out
}

// ---- rendering

func renderCode(c Code, ind string) string {
	switch t := c.(type) {
	case *Leaf:
		return fmt.Sprintf("(.leaf [%s] %s)", strings.Join(t.Ops, ", "), contLean(t.Cont))
	case *IfB:
		bs := make([]string, len(t.Bytes))
		for i, b := range t.Bytes {
			bs[i] = strconv.Itoa(b)
		}
		return fmt.Sprintf("(.ifB [%s]\n%s  %s\n%s  %s)", strings.Join(bs, ", "), ind, renderCode(t.T, ind+"  "), ind, renderCode(t.E, ind+"  "))
	case *IfC:
		return fmt.Sprintf("(.ifC .%s\n%s  %s\n%s  %s)", t.Cond, ind, renderCode(t.T, ind+"  "), ind, renderCode(t.E, ind+"  "))
	}
	return "?"
}

func contLean(k string) string {
	if strings.HasPrefix(k, "call ") {
		return "(.call " + strings.TrimPrefix(k, "call ") + ")"
	}
	return "." + k
}

// checks that startComment / endCommentLine have the bodies the translator inlines.
func (x *scanExt) checkHelpers(repo string) {
	want := map[string]string{
		"startComment":   "s.stepStack.Push(s.step);s.step = stateCommentStarted;return nil",
		"endCommentLine": "s.step = s.stepStack.Pop();return s.step(s, c)",
		"found":          "s.foundAt(s.curIndex, t)",
		"foundAt":        "s.finds = append(s.finds, LexemeEvent{t, i})",
	}
	fset := token.NewFileSet()
	for _, f := range parseDir(fset, filepath.Join(repo, "scanner"), nil) {
		for _, d := range f.Decls {
			fd, ok := d.(*ast.FuncDecl)
			if !ok || fd.Recv == nil || fd.Body == nil {
				continue
			}
			w, ok := want[fd.Name.Name]
			if !ok {
				continue
			}
			var parts []string
			for _, s := range fd.Body.List {
				parts = append(parts, nodeStr(fset, s))
			}
			got := strings.Join(parts, ";")
			if got != w {
				problem("scanner helper %s no longer has the body the translator inlines: %q", fd.Name.Name, got)
			}
			delete(want, fd.Name.Name)
		}
	}
	for k := range want {
		problem("scanner helper %s not found", k)
	}
}
