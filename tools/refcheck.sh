#!/bin/bash
# tools/refcheck.sh <id> [checks…]: applies the behaviour-preserving refactoring /tmp/wt-out/<id>/patch.diff to /repo, runs
# the quick checks (all 20 by default), reports every check that is not OK (a false alarm), reverts.
set -u
id="$1"; shift
checks="${*:-C01 C02 C03 C04 C05 C06 C07 C08 C09 C10 C11 C12 C13 C14 C15 C16 C17 C18 C19 C20}"
src="/tmp/wt-out/$id"
mkdir -p "/verif/seeded/refactor-$id"; cp "$src/patch.diff" "$src/meta.json" "/verif/seeded/refactor-$id/" 2>/dev/null
git -C /repo apply "$src/patch.diff" || { echo "cannot apply"; exit 2; }
res=""
for c in $checks; do
  out=$(cd /verif && timeout 1500 ./check "$c" --tier quick 2>&1 | grep -E "^(VIOLATION|OK|  what|  broken)" | head -4)
  if ! echo "$out" | grep -q "^OK"; then echo "$c: $out" | cut -c1-600; res="$res$c "; fi
done
git -C /repo checkout -- .
git -C /repo status --short | head -3
git -C /verif checkout -- evidence 2>/dev/null  # evidence files written while a change was applied are not kept
echo "alarms: ${res:-none}" | tee "/verif/seeded/refactor-$id/result.txt"
