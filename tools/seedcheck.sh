#!/bin/bash
# tools/seedcheck.sh <seed-id> <property> [check ids...]
# Confirms a seeded breaking change (from /tmp/wt-out/<seed-id>) in a fresh scratch worktree, then runs the
# given checks against /repo with the change applied (and reverts it), and files it under /verif/seeded/<seed-id>/.
set -u
id="$1"; prop="$2"; shift 2
checks="${*:-$prop}"
src="/tmp/wt-out/$id"
export GOFLAGS=-mod=mod GOPROXY=off GOSUMDB=off GOTOOLCHAIN=local
wt="/tmp/sc-$id"; if [ -z "${SKIP_CONFIRM:-}" ]; then
git -C /repo worktree remove --force "$wt" 2>/dev/null
git -C /repo worktree add -q --detach "$wt" HEAD || exit 2
demo=$(ls "$src"/*_test.go | head -1)
pkgdir=$(python3 - "$src/meta.json" "$demo" <<'PY' 2>/dev/null
import json,sys,re
src=open(sys.argv[2]).read()
m=re.search(r'^package (\w+)',src,re.M)
pk=m.group(1)
print({'test':'test','core':'core','catalog':'catalog','scanner':'scanner','directive':'directive','jerr':'jerr','kit':'kit','japi_test':'test','test_test':'test'}.get(pk,pk.replace('_test','')))
PY
)
cp "$demo" "$wt/$pkgdir/seed_demo_test.go"
echo "== demo without the change (must pass)"
( cd "$wt" && go test -vet=off -count=1 -run 'Seed|seed' "./$pkgdir/" 2>&1 | tail -3 ); a=$?
( cd "$wt" && git apply "$src/patch.diff" ) || { echo "patch does not apply"; exit 2; }
echo "== build + existing suite with the change (must pass)"
rm "$wt/$pkgdir/seed_demo_test.go"
( cd "$wt" && go build ./... && go test -vet=off -count=1 ./... 2>&1 | grep -v "^ok\|no test files" | head -5 )
cp "$demo" "$wt/$pkgdir/seed_demo_test.go"
echo "== demo with the change (must fail)"
( cd "$wt" && timeout 300 go test -vet=off -count=1 -run 'Seed|seed' "./$pkgdir/" 2>&1 | tail -4 )
git -C /repo worktree remove --force "$wt"
fi; mkdir -p "/verif/seeded/$id"
demo=$(ls "$src"/*_test.go | head -1); cp "$src/patch.diff" "$src/meta.json" "$demo" "/verif/seeded/$id/"
echo "== checks against /repo with the change applied"
git -C /repo apply "$src/patch.diff" || { echo "cannot apply to /repo"; exit 2; }
results=""
for c in $checks; do
  out=$(cd /verif && timeout 1500 ./check "$c" --tier quick 2>&1 | grep -E "^(VIOLATION|OK|KNOWN)" | head -3)
  echo "$c: $out"
  results="$results$c: $(echo "$out" | grep -E "^(VIOLATION|OK)" | head -1) | "
  cp /verif/replays/$c-quick-1.json "/verif/seeded/$id/replay-$c.json" 2>/dev/null
done
git -C /repo checkout -- .
git -C /repo status --short | head -3
git -C /verif checkout -- evidence 2>/dev/null  # evidence files written while a change was applied are not kept
echo "$results" > "/verif/seeded/$id/detection.txt"
