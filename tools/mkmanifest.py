#!/usr/bin/env python3
"""Regenerates MANIFEST.json from tools/manifest_src.json (claimed properties) and properties.jsonl."""
import json, os, subprocess
here = os.path.dirname(os.path.abspath(__file__))
root = os.path.dirname(here)
src = json.load(open(os.path.join(here, "manifest_src.json")))
ids = [json.loads(l)["id"] for l in open(os.path.join(root, "properties.jsonl")) if l.strip()]
checks, na = [], []
for pid in ids:
    c = src["claimed"].get(pid)
    if c is None:
        na.append({"property_id": pid, "reason": src["not_claimed"].get(pid, "check not built yet; see DESIGN.md section 6")})
        continue
    checks.append({
        "property_id": pid,
        "quick_cmd": f"./check {pid} --tier quick",
        "thorough_cmd": f"./check {pid} --tier thorough",
        "evidence_file": f"evidence/{pid}.json",
        "replay_cmd_template": f"./check {pid} --replay {{path}}",
        "engine": "lean-proofs+jsv",
        "level_claimed": {"category": "proof", "text": c["text"], "design_ref": c.get("design_ref", "DESIGN.md section 6 " + pid)},
        "level_note": c["note"],
        "technique": c["technique"],
    })
try:
    commits = subprocess.check_output(["git", "-C", "/repo", "log", "--format=%H", "--grep=^verif:"], text=True).split()
except Exception:
    commits = []
m = {
    "version": 1,
    "setup_cmd": "./check --setup",
    "hooks": {
        "guard": "verif",
        "enable": "go build -tags verif (the harness module replaces the library by /repo; hooks are add-only files *verif.go)",
        "baseline_off_cmd": "cd /repo && GOFLAGS=-mod=mod GOPROXY=off GOSUMDB=off go test -json -vet=off -count=1 -timeout 25m ./...",
        "source_commits": commits,
        "add_only": True,
    },
    "engines": [
        {"name": "lean-proofs", "path": "lean", "serves_properties": sorted(src["claimed"].keys()), "kind_free_text": "Lean 4 models, specifications and property theorems (lake project JSight, core-only)"},
        {"name": "extract", "path": "tools/extract", "serves_properties": sorted(src["claimed"].keys()), "kind_free_text": "Go->Lean translator / fact extractor, re-run on every check"},
        {"name": "jsv", "path": "harness", "serves_properties": sorted(src["claimed"].keys()), "kind_free_text": "Go correspondence harness (model vs implementation) and specification-driven search on the implementation"},
    ],
    "checks": checks,
    "notes": src.get("notes", ""),
    "not_applicable": na,
}
json.dump(m, open(os.path.join(root, "MANIFEST.json"), "w"), indent=1)
print("claimed", len(checks), "not claimed", len(na))
