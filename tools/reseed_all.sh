#!/bin/bash
# tools/reseed_all.sh: re-runs every seeded breaking change under seeded/ against the CURRENT machinery (quick tier of the
# property the seed was made for), writes seeded/<id>/detection-final.txt, prints a table. /repo is restored after each.
set -u
cd "$(dirname "$0")/.."
R="${REPO_DIR:-/repo}"
for d in seeded/C*/; do
  id=$(basename "$d"); prop=${id:0:3}
  patch="$(pwd)/$d/patch.diff"; [ -f "$d/patch-rebased.diff" ] && patch="$(pwd)/$d/patch-rebased.diff"
  if ! git -C "$R" apply --check "$patch" 2>/dev/null; then echo "$id: patch no longer applies (superseded)"; echo "patch no longer applies to the current tree" > "$d/detection-final.txt"; continue; fi
  git -C "$R" apply "$patch"
  out=$(timeout 1500 ./check "$prop" --tier quick 2>&1 | grep -E "^(VIOLATION|OK)" | head -1)
  git -C "$R" checkout -- .
  echo "$id: $out" | cut -c1-150
  echo "$prop: $out" > "$d/detection-final.txt"
done
git -C "$R" status --short | head -3
git -C /verif checkout -- evidence 2>/dev/null  # evidence files written while a change was applied are not kept
