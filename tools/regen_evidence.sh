#!/bin/bash
# tools/regen_evidence.sh: runs every quick check on the UNCHANGED tree (refuses when /repo has uncommitted changes) and
# leaves the evidence files they write; prints one line per property.
set -u
cd "$(dirname "$0")/.."
if [ -n "$(git -C /repo status --porcelain)" ]; then echo "/repo has uncommitted changes" >&2; exit 2; fi
bad=0
for c in C01 C02 C03 C04 C05 C06 C07 C08 C09 C10 C11 C12 C13 C14 C15 C16 C17 C18 C19 C20; do
  out=$(VERIF_SEED=1 ./check "$c" --tier quick 2>&1 | grep -E "^(VIOLATION|OK)" | head -1)
  echo "$c: $out" | cut -c1-160
  case "$out" in OK*) ;; *) bad=1;; esac
done
rm -f replays/*-quick-*.json
exit $bad
