import JSight.Basic
import JSight.Model.Unescape
/-!
Line-protocol driver around the hand-written models (core-only imports, so it links as a `lean_exe`).
One request per line `op hexarg…`; one response line per request; the line `flush` flushes stdout.
-/
open JSight

def withBytes (h : String) (f : Bytes → String) : String :=
  match fromHex h with
  | some b => f b
  | none => "bad-hex"

def handle (line : String) : String :=
  match line.splitOn " " with
  | ["unescape", h] => withBytes h fun b => "ok " ++ toHexArg (unescape b)
  | ["quote", h] => withBytes h fun b => "ok " ++ toHexArg (quoteParam b)
  | _ => "bad-op"

partial def loop (inp out : IO.FS.Stream) : IO Unit := do
  let line ← inp.getLine
  if line.isEmpty then
    out.flush
    return ()
  let l := (line.dropEndWhile (fun c => c == '\n' || c == '\r')).toString
  if l == "flush" then
    out.flush
  else
    out.putStrLn (handle l)
  loop inp out

def main : IO Unit := do
  loop (← IO.getStdin) (← IO.getStdout)
