import JSight.Basic
import JSight.Model.Unescape
import JSight.Model.TagName
import JSight.Model.PathPar
import JSight.Model.IncName
import JSight.Model.Descr
import JSight.Model.Location
import JSight.Model.OMap
import JSight.Model.AllOf
import JSight.Model.Registry
import JSight.Model.Param
/-!
Line-protocol driver around the hand-written models (core-only imports, so it links as a `lean_exe`).
One request per line `op hexarg…`; one response line per request; the line `flush` flushes stdout.
-/
open JSight

def withBytes (h : String) (f : Bytes → String) : String :=
  match fromHex h with
  | some b => f b
  | none => "bad-hex"

def withBytes2 (h1 h2 : String) (f : Bytes → Bytes → String) : String :=
  match fromHex h1, fromHex h2 with
  | some a, some b => f a b
  | _, _ => "bad-hex"

def showPairs (pp : List (Bytes × Bytes)) : String :=
  String.intercalate " " (pp.map fun (a, b) => toHexArg a ++ ":" ++ toHexArg b)

def handle (line : String) : String :=
  match line.splitOn " " with
  | ["unescape", h] => withBytes h fun b => "ok " ++ toHexArg (unescape b)
  | ["quote", h] => withBytes h fun b => "ok " ++ toHexArg (quoteParam b)
  | ["tagname", h] => withBytes h fun b => "ok " ++ toHexArg (tagName b)
  | ["tagtitle", h] => withBytes h fun b => "ok " ++ toHexArg (pathTagTitle b)
  | ["pathescape", h] => withBytes h fun b => "ok " ++ toHexArg (pathEscape b)
  | ["splitpath", h] => withBytes h fun b => "ok " ++ String.intercalate " " ((splitPath b).map toHexArg)
  | ["pathpar", h] => withBytes h fun b => "ok " ++ showPairs (pathParameters b)
  | ["pathparchk", h] => withBytes h fun b =>
      match checkedPathParameters b with
      | .ok pp => "ok " ++ showPairs pp
      | .error .empty => "err empty"
      | .error (.dup n) => "err dup " ++ toHexArg n
  | ["incname", h] => withBytes h fun b =>
      match validName b with
      | .ok _ => "ok"
      | .error .empty => "fault"
      | .error .absolute => "err absolute"
      | .error .dotPart => "err dot"
      | .error .backslash => "err backslash"
  | ["join", a, b] => withBytes2 a b fun a b => "ok " ++ toHexArg (pathJoin a b)
  | ["dir", a] => withBytes a fun a => "ok " ++ toHexArg (pathDir a)
  | ["clean", a] => withBytes a fun a => "ok " ++ toHexArg (pathClean a)
  | ["descr", h] => withBytes h fun b =>
      match description b with
      | .ok d => "ok " ++ toHexArg d
      | .error _ => "err"
  | ["annot", h] => withBytes h fun b => "ok " ++ toHexArg (annotation b)
  | ["loc", h, i] => withBytes h fun b =>
      match i.toNat? with
      | none => "bad-arg"
      | some i =>
        match newLocation b i with
        | some l => "ok " ++ toString l.line ++ " " ++ toHexArg l.quote
        | none => "fault"
  | "omap" :: ops =>
    -- ops: s:<key>:<val>  t:<key>:<val>  u:<key>:<suffix>  m:<suffix> ; keys/values are plain words
    let step (m : OMap String String) (o : String) : OMap String String :=
      match o.splitOn ":" with
      | ["s", k, v] => m.set k v
      | ["t", k, v] => m.setToTop k v
      | ["u", k, x] => m.update k (· ++ x)
      | ["m", x] => m.mapVals (fun _ v => v ++ x)
      | _ => m
    let m := (ops.filter (· != "")).foldl step ({} : OMap String String)
    "ok " ++ String.intercalate "," (m.entries.map fun (k, v) => k ++ "=" ++ v.getD "<nil>") ++ " len=" ++ toString m.len
  | "allof" :: args =>
    -- args: t:<name>:<base,base>:<key,key> …  then  o:<name,name,…> (processing order = catalog order)
    let nums (x : String) : List Nat := (x.splitOn ",").filterMap (·.toNat?)
    let types : AllOf.Store := args.filterMap fun a =>
      match a.splitOn ":" with
      | ["t", n, bs, ks] => n.toNat?.map fun n => (n, { bases := nums bs, kids := (nums ks).map fun k => { key := k } })
      | _ => none
    let order : List Nat := (args.filterMap fun a => match a.splitOn ":" with | ["o", ns] => some (nums ns) | _ => none).flatten
    match AllOf.processStore 200 order types [] with
    | .error (.override k b) => "err override " ++ toString k ++ " " ++ toString b
    | .error (.notFound b) => "err notfound " ++ toString b
    | .error (.notObject b) => "err notobject " ++ toString b
    | .error .fuel => "fault fuel"
    | .ok (st, _) =>
      "ok " ++ String.intercalate " " (st.map fun (n, sc) =>
        toString n ++ "=" ++ String.intercalate "," (sc.kids.map fun p => toString p.key ++ "/" ++ (match p.from_ with | some b => toString b | none => "-")))
  | "param" :: k :: raws =>
    -- param <kind index> <raw parameter hex>… → ok name=hex,… | hex,…   |  err defined <name>  |  err incorrect
    match k.toNat?.bind (Gen.Kind.all[·]?), (raws.filter (· != "")).mapM fun h => if h == "-" then some [] else fromHex h with
    | some kind, some rs =>
      match Param.appendAll kind {} rs with
      | .ok p => "ok " ++ String.intercalate "," (p.named.map fun (n, v) => n ++ "=" ++ toHexArg v) ++ " | " ++
          String.intercalate "," (p.unnamed.map toHexArg)
      | .error (.alreadyDefined n) => "err defined " ++ n
      | .error .incorrect => "err incorrect"
    | _, _ => "bad-arg"
  | "reg" :: args =>
    -- args: <coll>:<key> … with coll ∈ t e s g m u i ; ids are positions
    let collOf (c : String) : Option Reg.Coll := match c with
      | "t" => some .types | "e" => some .enums | "s" => some .servers | "g" => some .tags
      | "m" => some .macros | "u" => some .urls | "i" => some .interactions | _ => none
    let ds : List Reg.Decl := (args.filter (· != "")).zipIdx.filterMap fun (a, i) =>
      match a.splitOn ":" with
      | [c, k] => match collOf c, k.toNat? with
        | some c, some k => some { coll := c, key := k, id := i }
        | _, _ => none
      | _ => none
    match Reg.addAll [] ds with
    | .error i => "err " ++ toString i
    | .ok es =>
      let show1 (nm : String) (c : Reg.Coll) := nm ++ "=" ++ String.intercalate "," ((Reg.collection es c).map toString)
      "ok " ++ String.intercalate " " [show1 "t" .types, show1 "e" .enums, show1 "s" .servers, show1 "g" .tags, show1 "i" .interactions]
  | _ => "bad-op"

partial def loop (inp out : IO.FS.Stream) : IO Unit := do
  let line ← inp.getLine
  if line.isEmpty then
    out.flush
    return ()
  let l := (line.dropEndWhile (fun c => c == '\n' || c == '\r')).toString
  if l == "flush" then
    out.flush
  else
    out.putStrLn (handle l)
  loop inp out

def main : IO Unit := do
  loop (← IO.getStdin) (← IO.getStdout)
