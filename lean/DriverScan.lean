import JSight.Basic
import JSight.Model.Scanner
/-!
Line-protocol driver of the scanner model (interpreter of the regenerated table).

  lex <hex content> <oracle entries…>     oracle entry:  s:<cur>:<len> | s:<cur>:e<pos> | e:<cur>:<len> | e:<cur>:e<pos>
  → <ty>:<b>:<e1> … | end | diag <idx> | fault <kind> | miss <s|e> <cur>
-/
open JSight JSight.Gen

def tyName : LexTy → String
  | .keyword => "K" | .parameter => "P" | .annotation => "A" | .schema => "S" | .json => "J"
  | .text => "T" | .contextOpen => "O" | .contextClose => "C" | .enum => "E"

def faultName : Fault → String
  | .popEmpty => "popEmpty" | .indexOOR => "indexOOR" | .sliceOOR => "sliceOOR" | .nilDeref => "nilDeref"
  | .fuel => "fuel" | .libFault => "libFault" | .underflow => "underflow"

def parseOracle (entries : List String) : Oracle :=
  let tab : List (Bool × Nat × LenAns) := entries.filterMap fun e =>
    match e.splitOn ":" with
    | [k, cur, ans] =>
      match cur.toNat? with
      | none => none
      | some c =>
        let a : Option LenAns :=
          if ans.startsWith "e" then (ans.drop 1).toString.toNat?.map LenAns.err else ans.toNat?.map LenAns.len
        a.map fun a => (k == "e", c, a)
    | _ => none
  let look (isEnum : Bool) (cur : Nat) : LenAns :=
    match tab.find? (fun (k, c, _) => k == isEnum && c == cur) with
    | some (_, _, a) => a
    | none => .miss
  { schemaLen := look false, enumLen := look true }

def showLex (l : Lexeme) : String := tyName l.ty ++ ":" ++ toString l.b ++ ":" ++ toString l.e1

def handle (line : String) : String :=
  match line.splitOn " " with
  | "lex" :: h :: orc =>
    match fromHex h with
    | none => "bad-hex"
    | some b =>
      let (lexs, stop, _) := scanFile b (parseOracle orc)
      let body := String.intercalate " " (lexs.map showLex)
      let tail := match stop with
        | none => "end"
        | some (.diag i) => "diag " ++ toString i
        | some (.fault f) => "fault " ++ faultName f
        | some (.oracleMiss e c) => "miss " ++ (if e then "e" else "s") ++ " " ++ toString c
      if body.isEmpty then tail else body ++ " " ++ tail
  | ["states"] => toString St.all.length
  | _ => "bad-op"

partial def loop (inp out : IO.FS.Stream) : IO Unit := do
  let line ← inp.getLine
  if line.isEmpty then
    out.flush
    return ()
  let l := (line.dropEndWhile (fun c => c == '\n' || c == '\r')).toString
  if l == "flush" then
    out.flush
  else
    out.putStrLn (handle l)
  loop inp out

def main : IO Unit := do
  loop (← IO.getStdin) (← IO.getStdout)
