/-
Common vocabulary of the JSight models (core Lean only, no Mathlib).

Go strings and []byte are byte strings; they are modelled as `List UInt8`
(never Lean `String`).
-/
namespace JSight

abbrev Bytes := List UInt8

/-- What Go would panic / hang on.  Every partial Go operation is an explicit
fault in the models, never a totalising default. -/
inductive Fault where
  | popEmpty | indexOOR | sliceOOR | nilDeref | fuel | libFault | underflow
  deriving DecidableEq, Repr, Inhabited

namespace B
def quote : UInt8 := 34      -- '"'
def bsl : UInt8 := 92        -- '\\'
def slash : UInt8 := 47      -- '/'
def lf : UInt8 := 10
def cr : UInt8 := 13
def sp : UInt8 := 32
def tab : UInt8 := 9
def dot : UInt8 := 46
def at_ : UInt8 := 64        -- '@'
def us : UInt8 := 95         -- '_'
def pct : UInt8 := 37        -- '%'
def lbrace : UInt8 := 123    -- '{'
def rbrace : UInt8 := 125    -- '}'
def lpar : UInt8 := 40
def rpar : UInt8 := 41
def hash : UInt8 := 35
def star : UInt8 := 42
end B

def hexDigit (n : Nat) : Char :=
  if n < 10 then Char.ofNat (48 + n) else Char.ofNat (87 + n)

def toHex (b : Bytes) : String :=
  String.ofList (b.flatMap fun c => [hexDigit (c.toNat / 16), hexDigit (c.toNat % 16)])

def hexVal (c : Char) : Option Nat :=
  if '0' ≤ c ∧ c ≤ '9' then some (c.toNat - 48)
  else if 'a' ≤ c ∧ c ≤ 'f' then some (c.toNat - 87)
  else if 'A' ≤ c ∧ c ≤ 'F' then some (c.toNat - 55)
  else none

def fromHexList : List Char → Option Bytes
  | [] => some []
  | [_] => none
  | a :: b :: rest => do
    let x ← hexVal a
    let y ← hexVal b
    let r ← fromHexList rest
    pure (UInt8.ofNat (x * 16 + y) :: r)

/-- `-` stands for the empty byte string in the line protocol. -/
def fromHex (s : String) : Option Bytes :=
  if s = "-" then some [] else fromHexList s.toList

def toHexArg (b : Bytes) : String := if b.isEmpty then "-" else toHex b

end JSight
