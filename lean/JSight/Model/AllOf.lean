import JSight.Basic
/-!
Model of `core/compile_catalog.go` `processSchemaContentJSightAllOf` / `inheritPropertiesFromUserType`
on *flat* object schemas (the properties of the modelled objects are scalars; nested objects with their own
allOf rule are processed by the same function first and are not part of this model).

A schema is its list of properties `(key, inheritedFrom)`; user types live in a store that is mutated in place
(the Go code works through pointers into the catalog); `memo` is `processedByAllOf`.
-/
namespace JSight.AllOf

structure Prpty where
  key : Nat
  from_ : Option Nat := none      -- `InheritedFrom` ("" = none)
  deriving DecidableEq, Repr

structure Schema where
  isObject : Bool := true
  bases : List Nat := []          -- the allOf rule: names of the base types, in the order written
  kids : List Prpty := []
  deriving DecidableEq, Repr

abbrev Store := List (Nat × Schema)   -- catalog.UserTypes

def Store.get? (s : Store) (n : Nat) : Option Schema := (s.find? (·.1 == n)).map (·.2)
def Store.set (s : Store) (n : Nat) (v : Schema) : Store := s.map fun p => if p.1 == n then (n, v) else p

inductive Err where
  | notFound (base : Nat)
  | notObject (base : Nat)
  | override (key : Nat) (base : Nat)
  | fuel
  deriving DecidableEq, Repr

/-- the inner loop of `inheritPropertiesFromUserType`: the base's properties, last to first, are put in front -/
def unshiftAll (base : Nat) : List Prpty → List Prpty → Except Err (List Prpty)
  | [], kids => .ok kids
  | v :: rest, kids =>      -- `rest` is processed first (the Go loop runs from the last property to the first)
    match unshiftAll base rest kids with
    | .error e => .error e
    | .ok kids' =>
      match kids'.find? (·.key == v.key) with
      | some p => if p.from_.isNone then .error (.override v.key base) else .ok kids'   -- already inherited: skip
      | none => .ok ({ key := v.key, from_ := some base } :: kids')

mutual
  /-- `processSchemaContentJSightAllOf` on a flat object: bases last to first -/
  def process (fuel : Nat) (st : Store) (memo : List Nat) (sc : Schema) : Except Err (Store × List Nat × Schema) :=
    match fuel with
    | 0 => .error .fuel
    | fuel + 1 =>
      if !sc.isObject then .ok (st, memo, sc)
      else inheritAll fuel st memo sc sc.bases.reverse
  def inheritAll (fuel : Nat) (st : Store) (memo : List Nat) (sc : Schema) : List Nat → Except Err (Store × List Nat × Schema)
    | [] => .ok (st, memo, sc)
    | b :: rest =>
      match fuel with
      | 0 => .error .fuel
      | fuel' + 1 =>
        match inherit fuel' st memo sc b with
        | .error e => .error e
        | .ok (st', memo', sc') => inheritAll fuel' st' memo' sc' rest
  /-- `inheritPropertiesFromUserType` -/
  def inherit (fuel : Nat) (st : Store) (memo : List Nat) (sc : Schema) (base : Nat) : Except Err (Store × List Nat × Schema) :=
    match fuel with
    | 0 => .error .fuel
    | fuel + 1 =>
      match st.get? base with
      | none => .error (.notFound base)
      | some ut =>
        if !ut.isObject then .error (.notObject base)
        else
          -- the base type is expanded first, once (`processedByAllOf`), in place
          let r : Except Err (Store × List Nat × Schema) :=
            if memo.contains base then .ok (st, memo, ut)
            else match process fuel st (base :: memo) ut with
              | .error e => .error e
              | .ok (st', memo', ut') => .ok (st'.set base ut', memo', ut')
          match r with
          | .error e => .error e
          | .ok (st', memo', ut') =>
            match unshiftAll base ut'.kids sc.kids with
            | .error e => .error e
            | .ok kids' => .ok (st', memo', { sc with kids := kids' })
end

/-- `processUserTypes`: every user type, in catalog order, in place -/
def processStore (fuel : Nat) : List Nat → Store → List Nat → Except Err (Store × List Nat)
  | [], st, memo => .ok (st, memo)
  | n :: rest, st, memo =>
    match st.get? n with
    | none => processStore fuel rest st memo
    | some sc =>
      match process fuel st memo sc with
      | .error e => .error e
      | .ok (st', memo', sc') => processStore fuel rest (st'.set n sc') memo'

/-- declarative statement of C12: inherited properties first — bases in the order written, each with its own
expansion, marked with the direct base — then the own properties -/
def expand (st : Store) : Nat → Schema → List Prpty
  | 0, sc => sc.kids
  | fuel + 1, sc =>
    (sc.bases.flatMap fun b =>
      match st.get? b with
      | some ut => (expand st fuel ut).map fun p => { key := p.key, from_ := some b }
      | none => []) ++ sc.kids

end JSight.AllOf
