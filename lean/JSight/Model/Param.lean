import JSight.Model.Unescape
import JSight.Gen.DirTables
/-!
Model of `directive/parameter.go`: `AppendParameter` — which named (or unnamed) parameter a written parameter
becomes for each directive kind, after `unescapeParameter`; `IsArrayOfTypes`; `isSchemaNotation`
(`notation.NewSchemaNotation` accepts "jsight", "regex", "any", "empty" and the empty string);
`bytes.IsUserTypeName` / `IsValidUserTypeNameByte` of the schema library (modelled: '@' followed by at least one of
`-`, `_`, letters, digits); `Directive.SetNamedParameter` (a second value for one name is refused).
-/
namespace JSight.Param
open JSight Gen

def isNameByte (c : UInt8) : Bool :=
  c == 45 || c == 95 || (97 ≤ c && c ≤ 122) || (65 ≤ c && c ≤ 90) || (48 ≤ c && c ≤ 57)

/-- `len(b) >= 2 && b[0] == '@'` and every further byte valid -/
def isUserTypeName : Bytes → Bool
  | 64 :: c :: r => (c :: r).all isNameByte
  | _ => false

/-- `IsArrayOfTypes`: `[` user type name `]`, at least 4 bytes -/
def isArrayOfTypes (b : Bytes) : Bool :=
  b.length ≥ 4 && b.head? == some 91 && b.getLast? == some 93 && isUserTypeName ((b.drop 1).dropLast)

def wJsight : Bytes := [106, 115, 105, 103, 104, 116]
def wRegex : Bytes := [114, 101, 103, 101, 120]
def wAny : Bytes := [97, 110, 121]
def wEmpty : Bytes := [101, 109, 112, 116, 121]
def wHtmlFormEncoded : Bytes := [104, 116, 109, 108, 70, 111, 114, 109, 69, 110, 99, 111, 100, 101, 100]
def wNoFormat : Bytes := [110, 111, 70, 111, 114, 109, 97, 116]

example : [wJsight, wRegex, wAny, wEmpty, wHtmlFormEncoded, wNoFormat]
    = ["jsight", "regex", "any", "empty", "htmlFormEncoded", "noFormat"].map (·.toUTF8.toList) := by
  with_unfolding_all decide

/-- `isSchemaNotation` -/
def isNotation (s : Bytes) : Bool := s.isEmpty || s == wJsight || s == wRegex || s == wAny || s == wEmpty

structure Params where
  named : List (String × Bytes) := []
  unnamed : List Bytes := []
  deriving Repr, DecidableEq

inductive PErr where
  | alreadyDefined (name : String)     -- "the %q parameter is already defined for the %q directive"
  | incorrect                          -- "incorrect parameter %q"
  deriving Repr, DecidableEq

/-- `SetNamedParameter` -/
def setNamed (p : Params) (k : String) (v : Bytes) : Except PErr Params :=
  if p.named.any (·.1 == k) then .error (.alreadyDefined k) else .ok { p with named := p.named ++ [(k, v)] }

/-- `AppendParameter` -/
def appendParameter (k : Kind) (p : Params) (raw : Bytes) : Except PErr Params :=
  let b := unescape raw
  match k with
  | .URL | .Get | .Post | .Put | .Patch | .Delete => setNamed p "Path" b
  | .Request | .HTTPResponseCode | .Body =>
    if isNotation b then setNamed p "SchemaNotation" b
    else if isArrayOfTypes b then setNamed p "Type" b
    else if isUserTypeName b then setNamed p "Type" b
    else .error .incorrect
  | .Type =>
    if isNotation b then setNamed p "SchemaNotation" b
    else if isArrayOfTypes b then setNamed p "Name" b
    else if isUserTypeName b then setNamed p "Name" b
    else .error .incorrect
  | .Query => if b == wHtmlFormEncoded || b == wNoFormat then setNamed p "Format" b else setNamed p "QueryExample" b
  | .Jsight | .Version => setNamed p "Version" b
  | .Title => setNamed p "Title" b
  | .BaseURL => setNamed p "Path" b
  | .Server | .Enum | .Macro | .Paste => if isUserTypeName b then setNamed p "Name" b else .error .incorrect
  | .Protocol => setNamed p "ProtocolName" b
  | .Method => setNamed p "MethodName" b
  | .TAG => if isUserTypeName b then setNamed p "TagName" b else .error .incorrect
  | .Tags => if isUserTypeName b then .ok { p with unnamed := p.unnamed ++ [b] } else .error .incorrect
  | _ => .error .incorrect

def appendAll (k : Kind) : Params → List Bytes → Except PErr Params
  | p, [] => .ok p
  | p, r :: rest =>
    match appendParameter k p r with
    | .ok p' => appendAll k p' rest
    | .error e => .error e

end JSight.Param
