import JSight.Basic
/-!
A lock-level model of the `sync.RWMutex` discipline of the generated collections (C16):
threads run method calls `acquire mode; body micro-steps; release`; the body of a writer is NOT atomic
(it is a list of micro-steps on the shared state) — mutual exclusion is what makes it behave atomically.
-/
namespace JSight.RW

inductive Mode | r | w
  deriving DecidableEq, Repr

/-- a method call: lock mode and the micro-steps of its body on the shared state `σ` -/
structure Call (σ : Type) where
  mode : Mode
  body : List (σ → σ)

/-- per-thread program counter -/
inductive PC where
  | idle                 -- has not acquired yet
  | holding (done : Nat) -- holds the lock, `done` micro-steps executed
  | finished
  deriving DecidableEq, Repr

structure Sys (σ : Type) where
  calls : List (Call σ)      -- one call per thread (index = thread id)
  pcs : List PC
  shared : σ
  acquired : List Nat        -- thread ids in the order in which they acquired the lock (history)

def holders {σ} (s : Sys σ) : List Nat :=
  (List.range s.pcs.length).filter fun i => match s.pcs[i]? with | some (.holding _) => true | _ => false

def writerHolds {σ} (s : Sys σ) : Bool :=
  (holders s).any fun i => match s.calls[i]? with | some c => c.mode == .w | none => false

/-- one scheduler step of thread `i` -/
def step {σ} (s : Sys σ) (i : Nat) : Option (Sys σ) :=
  match s.calls[i]?, s.pcs[i]? with
  | some c, some .idle =>
    -- RWMutex: a reader may enter if no writer holds; a writer only if nobody holds
    let ok := match c.mode with
      | .r => !writerHolds s
      | .w => (holders s).isEmpty
    if ok then some { s with pcs := s.pcs.set i (.holding 0), acquired := s.acquired ++ [i] } else none
  | some c, some (.holding n) =>
    match c.body[n]? with
    | some f => some { s with pcs := s.pcs.set i (.holding (n + 1)), shared := f s.shared }
    | none => some { s with pcs := s.pcs.set i .finished }
  | _, _ => none

/-- a schedule is a list of thread ids; steps that are not enabled are skipped (the thread blocks) -/
def runSched {σ} (s : Sys σ) : List Nat → Sys σ
  | [] => s
  | i :: r => match step s i with
    | some s' => runSched s' r
    | none => runSched s r

def init {σ} (calls : List (Call σ)) (x : σ) : Sys σ :=
  { calls := calls, pcs := calls.map (fun _ => .idle), shared := x, acquired := [] }

def allFinished {σ} (s : Sys σ) : Bool := s.pcs.all (· == .finished)

/-- the whole body of a call, applied atomically -/
def Call.apply {σ} (c : Call σ) (x : σ) : σ := c.body.foldl (fun acc f => f acc) x

end JSight.RW
