import JSight.Gen.DirTables
/-!
Model of `core/context_processing.go processContext`, `core/scan_project.go`
(`closeLastExplicitContext`, `HasUnclosedExplicitContext`, `processContextEnd`, `processEOF`) and
`core/compile_core_paste.go`, after the repairs F1/F23/F38 (a path-bearing method is not hoisted to the top level any more: the URL does not admit it and the walk goes on).

The Go code keeps a pointer `currentContextDirective` with a `Parent` chain and appends a new directive
to its parent's `Children` (or to the root list) at creation.  The model keeps the chain as a stack of
open *frames*, innermost first; leaving a frame attaches the finished subtree to the frame below or to
the root list.  This is equivalent because children are appended in creation order and only the
innermost chain is ever extended.

The admissibility tables are the regenerated `Gen.rootAllowed`, `Gen.childAllowed`, `Gen.httpMethods`.
-/
namespace JSight
open Gen

/-- what the context resolution reads of a directive -/
structure Dir where
  kind : Kind
  hasPath : Bool := false      -- `NamedParameter("Path") != ""`
  explicit : Bool := false     -- `HasExplicitContext` (a "(" followed the directive)
  name : Nat := 0              -- Name parameter of MACRO / PASTE (0 = missing)
  annot : Bool := false        -- has an annotation (forbidden on MACRO / PASTE)
  id : Nat := 0                -- identity: position of the keyword in the source
  deriving DecidableEq, Repr, Inhabited

inductive Tree where
  | node (d : Dir) (kids : List Tree)
  deriving Repr, Inhabited

def Tree.dir : Tree → Dir | .node d _ => d
def Tree.kids : Tree → List Tree | .node _ k => k

structure Frame where
  d : Dir
  kids : List Tree := []        -- finished children, in order
  deriving Repr

structure Ctx where
  frames : List Frame := []     -- open directives, innermost first
  roots : List Tree := []       -- finished top-level directives, in order
  deriving Repr

inductive CtxErr where
  | incorrectContext (id : Nat)       -- "incorrect directive context"
  | pathMethodInExplicit (id : Nat)   -- path-bearing method under a URL while a parenthesised context is open
  | noExplicitToClose                 -- ")" with no open parenthesis
  | unclosedAtEOF                     -- end of input with one still open
  deriving DecidableEq, Repr

def rootAdmits (k : Kind) : Bool := rootAllowed.contains k

def admits (parent child : Kind) : Bool :=
  match childAllowed.find? (fun p => p.1 == parent) with
  | some (_, cs) => cs.contains child
  | none => false

def isHTTPMethod (k : Kind) : Bool := httpMethods.contains k

def Frame.tree (f : Frame) : Tree := .node f.d f.kids

/-- attach a finished subtree to the innermost open frame -/
def attach (t : Tree) (p : Frame) : Frame := { p with kids := p.kids ++ [t] }

/-- close every open frame -/
def closeAll : List Frame → List Tree → List Tree
  | [], roots => roots
  | [f], roots => roots ++ [f.tree]
  | f :: p :: rest, roots => closeAll (attach f.tree p :: rest) roots
termination_by fs => fs.length

/-- `HasUnclosedExplicitContext` -/
def anyExplicit (frames : List Frame) : Bool := frames.any (·.d.explicit)

/-- what a frame admits: its kind admits the kind of the directive — except that a URL does not admit an HTTP
method that carries its own path (such a method ends the URL's context) -/
def pathMethodUnderURL (f d : Dir) : Bool := isHTTPMethod d.kind && d.hasPath && f.kind == Kind.URL

def admitsDir (f d : Dir) : Bool := admits f.kind d.kind && !pathMethodUnderURL f d

/-- `processContext`: the walk-up loop -/
def place : List Frame → List Tree → Dir → Except CtxErr Ctx
  | [], roots, d =>
    if rootAdmits d.kind then .ok { frames := [{ d := d }], roots := roots }
    else .error (.incorrectContext d.id)
  | f :: below, roots, d =>
    if admitsDir f.d d then .ok { frames := { d := d } :: f :: below, roots := roots }
    else if f.d.explicit then
      (if admits f.d.kind d.kind then .error (.pathMethodInExplicit d.id) else .error (.incorrectContext d.id))
    else
      match below with
      | [] => place [] (roots ++ [f.tree]) d
      | p :: rest => place (attach f.tree p :: rest) roots d
termination_by fs => fs.length

/-- `closeLastExplicitContext`: leave frames up to and including the innermost explicit one -/
def closeExplicit : List Frame → List Tree → Except CtxErr Ctx
  | [], _ => .error .noExplicitToClose
  | [f], roots =>
    if f.d.explicit then .ok { frames := [], roots := roots ++ [f.tree] } else .error .noExplicitToClose
  | f :: p :: rest, roots =>
    if f.d.explicit then .ok { frames := attach f.tree p :: rest, roots := roots }
    else closeExplicit (attach f.tree p :: rest) roots
termination_by fs => fs.length

inductive Tok where
  | dir (d : Dir)
  | close
  deriving DecidableEq, Repr

def consume (c : Ctx) : Tok → Except CtxErr Ctx
  | .dir d => place c.frames c.roots d
  | .close => closeExplicit c.frames c.roots

def consumeAll (c : Ctx) : List Tok → Except CtxErr Ctx
  | [] => .ok c
  | t :: r => match consume c t with
    | .ok c' => consumeAll c' r
    | .error e => .error e

/-- scan-time resolution of a whole token stream: the directive forest, or the first error -/
def resolve (toks : List Tok) : Except CtxErr (List Tree) :=
  match consumeAll {} toks with
  | .error e => .error e
  | .ok c => if anyExplicit c.frames then .error .unclosedAtEOF else .ok (closeAll c.frames c.roots)

/-! pre-order token stream of a forest: directive, children, and a ")" if it was parenthesised -/
mutual
  def flattenTree : Tree → List Tok
    | .node d kids => Tok.dir d :: (flattenForest kids ++ (if d.explicit then [Tok.close] else []))
  def flattenForest : List Tree → List Tok
    | [] => []
    | t :: r => flattenTree t ++ flattenForest r
end

end JSight
