import JSight.Model.Build
import JSight.Model.PathBind
/-!
Model of the SERIALISATION of the catalog (`catalog.Catalog.MarshalJSON` and the `MarshalJSON` methods / struct
tags it reaches): the JSON object TREE the real code hands to `encoding/json`, at the level the catalog skeleton
(`Build.Cat`) knows.

* `catalog/catalog.go Catalog.MarshalJSON`: the top-level object, keys in the order `tags`, `info?`, `servers?`,
  `userTypes?`, `userEnums?`, `interactions`, `jsight`, `jdocExchangeVersion` (`?` = omitted when nil / empty).
* `catalog/*_gen.go (m *X) MarshalJSON` (ordered maps `Tags`, `Servers`, `UserTypes`, `Interactions`): an object
  whose keys are the map keys in insertion order.
* `catalog/tag.go Tag.MarshalJSON`, `tag_*_interaction_group.go`; `info.go`, `servers.go`, `user_type.go`,
  `http_interaction.go`, `json_rpc_interaction.go`, `http_request.go`, `http_response.go`,
  `http_response_body.go`, `query.go`: struct tags (order of the fields = order of declaration, `omitempty`).

`opaque` stands for a subtree produced outside the model, whose own keys are the business of the schema library /
`encoding/json`:
  * every `schema` value (`catalog.Schema.MarshalJSON`: `content`, `example`, `notation`, `usedUserTypes`,
    `usedUserEnums`) — tag 0;
  * the value of `pathVariables` of an HTTP interaction — tag 1;
  * the value of `userEnums` of the catalog — tag 2.
The PRESENCE of the last two is not carried by the skeleton either; it is an input of the rendering (`Extra`):
`userEnums` is present iff `collectRules` registered an enum; `pathVariables` is present iff
`BuildResourceMethodsPathVariables` found a declared property for one of the path's parameters
(`Model/PathBind.lean`).  The theorems hold for every `Extra`.

Never rendered, because the real code never sets them: `children` of a tag (`Tag.Children` stays empty),
`baseUrlVariables` of a server (the setter is commented out in `catalog/setters.go`), `description` of a user type.

Strings are byte strings (Go strings); `encoding/json` coerces invalid UTF-8 to U+FFFD — documents with invalid
UTF-8 in a parameter are outside this model (the correspondence skips them, as for the skeleton).
-/
namespace JSight

inductive Json where
  | null
  | bool (b : Bool)
  | str (s : Bytes)
  | arr (l : List Json)
  | obj (kv : List (Bytes × Json))
  | opaque (tag : Nat)
  deriving Inhabited

namespace Json

/-- pairwise distinct, as a Boolean -/
def nodupB : List Bytes → Bool
  | [] => true
  | a :: r => !r.contains a && nodupB r

mutual
  /-- every object of the tree has pairwise distinct keys (`opaque` subtrees are not looked into) -/
  def noDupKeys : Json → Bool
    | .obj kv => nodupB (kv.map (·.1)) && noDupKeysKV kv
    | .arr l => noDupKeysL l
    | _ => true
  def noDupKeysL : List Json → Bool
    | [] => true
    | x :: r => x.noDupKeys && noDupKeysL r
  def noDupKeysKV : List (Bytes × Json) → Bool
    | [] => true
    | (_, v) :: r => v.noDupKeys && noDupKeysKV r
end

/-- the keys of an object, in order -/
def keysOf : Json → List Bytes
  | .obj kv => kv.map (·.1)
  | _ => []

/-- the entries of an object, in order -/
def entries : Json → List (Bytes × Json)
  | .obj kv => kv
  | _ => []

/-- the items of an array -/
def items : Json → List Json
  | .arr l => l
  | _ => []

/-- the value of the first field `k` of an object -/
def field (j : Json) (k : Bytes) : Option Json := (j.entries.find? (·.1 == k)).map (·.2)

/-- … `null` when there is none -/
def get (j : Json) (k : Bytes) : Json := (j.field k).getD .null

/-- a struct: the fields in declaration order, `none` = omitted (`omitempty` on an empty value) -/
def record (fs : List (Bytes × Option Json)) : Json :=
  .obj (fs.filterMap fun p => p.2.map fun v => (p.1, v))

/-- `omitempty` on a string -/
def nonEmpty (s : Bytes) : Option Json := if s.isEmpty then none else some (.str s)

def strs (l : List Bytes) : Json := .arr (l.map .str)

/-! ### the key names -/
namespace K
def tags : Bytes := [116, 97, 103, 115]
def info : Bytes := [105, 110, 102, 111]
def servers : Bytes := [115, 101, 114, 118, 101, 114, 115]
def userTypes : Bytes := [117, 115, 101, 114, 84, 121, 112, 101, 115]
def userEnums : Bytes := [117, 115, 101, 114, 69, 110, 117, 109, 115]
def interactions : Bytes := [105, 110, 116, 101, 114, 97, 99, 116, 105, 111, 110, 115]
def jsight : Bytes := [106, 115, 105, 103, 104, 116]
def jdocExchangeVersion : Bytes := [106, 100, 111, 99, 69, 120, 99, 104, 97, 110, 103, 101, 86, 101, 114, 115, 105, 111, 110]
def title : Bytes := [116, 105, 116, 108, 101]
def version : Bytes := [118, 101, 114, 115, 105, 111, 110]
def description : Bytes := [100, 101, 115, 99, 114, 105, 112, 116, 105, 111, 110]
def annotation : Bytes := [97, 110, 110, 111, 116, 97, 116, 105, 111, 110]
def baseUrl : Bytes := [98, 97, 115, 101, 85, 114, 108]
def schema : Bytes := [115, 99, 104, 101, 109, 97]
def name : Bytes := [110, 97, 109, 101]
def interactionGroups : Bytes := [105, 110, 116, 101, 114, 97, 99, 116, 105, 111, 110, 71, 114, 111, 117, 112, 115]
def protocol : Bytes := [112, 114, 111, 116, 111, 99, 111, 108]
def id : Bytes := [105, 100]
def httpMethod : Bytes := [104, 116, 116, 112, 77, 101, 116, 104, 111, 100]
def path : Bytes := [112, 97, 116, 104]
def pathVariables : Bytes := [112, 97, 116, 104, 86, 97, 114, 105, 97, 98, 108, 101, 115]
def query : Bytes := [113, 117, 101, 114, 121]
def request : Bytes := [114, 101, 113, 117, 101, 115, 116]
def responses : Bytes := [114, 101, 115, 112, 111, 110, 115, 101, 115]
def method : Bytes := [109, 101, 116, 104, 111, 100]
def params : Bytes := [112, 97, 114, 97, 109, 115]
def result : Bytes := [114, 101, 115, 117, 108, 116]
def ex : Bytes := [101, 120, 97, 109, 112, 108, 101]
def format : Bytes := [102, 111, 114, 109, 97, 116]
def headers : Bytes := [104, 101, 97, 100, 101, 114, 115]
def body : Bytes := [98, 111, 100, 121]
def code : Bytes := [99, 111, 100, 101]
/-- the values `"http"` and `"2.0.0"` (`catalog.HTTP`, `catalog.JDocExchangeVersion`) -/
def http : Bytes := [104, 116, 116, 112]
def v200 : Bytes := [50, 46, 48, 46, 48]

example : [tags, info, servers, userTypes, userEnums, interactions, jsight, jdocExchangeVersion, title, version,
      description, annotation, baseUrl, schema, name, interactionGroups, protocol, K.id, httpMethod, path,
      pathVariables, query, request, responses, method, params, result, ex, format, headers, body, code, http, v200]
    = ["tags", "info", "servers", "userTypes", "userEnums", "interactions", "jsight", "jdocExchangeVersion", "title",
       "version", "description", "annotation", "baseUrl", "schema", "name", "interactionGroups", "protocol", "id",
       "httpMethod", "path", "pathVariables", "query", "request", "responses", "method", "params", "result",
       "example", "format", "headers", "body", "code", "http", "2.0.0"].map (·.toUTF8.toList) := by
  with_unfolding_all decide
end K

/-! ### the rendering -/
open Build

/-- what the rendering reads and the skeleton does not carry: the PRESENCE of two subtrees produced by stages
outside `Model/Build.lean` -/
structure Extra where
  /-- `userEnums` is present (`Catalog.UserEnums.Len() > 0`) -/
  enums : Bool := false
  /-- `pathVariables` is present for the HTTP interaction of this PATH (`HTTPInteraction.PathVariables != nil`) -/
  pathVars : Bytes → Bool := fun _ => false

/-- the `Extra` of a project, from what the stages outside `Model/Build.lean` read:
  * `collectRules` registers every top-level ENUM directive that has a body (`core/compile_core_rules.go buildRule`);
  * `BuildResourceMethodsPathVariables` gives an HTTP interaction a `PathVariables` when at least one parameter of
    its path is bound by a Path directive (`Model/PathBind.lean`; `pvs` = the collected Path directives with the
    property keys of their bodies, which the schema library reads). -/
def extraOf (forest : List BTree) (pvs : List PathBind.RawPV) : Extra :=
  { enums := forest.any fun t => t.dir.kind == .Enum && t.dir.body.isSome
    pathVars := fun path =>
      match PathBind.bindAll pvs [] with
      | .ok m => !(PathBind.variablesOf m path).isEmpty
      | .error _ => false }

def schemaOpaque : Json := .opaque 0

/-- `{"schema": …}`: `HTTPRequestHeaders`, `HTTPResponseHeaders`, `jsonRpcParams`, `jsonRpcResult` -/
def schemaBox : Json := record [(K.schema, some schemaOpaque)]

def flag (b : Bool) (v : Json) : Option Json := if b then some v else none

/-- `catalog.Info` -/
def rInfo (i : InfoM) : Json :=
  record [(K.title, nonEmpty i.title), (K.version, nonEmpty i.version), (K.description, i.descr.map .str)]

/-- `catalog.Server` (`baseUrlVariables` is never set) -/
def rServer (s : ServerM) : Json :=
  record [(K.annotation, nonEmpty s.annot), (K.baseUrl, some (.str s.baseUrl))]

/-- `catalog.UserType` (`description` is never set) -/
def rType (t : TypeM) : Json :=
  record [(K.annotation, nonEmpty t.annot), (K.schema, some schemaOpaque)]

/-- `TagHTTPInteractionGroup` / `TagJsonRpcInteractionGroup`: the group exists once an id was appended -/
def rGroup (proto : Bytes) (ids : List Bytes) : List Json :=
  if ids.isEmpty then [] else [record [(K.protocol, some (.str proto)), (K.interactions, some (strs ids))]]

/-- `Tag.MarshalJSON` (`children` omitted: `Children.Len() == 0` always) -/
def rTag (t : TagM) : Json :=
  record [(K.name, some (.str t.name)), (K.title, some (.str t.title)), (K.description, t.descr.map .str),
          (K.interactionGroups, some (.arr (rGroup K.http t.http ++ rGroup jsonRpc20 t.rpc)))]

/-- `HTTPRequestBody` / `HTTPResponseBody` -/
def rBody (b : BodyM) : Json := record [(K.format, some (.str b.format)), (K.schema, some schemaOpaque)]

/-- `catalog.Query` -/
def rQuery (q : QueryM) : Json :=
  record [(K.ex, nonEmpty q.ex), (K.format, some (.str q.format)), (K.schema, some schemaOpaque)]

/-- `catalog.HTTPRequest` -/
def rReq (q : ReqM) : Json :=
  record [(K.headers, flag q.headers schemaBox), (K.body, q.body.map rBody)]

/-- `catalog.HTTPResponse` (`body` has no `omitempty`: `null` for a nil pointer) -/
def rResp (r : RespM) : Json :=
  record [(K.code, some (.str r.code)), (K.annotation, nonEmpty r.annot), (K.headers, flag r.headers schemaBox),
          (K.body, some (match r.body with | none => .null | some b => rBody b))]

/-- `catalog.HTTPInteraction` / `catalog.JsonRpcInteraction` -/
def rInter (e : Extra) (x : InterM) : Json :=
  match x.iid.proto with
  | .http =>
    record [(K.id, some (.str x.iid.text)), (K.protocol, some (.str K.http)), (K.httpMethod, some (.str x.iid.method)),
            (K.path, some (.str x.iid.path)), (K.pathVariables, flag (e.pathVars x.iid.path) (.opaque 1)),
            (K.tags, some (strs x.tags)), (K.annotation, nonEmpty x.annot), (K.description, x.descr.map .str),
            (K.query, x.query.map rQuery), (K.request, x.request.map rReq),
            (K.responses, flag (!x.responses.isEmpty) (.arr (x.responses.map rResp)))]
  | .rpc =>
    record [(K.id, some (.str x.iid.text)), (K.protocol, some (.str jsonRpc20)), (K.path, some (.str x.iid.path)),
            (K.method, some (.str x.iid.method)), (K.tags, some (strs x.tags)), (K.annotation, nonEmpty x.annot),
            (K.description, x.descr.map .str), (K.params, flag x.params schemaBox), (K.result, flag x.result schemaBox)]

/-- `Catalog.MarshalJSON` -/
def render (e : Extra) (c : Cat) : Json :=
  record [(K.tags, some (.obj (c.tags.map fun t => (t.name, rTag t)))),
          (K.info, c.info.map rInfo),
          (K.servers, flag (!c.servers.isEmpty) (.obj (c.servers.map fun s => (s.name, rServer s)))),
          (K.userTypes, flag (!c.types.isEmpty) (.obj (c.types.map fun t => (t.name, rType t)))),
          (K.userEnums, flag e.enums (.opaque 2)),
          (K.interactions, some (.obj (c.inters.map fun x => (x.iid.text, rInter e x)))),
          (K.jsight, some (.str c.jsight)),
          (K.jdocExchangeVersion, some (.str K.v200))]

/-- the ids a rendered tag lists, over all its interaction groups -/
def listedIds (tag : Json) : List Json :=
  (tag.get K.interactionGroups).items.flatMap fun g => (g.get K.interactions).items

/-! ### canonical text: `{<key hex>:<value>,…}`, `[…]`, strings hex-encoded (`-` when empty), `opaque` = `?` -/
mutual
  def text : Json → String
    | .null => "null"
    | .bool b => if b then "true" else "false"
    | .str s => "s" ++ toHexArg s
    | .arr l => "[" ++ textL l ++ "]"
    | .obj kv => "{" ++ textKV kv ++ "}"
    | .opaque _ => "?"
  def textL : List Json → String
    | [] => ""
    | [x] => x.text
    | x :: r => x.text ++ "," ++ textL r
  def textKV : List (Bytes × Json) → String
    | [] => ""
    | [(k, v)] => toHexArg k ++ ":" ++ v.text
    | (k, v) :: r => toHexArg k ++ ":" ++ v.text ++ "," ++ textKV r
end

end Json
end JSight
