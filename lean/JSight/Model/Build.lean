import JSight.Model.PathPar
import JSight.Model.Descr
import JSight.Model.Ids
import JSight.Gen.DirTables
/-!
Model of the catalog construction: `core/compile_core_tags.go` (`collectTags`), `checkUserTypeNames`,
`core/collect_core_path.go` (`collectPaths`), `core/build_catalog.go buildCatalog`,
`core/build_catalog_directives.go` (every `add…` function), the setters of `catalog/setters.go` they call,
`directive/path.go`, `directive/http_method.go`, `directive/json_rpc_method.go`, and the first three checks of
`core/validate_catalog.go`.

Input: the directive forest after PASTE expansion (`directivesWithPastes`).  Output: the catalog skeleton
(everything of the JSON catalog except the compiled schema contents, path variables and used-type lists) or the
first diagnostic (directive + message class).

Not modelled (an oracle answering "accepted" for every body): the schema library (`UnmarshalJSightSchema`,
`UnmarshalRegexSchema`), `compileUserTypes`, `collectRules`, `compileCatalog`, and the last two checks of
`validateCatalog`.  Diagnostics raised there are outside this model.
-/
namespace JSight.Build
open JSight Gen

/-- what the catalog construction reads of one directive -/
structure BDir where
  kind : Kind
  id : Nat := 0                         -- identity of this node of the expanded forest
  src : Nat := 0                        -- identity of the source directive (`Directive.Equal`: file and keyword position)
  keyword : Bytes := []                 -- `Keyword` (the code of a response directive)
  named : List (String × Bytes) := []   -- `namedParameters`
  unnamed : List Bytes := []            -- `unnamedParameters`
  annot : Bytes := []                   -- `Annotation`
  body : Option Bytes := none           -- `BodyCoords.Read()` when `BodyCoords.IsSet()`
  deriving Repr, Inhabited, DecidableEq

inductive BTree where
  | node (d : BDir) (kids : List BTree)
  deriving Repr, Inhabited

def BTree.dir : BTree → BDir | .node d _ => d
def BTree.kids : BTree → List BTree | .node _ k => k

/-- an ancestor: the directive and the directives of its children (`Parent`, `Parent.Children`) -/
structure Up where
  d : BDir
  kids : List BDir
  deriving Repr

/-- message classes of the diagnostics (the text of a message carries names and ids; the class does not) -/
inductive Msg where
  | jsightFirst | notAllowed | required (p : String) | unsupportedVersion | annotationForbidden
  | jsightTwice | parametersForbidden | infoTwice | notUnique | emptyDescription | descrParens
  | wrongDescriptionContext | duplicateNames | serverNotFound | baseUrlDefined | emptyBody | unknownNotation
  | pathNotFound | incorrectPath | emptyPathParameter | duplicatePathParameter | similarPaths | nonUniqueURL
  | mixedUrlChildren | methodDefined | tagNotFound | httpMethodNotFound | resourceNotFound
  | typeAndNotation | requestEmpty | responsesEmpty | incorrectRequest | bodyIsEmpty | userTypeWithBody
  | parentParameters | protocolValue | protocolNotUnique | protocolMissing | rpcMethodNotFound
  | rpcResourceNotFound | headersContext | noPathBody | parentNotFound
  | emptyInfo | undefinedRequestBody | undefinedResponseBody
  | internal                             -- a nil dereference in the Go code (unreachable after context resolution)
  deriving Repr, DecidableEq

structure BErr where
  id : Nat          -- the directive the diagnostic is located at
  msg : Msg
  deriving Repr, DecidableEq

abbrev R := Except BErr

def fail {α} (d : BDir) (m : Msg) : R α := .error ⟨d.id, m⟩

/-- `NamedParameter(k)`: "" when absent -/
def BDir.param (d : BDir) (k : String) : Bytes :=
  match d.named.find? (fun p => p.1 == k) with
  | some p => p.2
  | none => []

def isHTTP (k : Kind) : Bool := httpMethods.contains k

def verbOf : Kind → Bytes
  | .Get => [71, 69, 84] | .Post => [80, 79, 83, 84] | .Put => [80, 85, 84]
  | .Patch => [80, 65, 84, 67, 72] | .Delete => [68, 69, 76, 69, 84, 69] | _ => []

def jsonRpc20 : Bytes := [106, 115, 111, 110, 45, 114, 112, 99, 45, 50, 46, 48]   -- "json-rpc-2.0"
def v03 : Bytes := [48, 46, 51]                                                  -- "0.3"
def htmlFormEncoded : Bytes := [104, 116, 109, 108, 70, 111, 114, 109, 69, 110, 99, 111, 100, 101, 100]

example : jsonRpc20 = "json-rpc-2.0".toUTF8.toList := by with_unfolding_all decide
example : v03 = "0.3".toUTF8.toList := by with_unfolding_all decide
example : htmlFormEncoded = "htmlFormEncoded".toUTF8.toList := by with_unfolding_all decide

/-! ### `Directive.Path`, `HTTPMethod`, `JsonRpcMethodName`: walks of the parent chain (the directive first) -/

def chkPath (p : Bytes) : Except Msg Bytes :=
  if p.head? == some B.slash then .ok p else .error .incorrectPath

def pathChain : List BDir → Except Msg Bytes
  | [] => .error .pathNotFound
  | d :: r =>
    if d.kind == .URL then chkPath (d.param "Path")
    else if isHTTP d.kind && !(d.param "Path").isEmpty then chkPath (d.param "Path")
    else pathChain r

def methodChain : List BDir → Except Msg Kind
  | [] => .error .httpMethodNotFound
  | d :: r => if isHTTP d.kind then .ok d.kind else methodChain r

def rpcNameChain : List BDir → Except Msg Bytes
  | [] => .error .rpcMethodNotFound
  | d :: r => if d.kind == .Method then .ok (d.param "MethodName") else rpcNameChain r

inductive Proto where | http | rpc
  deriving Repr, DecidableEq

/-- an interaction id (`HTTPInteractionID` / `JsonRpcInteractionId`): ids of different protocols are never equal -/
structure IId where
  proto : Proto
  method : Bytes
  path : Bytes
  deriving Repr, DecidableEq

def IId.text (i : IId) : Bytes :=
  match i.proto with
  | .http => httpId i.method i.path
  | .rpc => rpcId i.method i.path

def httpIdOf (chain : List BDir) : Except Msg IId := do
  let p ← pathChain chain
  let k ← methodChain chain
  pure ⟨.http, verbOf k, p⟩

def rpcIdOf (chain : List BDir) : Except Msg IId := do
  let p ← pathChain chain
  let n ← rpcNameChain chain
  pure ⟨.rpc, n, p⟩

/-! ### the catalog skeleton -/

structure InfoM where
  id : Nat
  title : Bytes := []
  version : Bytes := []
  descr : Option Bytes := none
  deriving Repr, DecidableEq

structure ServerM where
  name : Bytes
  annot : Bytes
  baseUrl : Bytes := []
  deriving Repr, DecidableEq

structure TypeM where
  name : Bytes
  annot : Bytes
  nota : Bytes       -- "jsight" | "regex" | "any" | "empty"
  deriving Repr, DecidableEq

structure TagM where
  name : Bytes
  title : Bytes
  declared : Bool
  descr : Option Bytes := none
  http : List Bytes := []      -- texts of the HTTP interaction ids, in order
  rpc : List Bytes := []       -- texts of the JSON-RPC interaction ids
  deriving Repr, DecidableEq

structure BodyM where
  format : Bytes
  nota : Bytes
  deriving Repr, DecidableEq

structure RespM where
  id : Nat
  code : Bytes
  annot : Bytes
  body : Option BodyM := none
  headers : Bool := false
  deriving Repr, DecidableEq

structure ReqM where
  id : Nat
  body : Option BodyM := none
  headers : Bool := false
  deriving Repr, DecidableEq

structure QueryM where
  format : Bytes
  ex : Bytes
  deriving Repr, DecidableEq

structure InterM where
  iid : IId
  annot : Bytes
  descr : Option Bytes := none
  tags : List Bytes := []
  query : Option QueryM := none
  request : Option ReqM := none
  responses : List RespM := []
  params : Bool := false
  result : Bool := false
  deriving Repr, DecidableEq

structure Cat where
  jsight : Bytes := []
  info : Option InfoM := none
  servers : List ServerM := []
  types : List TypeM := []
  tags : List TagM := []
  inters : List InterM := []
  uniqURL : List Bytes := []             -- `core.uniqURLPath`
  similar : List (Bytes × Bytes) := []   -- `core.similarPaths` (an association list, first match = current value)
  protoURLs : List Nat := []             -- `core.onlyOneProtocolIntoURL`
  deriving Repr, DecidableEq

def Cat.hasInter (c : Cat) (i : IId) : Bool := c.inters.any (·.iid == i)
def Cat.getInter (c : Cat) (i : IId) : Option InterM := c.inters.find? (·.iid == i)
def Cat.updInter (c : Cat) (i : IId) (f : InterM → InterM) : Cat :=
  { c with inters := c.inters.map fun x => if x.iid == i then f x else x }
def Cat.getTag (c : Cat) (n : Bytes) : Option TagM := c.tags.find? (·.name == n)
def Cat.updTag (c : Cat) (n : Bytes) (f : TagM → TagM) : Cat :=
  { c with tags := c.tags.map fun x => if x.name == n then f x else x }

/-! ### notation -/

def nJsight : Bytes := [106, 115, 105, 103, 104, 116]
def nRegex : Bytes := [114, 101, 103, 101, 120]
def nAny : Bytes := [97, 110, 121]
def nEmpty : Bytes := [101, 109, 112, 116, 121]
def fJson : Bytes := [106, 115, 111, 110]
def fPlain : Bytes := [112, 108, 97, 105, 110, 83, 116, 114, 105, 110, 103]
def fBinary : Bytes := [98, 105, 110, 97, 114, 121]

example : [nJsight, nRegex, nAny, nEmpty, fJson, fPlain, fBinary]
    = ["jsight", "regex", "any", "empty", "json", "plainString", "binary"].map (·.toUTF8.toList) := by
  with_unfolding_all decide

/-- `notation.NewSchemaNotation` -/
def newNotation (s : Bytes) : Except Msg Bytes :=
  if s.isEmpty || s == nJsight then .ok nJsight
  else if s == nRegex then .ok nRegex
  else if s == nAny then .ok nAny
  else if s == nEmpty then .ok nEmpty
  else .error .unknownNotation

/-- `catalog.SchemaSerializeFormat` -/
def formatOf (n : Bytes) : Bytes :=
  if n == nJsight then fJson else if n == nRegex then fPlain else fBinary

def isAnyOrEmpty (n : Bytes) : Bool := n == nAny || n == nEmpty

/-! ### tags of an interaction (`catalog.tags`, `tagsFromTagsDirective`, `pathTag`) -/

def tagsChild (kids : List BDir) : Option BDir := kids.find? (·.kind == .Tags)

/-- `tagsFromTagsDirective`: the names of a Tags directive, each of which must be DECLARED -/
def tagsFromDirective (c : Cat) (td : BDir) : R (List Bytes) :=
  if !td.annot.isEmpty then fail td .annotationForbidden
  else if td.unnamed.isEmpty then fail td (.required "")
  else if td.unnamed.all (fun n => match c.getTag n with | some t => t.declared | none => false) then .ok td.unnamed
  else fail td .tagNotFound

/-- the tag names of a method directive and the catalog with the automatic tag added when one is needed -/
def tagsFor (c : Cat) (kids : List BDir) (anc : List Up) (i : IId) : R (List Bytes × Cat) :=
  match tagsChild kids with
  | some td => do let ns ← tagsFromDirective c td; pure (ns, c)
  | none =>
    let fromUrl : Option BDir := match anc with
      | u :: _ => if u.d.kind == .URL then tagsChild u.kids else none
      | [] => none
    match fromUrl with
    | some td => do let ns ← tagsFromDirective c td; pure (ns, c)
    | none =>
      let title := pathTagTitle i.path
      let name := tagName title
      match c.getTag name with
      | some _ => .ok ([name], c)
      | none => .ok ([name], { c with tags := c.tags ++ [{ name := name, title := title, declared := false }] })

def attach (i : IId) (t : TagM) : TagM :=
  match i.proto with
  | .http => { t with http := t.http ++ [i.text] }
  | .rpc => { t with rpc := t.rpc ++ [i.text] }

/-- `tagNames`: every named tag receives the interaction id (a tag named twice receives it twice) -/
def attachAll (c : Cat) (i : IId) : List Bytes → Cat
  | [] => c
  | n :: r => attachAll (c.updTag n (attach i)) i r

/-! ### `checkSimilarPaths` -/

def removeLastSegment (p : Bytes) : Bytes := joinSlash (splitPath p).dropLast

def lookup (m : List (Bytes × Bytes)) (k : Bytes) : Option Bytes := (m.find? (·.1 == k)).map (·.2)

def checkSimilar (m : List (Bytes × Bytes)) : List (Bytes × Bytes) → Option (List (Bytes × Bytes))
  | [] => some m
  | (path, par) :: r =>
    let key := removeLastSegment path
    match lookup m key with
    | some v => if v != par then none else checkSimilar ((key, par) :: m) r
    | none => checkSimilar ((key, par) :: m) r

def checkedParams (d : BDir) (path : Bytes) : R (List (Bytes × Bytes)) :=
  match checkedPathParameters path with
  | .ok pp => .ok pp
  | .error .empty => fail d .emptyPathParameter
  | .error (.dup _) => fail d .duplicatePathParameter

def liftAt {α} (d : BDir) : Except Msg α → R α
  | .ok a => .ok a
  | .error m => fail d m

/-! ### the `add…` functions -/

def addJSight (d : BDir) (c : Cat) : R Cat :=
  let v := d.param "Version"
  if v.isEmpty then fail d (.required "Version")
  else if v != v03 then fail d .unsupportedVersion
  else if !d.annot.isEmpty then fail d .annotationForbidden
  else if !c.jsight.isEmpty then fail d .jsightTwice
  else .ok { c with jsight := v }

def addInfo (d : BDir) (c : Cat) : R Cat :=
  if !d.named.isEmpty then fail d .parametersForbidden
  else if !d.annot.isEmpty then fail d .annotationForbidden
  else if c.info.isSome then fail d .infoTwice
  else .ok { c with info := some { id := d.id } }

def addTitle (d : BDir) (c : Cat) : R Cat :=
  let t := d.param "Title"
  if t.isEmpty then fail d (.required "Title")
  else if !d.annot.isEmpty then fail d .annotationForbidden
  else match c.info with
    | none => fail d .internal
    | some i => if !i.title.isEmpty then fail d .notUnique else .ok { c with info := some { i with title := t } }

def addVersion (d : BDir) (c : Cat) : R Cat :=
  let v := d.param "Version"
  if v.isEmpty then fail d (.required "Version")
  else if !d.annot.isEmpty then fail d .annotationForbidden
  else match c.info with
    | none => fail d .internal
    | some i => if !i.version.isEmpty then fail d .notUnique else .ok { c with info := some { i with version := v } }

def addDescription (d : BDir) (anc : List Up) (c : Cat) : R Cat :=
  if !d.annot.isEmpty then fail d .annotationForbidden
  else match d.body with
  | none => fail d .emptyDescription
  | some b =>
    match description b with
    | .error _ => fail d .descrParens
    | .ok text =>
      if text.isEmpty then fail d .emptyDescription
      else match anc with
      | [] => fail d .internal
      | p :: _ =>
        let chain := d :: anc.map (·.d)
        if p.d.kind == .Info then
          match c.info with
          | none => fail d .internal
          | some i => if i.descr.isSome then fail d .notUnique else .ok { c with info := some { i with descr := some text } }
        else if isHTTP p.d.kind then do
          let i ← liftAt d (httpIdOf chain)
          match c.getInter i with
          | none => fail d .resourceNotFound
          | some x => if x.descr.isSome then fail d .notUnique else pure (c.updInter i fun x => { x with descr := some text })
        else if p.d.kind == .Method then do
          let i ← liftAt d (rpcIdOf chain)
          match c.getInter i with
          | none => fail d .resourceNotFound
          | some x => if x.descr.isSome then fail d .notUnique else pure (c.updInter i fun x => { x with descr := some text })
        else if p.d.kind == .TAG then
          let n := p.d.param "TagName"
          match c.getTag n with
          | none => fail d .tagNotFound
          | some t => if t.descr.isSome then fail d .notUnique else .ok (c.updTag n fun t => { t with descr := some text })
        else fail d .wrongDescriptionContext

def addServer (d : BDir) (c : Cat) : R Cat :=
  let n := d.param "Name"
  if n.isEmpty then fail d (.required "Name")
  else if c.servers.any (·.name == n) then fail d .duplicateNames
  else .ok { c with servers := c.servers ++ [{ name := n, annot := d.annot }] }

def addBaseUrl (d : BDir) (anc : List Up) (c : Cat) : R Cat :=
  let p := d.param "Path"
  if p.isEmpty then fail d (.required "Path")
  else if !d.annot.isEmpty then fail d .annotationForbidden
  else match anc with
  | [] => fail d .internal
  | s :: _ =>
    let n := s.d.param "Name"
    match c.servers.find? (·.name == n) with
    | none => fail d .serverNotFound
    | some sv =>
      if !sv.baseUrl.isEmpty then fail d .baseUrlDefined
      else .ok { c with servers := c.servers.map fun x => if x.name == n then { x with baseUrl := p } else x }

def addType (d : BDir) (c : Cat) : R Cat :=
  let n := d.param "Name"
  if n.isEmpty then fail d (.required "Name")
  else if c.types.any (·.name == n) then fail d .duplicateNames
  else do
    let nt ← liftAt d (newNotation (d.param "SchemaNotation"))
    if (nt == nJsight || nt == nRegex) && d.body.isNone then fail d .emptyBody
    else pure { c with types := c.types ++ [{ name := n, annot := d.annot, nota := nt }] }

def isRpcChild (k : Kind) : Bool := k == .Protocol || k == .Method

/-- `checkJsonRpcUrlChildCompatible`: the first child that is not of the family of the first one (Tags apart) -/
def mixedChild (kids : List BDir) : Option BDir :=
  match kids.filter (·.kind != .Tags) with
  | [] => none
  | b :: r => r.find? (fun x => isRpcChild x.kind != isRpcChild b.kind)

def addURL (d : BDir) (kids : List BDir) (anc : List Up) (c : Cat) : R Cat :=
  if !d.annot.isEmpty then fail d .annotationForbidden
  else do
    let path ← liftAt d (pathChain (d :: anc.map (·.d)))
    let pp ← checkedParams d path
    match checkSimilar c.similar pp with
    | none => fail d .similarPaths
    | some sim =>
      if c.uniqURL.contains path then fail d .nonUniqueURL
      else match mixedChild kids with
        | some x => fail x .mixedUrlChildren
        | none => pure { c with similar := sim, uniqURL := path :: c.uniqURL }

def addHTTPMethod (d : BDir) (kids : List BDir) (anc : List Up) (c : Cat) : R Cat := do
  let chain := d :: anc.map (·.d)
  let path ← liftAt d (pathChain chain)
  let pp ← checkedParams d path
  match checkSimilar c.similar pp with
  | none => fail d .similarPaths
  | some sim =>
    let c := { c with similar := sim }
    let i ← liftAt d (httpIdOf chain)
    if c.hasInter i then fail d .methodDefined
    else do
      let (ns, c) ← tagsFor c kids anc i
      let c := attachAll c i ns
      pure { c with inters := c.inters ++ [{ iid := i, annot := d.annot, tags := ns }] }

def addQuery (d : BDir) (anc : List Up) (c : Cat) : R Cat :=
  if !d.annot.isEmpty then fail d .annotationForbidden
  else if d.body.isNone then fail d .emptyBody
  else do
    let f := if (d.param "Format").isEmpty then htmlFormEncoded else d.param "Format"
    let i ← liftAt d (httpIdOf (d :: anc.map (·.d)))
    match c.getInter i with
    | none => fail d .resourceNotFound
    | some x =>
      if x.query.isSome then fail d .notUnique
      else pure (c.updInter i fun x => { x with query := some { format := f, ex := d.param "QueryExample" } })

/-- `Catalog.AddRequestBody` -/
def addRequestBody (d : BDir) (anc : List Up) (b : BodyM) (c : Cat) : R Cat := do
  let i ← liftAt d (httpIdOf (d :: anc.map (·.d)))
  match c.getInter i with
  | none => fail d .resourceNotFound
  | some x =>
    match x.request with
    | none => fail d .requestEmpty
    | some r =>
      if r.body.isSome then fail d .notUnique
      else pure (c.updInter i fun x => { x with request := x.request.map fun r => { r with body := some b } })

/-- `addRequest` for a Request directive or a Body directive under a Request -/
def addRequest (d : BDir) (anc : List Up) (c : Cat) : R Cat :=
  if !d.annot.isEmpty then fail d .annotationForbidden
  else
    let sn := d.param "SchemaNotation"
    let typ := d.param "Type"
    if !sn.isEmpty && !typ.isEmpty then fail d .typeAndNotation
    else do
      let nt ← liftAt d (newNotation sn)
      let b : BodyM := { format := formatOf nt, nota := nt }
      let c ← if d.kind == .Request then do
          let i ← liftAt d (httpIdOf (d :: anc.map (·.d)))
          match c.getInter i with
          | some x =>
            -- `Catalog.AddRequest`: a second Request directive of one method is not unique (F40)
            if x.request.isSome then fail d .notUnique
            else pure (c.updInter i fun x => { x with request := some { id := d.id } })
          | none => pure c
        else pure c
      if nt == nJsight && !typ.isEmpty && d.body.isNone then addRequestBody d anc b c
      else if nt == nJsight && typ.isEmpty && d.body.isSome then addRequestBody d anc b c
      else if nt == nRegex && typ.isEmpty && d.body.isSome then addRequestBody d anc b c
      else if isAnyOrEmpty nt && d.body.isNone then addRequestBody d anc b c
      else if d.kind == .Body then fail d .incorrectRequest
      else pure c

/-- `Catalog.AddResponseBody` -/
def addResponseBody (d : BDir) (anc : List Up) (b : BodyM) (c : Cat) : R Cat := do
  let i ← liftAt d (httpIdOf (d :: anc.map (·.d)))
  match c.getInter i with
  | none => fail d .resourceNotFound
  | some x =>
    match x.responses.getLast? with
    | none => fail d .responsesEmpty
    | some r =>
      if r.body.isSome then fail d .notUnique
      else pure (c.updInter i fun x =>
        { x with responses := x.responses.dropLast ++ [{ r with body := some b }] })

/-- `addResponse` for a response directive or a Body directive under one -/
def addResponse (d : BDir) (anc : List Up) (c : Cat) : R Cat :=
  let sn := d.param "SchemaNotation"
  let typ := d.param "Type"
  -- F71: the annotation of a Body directive below a response was dropped silently (below a Request it is refused)
  if d.kind == .Body && !d.annot.isEmpty then fail d .annotationForbidden
  else if !sn.isEmpty && !typ.isEmpty then fail d .typeAndNotation
  else do
    let nt ← liftAt d (newNotation sn)
    let b : BodyM := { format := formatOf nt, nota := nt }
    let clash : Bool := d.kind == .Body && (match anc with
      | p :: _ => p.d.kind == .HTTPResponseCode && !typ.isEmpty && !(p.d.param "Type").isEmpty
      | [] => false)
    if clash then fail d .userTypeWithBody
    else do
      let c ← if d.kind == .HTTPResponseCode then do
          let i ← liftAt d (httpIdOf (d :: anc.map (·.d)))
          pure (c.updInter i fun x =>
            { x with responses := x.responses ++ [{ id := d.id, code := d.keyword, annot := d.annot }] })
        else pure c
      if !typ.isEmpty then addResponseBody d anc b c
      else if d.body.isSome then addResponseBody d anc b c
      else if isAnyOrEmpty nt then addResponseBody d anc b c
      else if d.kind == .Body then fail d .bodyIsEmpty
      else pure c

def addHeaders (d : BDir) (anc : List Up) (c : Cat) : R Cat :=
  if !d.annot.isEmpty then fail d .annotationForbidden
  else if d.body.isNone then fail d .emptyBody
  else match anc with
  | [] => fail d .internal
  | p :: _ =>
    if p.d.kind == .Request then do
      let i ← liftAt d (httpIdOf (d :: anc.map (·.d)))
      match c.getInter i with
      | none => fail d .resourceNotFound
      | some x =>
        match x.request with
        | none => fail d .requestEmpty
        | some r =>
          if r.headers then fail d .notUnique
          else pure (c.updInter i fun x => { x with request := x.request.map fun r => { r with headers := true } })
    else if p.d.kind == .HTTPResponseCode then do
      let i ← liftAt d (httpIdOf (d :: anc.map (·.d)))
      match c.getInter i with
      | none => fail d .resourceNotFound
      | some x =>
        match x.responses.getLast? with
        | none => fail d .responsesEmpty
        | some r =>
          if r.headers then fail d .notUnique
          else pure (c.updInter i fun x =>
            { x with responses := x.responses.dropLast ++ [{ r with headers := true }] })
    else fail d .headersContext

def addBody (d : BDir) (anc : List Up) (c : Cat) : R Cat :=
  match anc with
  | [] => fail d .internal
  | p :: _ =>
    if !p.d.named.isEmpty && p.d.kind != .Macro then fail p.d .parentParameters
    else if p.d.kind == .Request then addRequest d anc c
    else if p.d.kind == .HTTPResponseCode then addResponse d anc c
    else .ok c

def addProtocol (d : BDir) (anc : List Up) (c : Cat) : R Cat :=
  if !d.annot.isEmpty then fail d .annotationForbidden
  else if (d.param "ProtocolName").isEmpty then fail d (.required "ProtocolName")
  else if d.param "ProtocolName" != jsonRpc20 then fail d .protocolValue
  else match anc with
  | [] => fail d .internal
  | p :: _ =>
    if c.protoURLs.contains p.d.id then fail d .protocolNotUnique
    else .ok { c with protoURLs := p.d.id :: c.protoURLs }

def addJsonRpcMethod (d : BDir) (kids : List BDir) (anc : List Up) (c : Cat) : R Cat :=
  if (d.param "MethodName").isEmpty then fail d (.required "MethodName")
  else match anc with
  | [] => fail d .internal
  | p :: _ =>
    if !p.kids.any (·.kind == .Protocol) then fail d .protocolMissing
    else do
      let i ← liftAt d (rpcIdOf (d :: anc.map (·.d)))
      if c.hasInter i || c.inters.any (fun x => x.iid.text == i.text) then fail d .methodDefined
      else do
        let (ns, c) ← tagsFor c kids anc i
        let c := attachAll c i ns
        pure { c with inters := c.inters ++ [{ iid := i, annot := d.annot, tags := ns }] }

def addRpcSchema (isParams : Bool) (d : BDir) (anc : List Up) (c : Cat) : R Cat :=
  if !d.annot.isEmpty then fail d .annotationForbidden
  else if d.body.isNone then fail d .emptyBody
  else do
    let i ← liftAt d (rpcIdOf (d :: anc.map (·.d)))
    match c.getInter i with
    | none => fail d .rpcResourceNotFound
    | some x =>
      if isParams then
        if x.params then fail d .notUnique else pure (c.updInter i fun x => { x with params := true })
      else
        if x.result then fail d .notUnique else pure (c.updInter i fun x => { x with result := true })

/-- `d` is not the first Tags child of its parent (the test of `addTags`; it reads the directive and the children of its
parent only, never the catalog) -/
def secondTags (d : BDir) : List Up → Bool
  | p :: _ => (tagsChild p.kids).map (·.id) != some d.id
  | [] => false

/-- `addTags`: one context has one Tags directive (F72: only the first one is ever read by `tagsFor`; a second one was
validated and then ignored) -/
def addTags (d : BDir) (anc : List Up) (c : Cat) : R Cat :=
  if secondTags d anc then fail d .notUnique
  else do
    let _ ← tagsFromDirective c d
    pure c

/-- `addDirective`: the ban check, then the function registered for the directive's type (none for
Path, ENUM, TAG, MACRO, PASTE, INCLUDE) -/
def addDirective (banned : List Kind) (d : BDir) (kids : List BDir) (anc : List Up) (c : Cat) : R Cat :=
  if banned.contains d.kind then fail d .notAllowed
  else match d.kind with
  | .Jsight => addJSight d c
  | .Info => addInfo d c
  | .Title => addTitle d c
  | .Version => addVersion d c
  | .Description => addDescription d anc c
  | .Server => addServer d c
  | .BaseURL => addBaseUrl d anc c
  | .Type => addType d c
  | .URL => addURL d kids anc c
  | .Get | .Post | .Put | .Patch | .Delete => addHTTPMethod d kids anc c
  | .Query => addQuery d anc c
  | .Request => addRequest d anc c
  | .HTTPResponseCode => addResponse d anc c
  | .Headers => addHeaders d anc c
  | .Body => addBody d anc c
  | .Protocol => addProtocol d anc c
  | .Method => addJsonRpcMethod d kids anc c
  | .Params => addRpcSchema true d anc c
  | .Result => addRpcSchema false d anc c
  | .Tags => addTags d anc c
  | _ => .ok c

mutual
  /-- `addDirectiveBranch`: the directive, then its children in order -/
  def addBranch (banned : List Kind) (anc : List Up) : BTree → Cat → R Cat
    | .node d kids, c =>
      match addDirective banned d (kids.map BTree.dir) anc c with
      | .error e => .error e
      | .ok c' => addForest banned (⟨d, kids.map BTree.dir⟩ :: anc) kids c'
  def addForest (banned : List Kind) (anc : List Up) : List BTree → Cat → R Cat
    | [], c => .ok c
    | t :: r, c =>
      match addBranch banned anc t c with
      | .error e => .error e
      | .ok c' => addForest banned anc r c'
end

/-! ### the stages before and after -/

/-- `collectTags`: the TAG directives of the top level -/
def collectTags : List BTree → Cat → R Cat
  | [], c => .ok c
  | t :: r, c =>
    let d := t.dir
    if d.kind == .TAG then
      let n := d.param "TagName"
      if n.isEmpty then fail d (.required "TagName")
      else if (c.getTag n).isSome then fail d .duplicateNames
      else collectTags r { c with tags := c.tags ++ [{ name := n, title := if d.annot.isEmpty then n else d.annot, declared := true }] }
    else collectTags r c

/-- `collectRules` / `buildRule` / `Catalog.AddEnum` (core/compile_core_rules.go): the top-level ENUM directives of the
expanded forest are registered in source order; an ENUM without a name, an ENUM without a body and a second ENUM of one
name are refused (`seen` = the names registered so far).  The check of the body itself is the enum library's (outside the model:
every body is taken to be well formed).  This stage runs before `collectTags`; it is kept apart from `compile` (the
composed model `Project.process` and the `build` op of the driver run it first). -/
def checkRules : List BTree → List Bytes → R Unit
  | [], _ => .ok ()
  | t :: r, seen =>
    let d := t.dir
    if d.kind == .Enum then
      let n := d.param "Name"
      if n.isEmpty then fail d (.required "Name")
      else if d.body.isNone then fail d .emptyBody    -- F70: an ENUM without a body was dropped silently
      else if seen.contains n then fail d .duplicateNames
      else checkRules r (seen ++ [n])
    else checkRules r seen

/-- `checkUserTypeNames` -/
def checkTypeNames : List BTree → R Unit
  | [] => .ok ()
  | t :: r =>
    if t.dir.kind == .Type && (t.dir.param "Name").isEmpty then fail t.dir (.required "Name")
    else checkTypeNames r

mutual
  /-- `collectPaths` / `collectPathVariables`: `seen` = the identities of the contexts (parents) that already have a Path
  directive (the directive objects themselves, F44: copies made by PASTE share their coordinates, not their identity;
  F76: every context met so far is remembered, not only the last one) -/
  def pathsTree (anc : List BDir) : BTree → List Nat → R (List Nat)
    | .node d kids, seen =>
      if d.kind == .Macro then .ok seen
      else if d.kind == .Path then
        if !d.annot.isEmpty then fail d .annotationForbidden
        else if d.body.isNone then fail d .noPathBody
        else match pathChain (d :: anc) with
          | .error m => fail d m
          | .ok path =>
            match checkedParams d path with
            | .error e => .error e
            | .ok _ =>
              match anc with
              | [] => fail d .parentNotFound
              | p :: _ =>
                if seen.contains p.id then fail d .notUnique
                else pathsForest (d :: anc) kids (p.id :: seen)
      else pathsForest (d :: anc) kids seen
  def pathsForest (anc : List BDir) : List BTree → List Nat → R (List Nat)
    | [], seen => .ok seen
    | t :: r, seen =>
      match pathsTree anc t seen with
      | .error e => .error e
      | .ok seen' => pathsForest anc r seen'
end

def validateInfo (c : Cat) : R Unit :=
  match c.info with
  | some i => if i.title.isEmpty && i.version.isEmpty && i.descr.isNone then .error ⟨i.id, .emptyInfo⟩ else .ok ()
  | none => .ok ()

/-- `validateRequestBody`: the first interaction, in catalog order, whose Request has no body -/
def validateRequestBody : List InterM → R Unit
  | [] => .ok ()
  | x :: r =>
    match x.request with
    | some q => if q.body.isNone then .error ⟨q.id, .undefinedRequestBody⟩ else validateRequestBody r
    | none => validateRequestBody r

def firstBodyless : List RespM → Option RespM
  | [] => none
  | r :: rest => if r.body.isNone then some r else firstBodyless rest

def validateResponseBody : List InterM → R Unit
  | [] => .ok ()
  | x :: r =>
    match firstBodyless x.responses with
    | some q => .error ⟨q.id, .undefinedResponseBody⟩
    | none => validateResponseBody r

/-- the modelled part of `processJApiProject` after PASTE expansion -/
def compile (banned : List Kind) (forest : List BTree) : R Cat := do
  let c ← collectTags forest {}
  checkTypeNames forest
  let _ ← pathsForest [] forest []
  match forest with
  | t :: _ => if t.dir.kind != .Jsight then fail t.dir .jsightFirst else pure ()
  | [] => pure ()
  let c ← addForest banned [] forest c
  validateInfo c
  validateRequestBody c.inters
  validateResponseBody c.inters
  pure c

end JSight.Build
