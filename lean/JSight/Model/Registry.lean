import JSight.Basic
/-!
Name-level model of the catalog's collections (`catalog/setters.go`: Has-before-Set in every adder;
`core/compile_core_macro.go addMacro`; `core/build_catalog_directives.go addURL` uniqueness of URL paths):
a document, seen as the list of its named declarations, is accepted iff no (collection, key) pair occurs
twice; the diagnostic is located at the second occurrence; accepted documents list their entries in source order.
-/
namespace JSight.Reg

inductive Coll where
  | types | enums | servers | tags | macros | urls | interactions
  deriving DecidableEq, Repr

structure Decl where
  coll : Coll
  key : Nat        -- the name / path / rendered interaction id
  id : Nat         -- position of the directive in the source
  deriving DecidableEq, Repr

abbrev Entries := List (Coll × Nat)

/-- one adder: `if c.X.Has(key) { return error }; c.X.Set(key, …)` -/
def add (es : Entries) (d : Decl) : Except Nat Entries :=
  if es.contains (d.coll, d.key) then .error d.id else .ok (es ++ [(d.coll, d.key)])

def addAll (es : Entries) : List Decl → Except Nat Entries
  | [] => .ok es
  | d :: r => match add es d with
    | .error i => .error i
    | .ok es' => addAll es' r

/-- the entries of one collection, in order (what the ordered map serialises) -/
def collection (es : Entries) (c : Coll) : List Nat := (es.filter (·.1 == c)).map (·.2)

end JSight.Reg
