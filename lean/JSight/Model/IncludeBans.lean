import JSight.Model.Include
/-!
`core.WithBannedDirectives` during the scan of a multi-file project: `Model/Include.lean` with the ban checks of
`core/scan_project.go setCurrentDirective` (a keyword of a banned kind is refused when it is read — after the
previous directive has been placed and after the JSIGHT-in-an-included-file check) and of `core/include.go
processInclude` (after the directive written before it has been placed, a banned INCLUDE is refused before its file
name is validated or looked up).  As in `Model/Include.lean`, the unclosed-parenthesis check of `processEOF` is made at
the end of the ROOT file only (repair of `processEOF`).
-/
namespace JSight
open Gen

inductive ProjErrB where
  | notAllowed (inFile pos : Nat)      -- "directive not allowed (…)" at that token
  | inc (e : InclErr)
  | ctx (e : CtxErr)
  deriving DecidableEq, Repr

def ProjErr.toB : ProjErr → ProjErrB
  | .inc e => .inc e
  | .ctx e => .ctx e

def flushPendingB (st : PScan) : Except ProjErrB PScan :=
  match flushPending st with
  | .ok s => .ok s
  | .error e => .error e.toB

def scanIncFileB (banned : List Kind) (fs : FS) : Nat → List (Nat × Nat) → Nat → Nat → List FTok → PScan → Except ProjErrB PScan
  | 0, _, _, _, _, _ => .error (.inc .fuel)
  | _ + 1, stack, _, _, [], st =>
    match flushPendingB st with
    | .error e => .error e
    | .ok st' => if stack.isEmpty && anyExplicit st'.ctx.frames then .error (.ctx .unclosedAtEOF) else .ok st'
  | fuel + 1, stack, cur, pos, t :: rest, st =>
    match t with
    | .dir d =>
      match flushPendingB st with
      | .error e => .error e
      | .ok st' =>
        if d.kind == Kind.Jsight && !stack.isEmpty then .error (.inc (.jsightInIncluded cur pos))
        else if banned.contains d.kind then .error (.notAllowed cur pos)
        else scanIncFileB banned fs fuel stack cur (pos + 1) rest
          { st' with pending := some d, traces := st'.traces ++ [(d.id, stack)] }
    | .close =>
      match flushPendingB st with
      | .error e => .error e
      | .ok st' =>
        match closeExplicit st'.ctx.frames st'.ctx.roots with
        | .error e => .error (.ctx e)
        | .ok c => scanIncFileB banned fs fuel stack cur (pos + 1) rest { st' with ctx := c }
    | .incl f valid =>
      match flushPendingB st with
      | .error e => .error e
      | .ok st =>
      if banned.contains Kind.Include then .error (.notAllowed cur pos)
      else if !valid then .error (.inc (.badName cur pos))
      else match fs.get? f with
        | none => .error (.inc (.missing cur pos))
        | some .directory => .error (.inc (.isDirectory cur pos))
        | some (.file toks) =>
          if stack.any (·.1 == cur) then .error (.inc (.recursion cur pos))
          else match scanIncFileB banned fs fuel ((cur, pos) :: stack) f 0 toks st with
            | .error e => .error e
            | .ok st' => scanIncFileB banned fs fuel stack cur (pos + 1) rest st'

def scanProjectB (banned : List Kind) (fs : FS) (root : Nat) :
    Except ProjErrB (List Tree × List (Nat × List (Nat × Nat))) :=
  match fs.get? root with
  | some (.file toks) =>
    match scanIncFileB banned fs ((fs.length + 2) * (fsSize fs + 2) + 2) [] root 0 toks {} with
    | .error e => .error e
    | .ok st => .ok (closeAll st.ctx.frames st.ctx.roots, st.traces)
  | _ => .error (.inc (.missing root 0))

end JSight
