import JSight.Basic
/-!
Model of `scanner.firstInvalidUTF8` (Go's `utf8.DecodeRune` validity: RFC 3629 well-formed sequences).
-/
namespace JSight

def isCont (c : UInt8) : Bool := 0x80 ≤ c && c ≤ 0xBF

/-- length of the well-formed UTF-8 sequence at the head of the list, 0 if there is none -/
def utf8SeqLen : Bytes → Nat
  | [] => 0
  | a :: r =>
    if a < 0x80 then 1
    else if 0xC2 ≤ a && a ≤ 0xDF then
      match r with
      | b :: _ => if isCont b then 2 else 0
      | _ => 0
    else if 0xE0 ≤ a && a ≤ 0xEF then
      match r with
      | b :: c :: _ =>
        let lo : UInt8 := if a == 0xE0 then 0xA0 else 0x80
        let hi : UInt8 := if a == 0xED then 0x9F else 0xBF
        if lo ≤ b && b ≤ hi && isCont c then 3 else 0
      | _ => 0
    else if 0xF0 ≤ a && a ≤ 0xF4 then
      match r with
      | b :: c :: d :: _ =>
        let lo : UInt8 := if a == 0xF0 then 0x90 else 0x80
        let hi : UInt8 := if a == 0xF4 then 0x8F else 0xBF
        if lo ≤ b && b ≤ hi && isCont c && isCont d then 4 else 0
      | _ => 0
    else 0

/-- index of the first byte that is not part of a well-formed sequence -/
def firstInvalidUTF8 (b : Bytes) : Option Nat :=
  go b.length 0 b
where
  go : Nat → Nat → Bytes → Option Nat
    | 0, _, _ => none
    | _ + 1, _, [] => none
    | fuel + 1, i, s@(_ :: _) =>
      let n := utf8SeqLen s
      if n == 0 then some i else go fuel (i + n) (s.drop n)

end JSight
