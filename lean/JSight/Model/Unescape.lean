import JSight.Basic
/-!
Model of `directive/parameter.go unescapeParameter` (after the single-pass repair, F21)
and of the schema library's `bytes.Bytes.InQuotes`.

Go:
```
if !b.InQuotes() { return b }
b = b[1 : len(b)-1]
if IndexByte(b, '\\') == -1 { return b }
for i := 0; i < len(b); i++ {
  if b[i] == '\\' && i+1 < len(b) && (b[i+1] == '"' || b[i+1] == '\\') { i++ }
  c = append(c, b[i])
}
```
-/
namespace JSight

/-- `len(b) >= 2 && b[0] == '"' && b[len(b)-1] == '"'` -/
def inQuotes (b : Bytes) : Bool :=
  decide (2 ≤ b.length) && b.head? == some B.quote && b.getLast? == some B.quote

/-- the decoding loop over the text between the quotes -/
def unescBody : Bytes → Bytes
  | [] => []
  | [c] => [c]
  | c :: d :: rest =>
    if c == B.bsl && (d == B.quote || d == B.bsl) then d :: unescBody rest
    else c :: unescBody (d :: rest)

def unescape (b : Bytes) : Bytes :=
  if inQuotes b then unescBody (b.drop 1).dropLast else b

/-- Specification-side encoder: the quoted spelling of a value (`"` and `\` escaped by a backslash). -/
def escBody : Bytes → Bytes
  | [] => []
  | c :: rest => if c == B.quote || c == B.bsl then B.bsl :: c :: escBody rest else c :: escBody rest

def quoteParam (v : Bytes) : Bytes := B.quote :: (escBody v ++ [B.quote])

end JSight
