import JSight.Basic
/-!
Model of `core/description.go description` (after F19 and F27: a whitespace-only line does not limit
the common indentation) and `catalog/annotation.go Annotation`.
Byte level.  `bytes.TrimSpace` / `strings.TrimSpace` are modelled exactly for every byte string
(`trimSpaceU`: the ASCII spaces and the UTF-8 encodings of the Unicode spaces of `unicode.IsSpace`;
an invalid or truncated sequence is U+FFFD for Go, not a space, so trimming stops there).
The regexp `\s` of `Annotation` is ASCII only in Go (`[\t\n\f\r ]`), and so it is here.
-/
namespace JSight

/-- `ReplaceAll("\r\n","\n")` then `ReplaceAll("\r","\n")` -/
def normNL : Bytes → Bytes
  | [] => []
  | [c] => if c == B.cr then [B.lf] else [c]
  | c :: d :: r =>
    if c == B.cr then
      if d == B.lf then B.lf :: normNL r else B.lf :: normNL (d :: r)
    else c :: normNL (d :: r)

def isNL (c : UInt8) : Bool := c == B.lf || c == B.cr
def isBlankHT (c : UInt8) : Bool := c == B.sp || c == B.tab
/-- ASCII white space of `bytes.TrimSpace` / `unicode.IsSpace` below 0x80: \t \n \v \f \r space -/
def isAsciiSpace (c : UInt8) : Bool := c == 9 || c == 10 || c == 11 || c == 12 || c == 13 || c == 32

def trimLeft (p : UInt8 → Bool) (b : Bytes) : Bytes := b.dropWhile p
def trimRight (p : UInt8 → Bool) (b : Bytes) : Bytes := (b.reverse.dropWhile p).reverse
def trimBoth (p : UInt8 → Bool) (b : Bytes) : Bytes := trimRight p (trimLeft p b)

/-- The byte sequences that `bytes.TrimSpace` / `strings.TrimSpace` remove: the six ASCII spaces and the
UTF-8 encodings of the other runes of `unicode.IsSpace`: U+0085, U+00A0, U+1680, U+2000 … U+200A,
U+2028, U+2029, U+202F, U+205F, U+3000. -/
def spaceSeqs : List Bytes :=
  [[9], [10], [11], [12], [13], [32],
   [0xC2, 0x85], [0xC2, 0xA0], [0xE1, 0x9A, 0x80],
   [0xE2, 0x80, 0x80], [0xE2, 0x80, 0x81], [0xE2, 0x80, 0x82], [0xE2, 0x80, 0x83], [0xE2, 0x80, 0x84],
   [0xE2, 0x80, 0x85], [0xE2, 0x80, 0x86], [0xE2, 0x80, 0x87], [0xE2, 0x80, 0x88], [0xE2, 0x80, 0x89],
   [0xE2, 0x80, 0x8A], [0xE2, 0x80, 0xA8], [0xE2, 0x80, 0xA9], [0xE2, 0x80, 0xAF], [0xE2, 0x81, 0x9F],
   [0xE3, 0x80, 0x80]]

/-- the same sequences read from the end of a string -/
def spaceSeqsRev : List Bytes := spaceSeqs.map List.reverse

/-- As long as the string starts with one of the sequences of `P`, drop that sequence.
(`go` has the length of the string as fuel: every sequence is non-empty.) -/
def trimLeftSeqs (P : List Bytes) (b : Bytes) : Bytes :=
  go b b.length
where
  go (b : Bytes) : Nat → Bytes
    | 0 => b
    | fuel + 1 =>
      match P.find? (·.isPrefixOf b) with
      | some p => go (b.drop p.length) fuel
      | none => b

/-- `TrimLeftFunc(b, unicode.IsSpace)`: `DecodeRune` yields a space rune exactly when the string starts with
its (shortest-form) encoding; anything else — also an invalid byte, decoded as U+FFFD — stops the trimming. -/
def trimLeftU (b : Bytes) : Bytes := trimLeftSeqs spaceSeqs b

/-- `TrimRightFunc(b, unicode.IsSpace)`: `DecodeLastRune` yields a space rune exactly when the string ends
with its encoding. -/
def trimRightU (b : Bytes) : Bytes := (trimLeftSeqs spaceSeqsRev b.reverse).reverse

/-- `bytes.TrimSpace` / `strings.TrimSpace`, for every byte string (valid UTF-8 or not): left, then right -/
def trimSpaceU (b : Bytes) : Bytes := trimRightU (trimLeftU b)

inductive DescrErr | parens
  deriving DecidableEq, Repr

/-- `descriptionRemoveParentheses` -/
def removeParens (b : Bytes) : Except DescrErr Bytes :=
  let bb := trimSpaceU b
  if 2 ≤ bb.length ∧ bb.head? = some B.lpar ∧ bb.getLast? = some B.rpar then
    let inner := trimBoth isBlankHT (bb.drop 1).dropLast
    match inner.head?, inner.getLast? with
    | some f, some l =>
      if isNL f && isNL l then .ok (trimBoth isNL inner) else .error .parens
    | _, _ => .error .parens
  else .ok b

/-- `trimLeadingBlankLines`: drop leading lines that are empty or blank (only when a '\n' follows). -/
def trimLeadingBlankLines (b : Bytes) : Bytes :=
  go b b.length
where
  go (b : Bytes) : Nat → Bytes
    | 0 => b
    | fuel + 1 =>
      let line := b.takeWhile (· != B.lf)
      if line.length < b.length ∧ line.all isBlankHT then go (b.drop (line.length + 1)) fuel
      else b

/-- `bytes.Split(b, "\n")` (never empty) -/
def splitLines : Bytes → List Bytes
  | [] => [[]]
  | c :: r =>
    if c == B.lf then [] :: splitLines r
    else match splitLines r with
      | [] => [[c]]
      | h :: t => (c :: h) :: t

def joinLines : List Bytes → Bytes
  | [] => []
  | [a] => a
  | a :: r => a ++ B.lf :: joinLines r

/-- the first loop of `longestWhitespacePrefix`: `bb[0][:i]` for the first `i` with a non-blank byte
or `i = len-1`; empty if the loop never breaks (empty first line). -/
def firstPrefix (l : Bytes) : Bytes :=
  go [] l
where
  go (acc : Bytes) : Bytes → Bytes
    | [] => []                                     -- loop ended without break
    | [_] => acc                                   -- i == len-1
    | c :: r => if !isBlankHT c then acc else go (acc ++ [c]) r

/-- shrink `prefix` until it is a prefix of `l` -/
def shrinkTo (l : Bytes) (pre : Bytes) : Bytes :=
  go pre pre.length
where
  go (pre : Bytes) : Nat → Bytes
    | 0 => pre
    | fuel + 1 => if pre.isPrefixOf l then pre else go pre.dropLast fuel

def longestWhitespacePrefix (lines : List Bytes) : Bytes :=
  match lines with
  | [] => []
  | l0 :: rest =>
    let p0 := firstPrefix l0
    if p0.isEmpty then []
    else rest.foldl (fun pre l => if pre.isEmpty then [] else if l.all isBlankHT then pre else shrinkTo l pre) p0

def trimPrefix (pre l : Bytes) : Bytes := if pre.isPrefixOf l then l.drop pre.length else l

def isTrimRightSet (c : UInt8) : Bool := c == B.cr || c == B.lf || c == B.tab || c == B.sp

def description (b : Bytes) : Except DescrErr Bytes :=
  match removeParens (normNL b) with
  | .error e => .error e
  | .ok b1 =>
    let b2 := trimRight isTrimRightSet (trimLeadingBlankLines b1)
    let lines := splitLines b2
    let pre := longestWhitespacePrefix lines
    .ok (joinLines (lines.map (trimPrefix pre)))

/-- `Annotation`: `strings.TrimSpace` then collapse every run of `\s` (= [\t\n\f\r ]) to one space.
TrimSpace also trims \v (0x0b) and the multi-byte Unicode spaces, the regexp `\s` does not match them. -/
def isReSpace (c : UInt8) : Bool := c == 9 || c == 10 || c == 12 || c == 13 || c == 32

def collapseWsAux (inSpace : Bool) : Bytes → Bytes
  | [] => []
  | c :: r =>
    if isReSpace c then (if inSpace then collapseWsAux true r else B.sp :: collapseWsAux true r)
    else c :: collapseWsAux false r

def collapseWs (b : Bytes) : Bytes := collapseWsAux false b

def annotation (s : Bytes) : Bytes := collapseWs (trimSpaceU s)

end JSight
