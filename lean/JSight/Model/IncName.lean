import JSight.Model.TagName
/-!
Model of `core/include.go validateIncludeFileName` (after the component-wise repair, F12)
and a lexical model of `path/filepath.Join / Dir / Clean` on Unix.
-/
namespace JSight

def isInfixOf (pat : Bytes) : Bytes → Bool
  | [] => pat.isEmpty
  | s@(_ :: r) => pat.isPrefixOf s || isInfixOf pat r

inductive IncErr | empty | absolute | dotPart | backslash
  deriving DecidableEq, Repr

/-- `validateIncludeFileName`.  `s[0]` on the empty string is a Go panic: modelled as `.empty`
(the caller never passes an empty name: a parameter lexeme is never empty — C14). -/
def validName (s : Bytes) : Except IncErr Unit :=
  match s with
  | [] => .error .empty
  | c :: _ =>
    if c == B.slash then .error .absolute
    else if isInfixOf [47,46,47] s || isInfixOf [46,47] s || isInfixOf [47,46] s
         || isInfixOf [47,46,46,47] s || isInfixOf [46,46,47] s || isInfixOf [47,46,46] s then .error .dotPart
    else if (splitSlash s).any (fun p => p = [B.dot] ∨ p = [B.dot, B.dot]) then .error .dotPart
    else if s.contains B.bsl then .error .backslash
    else .ok ()

/-! ### Lexical path model (Unix `filepath`) -/

/-- `Clean` on the components of a path: the stack algorithm.  `rooted` paths drop `..` at the root,
relative paths keep leading `..`. -/
def cleanComps (rooted : Bool) (acc : List Bytes) : List Bytes → List Bytes
  | [] => acc
  | c :: r =>
    if c = [] ∨ c = [B.dot] then cleanComps rooted acc r
    else if c = [B.dot, B.dot] then
      match acc.getLast? with
      | some l =>
        if l = [B.dot, B.dot] then cleanComps rooted (acc ++ [c]) r      -- only for relative paths
        else cleanComps rooted acc.dropLast r
      | none => if rooted then cleanComps rooted acc r else cleanComps rooted (acc ++ [c]) r
    else cleanComps rooted (acc ++ [c]) r

def isRooted (p : Bytes) : Bool := p.head? == some B.slash

/-- `filepath.Clean` -/
def pathClean (p : Bytes) : Bytes :=
  let comps := cleanComps (isRooted p) [] (splitSlash p)
  if isRooted p then B.slash :: joinSlash' comps
  else if comps.isEmpty then [B.dot] else joinSlash' comps
where
  joinSlash' : List Bytes → Bytes
    | [] => []
    | [a] => a
    | a :: r => a ++ B.slash :: joinSlash' r

/-- `filepath.Join(a, b)`: empty elements are ignored, the result is cleaned; all-empty gives "". -/
def pathJoin (a b : Bytes) : Bytes :=
  if a.isEmpty && b.isEmpty then []
  else if a.isEmpty then pathClean b
  else if b.isEmpty then pathClean a
  else pathClean (a ++ B.slash :: b)

/-- `filepath.Dir`: everything up to the last slash, cleaned ("." if there is none). -/
def pathDir (p : Bytes) : Bytes :=
  let rec lastSlash (s : Bytes) (i : Nat) (best : Option Nat) : Option Nat :=
    match s with
    | [] => best
    | c :: r => lastSlash r (i + 1) (if c == B.slash then some i else best)
  match lastSlash p 0 none with
  | none => [B.dot]
  | some i => pathClean (p.take (i + 1))

end JSight
