import JSight.Model.PathPar
/-!
Model of `core/compile_catalog.go BuildResourceMethodsPathVariables`: the binding of the `{name}` segments of
the HTTP paths to the properties declared by the Path directives of the project.

Every Path directive contributes `parameters` (the (prefix path, name) pairs of its own path, computed by
`PathParameters` at collection time) and the property keys of its body (an object; the keys are read from the
schema library's tree — an oracle here).  The project-wide table maps a PREFIX PATH to the declaring
directive; an interaction lists, in path order, those of its own parameters whose prefix is in the table.
-/
namespace JSight.PathBind
open JSight

structure RawPV where
  id : Nat                          -- the Path directive
  params : List (Bytes × Bytes)     -- `parameters`: (prefix path, parameter name)
  props : List Bytes                -- keys of the body object
  deriving Repr, DecidableEq

inductive BindErr where
  | alreadyDefined (id : Nat) (name : Bytes)   -- "The parameter %q has already been defined earlier"
  | unused (id : Nat) (names : List Bytes)     -- "Has unused parameters %q in schema"
  deriving Repr, DecidableEq

/-- `allProjectProperties`: prefix path ↦ (declaring directive, property) -/
abbrev PMap := List (Bytes × (Nat × Bytes))

def PMap.get (m : PMap) (pre : Bytes) : Option (Nat × Bytes) := (m.find? (·.1 == pre)).map (·.2)

/-- the loop over `v.parameters`: `pp` = the properties not yet matched (`delete(pp, p.parameter)`) -/
def bindParams (id : Nat) : List (Bytes × Bytes) → List Bytes → PMap → Except BindErr (PMap × List Bytes)
  | [], pp, m => .ok (m, pp)
  | (pre, name) :: r, pp, m =>
    if pp.contains name then
      if (m.get pre).isSome then .error (.alreadyDefined id name)
      else bindParams id r (pp.filter (· != name)) ((pre, (id, name)) :: m)
    else bindParams id r pp m

def bindOne (m : PMap) (v : RawPV) : Except BindErr PMap :=
  match bindParams v.id v.params v.props m with
  | .error e => .error e
  | .ok (m', rest) => if rest.isEmpty then .ok m' else .error (.unused v.id rest)

def bindAll : List RawPV → PMap → Except BindErr PMap
  | [], m => .ok m
  | v :: r, m =>
    match bindOne m v with
    | .error e => .error e
    | .ok m' => bindAll r m'

/-- the path variables of an interaction: (parameter name, declaring directive), in path order -/
def variablesOf (m : PMap) (path : Bytes) : List (Bytes × Nat) :=
  (pathParameters path).filterMap fun (pre, name) => (m.get pre).map fun (id, _) => (name, id)

end JSight.PathBind
