import JSight.Basic
/-!
Model of `catalog/tag_name.go tagName`, `catalog/tag.go pathTagTitle` and of Go's
`net/url.PathEscape` (byte level; `shouldEscape(c, encodePathSegment)` + upper-case hex).

```
func tagName(title string) TagName {
	if title == "/" { return "@_" }
	title = strings.Replace(title, "/", "@", 1)
	title = strings.ReplaceAll(title, "_", "__")
	title = url.PathEscape(title)
	title = strings.ReplaceAll(title, "%", "_")
```
-/
namespace JSight

def isAlnum (c : UInt8) : Bool :=
  (97 ≤ c && c ≤ 122) || (65 ≤ c && c ≤ 90) || (48 ≤ c && c ≤ 57)

/-- `url.shouldEscape(c, encodePathSegment)` -/
def shouldEscape (c : UInt8) : Bool :=
  !(isAlnum c
    || c == 45 || c == 95 || c == 46 || c == 126            -- - _ . ~
    || c == 36 || c == 38 || c == 43 || c == 58 || c == 61 || c == 64)   -- $ & + : = @

def upperHex (n : Nat) : UInt8 := if n < 10 then UInt8.ofNat (48 + n) else UInt8.ofNat (55 + n)

def pathEscape (s : Bytes) : Bytes :=
  s.flatMap fun c => if shouldEscape c then [B.pct, upperHex (c.toNat / 16), upperHex (c.toNat % 16)] else [c]

/-- `strings.Replace(s, "/", "@", 1)` -/
def replaceFirstSlash : Bytes → Bytes
  | [] => []
  | c :: r => if c == B.slash then B.at_ :: r else c :: replaceFirstSlash r

/-- `strings.ReplaceAll(s, "_", "__")` -/
def doubleUs (s : Bytes) : Bytes := s.flatMap fun c => if c == B.us then [B.us, B.us] else [c]

/-- `strings.ReplaceAll(s, "%", "_")` -/
def pctToUs (s : Bytes) : Bytes := s.map fun c => if c == B.pct then B.us else c

def tagName (title : Bytes) : Bytes :=
  if title = [B.slash] then [B.at_, B.us]
  else pctToUs (pathEscape (doubleUs (replaceFirstSlash title)))

/-- `strings.Split(s, "/")` (never empty) -/
def splitSlash : Bytes → List Bytes
  | [] => [[]]
  | c :: r =>
    if c == B.slash then [] :: splitSlash r
    else match splitSlash r with
      | [] => [[c]]          -- unreachable: splitSlash never returns []
      | h :: t => (c :: h) :: t

/-- drop leading components that are "" or "." -/
def dropEmptyDot : List Bytes → List Bytes
  | [] => []
  | p :: r => if p = [] ∨ p = [B.dot] then dropEmptyDot r else p :: r

def pathTagTitle (path : Bytes) : Bytes :=
  match dropEmptyDot (splitSlash path) with
  | [] => [B.slash]
  | p :: _ => B.slash :: p

end JSight
