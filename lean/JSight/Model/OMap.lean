import JSight.Basic
/-!
Model of the generated insertion-ordered collections (`catalog/*_gen.go`, `directive/directives_gen.go`,
templates in `internal/cmd/generator/*.go`): a Go map `data` plus a slice `order`.
The Go map is modelled as an association list that is only ever accessed through `lookup`, `store`.
The `sync.RWMutex` is modelled separately (`Model/RWLock.lean`).
-/
namespace JSight

structure OMap (κ ν : Type) where
  data : List (κ × ν) := []       -- the Go map: at most one pair per key (invariant)
  order : List κ := []
  deriving Repr

namespace OMap
variable {κ ν : Type} [DecidableEq κ]

def lookup (m : OMap κ ν) (k : κ) : Option ν := (m.data.find? (·.1 == k)).map (·.2)

/-- `m.data[k] = v` -/
def store (d : List (κ × ν)) (k : κ) (v : ν) : List (κ × ν) :=
  if d.any (·.1 == k) then d.map (fun p => if p.1 == k then (k, v) else p) else d ++ [(k, v)]

def has (m : OMap κ ν) (k : κ) : Bool := m.data.any (·.1 == k)

/-- `Set`: append the key to `order` if new, then store -/
def set (m : OMap κ ν) (k : κ) (v : ν) : OMap κ ν :=
  { data := store m.data k v, order := if m.has k then m.order else m.order ++ [k] }

/-- `SetToTop`: prepend the key to `order` if new, then store -/
def setToTop (m : OMap κ ν) (k : κ) (v : ν) : OMap κ ν :=
  { data := store m.data k v, order := if m.has k then m.order else k :: m.order }

/-- `Update`: only if present -/
def update (m : OMap κ ν) (k : κ) (f : ν → ν) : OMap κ ν :=
  match m.lookup k with
  | some v => { m with data := store m.data k (f v) }
  | none => m

def len (m : OMap κ ν) : Nat := m.data.length

/-- what `Each` / `MarshalJSON` visit: the keys in `order` with their values -/
def entries (m : OMap κ ν) : List (κ × Option ν) := m.order.map fun k => (k, m.lookup k)

/-- `Map`: replace every value, in order -/
def mapVals (m : OMap κ ν) (f : κ → ν → ν) : OMap κ ν :=
  m.order.foldl (fun acc k => acc.update k (f k)) m

/-- the representation invariant: `order` has no duplicates, the map has one pair per key, and both
hold the same keys -/
def Inv (m : OMap κ ν) : Prop :=
  m.order.Nodup ∧ (m.data.map (·.1)).Nodup ∧ ∀ k, k ∈ m.order ↔ k ∈ m.data.map (·.1)

inductive Op (κ ν : Type) where
  | set (k : κ) (v : ν)
  | setToTop (k : κ) (v : ν)
  | update (k : κ) (f : ν → ν)
  | mapVals (f : κ → ν → ν)

def apply (m : OMap κ ν) : Op κ ν → OMap κ ν
  | .set k v => m.set k v
  | .setToTop k v => m.setToTop k v
  | .update k f => m.update k f
  | .mapVals f => m.mapVals f

def run (m : OMap κ ν) (ops : List (Op κ ν)) : OMap κ ν := ops.foldl apply m

/-- abstract specification: a finite map as a function, and the list of keys in order of appearance -/
def specFun : List (Op κ ν) → (κ → Option ν) → (κ → Option ν)
  | [], g => g
  | .set k v :: r, g => specFun r (fun x => if x = k then some v else g x)
  | .setToTop k v :: r, g => specFun r (fun x => if x = k then some v else g x)
  | .update k f :: r, g => specFun r (fun x => if x = k then (g k).map f else g x)
  | .mapVals f :: r, g => specFun r (fun x => (g x).map (f x))

end OMap

/-- `StringSet` (`catalog/string_set_gen.go`): `NewStringSet(vv…)`, `Add`, `Data` — a set that keeps insertion order -/
structure OSet (κ : Type) where
  order : List κ := []
  deriving Repr

namespace OSet
variable {κ : Type} [DecidableEq κ]
def add (s : OSet κ) (k : κ) : OSet κ := if s.order.contains k then s else { order := s.order ++ [k] }
def ofList (ks : List κ) : OSet κ := ks.foldl add {}
end OSet

end JSight
