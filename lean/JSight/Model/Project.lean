import JSight.Model.Scanner
import JSight.Model.Param
import JSight.Model.Descr
import JSight.Model.Context
import JSight.Model.Paste
import JSight.Model.Build
/-!
The composed model of a single-file project: bytes → lexemes (`Model/Scanner`, the regenerated table) →
directives with their parameters, annotation, body and parenthesis flag (`assemble`: model of
`core/scan_project.go` — `next`, `processKeyword`, `setCurrentDirective`, `checkBannedDirective`, `processParameter`,
`processAnnotation`, `processBody`, `processContextBegin`, `processContextEnd`, `processEOF`,
`processCurrentDirective` — with `directive.NewDirectiveType` / `IsHTTPResponseCode`, `Param.appendParameter`,
`Descr.annotation`) → directive forest (`Model/Context`) → expanded forest (`Model/Paste`) → catalog skeleton
(`Model/Build`), i.e. `core.processJApiProject` without the stages that live inside the schema library.

INCLUDE is not part of this model (single file): an INCLUDE keyword ends the run with `.includeSeen`.
The multi-file scan is modelled at token level in `Model/Include.lean`.

Every diagnostic carries the byte index the real code reports.
-/
namespace JSight.Project
open JSight Gen

/-! ### `directive.NewDirectiveType` -/

/-- `strconv.Atoi` on an optional sign and decimal digits; `none` when it is not a number (an overflowing number is
mapped to a value outside every range of interest, which is what matters to the caller) -/
def atoi (s : Bytes) : Option Int :=
  let (neg, ds) := match s with
    | 43 :: r => (false, r)
    | 45 :: r => (true, r)
    | _ => (false, s)
  if ds.isEmpty || !(ds.all isDigit) then none
  else
    let v : Nat := ds.foldl (fun n c => n * 10 + (c.toNat - 48)) 0
    some (if neg then - (v : Int) else (v : Int))

/-- `directive.IsHTTPResponseCode` -/
def isHTTPResponseCode (s : Bytes) : Bool :=
  match atoi s with
  | none => false
  | some code => s.head? != some 48 && decide (100 ≤ code) && decide (code ≤ 599)

/-- `directive.NewDirectiveType`: the name table first (without "HTTP-response-code"), then the response codes -/
def kindOfKeyword (kw : Bytes) : Option Kind :=
  match Kind.all.find? (fun k => k != Kind.HTTPResponseCode && k.name.toUTF8.toList == kw) with
  | some k => some k
  | none => if isHTTPResponseCode kw then some Kind.HTTPResponseCode else none

/-! ### the directive being assembled -/

/-- what `core` accumulates for one directive while its lexemes arrive -/
structure RDir where
  kind : Kind
  pos : Nat                          -- `keywordCoords.begin`: the identity of the directive (single file)
  keyword : Bytes
  params : Param.Params := {}
  annot : Bytes := []                -- after `catalog.Annotation`
  body : Option (Nat × Nat) := none  -- `BodyCoords`: [b, e1)
  explicit : Bool := false
  deriving Repr

def RDir.param (r : RDir) (k : String) : Bytes :=
  match r.params.named.find? (fun p => p.1 == k) with
  | some p => p.2
  | none => []

/-- an injective code of a macro name (0 = no name) -/
def nameCode (b : Bytes) : Nat := if b.isEmpty then 0 else b.foldl (fun n c => n * 256 + c.toNat) 1

/-- what the context resolution and the expansion read of it -/
def RDir.toDir (r : RDir) : Dir :=
  { kind := r.kind, hasPath := !(r.param "Path").isEmpty, explicit := r.explicit,
    name := if r.kind == Kind.Macro || r.kind == Kind.Paste then nameCode (r.param "Name") else 0,
    annot := !r.annot.isEmpty, id := r.pos }

inductive PErr where
  | scan (idx : Nat)                      -- a diagnostic of the scanner
  | fault (f : Fault)                     -- what Go would panic / hang on
  | oracleMiss (enum : Bool) (cur : Nat)  -- correspondence runs only
  | includeSeen (idx : Nat)               -- outside this model
  | unknownDirective (idx : Nat)
  | notAllowed (idx : Nat)                -- a banned kind, refused when its keyword is read
  | noDirective (idx : Nat)               -- "there is no directive for the …"
  | param (e : Param.PErr) (idx : Nat)
  | ctx (e : CtxErr) (idx : Nat)
  | paste (e : PasteErr)
  | build (e : Build.BErr) (idx : Nat) (bodyEnd : Nat)   -- keyword position of the directive; end of its body
  deriving Repr

structure ASt where
  cur : Option RDir := none
  ctx : Ctx := {}
  done : List RDir := []     -- the directives placed so far, latest first
  deriving Repr

/-- index a context error is reported at: the keyword of the directive, or `scanner.CurrentIndex() - 1` -/
def ctxErrIdx (cur : Nat) : CtxErr → Nat
  | .incorrectContext id => id
  | .pathMethodInExplicit id => id
  | .noExplicitToClose => cur - 1
  | .unclosedAtEOF => cur - 1

/-- `processCurrentDirective` -/
def flush (st : ASt) : Except PErr ASt :=
  match st.cur with
  | none => .ok st
  | some r =>
    match place st.ctx.frames st.ctx.roots r.toDir with
    | .error e => .error (.ctx e (ctxErrIdx 0 e))
    | .ok c => .ok { cur := none, ctx := c, done := r :: st.done }

def includeName : Bytes := "INCLUDE".toUTF8.toList

/-- `core.next` (and `drainCurrentScanner`'s INCLUDE test) for one lexeme; `cur` is the scanner's index when the
lexeme was delivered -/
def step (d : Src) (banned : List Kind) (st : ASt) (lex : Lexeme) (cur : Nat) : Except PErr ASt :=
  let val := d.slice lex.b lex.e1
  match lex.ty with
  | .keyword =>
    if val == includeName then .error (.includeSeen lex.b)
    else
      match flush st with
      | .error e => .error e
      | .ok st1 =>
        match kindOfKeyword val with
        | none => .error (.unknownDirective lex.b)
        | some k =>
          if banned.contains k then .error (.notAllowed lex.b)
          else .ok { st1 with cur := some { kind := k, pos := lex.b, keyword := val } }
  | .parameter =>
    match st.cur with
    | none => .error (.noDirective lex.b)
    | some r =>
      match Param.appendParameter r.kind r.params val with
      | .error e => .error (.param e lex.b)
      | .ok p => .ok { st with cur := some { r with params := p } }
  | .annotation =>
    match st.cur with
    | none => .error (.noDirective lex.b)
    | some r => .ok { st with cur := some { r with annot := annotation val } }
  | .schema | .text | .json | .enum =>
    match st.cur with
    | none => .error (.noDirective lex.b)
    | some r => .ok { st with cur := some { r with body := some (lex.b, lex.e1) } }
  | .contextOpen =>
    match st.cur with
    | none => .error (.noDirective lex.b)
    | some r => .ok { st with cur := some { r with explicit := true } }
  | .contextClose =>
    match flush st with
    | .error e => .error e
    | .ok st1 =>
      match closeExplicit st1.ctx.frames st1.ctx.roots with
      | .error e => .error (.ctx e (ctxErrIdx cur e))
      | .ok c => .ok { st1 with ctx := c }

def steps (d : Src) (banned : List Kind) : ASt → List (Lexeme × Nat) → Except PErr ASt
  | st, [] => .ok st
  | st, (lex, cur) :: r =>
    match step d banned st lex cur with
    | .error e => .error e
    | .ok st' => steps d banned st' r

/-- `lexAll` that also records the scanner's index at the moment each lexeme is delivered -/
def lexAllC (d : Src) (o : Oracle) : Nat → Sc → List (Lexeme × Nat) → List (Lexeme × Nat) × Option Stop × Sc
  | 0, sc, acc => (acc.reverse, some (.fault .fuel), sc)
  | n + 1, sc, acc =>
    match next d o (4 * (d.size + 2)) sc with
    | .error s => (acc.reverse, some s, sc)
    | .ok (none, sc') => (acc.reverse, none, sc')
    | .ok (some lex, sc') => lexAllC d o n sc' ((lex, sc'.cur) :: acc)

/-- the scan of a single file (`scanProject`): the directive forest and the assembled directives -/
def scan (content : Bytes) (o : Oracle) (banned : List Kind) : Except PErr (List Tree × List RDir) :=
  match firstInvalidUTF8 content with
  | some i => .error (.scan i)
  | none =>
    let d := Src.ofArray content.toArray
    let (lexs, stop, sc) := lexAllC d o (d.size + 2) Sc.init []
    match steps d banned {} lexs with
    | .error e => .error e
    | .ok st =>
      match stop with
      | some (.diag i) => .error (.scan i)
      | some (.fault f) => .error (.fault f)
      | some (.oracleMiss e c) => .error (.oracleMiss e c)
      | none =>
        -- `processEOF`
        match flush st with
        | .error e => .error e
        | .ok st1 =>
          if anyExplicit st1.ctx.frames then .error (.ctx .unclosedAtEOF (sc.cur - 1))
          else .ok (closeAll st1.ctx.frames st1.ctx.roots, st1.done)

/-! ### decoration: the expanded forest with everything the catalog construction reads -/

def findDir (done : List RDir) (pos : Nat) : Option RDir := done.find? (·.pos == pos)

def toBDir (d : Src) (done : List RDir) (id : Nat) (x : Dir) : Build.BDir :=
  match findDir done x.id with
  | some r =>
    { kind := x.kind, id := id, src := r.pos + 1, keyword := r.keyword, named := r.params.named,
      unnamed := r.params.unnamed, annot := r.annot, body := r.body.map fun (b, e1) => d.slice b e1 }
  | none => { kind := x.kind, id := id, src := x.id + 1 }

mutual
  /-- pre-order numbering, as the catalog-construction model expects -/
  def decoTree (d : Src) (done : List RDir) : Tree → Nat → Build.BTree × Nat
    | .node x kids, id =>
      let (ks, id') := decoForest d done kids (id + 1)
      (.node (toBDir d done id x) ks, id')
  def decoForest (d : Src) (done : List RDir) : List Tree → Nat → List Build.BTree × Nat
    | [], id => ([], id)
    | t :: r, id =>
      let (t', id1) := decoTree d done t id
      let (r', id2) := decoForest d done r id1
      (t' :: r', id2)
end

mutual
  def preorderT : Tree → List Dir
    | .node x kids => x :: preorderF kids
  def preorderF : List Tree → List Dir
    | [] => []
    | t :: r => preorderT t ++ preorderF r
end

/-- where a diagnostic of the catalog construction is located: the keyword of the directive with that number
(and the end of its body, for the one diagnostic that points into a Description body) -/
def buildErrAt (done : List RDir) (expanded : List Tree) (e : Build.BErr) : PErr :=
  match (preorderF expanded)[e.id]? with
  | some x =>
    let be := match findDir done x.id with
      | some r => (match r.body with | some (_, e1) => e1 | none => x.id)
      | none => x.id
    .build e x.id be
  | none => .build e 0 0

/-- `processJApiProject` of a single-file project, up to the catalog skeleton -/
def process (content : Bytes) (o : Oracle) (banned : List Kind) : Except PErr Build.Cat :=
  match scan content o banned with
  | .error e => .error e
  | .ok (forest, done) =>
    match expand forest with
    | .error e => .error (.paste e)
    | .ok expanded =>
      let d := Src.ofArray content.toArray
      let (bf, _) := decoForest d done expanded 0
      match Build.compile banned bf with
      | .error e => .error (buildErrAt done expanded e)
      | .ok c => .ok c

end JSight.Project
