import JSight.Model.Scanner
import JSight.Model.Param
import JSight.Model.Descr
import JSight.Model.Context
import JSight.Model.Paste
import JSight.Model.Build
import JSight.Model.IncName
/-!
The composed model of a single-file project: bytes → lexemes (`Model/Scanner`, the regenerated table) →
directives with their parameters, annotation, body and parenthesis flag (`assemble`: model of
`core/scan_project.go` — `next`, `processKeyword`, `setCurrentDirective`, `checkBannedDirective`, `processParameter`,
`processAnnotation`, `processBody`, `processContextBegin`, `processContextEnd`, `processEOF`,
`processCurrentDirective` — with `directive.NewDirectiveType` / `IsHTTPResponseCode`, `Param.appendParameter`,
`Descr.annotation`) → directive forest (`Model/Context`) → expanded forest (`Model/Paste`) → catalog skeleton
(`Model/Build`), i.e. `core.processJApiProject` without the stages that live inside the schema library.

INCLUDE is not part of this model (single file): an INCLUDE keyword ends the run with `.includeSeen`.
The multi-file scan is modelled at token level in `Model/Include.lean`.

Every diagnostic carries the byte index the real code reports.
-/
namespace JSight.Project
open JSight Gen

/-! ### `directive.NewDirectiveType` -/

/-- `strconv.Atoi` on an optional sign and decimal digits; `none` when it is not a number (an overflowing number is
mapped to a value outside every range of interest, which is what matters to the caller) -/
def atoi (s : Bytes) : Option Int :=
  let (neg, ds) := match s with
    | 43 :: r => (false, r)
    | 45 :: r => (true, r)
    | _ => (false, s)
  if ds.isEmpty || !(ds.all isDigit) then none
  else
    let v : Nat := ds.foldl (fun n c => n * 10 + (c.toNat - 48)) 0
    some (if neg then - (v : Int) else (v : Int))

/-- `directive.IsHTTPResponseCode` -/
def isHTTPResponseCode (s : Bytes) : Bool :=
  match atoi s with
  | none => false
  | some code => s.head? != some 48 && decide (100 ≤ code) && decide (code ≤ 599)

/-- `directive.NewDirectiveType`: the name table first (without "HTTP-response-code"), then the response codes -/
def kindOfKeyword (kw : Bytes) : Option Kind :=
  match Kind.all.find? (fun k => k != Kind.HTTPResponseCode && k.name.toUTF8.toList == kw) with
  | some k => some k
  | none => if isHTTPResponseCode kw then some Kind.HTTPResponseCode else none

/-! ### the directive being assembled -/

/-- what `core` accumulates for one directive while its lexemes arrive -/
structure RDir where
  kind : Kind
  pos : Nat                          -- `keywordCoords.begin`: the identity of the directive (single file)
  keyword : Bytes
  params : Param.Params := {}
  annot : Bytes := []                -- after `catalog.Annotation`
  body : Option (Nat × Nat) := none  -- `BodyCoords`: [b, e1)
  explicit : Bool := false
  deriving Repr

def RDir.param (r : RDir) (k : String) : Bytes :=
  match r.params.named.find? (fun p => p.1 == k) with
  | some p => p.2
  | none => []

/-- an injective code of a macro name (0 = no name) -/
def nameCode (b : Bytes) : Nat := if b.isEmpty then 0 else b.foldl (fun n c => n * 256 + c.toNat) 1

/-- what the context resolution and the expansion read of it -/
def RDir.toDir (r : RDir) : Dir :=
  { kind := r.kind, hasPath := !(r.param "Path").isEmpty, explicit := r.explicit,
    name := if r.kind == Kind.Macro || r.kind == Kind.Paste then nameCode (r.param "Name") else 0,
    annot := !r.annot.isEmpty, id := r.pos }

/-- the diagnostics of `processInclude` and of the JSIGHT-in-an-included-file check (projects of several files) -/
inductive IncFault where
  | required | badName | missing | isDirectory | recursion | jsightInIncluded
  deriving Repr, DecidableEq

inductive PErr where
  | incl (k : IncFault) (idx : Nat)       -- projects of several files: at the INCLUDE (JSIGHT) keyword
  | scan (idx : Nat)                      -- a diagnostic of the scanner
  | fault (f : Fault)                     -- what Go would panic / hang on
  | oracleMiss (enum : Bool) (cur : Nat)  -- correspondence runs only
  | includeSeen (idx : Nat)               -- outside this model
  | unknownDirective (idx : Nat)
  | notAllowed (idx : Nat)                -- a banned kind, refused when its keyword is read
  | noDirective (idx : Nat)               -- "there is no directive for the …"
  | jsightNotFirst (idx : Nat)            -- "JSIGHT should be the first directive", when a JSIGHT directive is placed (F80)
  | param (e : Param.PErr) (idx : Nat)
  | ctx (e : CtxErr) (idx : Nat)
  | paste (e : PasteErr)
  | build (e : Build.BErr) (idx : Nat) (bodyEnd : Nat)   -- keyword position of the directive; end of its body
  deriving Repr

structure ASt where
  cur : Option RDir := none
  ctx : Ctx := {}
  done : List RDir := []     -- the directives placed so far, latest first
  deriving Repr

/-- index a context error is reported at: the keyword of the directive, or `scanner.CurrentIndex() - 1` -/
def ctxErrIdx (cur : Nat) : CtxErr → Nat
  | .incorrectContext id => id
  | .pathMethodInExplicit id => id
  | .noExplicitToClose => cur - 1
  | .unclosedAtEOF => cur - 1

/-- the directive placed first, when it is not a JSIGHT directive (F80): a JSIGHT directive placed later is refused -/
def firstNotJsight (done : List RDir) : Option RDir :=
  match done.getLast? with
  | some f => if f.kind != Kind.Jsight then some f else none
  | none => none

/-- `processCurrentDirective` -/
def flush (st : ASt) : Except PErr ASt :=
  match st.cur with
  | none => .ok st
  | some r =>
    match place st.ctx.frames st.ctx.roots r.toDir with
    | .error e => .error (.ctx e (ctxErrIdx 0 e))
    | .ok c =>
      -- F80: JSIGHT is the first directive of the document, whatever stands before it (also a MACRO, which the check
      -- of the catalog stage does not see); the diagnostic is located at the first directive
      match (if r.kind == Kind.Jsight then firstNotJsight st.done else none) with
      | some f => .error (.jsightNotFirst f.pos)
      | none => .ok { cur := none, ctx := c, done := r :: st.done }

def includeName : Bytes := "INCLUDE".toUTF8.toList

/-- `core.next` (and `drainCurrentScanner`'s INCLUDE test) for one lexeme; `cur` is the scanner's index when the
lexeme was delivered -/
def step (d : Src) (banned : List Kind) (st : ASt) (lex : Lexeme) (cur : Nat) : Except PErr ASt :=
  let val := d.slice lex.b lex.e1
  match lex.ty with
  | .keyword =>
    if val == includeName then .error (.includeSeen lex.b)
    else
      match flush st with
      | .error e => .error e
      | .ok st1 =>
        match kindOfKeyword val with
        | none => .error (.unknownDirective lex.b)
        | some k =>
          if banned.contains k then .error (.notAllowed lex.b)
          else .ok { st1 with cur := some { kind := k, pos := lex.b, keyword := val } }
  | .parameter =>
    match st.cur with
    | none => .error (.noDirective lex.b)
    | some r =>
      match Param.appendParameter r.kind r.params val with
      | .error e => .error (.param e lex.b)
      | .ok p => .ok { st with cur := some { r with params := p } }
  | .annotation =>
    match st.cur with
    | none => .error (.noDirective lex.b)
    | some r => .ok { st with cur := some { r with annot := annotation val } }
  | .schema | .text | .json | .enum =>
    match st.cur with
    | none => .error (.noDirective lex.b)
    | some r => .ok { st with cur := some { r with body := some (lex.b, lex.e1) } }
  | .contextOpen =>
    match st.cur with
    | none => .error (.noDirective lex.b)
    | some r =>
      -- a directive has one context to open: a second "(" has no directive to belong to (F45)
      if r.explicit then .error (.noDirective lex.b)
      else .ok { st with cur := some { r with explicit := true } }
  | .contextClose =>
    match flush st with
    | .error e => .error e
    | .ok st1 =>
      match closeExplicit st1.ctx.frames st1.ctx.roots with
      | .error e => .error (.ctx e (ctxErrIdx cur e))
      | .ok c => .ok { st1 with ctx := c }

def steps (d : Src) (banned : List Kind) : ASt → List (Lexeme × Nat) → Except PErr ASt
  | st, [] => .ok st
  | st, (lex, cur) :: r =>
    match step d banned st lex cur with
    | .error e => .error e
    | .ok st' => steps d banned st' r

/-- `lexAll` that also records the scanner's index at the moment each lexeme is delivered -/
def lexAllC (d : Src) (o : Oracle) : Nat → Sc → List (Lexeme × Nat) → List (Lexeme × Nat) × Option Stop × Sc
  | 0, sc, acc => (acc.reverse, some (.fault .fuel), sc)
  | n + 1, sc, acc =>
    match next d o (4 * (d.size + 2)) sc with
    | .error s => (acc.reverse, some s, sc)
    | .ok (none, sc') => (acc.reverse, none, sc')
    | .ok (some lex, sc') => lexAllC d o n sc' ((lex, sc'.cur) :: acc)

/-- the scan of a single file (`scanProject`): the directive forest and the assembled directives -/
def scan (content : Bytes) (o : Oracle) (banned : List Kind) : Except PErr (List Tree × List RDir) :=
  match firstInvalidUTF8 content with
  | some i => .error (.scan i)
  | none =>
    let d := Src.ofArray content.toArray
    let (lexs, stop, sc) := lexAllC d o (d.size + 2) Sc.init []
    match steps d banned {} lexs with
    | .error e => .error e
    | .ok st =>
      match stop with
      | some (.diag i) => .error (.scan i)
      | some (.fault f) => .error (.fault f)
      | some (.oracleMiss e c) => .error (.oracleMiss e c)
      | none =>
        -- `processEOF`
        match flush st with
        | .error e => .error e
        | .ok st1 =>
          if anyExplicit st1.ctx.frames then .error (.ctx .unclosedAtEOF (sc.cur - 1))
          else .ok (closeAll st1.ctx.frames st1.ctx.roots, st1.done)

/-! ### decoration: the expanded forest with everything the catalog construction reads -/

def findDir (done : List RDir) (pos : Nat) : Option RDir := done.find? (·.pos == pos)

def toBDir (d : Src) (done : List RDir) (id : Nat) (x : Dir) : Build.BDir :=
  match findDir done x.id with
  | some r =>
    { kind := x.kind, id := id, src := r.pos + 1, keyword := r.keyword, named := r.params.named,
      unnamed := r.params.unnamed, annot := r.annot, body := r.body.map fun (b, e1) => d.slice b e1 }
  | none => { kind := x.kind, id := id, src := x.id + 1 }

mutual
  /-- pre-order numbering, as the catalog-construction model expects -/
  def decoTree (d : Src) (done : List RDir) : Tree → Nat → Build.BTree × Nat
    | .node x kids, id =>
      let (ks, id') := decoForest d done kids (id + 1)
      (.node (toBDir d done id x) ks, id')
  def decoForest (d : Src) (done : List RDir) : List Tree → Nat → List Build.BTree × Nat
    | [], id => ([], id)
    | t :: r, id =>
      let (t', id1) := decoTree d done t id
      let (r', id2) := decoForest d done r id1
      (t' :: r', id2)
end

mutual
  def preorderT : Tree → List Dir
    | .node x kids => x :: preorderF kids
  def preorderF : List Tree → List Dir
    | [] => []
    | t :: r => preorderT t ++ preorderF r
end

/-- where a diagnostic of the catalog construction is located: the keyword of the directive with that number
(and the end of its body, for the one diagnostic that points into a Description body) -/
def buildErrAt (done : List RDir) (expanded : List Tree) (e : Build.BErr) : PErr :=
  match (preorderF expanded)[e.id]? with
  | some x =>
    let be := match findDir done x.id with
      | some r => (match r.body with | some (_, e1) => e1 | none => x.id)
      | none => x.id
    .build e x.id be
  | none => .build e 0 0

/-- `processJApiProject` of a single-file project, up to the catalog skeleton -/
def process (content : Bytes) (o : Oracle) (banned : List Kind) : Except PErr Build.Cat :=
  match scan content o banned with
  | .error e => .error e
  | .ok (forest, done) =>
    match expand forest with
    | .error e => .error (.paste e)
    | .ok expanded =>
      let d := Src.ofArray content.toArray
      let (bf, _) := decoForest d done expanded 0
      match Build.checkRules bf [] with
      | .error e => .error (buildErrAt done expanded e)
      | .ok _ =>
      match Build.compile banned bf with
      | .error e => .error (buildErrAt done expanded e)
      | .ok c => .ok c

/-! ## projects of several files: INCLUDE at the level of bytes

`core/include.go processInclude / getIncludedFilePath`, `scanner/stack.go Push / Pop`, the `scanProject` loop and the
JSIGHT-in-an-included-file check of `processKeyword`, over the lexeme streams of the files (each file has its own scanner,
which is suspended at the INCLUDE and resumed after the included file).  The file system is a list of (cleaned path
relative to the directory of the root file, content or directory); the included path is
`filepath.Join(filepath.Dir(including file), written name)` in the lexical model of `Model/IncName.lean`.

A directive is identified by (file, keyword position), coded as `pos * n + file` where `n` is the number of entries of the
file system. -/

/-- a file system: path (cleaned, relative to the root file's directory) ↦ content, or a directory -/
abbrev PFS := List (Bytes × Option Bytes)

def PFS.find (fs : PFS) (path : Bytes) : Option (Nat × Option Bytes) :=
  let rec go (i : Nat) : List (Bytes × Option Bytes) → Option (Nat × Option Bytes)
    | [] => none
    | (p, c) :: r => if p == path then some (i, c) else go (i + 1) r
  go 0 fs

/-- where a diagnostic is: the file (index in the file system) and the diagnostic of the single-file vocabulary -/
structure FErr where
  file : Nat
  err : PErr
  deriving Repr

/-- the scan of one file: its lexemes (with the scanner's index at each delivery), how the scan ended, the final index -/
structure FScan where
  lexs : List (Lexeme × Nat)
  stop : Option Stop
  endCur : Nat

def scanBytes (content : Bytes) (o : Oracle) : FScan :=
  match firstInvalidUTF8 content with
  | some i => { lexs := [], stop := some (.diag i), endCur := 0 }
  | none =>
    let d := Src.ofArray content.toArray
    let (l, s, sc) := lexAllC d o (d.size + 2) Sc.init []
    { lexs := l, stop := s, endCur := sc.cur }

def codeId (n file pos : Nat) : Nat := pos * n + file
def idFile (n id : Nat) : Nat := id % n
def idPos (n id : Nat) : Nat := id / n

/-- `processCurrentDirective` in a project: a context error is located at the directive's own file and keyword -/
def flushF (n : Nat) (st : ASt) : Except FErr ASt :=
  match st.cur with
  | none => .ok st
  | some r =>
    match place st.ctx.frames st.ctx.roots r.toDir with
    | .error e => .error ⟨idFile n r.pos, .ctx e (idPos n r.pos)⟩
    | .ok c =>
      match (if r.kind == Kind.Jsight then firstNotJsight st.done else none) with
      | some f => .error ⟨idFile n f.pos, .jsightNotFirst (idPos n f.pos)⟩
      | none => .ok { cur := none, ctx := c, done := r :: st.done }

/-- diagnostics of `processInclude`, all located at the INCLUDE keyword -/
def incErr (file pos : Nat) (k : IncFault) : FErr := ⟨file, .incl k pos⟩

/-- the lexemes of one file, with INCLUDE handled by `incl` (the scan of the included file, given the new stack) -/
def runLexs (n : Nat) (d : Src) (name : Bytes) (fs : PFS) (banned : List Kind) (stop : Option Stop)
    (incl : List (Nat × Nat) → Nat → ASt → Except FErr ASt) (stack : List (Nat × Nat)) (f : Nat) :
    List (Lexeme × Nat) → ASt → Except FErr ASt
  | [], st => .ok st
  | (lex, cur) :: rest, st =>
    let val := d.slice lex.b lex.e1
    if lex.ty == .keyword && val == includeName then
      -- `processInclude`
      match flushF n st with
      | .error e => .error e
      | .ok st1 =>
        if banned.contains Kind.Include then .error ⟨f, .notAllowed lex.b⟩
        else
          match rest with
          | [] =>
            -- `core.scanner.Next()` for the file name: the scanner's own error, or no lexeme at all
            (match stop with
             | some (.diag i) => .error ⟨f, .scan i⟩
             | some (.fault x) => .error ⟨f, .fault x⟩
             | some (.oracleMiss e c) => .error ⟨f, .oracleMiss e c⟩
             | none => .error (incErr f lex.b .required))
          | (p, _) :: rest' =>
            if p.ty != .parameter then .error (incErr f lex.b .required)
            else
              -- the file name may be quoted, as every other parameter (F46)
              let path := unescape (d.slice p.b p.e1)
              if path.isEmpty then .error (incErr f lex.b .required) else
              match validName path with
              | .error _ => .error (incErr f lex.b .badName)
              | .ok _ =>
                match fs.find (pathJoin (pathDir name) path) with
                | none => .error (incErr f lex.b .missing)
                | some (_, none) => .error (incErr f lex.b .isDirectory)
                | some (g, some _) =>
                  if stack.any (·.1 == f) then .error (incErr f lex.b .recursion)
                  else
                    match incl ((f, lex.b) :: stack) g st1 with
                    | .error e => .error e
                    | .ok st2 => runLexs n d name fs banned stop incl stack f rest' st2
    else if lex.ty == .keyword && !stack.isEmpty && val == "JSIGHT".toUTF8.toList then
      -- `processKeyword`: the previous directive is placed first, then JSIGHT is refused in an included file
      match flushF n st with
      | .error e => .error e
      | .ok _ => .error (incErr f lex.b .jsightInIncluded)
    else
      -- every other lexeme: as in a single file, with the identity of a directive coded with its file
      let lex' : Lexeme := lex
      match st.cur, lex.ty with
      | _, .keyword =>
        (match flushF n st with
         | .error e => .error e
         | .ok st1 =>
           match kindOfKeyword val with
           | none => .error ⟨f, .unknownDirective lex.b⟩
           | some k =>
             if banned.contains k then .error ⟨f, .notAllowed lex.b⟩
             else runLexs n d name fs banned stop incl stack f rest
               { st1 with cur := some { kind := k, pos := codeId n f lex.b, keyword := val } })
      | _, .contextClose =>
        (match flushF n st with
         | .error e => .error e
         | .ok st1 =>
           match closeExplicit st1.ctx.frames st1.ctx.roots with
           | .error e => .error ⟨f, .ctx e (ctxErrIdx cur e)⟩
           | .ok c => runLexs n d name fs banned stop incl stack f rest { st1 with ctx := c })
      | _, _ =>
        match step d banned st lex' cur with
        | .error e => .error ⟨f, e⟩
        | .ok st' => runLexs n d name fs banned stop incl stack f rest st'

/-- `scanProject` from the file `f` on: its lexemes, its scanner's end, `processEOF`, `Pop` -/
def runFile (fs : PFS) (o : Nat → Oracle) (banned : List Kind) :
    Nat → List (Nat × Nat) → Nat → ASt → Except FErr ASt
  | 0, _, f, _ => .error ⟨f, .fault .fuel⟩
  | fuel + 1, stack, f, st =>
    match fs[f]? with
    | some (name, some content) =>
      let sc := scanBytes content (o f)
      let d := Src.ofArray content.toArray
      match runLexs fs.length d name fs banned sc.stop (runFile fs o banned fuel) stack f sc.lexs st with
      | .error e => .error e
      | .ok st1 =>
        match sc.stop with
        | some (.diag i) => .error ⟨f, .scan i⟩
        | some (.fault x) => .error ⟨f, .fault x⟩
        | some (.oracleMiss e c) => .error ⟨f, .oracleMiss e c⟩
        | none =>
          match flushF fs.length st1 with
          | .error e => .error e
          | .ok st2 =>
            -- repaired `processEOF`: "not all explicit contexts are closed" only at the end of the ROOT file
            -- (`scannersStack.Empty()`; the root is the file run with the empty stack)
            if stack.isEmpty && anyExplicit st2.ctx.frames then .error ⟨f, .ctx .unclosedAtEOF (sc.endCur - 1)⟩
            else .ok st2
    | _ => .error ⟨f, .fault .nilDeref⟩

/-- body bytes of a directive of a project -/
def toBDirF (fs : PFS) (done : List RDir) (id : Nat) (x : Dir) : Build.BDir :=
  match findDir done x.id with
  | some r =>
    let content : Bytes := match fs[idFile fs.length r.pos]? with
      | some (_, some c) => c
      | _ => []
    let d := Src.ofArray content.toArray
    { kind := x.kind, id := id, src := r.pos + 1, keyword := r.keyword, named := r.params.named,
      unnamed := r.params.unnamed, annot := r.annot, body := r.body.map fun (b, e1) => d.slice b e1 }
  | none => { kind := x.kind, id := id, src := x.id + 1 }

mutual
  def decoTreeF (fs : PFS) (done : List RDir) : Tree → Nat → Build.BTree × Nat
    | .node x kids, id =>
      let (ks, id') := decoForestF fs done kids (id + 1)
      (.node (toBDirF fs done id x) ks, id')
  def decoForestF (fs : PFS) (done : List RDir) : List Tree → Nat → List Build.BTree × Nat
    | [], id => ([], id)
    | t :: r, id =>
      let (t', id1) := decoTreeF fs done t id
      let (r', id2) := decoForestF fs done r id1
      (t' :: r', id2)
end

/-- `processJApiProject` of a project of several files (the root is entry 0 of the file system) -/
def processFS (fs : PFS) (o : Nat → Oracle) (banned : List Kind) : Except FErr Build.Cat :=
  let n := fs.length
  match runFile fs o banned (n + 2) [] 0 {} with
  | .error e => .error e
  | .ok st =>
    let forest := closeAll st.ctx.frames st.ctx.roots
    match expand forest with
    | .error e =>
      let loc : Nat := match e with
        | .annotation id | .nameMissing id | .emptyMacro id | .duplicate id | .recursion id | .notFound id | .inPaste id => id
        | .ctx (.incorrectContext id) | .ctx (.pathMethodInExplicit id) => id
        | _ => 0
      .error ⟨idFile n loc, .paste e⟩
    | .ok expanded =>
      let (bf, _) := decoForestF fs st.done expanded 0
      let located (e : Build.BErr) : FErr :=
        match buildErrAt st.done expanded e with
        | .build e' i be => ⟨idFile n i, .build e' i be⟩
        | x => ⟨0, x⟩
      match Build.checkRules bf [] with
      | .error e => .error (located e)
      | .ok _ =>
      match Build.compile banned bf with
      | .error e => .error (located e)
      | .ok c => .ok c

end JSight.Project
