import JSight.Basic
/-!
Interaction ids (C09).

The key under which an interaction is serialised is the *text* of its id:

* HTTP (`catalog/http_interaction_id.go`): `"http " + method + " " + path`
* JSON-RPC (`catalog/json_rpc_interaction_id.go`):
  `"json-rpc-2.0 " + methodName + " " + path`

Go strings are byte strings, so everything is `Bytes`.  The literal prefixes
and verbs are written as explicit byte lists, because `String.toUTF8` does not
unfold under plain `decide`/`rfl` (it does with `with_unfolding_all`); the
`example`s below tie every explicit list to its string literal.
-/
namespace JSight

/-- `"http "` -/
def httpPrefix : Bytes := [104, 116, 116, 112, 32]
/-- `"json-rpc-2.0 "` -/
def rpcPrefix : Bytes := [106, 115, 111, 110, 45, 114, 112, 99, 45, 50, 46, 48, 32]

example : httpPrefix = "http ".toUTF8.toList := by with_unfolding_all decide
example : rpcPrefix = "json-rpc-2.0 ".toUTF8.toList := by with_unfolding_all decide

def httpId (method path : Bytes) : Bytes := httpPrefix ++ method ++ [32] ++ path
def rpcId (name path : Bytes) : Bytes := rpcPrefix ++ name ++ [32] ++ path

/-- the five HTTP verbs: GET POST PUT PATCH DELETE -/
def verbs : List Bytes :=
  [[71, 69, 84], [80, 79, 83, 84], [80, 85, 84], [80, 65, 84, 67, 72], [68, 69, 76, 69, 84, 69]]

example : verbs = ["GET", "POST", "PUT", "PATCH", "DELETE"].map (·.toUTF8.toList) := by
  with_unfolding_all decide

/-- adding an interaction: refused when an interaction with the same id TEXT
exists (the collision check added by fix F13) -/
def addInteraction (keys : List Bytes) (k : Bytes) : Option (List Bytes) :=
  if keys.contains k then none else some (keys ++ [k])

def addInteractions (keys : List Bytes) : List Bytes → Option (List Bytes)
  | [] => some keys
  | k :: r =>
    match addInteraction keys k with
    | some ks => addInteractions ks r
    | none => none

end JSight
