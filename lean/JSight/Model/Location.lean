import JSight.Basic
/-!
Model of `jerr/utils.go` + `jerr/location.go` (after F4/F5): `DetectNewLineSymbol`, `LineBeginning`,
`LineNumber`, `LineEnd`, `quote`, `NewLocation`.  Go's `uint` index arithmetic is modelled with `Nat`;
the loops count down with explicit structural recursion on the index.
-/
namespace JSight

/-- `DetectNewLineSymbol`: the last byte of the first run of `\n`/`\r` bytes (default `\n`). -/
def detectNL (content : Bytes) : UInt8 :=
  go content B.lf false
where
  go : Bytes → UInt8 → Bool → UInt8
    | [], nl, _ => nl
    | c :: r, nl, found =>
      if c == B.lf || c == B.cr then go r c true
      else if found then nl
      else go r nl found

/-- byte at index (total: 0 outside — only used under a bounds guard, see theorems) -/
def byteAt (content : Bytes) (i : Nat) : UInt8 := content.getD i 0

/-- the `i = 0` step of the Go loop is special: `if c == nl && i != position { i++; break }`, then `if i == 0 break`. -/
def lineBeginningAt0 (content : Bytes) (pos : Nat) (nl : UInt8) : Nat :=
  if byteAt content 0 == nl && (0 != pos) then 1 else 0

def lineBeginningLoop (content : Bytes) (pos : Nat) (nl : UInt8) : Nat → Nat
  | 0 => lineBeginningAt0 content pos nl
  | i + 1 =>
    if byteAt content (i + 1) == nl && (i + 1 != pos) then i + 2
    else lineBeginningLoop content pos nl i

def lineBeginning (content : Bytes) (pos : Nat) (nl : UInt8) : Nat :=
  if content.length = 0 then 0
  else lineBeginningLoop content pos nl (min pos (content.length - 1))

/-- `LineNumber`: counts, going down from the clamped index to 0, the `nl` bytes at indices ≠ pos; +1. -/
def lineNumberLoop (content : Bytes) (pos : Nat) (nl : UInt8) : Nat → Nat
  | 0 => if byteAt content 0 == nl && (0 != pos) then 1 else 0
  | i + 1 => (if byteAt content (i + 1) == nl && (i + 1 != pos) then 1 else 0) + lineNumberLoop content pos nl i

def lineNumber (content : Bytes) (pos : Nat) (nl : UInt8) : Nat :=
  if content.length = 0 then 1
  else lineNumberLoop content pos nl (min pos (content.length - 1)) + 1

/-- `LineEnd`: first index ≥ min pos len holding `nl` (or len), minus one if preceded by the other line-end byte. -/
def lineEndScan (content : Bytes) (nl : UInt8) (i : Nat) : Nat → Nat
  | 0 => i
  | fuel + 1 => if i < content.length then (if byteAt content i == nl then i else lineEndScan content nl (i + 1) fuel) else i

def lineEnd (content : Bytes) (pos : Nat) (nl : UInt8) : Nat :=
  let i0 := min pos content.length
  let i := lineEndScan content nl i0 (content.length - i0 + 1)
  if 0 < i then
    let c := byteAt content (i - 1)
    if (nl == B.lf && c == B.cr) || (nl == B.cr && c == B.lf) then i - 1 else i
  else i

/-- schema library `IsBlank`: space, \t, \n, \r -/
def isBlank4 (c : UInt8) : Bool := c == B.sp || c == B.tab || c == B.lf || c == B.cr

/-- `TrimSpacesFromLeft`: returns its input when every byte is blank -/
def trimSpacesFromLeft (b : Bytes) : Bytes := if b.all isBlank4 then b else b.dropWhile isBlank4

def slice (content : Bytes) (b e : Nat) : Bytes := (content.take e).drop b

/-- `quote`.  Go slices `content[lb:end]`: a fault when `end < lb` — returned as `none`. -/
def quoteAt (content : Bytes) (pos lb : Nat) (nl : UInt8) : Option Bytes :=
  let e := lineEnd content pos nl
  if e < lb then none
  else if e - lb > 200 then
    some (trimSpacesFromLeft (slice content lb (lb + 197)) ++ [46, 46, 46])
  else some (trimSpacesFromLeft (slice content lb e))

structure Loc where
  line : Nat
  quote : Bytes
  deriving DecidableEq, Repr

def newLocation (content : Bytes) (i : Nat) : Option Loc :=
  let nl := detectNL content
  let lb := lineBeginning content i nl
  match quoteAt content i lb nl with
  | none => none
  | some q => some { line := lineNumber content i nl, quote := q }

end JSight
