import JSight.Model.Context
/-!
Model of `core/compile_core_macro.go` (`collectMacro`, `addMacro`), `core/compile_core.go`
(`checkMacroForRecursion`, `findPaste`, after the repair F6 and after the "macro not found" repair: a PASTE
of an undefined macro met by the recursion check — which walks the body of every MACRO, pasted or not — is an
error; the order of the tests is: empty name, recursion, visited, not found) and `core/compile_core_paste.go`
(`processPaste`, `processDirective`, `processPasteDirective`).
Enum-rule collection is not part of this model (since F39 it happens after the expansion, over the expanded forest).
-/
namespace JSight
open Gen

inductive PasteErr where
  | annotation (id : Nat)      -- annotation is forbidden for MACRO / PASTE
  | nameMissing (id : Nat)
  | emptyMacro (id : Nat)
  | duplicate (id : Nat)
  | recursion (id : Nat)       -- "recursion is prohibited", at the PASTE that closes the cycle
  | notFound (id : Nat)        -- "macro not found"
  | ctx (e : CtxErr)           -- context error while re-resolving (outside any PASTE)
  | inPaste (id : Nat)         -- an error below a PASTE is re-attributed to that (outermost) PASTE
  | fuel
  deriving DecidableEq, Repr

abbrev Macros := List (Nat × Tree)     -- in definition order

def Macros.get? (ms : Macros) (name : Nat) : Option Tree := (ms.find? (·.1 == name)).map (·.2)

/-- `collectMacro` + `addMacro`: top-level MACROs are removed from the directive list -/
def collectMacro : List Tree → Macros → List Tree → Except PasteErr (Macros × List Tree)
  | [], ms, acc => .ok (ms, acc)
  | t :: r, ms, acc =>
    if t.dir.kind == Kind.Macro then
      if t.dir.annot then .error (.annotation t.dir.id)
      else if t.dir.name == 0 then .error (.nameMissing t.dir.id)
      else if t.kids.isEmpty then .error (.emptyMacro t.dir.id)
      else if (ms.get? t.dir.name).isSome then .error (.duplicate t.dir.id)
      else collectMacro r (ms ++ [(t.dir.name, t)]) acc
    else collectMacro r ms (acc ++ [t])

/-! `findPaste` (the DFS of the repaired recursion check).  `visited` is threaded through siblings,
as the Go map is.  Returns the updated visited set, or the error. -/
mutual
  def findPaste (ms : Macros) (target : Nat) : Nat → Tree → List Nat → Except PasteErr (List Nat)
    | 0, _, _ => .error .fuel
    | fuel + 1, .node d kids, visited =>
      if d.kind == Kind.Paste then
        if d.name == 0 then .error (.nameMissing d.id)
        else if d.name == target then .error (.recursion d.id)
        else if visited.contains d.name then .ok visited
        else
          match ms.get? d.name with
          | some m => findPaste ms target fuel m (d.name :: visited)
          | none => .error (.notFound d.id)
      else findPasteList ms target fuel kids visited
  def findPasteList (ms : Macros) (target : Nat) : Nat → List Tree → List Nat → Except PasteErr (List Nat)
    | 0, _, _ => .error .fuel
    | _ + 1, [], visited => .ok visited
    | fuel + 1, t :: r, visited =>
      match findPaste ms target fuel t visited with
      | .error e => .error e
      | .ok v => findPasteList ms target fuel r v
end

def treeSize : Tree → Nat
  | .node _ kids => 1 + sizeList kids
where sizeList : List Tree → Nat
  | [] => 0
  | t :: r => treeSize t + sizeList r

def macrosSize (ms : Macros) : Nat := ms.foldl (fun n m => n + treeSize m.2 + 1) 0

/-- `checkMacroForRecursion`: macros in definition order -/
def checkRecursion (ms : Macros) : Except PasteErr Unit :=
  go ms
where
  go : Macros → Except PasteErr Unit
    | [] => .ok ()
    | (name, m) :: r =>
      match findPaste ms name (2 * macrosSize ms + 2) m [name] with
      | .error e => .error e
      | .ok _ => go r

/-- leave frames until only `n` remain (`core.currentContextDirective = dd.Parent`) -/
def truncateTo (n : Nat) : List Frame → List Tree → List Frame × List Tree
  | [], roots => ([], roots)
  | [f], roots => if 1 ≤ n then ([f], roots) else ([], roots ++ [f.tree])
  | f :: p :: rest, roots =>
    if (f :: p :: rest).length ≤ n then (f :: p :: rest, roots)
    else truncateTo n (attach f.tree p :: rest) roots
termination_by fs => fs.length

/-- state of the expansion: the context (ENUM rules are no longer registered at paste time: after the repair F39
`collectRules` runs once over the expanded forest, see `Model/Build.lean` for that stage's neighbours) -/
structure PState where
  ctx : Ctx := {}

/-! `processDirective` / `processPasteDirectiveList`: re-run the context resolution over the directive
trees, expanding PASTE by the children of the macro.  `outer` = id of the outermost PASTE being expanded
(every error below a PASTE is re-attributed to it). -/
mutual
  def expandTree (ms : Macros) : Nat → Option Nat → PState → Tree → Except PasteErr PState
    | 0, _, _, _ => .error .fuel
    | fuel + 1, outer, st, .node d kids =>
      if d.kind == Kind.Paste then
        let here : PasteErr := .inPaste (outer.getD d.id)
        if d.annot then .error here
        else if d.name == 0 then .error here
        else match ms.get? d.name with
          | none => .error here
          | some m =>
            match expandList ms fuel (some (outer.getD d.id)) st m.kids with
            | .error .fuel => .error .fuel
            | .error _ => .error here
            | .ok st' => .ok st'
      else
        match place st.ctx.frames st.ctx.roots d with
        | .error e => .error (match outer with | some id => .inPaste id | none => .ctx e)
        | .ok c1 =>
          let depth := c1.frames.length
          match expandList ms fuel outer { st with ctx := c1 } kids with
          | .error e => .error e
          | .ok st2 =>
            if d.explicit then
              let (fr, ro) := truncateTo (depth - 1) st2.ctx.frames st2.ctx.roots
              .ok { st2 with ctx := { frames := fr, roots := ro } }
            else .ok st2
  def expandList (ms : Macros) : Nat → Option Nat → PState → List Tree → Except PasteErr PState
    | 0, _, _, _ => .error .fuel
    | _ + 1, _, st, [] => .ok st
    | fuel + 1, outer, st, t :: r =>
      match expandTree ms fuel outer st t with
      | .error e => .error e
      | .ok st' => expandList ms fuel outer st' r
end

/-- `compileCore` up to `processPaste`: the forest with pastes expanded -/
def expand (roots : List Tree) : Except PasteErr (List Tree) :=
  match collectMacro roots [] [] with
  | .error e => .error e
  | .ok (ms, rest) =>
    match checkRecursion ms with
    | .error e => .error e
    | .ok _ =>
      let fuel := (macrosSize ms + 2) * (macrosSize ms + TreeSize.forest rest + 2) + 2
      match expandList ms fuel none {} rest with
      | .error e => .error e
      | .ok st => .ok (closeAll st.ctx.frames st.ctx.roots)
where
  TreeSize.forest : List Tree → Nat
    | [] => 0
    | t :: r => treeSize t + TreeSize.forest r

end JSight
