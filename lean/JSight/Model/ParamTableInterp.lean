import JSight.Model.Param
import JSight.Gen.ParamTable
/-!
Interpreter of the regenerated table `Gen.paramTable` (tools/extract/paramtable.go, from the AST of
`(*Directive).AppendParameter` in `directive/parameter.go`).  It does what the table says: unescape, find the `case`
clause whose kind list holds the directive kind, take the first alternative whose guard holds, store the value under
the name / append it to the unnamed parameters; when there is no clause or no guard holds: "incorrect parameter".

The guards are evaluated by the functions of `Model/Param.lean`; a Go `switch s { case "a": }` compares the string
with the literal, i.e. the bytes with the UTF-8 bytes of the literal.
-/
namespace JSight.Param
open JSight Gen

/-- the bytes of a Go string literal -/
def strBytes (s : String) : Bytes := s.toUTF8.toList

def evalGuard (b : Bytes) : PGuard → Bool
  | .always => true
  | .isSchemaNotation => isNotation b
  | .isArrayOfTypes => isArrayOfTypes b
  | .isUserTypeName => isUserTypeName b
  | .strIn ss => ss.any (fun s => b == strBytes s)

def runAct (p : Params) (b : Bytes) : PAct → Except PErr Params
  | .setNamed n => setNamed p n b
  | .appendUnnamed => .ok { p with unnamed := p.unnamed ++ [b] }

/-- the first alternative whose guard holds; none: the final "incorrect parameter" error -/
def runAlts (p : Params) (b : Bytes) : List (PGuard × PAct) → Except PErr Params
  | [] => .error .incorrect
  | (g, a) :: rest => if evalGuard b g then runAct p b a else runAlts p b rest

def appendParameterT (tab : List (List Kind × List (PGuard × PAct))) (k : Kind) (p : Params) (raw : Bytes) :
    Except PErr Params :=
  let b := unescape raw
  match tab.find? (fun c => c.1.contains k) with
  | some c => runAlts p b c.2
  | none => .error .incorrect

end JSight.Param
