import JSight.Model.TagName
/-!
Model of `core/path_parameter.go`: `splitPath`, `pathParameters`, `PathParameters` checks.
-/
namespace JSight

/-- `splitPath`: trim "/", split on "/", drop empty strings = the non-empty components. -/
def splitPath (p : Bytes) : List Bytes := (splitSlash p).filter (fun s => !s.isEmpty)

def joinSlash : List Bytes → Bytes
  | [] => []
  | [a] => a
  | a :: r => a ++ B.slash :: joinSlash r

/-- `segment[0] == '{' && segment[len-1] == '}'` -/
def isParamSeg (s : Bytes) : Bool := s.head? == some B.lbrace && s.getLast? == some B.rbrace

/-- `segment[1 : len-1]` -/
def paramInner (s : Bytes) : Bytes := (s.drop 1).dropLast

/-- the loop of `pathParameters`: `done` = segments already passed (reversed), `rest` = segments to go -/
def pathParamsLoop (done : List Bytes) : List Bytes → List (Bytes × Bytes)
  | [] => []
  | seg :: rest =>
    let done' := done ++ [seg]
    if isParamSeg seg then (joinSlash done', paramInner seg) :: pathParamsLoop done' rest
    else pathParamsLoop done' rest

def pathParameters (p : Bytes) : List (Bytes × Bytes) := pathParamsLoop [] (splitPath p)

def hasEmptyParam (pp : List (Bytes × Bytes)) : Bool := pp.any fun x => x.2.isEmpty

/-- first parameter name that was seen before, in order -/
def dupParam (seen : List Bytes) : List (Bytes × Bytes) → Option Bytes
  | [] => none
  | (_, n) :: r => if seen.contains n then some n else dupParam (n :: seen) r

inductive PathParErr | empty | dup (name : Bytes)
  deriving DecidableEq, Repr

def checkedPathParameters (p : Bytes) : Except PathParErr (List (Bytes × Bytes)) :=
  let pp := pathParameters p
  if hasEmptyParam pp then .error .empty
  else match dupParam [] pp with
    | some n => .error (.dup n)
    | none => .ok pp

end JSight
