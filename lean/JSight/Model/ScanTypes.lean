import JSight.Basic
/-!
Vocabulary of the scanner table that `tools/extract` regenerates from `scanner/steps*.go`
(`Gen/ScannerTable.lean`): events, conditions, effects, continuations, decision trees.
The types are parametric in the state type `St`, which is generated.
-/
namespace JSight

/-- `scanner.LexemeEventType` -/
inductive Ev where
  | keywordBegin | keywordEnd | parameterBegin | parameterEnd | annotationBegin | annotationEnd
  | schemaBegin | schemaEnd | textBegin | textEnd | contextOpen | contextClose | enumBegin | enumEnd
  deriving DecidableEq, Repr, Inhabited

/-- the declaration order the translator must find in `scanner/lexeme-event.go` -/
def Ev.expectedNames : List String :=
  ["KeywordBegin", "KeywordEnd", "ParameterBegin", "ParameterEnd", "AnnotationBegin", "AnnotationEnd",
   "SchemaBegin", "SchemaEnd", "TextBegin", "TextEnd", "ContextOpen", "ContextClose", "EnumBegin", "EnumEnd"]

/-- conditions a state function may test besides the byte -/
inductive Cond where
  | isDirective              -- `s.isDirective()`: the rest of the line starts with a directive name
  | paramsTypeOrAnyOrEmpty   -- `s.isDirectiveParameterHasTypeOrAnyOrEmpty()`
  | paramsNoAnyOrEmpty       -- `s.isDirectiveParameterHasAnyOrEmpty()` (true iff NO parameter is any/empty)
  | paramsRegex              -- `s.isDirectiveParameterHasRegexNotation()`
  | prevIsStar               -- `s.data[s.curIndex-1] == '*'`
  deriving DecidableEq, Repr, Inhabited

/-- primitive effects -/
inductive Op (St : Type) where
  | setStep (s : St)           -- `s.step = stateX`
  | push (s : St)              -- `s.stepStack.Push(stateX)`
  | pushCur                    -- `s.stepStack.Push(s.step)`
  | popToStep                  -- `s.step = s.stepStack.Pop()`
  | found (e : Ev) (back : Nat) -- `s.foundAt(s.curIndex - back, e)`
  | rewind (n : Nat)           -- `s.curIndex -= n`
  deriving DecidableEq, Repr

/-- how a state function returns -/
inductive Cont (St : Type) where
  | done                       -- `return nil`
  | err                        -- `return s.japiError…(…)`
  | call (s : St)              -- `return stateX(s, c)`  (same byte, step register untouched)
  | redispatch                 -- `return s.step(s, c)`
  | jschema                    -- `stateJSchema`: the schema library delimits the body
  | enumBody                   -- `s.scanEnumBody(c)`: the enum library delimits the body
  deriving DecidableEq, Repr

/-- decision tree of one state function -/
inductive Code (St : Type) where
  | leaf (ops : List (Op St)) (k : Cont St)
  | ifB (bs : List UInt8) (t e : Code St)     -- `c ∈ bs`
  | ifC (c : Cond) (t e : Code St)
  deriving Repr

namespace Code
/-- all leaves of a tree -/
def leaves {St} : Code St → List (List (Op St) × Cont St)
  | leaf ops k => [(ops, k)]
  | ifB _ t e => leaves t ++ leaves e
  | ifC _ t e => leaves t ++ leaves e

/-- the leaf selected by a byte and a valuation of the conditions -/
def select {St} (c : UInt8) (ev : Cond → Bool) : Code St → List (Op St) × Cont St
  | leaf ops k => (ops, k)
  | ifB bs t e => if bs.contains c then select c ev t else select c ev e
  | ifC cd t e => if ev cd then select c ev t else select c ev e
end Code

end JSight
