import JSight.Model.ScanTypes
import JSight.Model.Unescape
import JSight.Model.Utf8
import JSight.Gen.ScannerTable
import JSight.Gen.DirTables
/-!
Interpreter of the regenerated scanner table (`Gen.code`) and hand-written model of
`scanner/scanner.go` (`Next`, `processLexemeEvent`, `shiftFound`), `step-helpers.go`
(`isDirectiveParameter…`), `steps-description.go isDirective`, `directive.IsStartWithDirective`.

The schema library's body delimitation (`jschema…Len()`, `enum…Len()`) is an oracle parameter.
Every partial Go operation is an explicit `Fault`.
-/
namespace JSight
open Gen

/-- the file content: size and byte access (0 outside, only read under a bounds guard) -/
structure Src where
  size : Nat
  get : Nat → UInt8

def Src.ofList (b : Bytes) : Src := { size := b.length, get := fun i => b.getD i 0 }
def Src.ofArray (a : Array UInt8) : Src := { size := a.size, get := fun i => a.getD i 0 }

/-- bytes `[b, e)` -/
def Src.slice (d : Src) (b e : Nat) : Bytes := (List.range (e - b)).map fun k => d.get (b + k)

/-- answer of the schema library for a body starting at an offset: its length, or an error position
(relative to the offset) -/
inductive LenAns where
  | len (n : Nat)
  | err (pos : Nat)
  | miss            -- the harness did not supply an answer (correspondence runs only)
  deriving DecidableEq, Repr

structure Oracle where
  schemaLen : Nat → LenAns
  enumLen : Nat → LenAns

inductive LexTy where
  | keyword | parameter | annotation | schema | json | text | contextOpen | contextClose | enum
  deriving DecidableEq, Repr, Inhabited

/-- a lexeme `[b, e1)` — `e1` is the exclusive end (= Go's `end + 1`), so the empty lexeme `[b, b-1]` is `(b, b)` -/
structure Lexeme where
  ty : LexTy
  b : Nat
  e1 : Nat
  deriving DecidableEq, Repr

structure Sc where
  step : St
  stack : List St                -- stepStack, top first
  finds : List (Ev × Nat)        -- queue of found events
  evStack : List (Ev × Nat)      -- top first
  lastParams : List (Nat × Nat)  -- [b, e1) of the parameters of the last directive
  cur : Nat
  rew : Nat := 0                 -- pending `curIndex -= n` of the current step
  deriving Repr

def Sc.init : Sc := { step := .stateRoot, stack := [], finds := [], evStack := [], lastParams := [], cur := 0 }

inductive Stop where
  | diag (idx : Nat)        -- a JApiError at this index
  | fault (f : Fault)       -- what Go would panic / hang on
  | oracleMiss (enum : Bool) (cur : Nat)   -- correspondence runs only: the harness must supply this answer
  deriving DecidableEq, Repr

/-! ### helpers of the conditions -/

def isUserTypeNameByte (c : UInt8) : Bool :=
  c == 45 || c == 95 || (97 ≤ c && c ≤ 122) || (65 ≤ c && c ≤ 90) || (48 ≤ c && c ≤ 57)

/-- `bytes.Bytes.IsUserTypeName` -/
def isUserTypeName (b : Bytes) : Bool :=
  match b with
  | c :: r => decide (2 ≤ b.length) && c == B.at_ && r.all isUserTypeNameByte
  | [] => false

/-- `TrimSquareBrackets` -/
def trimSquare (b : Bytes) : Bytes :=
  if 2 ≤ b.length ∧ b.head? = some 91 ∧ b.getLast? = some 93 then (b.drop 1).dropLast else b

def jsonEsc (d : UInt8) : Option UInt8 :=
  if d == 34 then some 34 else if d == 92 then some 92 else if d == 47 then some 47 else if d == 39 then some 39
  else if d == 98 then some 8 else if d == 102 then some 12 else if d == 110 then some 10
  else if d == 114 then some 13 else if d == 116 then some 9 else none

/-- body of the schema library's `unquoteBytes` (JSON-style).  Abstraction (documented in DESIGN §4):
`\u` escapes are treated as a failure and bytes ≥ 0x80 are copied (the real function decodes `\uXXXX`
and coerces invalid UTF-8 to U+FFFD); the scanner never delivers `\u` inside a quoted parameter, and the
callers only compare the result with ASCII strings, for which both behaviours give the same answer. -/
def unqBody : Bytes → Option Bytes
  | [] => some []
  | [c] => if c == 92 || c == 34 || c < 32 then none else some [c]
  | c :: d :: r =>
    if c == 92 then
      match jsonEsc d with
      | some x => (unqBody r).map (x :: ·)
      | none => none
    else if c == 34 || c < 32 then none
    else (unqBody (d :: r)).map (c :: ·)

/-- `bytes.Bytes.Unquote` -/
def unquoteLex (b : Bytes) : Bytes :=
  if inQuotes b then
    match unqBody (b.drop 1).dropLast with
    | some r => r
    | none => b
  else b

def anyType : Bytes := [97, 110, 121]
def emptyType : Bytes := [101, 109, 112, 116, 121]
def regexType : Bytes := [114, 101, 103, 101, 120]

def isDigit (c : UInt8) : Bool := 48 ≤ c && c ≤ 57

/-- `directive.endsKeyword`: the keyword the line begins with ends at `n` — the line ends there, or a byte follows that
may follow a keyword (blank, line end, `#`, `/`); a word that merely begins with a keyword is not a directive (F75) -/
def endsKeyword (line : Bytes) (n : Nat) : Bool :=
  match line[n]? with
  | none => true
  | some c => c == 32 || c == 9 || c == 13 || c == 10 || c == 35 || c == 47

/-- `directive.IsStartWithDirective` over the names of `Gen.Kind` -/
def isStartWithDirective (line : Bytes) : Bool :=
  if line.length < 3 then false
  else
    ((match line with
     | a :: b :: c :: _ => (49 ≤ a && a ≤ 53) && isDigit b && isDigit c
     | _ => false) && endsKeyword line 3)
    || Kind.all.any fun k => k != Kind.HTTPResponseCode && (k.name.toUTF8.toList).isPrefixOf line &&
        endsKeyword line (k.name.toUTF8.toList).length

/-- `Bytes.LineFrom(start)`: up to the next '\n' -/
def lineFrom (d : Src) (start : Nat) : Option Bytes :=
  if start > d.size then none
  else some ((d.slice start d.size).takeWhile (· != B.lf))

def evalCond (d : Src) (sc : Sc) : Cond → Bool
  | .isDirective => match lineFrom d sc.cur with
      | some l => isStartWithDirective l
      | none => false
  | .paramsTypeOrAnyOrEmpty => sc.lastParams.any fun (b, e1) =>
      let v := trimSquare (unquoteLex (d.slice b e1))
      v == anyType || v == emptyType || isUserTypeName v
  | .paramsNoAnyOrEmpty => !(sc.lastParams.any fun (b, e1) =>
      let v := trimSquare (unquoteLex (d.slice b e1))
      v == anyType || v == emptyType)
  | .paramsRegex => sc.lastParams.any fun (b, e1) => unquoteLex (d.slice b e1) == regexType
  | .prevIsStar => decide (1 ≤ sc.cur) && d.get (sc.cur - 1) == B.star

/-! ### effects -/

def execOp (sc : Sc) : Op St → Except Fault Sc
  | .setStep s => .ok { sc with step := s }
  | .push s => .ok { sc with stack := s :: sc.stack }
  | .pushCur => .ok { sc with stack := sc.step :: sc.stack }
  | .popToStep =>
    match sc.stack with
    | [] => .error .popEmpty
    | t :: r => .ok { sc with step := t, stack := r }
  | .found e back =>
    if back ≤ sc.cur then .ok { sc with finds := sc.finds ++ [(e, sc.cur - back)] } else .error .underflow
  | .rewind n => .ok { sc with rew := sc.rew + n }

def execOps (sc : Sc) : List (Op St) → Except Fault Sc
  | [] => .ok sc
  | op :: r => match execOp sc op with
    | .ok sc' => execOps sc' r
    | .error f => .error f

/-- library-delimited body: `found(Begin)`, skip `len-1` bytes, continue in the closing state -/
def libBody (sc : Sc) (begin : Ev) (ans : LenAns) (closing : St) (zeroIsError : Bool) : Except Stop Sc :=
  match ans with
  | .miss => .error (.oracleMiss (begin == .enumBegin) sc.cur)
  | .err pos => .error (.diag (sc.cur + pos))
  | .len n =>
    if n == 0 && zeroIsError then .error (.diag sc.cur) else
    .ok { sc with finds := sc.finds ++ [(begin, sc.cur)], cur := sc.cur + (n - 1), step := closing }

/-- one byte through the step function(s): same-byte re-dispatch is bounded by `fuel` -/
def interp (d : Src) (o : Oracle) (c : UInt8) : Nat → St → Sc → Except Stop Sc
  | 0, _, _ => .error (.fault .fuel)
  | fuel + 1, st, sc =>
    let (ops, k) := (code st).select c (evalCond d sc)
    match execOps sc ops with
    | .error f => .error (.fault f)
    | .ok sc' =>
      match k with
      | .done => .ok sc'
      | .err => .error (.diag sc'.cur)
      | .call s' => interp d o c fuel s' sc'
      | .redispatch => interp d o c fuel sc'.step sc'
      | .jschema => libBody sc' .schemaBegin (o.schemaLen sc'.cur) .stateSchemaClosed (c != 0)
      | .enumBody => libBody sc' .enumBegin (o.enumLen sc'.cur) .stateEnumBodyClose false

/-! ### lexeme events -/

def Ev.isBeginning : Ev → Bool
  | .keywordBegin | .parameterBegin | .annotationBegin | .schemaBegin | .textBegin | .enumBegin => true
  | _ => false

def Ev.isEnding : Ev → Bool
  | .keywordEnd | .parameterEnd | .annotationEnd | .schemaEnd | .textEnd | .enumEnd => true
  | _ => false

def Ev.matches : Ev → Ev → Bool
  | .keywordBegin, .keywordEnd | .annotationBegin, .annotationEnd | .schemaBegin, .schemaEnd
  | .textBegin, .textEnd | .parameterBegin, .parameterEnd | .enumBegin, .enumEnd => true
  | _, _ => false

def Ev.lexTy : Ev → LexTy
  | .keywordBegin | .keywordEnd => .keyword
  | .parameterBegin | .parameterEnd => .parameter
  | .annotationBegin | .annotationEnd => .annotation
  | .schemaBegin | .schemaEnd => .schema
  | .textBegin | .textEnd => .text
  | .contextOpen => .contextOpen
  | .contextClose => .contextClose
  | .enumBegin | .enumEnd => .enum

/-- `processLexemeEvent` -/
def processEvent (sc : Sc) (ev : Ev × Nat) : Except Stop (Option Lexeme × Sc) :=
  if ev.1.isBeginning then .ok (none, { sc with evStack := ev :: sc.evStack })
  else if ev.1.isEnding then
    match sc.evStack with
    | [] => .error (.fault .popEmpty)
    | start :: rest =>
      if start.1.matches ev.1 then
        .ok (some { ty := ev.1.lexTy, b := start.2, e1 := ev.2 + 1 }, { sc with evStack := rest })
      else .error (.diag sc.cur)
  else .ok (some { ty := ev.1.lexTy, b := ev.2, e1 := ev.2 + 1 }, sc)

/-- the `for range s.finds` loop: at most `n` events are shifted; the first lexeme is returned -/
def drainFinds : Nat → Sc → Except Stop (Option Lexeme × Sc)
  | 0, sc => .ok (none, sc)
  | n + 1, sc =>
    match sc.finds with
    | [] => .error (.fault .popEmpty)       -- shiftFound on an empty queue (cannot happen: n ≤ length)
    | ev :: rest =>
      match processEvent { sc with finds := rest } ev with
      | .error s => .error s
      | .ok (some lex, sc') =>
        let sc'' := match lex.ty with
          | .parameter => { sc' with lastParams := sc'.lastParams ++ [(lex.b, lex.e1)] }
          | .keyword => { sc' with lastParams := [] }
          | _ => sc'
        .ok (some lex, sc'')
      | .ok (none, sc') => drainFinds n sc'

def stepFuel : Nat := 16

/-- the byte the scanner examines at `cur`: the content byte, or 0 (`EOF`) at the end -/
def curByte (d : Src) (sc : Sc) : UInt8 := if sc.cur == d.size then 0 else d.get sc.cur

/-- one iteration of the byte loop of `Next` up to and including `s.curIndex++`
(a real NUL byte is refused; the pending `curIndex -= n` is applied together with the `++`) -/
def byteStep (d : Src) (o : Oracle) (sc : Sc) : Except Stop Sc :=
  let c := curByte d sc
  if sc.cur != d.size && c == 0 then .error (.diag sc.cur)
  else
    match interp d o c stepFuel sc.step sc with
    | .error s => .error s
    | .ok sc1 =>
      if sc1.rew > sc1.cur + 1 then .error (.fault .underflow)
      else .ok { sc1 with cur := sc1.cur + 1 - sc1.rew, rew := 0 }

/-- the byte loop of `Next` (fuel = number of byte steps still allowed) -/
def byteLoop (d : Src) (o : Oracle) : Nat → Sc → Except Stop (Option Lexeme × Sc)
  | 0, _ => .error (.fault .fuel)
  | fuel + 1, sc =>
    if sc.cur > d.size then .ok (none, sc)
    else
      match byteStep d o sc with
      | .error s => .error s
      | .ok sc2 =>
        match drainFinds sc2.finds.length sc2 with
        | .error s => .error s
        | .ok (some lex, sc3) => .ok (some lex, sc3)
        | .ok (none, sc3) => byteLoop d o fuel sc3

/-- `Scanner.Next`: one pending event first (without the parameter bookkeeping), then the byte loop -/
def next (d : Src) (o : Oracle) (fuel : Nat) (sc : Sc) : Except Stop (Option Lexeme × Sc) :=
  match sc.finds with
  | ev :: rest =>
    match processEvent { sc with finds := rest } ev with
    | .error s => .error s
    | .ok (some lex, sc') => .ok (some lex, sc')
    | .ok (none, sc') => byteLoop d o fuel sc'
  | [] => byteLoop d o fuel sc

/-- all lexemes of a file: the stream, and how it ended (`none` = clean end of file) -/
def lexAll (d : Src) (o : Oracle) : Nat → Sc → List Lexeme → List Lexeme × Option Stop × Sc
  | 0, sc, acc => (acc.reverse, some (.fault .fuel), sc)
  | n + 1, sc, acc =>
    match next d o (4 * (d.size + 2)) sc with
    | .error s => (acc.reverse, some s, sc)
    | .ok (none, sc') => (acc.reverse, none, sc')
    | .ok (some lex, sc') => lexAll d o n sc' (lex :: acc)

/-- `Scanner.Next` as the core drives it over a whole file: the encoding check of the first call
(a file that is not valid UTF-8 is a diagnostic at the first invalid byte), then `lexAll`. -/
def scanFile (content : Bytes) (o : Oracle) : List Lexeme × Option Stop × Sc :=
  match firstInvalidUTF8 content with
  | some i => ([], some (.diag i), Sc.init)
  | none =>
    let d := Src.ofArray content.toArray
    lexAll d o (d.size + 2) Sc.init []

end JSight
