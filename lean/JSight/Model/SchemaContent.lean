import JSight.Model.Descr
/-!
Model of `catalog/schema_jsight.go` (`astNodeToJsightContent`, `collectJSightContentRules`,
`collectJSightContentObjectProperties`, `collectJSightContentArrayItems`), `catalog/schema.go astNodeToSchemaRule`,
`catalog/rules_builder.go` and the ordered `StringSet` of used user types: the conversion of the schema library's AST
(an oracle: `Schema.GetAST`) into the schema content of the catalog, and the list of user types the schema uses.

The Go code indexes `v.Value[0]` for the rules "type", "additionalProperties" and "or" and parses the value of
"optional" as a boolean, panicking otherwise; those panics are `Fault`s here (the enclosing
`UnmarshalJSightSchema` recovers a panic that is an `error` and returns it).
-/
namespace JSight.SC
open JSight

/-- `jschemaLib.RuleASTNode` -/
inductive RuleAst where
  | node (tokenType value comment : Bytes) (props : List (Bytes × RuleAst)) (items : List RuleAst) (generated : Bool)
  deriving Repr, Inhabited

/-- `jschemaLib.ASTNode` -/
inductive Ast where
  | node (tokenType schemaType key value comment : Bytes) (rules : List (Bytes × RuleAst)) (children : List Ast)
      (isKeyShortcut : Bool)
  deriving Repr, Inhabited

/-- `catalog.Rule` -/
inductive RuleC where
  | node (key tokenType scalar note : Bytes) (children : List RuleC)
  deriving Repr, Inhabited

/-- `catalog.SchemaContentJSight` -/
inductive Content where
  | node (key : Option Bytes) (tokenType type scalar note : Bytes) (rules : List RuleC) (children : List Content)
      (isKeyRef optional : Bool)
  deriving Repr, Inhabited

inductive Fault where
  | emptyValue (rule : Bytes)      -- `v.Value[0]` on an empty string
  | optionalNotBool
  deriving Repr, DecidableEq

def RuleAst.value : RuleAst → Bytes | .node _ v _ _ _ _ => v
def RuleAst.props : RuleAst → List (Bytes × RuleAst) | .node _ _ _ p _ _ => p
def RuleAst.items : RuleAst → List RuleAst | .node _ _ _ _ i _ => i
def RuleAst.generated : RuleAst → Bool | .node _ _ _ _ _ g => g
def RuleC.key : RuleC → Bytes | .node k _ _ _ _ => k
def RuleC.scalar : RuleC → Bytes | .node _ _ s _ _ => s
def RuleC.withKey (k : Bytes) : RuleC → RuleC | .node _ t s n c => .node k t s n c
def Content.withKey (k : Bytes) : Content → Content | .node _ t ty s n r c kr o => .node (some k) t ty s n r c kr o
def Content.setOptional : Content → Content | .node k t ty s n r c kr _ => .node k t ty s n r c kr true

/-- `StringSet.Add`: appended when new -/
def addUsed (u : List Bytes) (v : Bytes) : List Bytes := if u.contains v then u else u ++ [v]

def addAll (u : List Bytes) : List Bytes → List Bytes
  | [] => u
  | v :: r => addAll (addUsed u v) r

def bType : Bytes := [116, 121, 112, 101]
def bAllOf : Bytes := [97, 108, 108, 79, 102]
def bAdditional : Bytes := [97, 100, 100, 105, 116, 105, 111, 110, 97, 108, 80, 114, 111, 112, 101, 114, 116, 105, 101, 115]
def bOr : Bytes := [111, 114]
def bOptional : Bytes := [111, 112, 116, 105, 111, 110, 97, 108]
def bObject : Bytes := [111, 98, 106, 101, 99, 116]
def bArray : Bytes := [97, 114, 114, 97, 121]

example : [bType, bAllOf, bAdditional, bOr, bOptional, bObject, bArray]
    = ["type", "allOf", "additionalProperties", "or", "optional", "object", "array"].map (·.toUTF8.toList) := by
  with_unfolding_all decide

/-- `strconv.ParseBool` -/
def parseBool (b : Bytes) : Option Bool :=
  let t : List Bytes := [[49], [116], [84], [84, 82, 85, 69], [116, 114, 117, 101], [84, 114, 117, 101]]
  let f : List Bytes := [[48], [102], [70], [70, 65, 76, 83, 69], [102, 97, 108, 115, 101], [70, 97, 108, 115, 101]]
  if t.contains b then some true else if f.contains b then some false else none

mutual
  /-- `astNodeToSchemaRule`: the properties (with their keys) first, then the items -/
  def ruleOf : RuleAst → RuleC
    | .node t v c props items _ => .node [] t v c (propsOf props ++ itemsOf items)
  def propsOf : List (Bytes × RuleAst) → List RuleC
    | [] => []
    | (k, r) :: rest => (ruleOf r).withKey k :: propsOf rest
  def itemsOf : List RuleAst → List RuleC
    | [] => []
    | r :: rest => ruleOf r :: itemsOf rest
end

/-- the user type named by one item of an "or" rule: its value, else its "type" property, else the type of the node -/
def orItemType (nodeType : Bytes) (i : RuleAst) : Bytes :=
  if !i.value.isEmpty then i.value
  else match i.props.find? (·.1 == bType) with
    | some p => p.2.value
    | none => nodeType

def orItems (nodeType : Bytes) (u : List Bytes) : List RuleAst → Except Fault (List Bytes)
  | [] => .ok u
  | i :: r =>
    match orItemType nodeType i with
    | [] => .error (.emptyValue bOr)
    | c :: t => orItems nodeType (if c == 64 then addUsed u (c :: t) else u) r

/-- `collectJSightContentRules`: the rules of the node in order (generated "type" and "or" rules are not listed) and
the user types they name -/
def collectRules (nodeType : Bytes) : List (Bytes × RuleAst) → List Bytes → Except Fault (List RuleC × List Bytes)
  | [], u => .ok ([], u)
  | (k, v) :: rest, u =>
    let emit (u' : List Bytes) (listed : Bool) : Except Fault (List RuleC × List Bytes) :=
      match collectRules nodeType rest u' with
      | .error e => .error e
      | .ok (rs, u'') => .ok (if listed then (ruleOf v).withKey k :: rs else rs, u'')
    if k == bType then
      match v.value with
      | [] => .error (.emptyValue bType)
      | c :: t => emit (if c == 64 then addUsed u (c :: t) else u) (!v.generated)
    else if k == bAllOf then
      emit (addAll (if v.value.isEmpty then u else addUsed u v.value) (v.items.map (·.value))) true
    else if k == bAdditional then
      match v.value with
      | [] => .error (.emptyValue bAdditional)
      | c :: t => emit (if c == 64 then addUsed u (c :: t) else u) true
    else if k == bOr then
      match orItems nodeType u v.items with
      | .error e => .error e
      | .ok u' => emit u' (!v.generated)
    else emit u true

mutual
  /-- `astNodeToJsightContent` -/
  def contentOf : Ast → List Bytes → Except Fault (Content × List Bytes)
    | .node tt st _ value comment rules children keyRef, u =>
      match collectRules st rules u with
      | .error e => .error e
      | .ok (rs, u1) =>
        let opt : Except Fault Bool := match rs.find? (·.key == bOptional) with
          | none => .ok false
          | some r => match parseBool r.scalar with
            | some b => .ok b
            | none => .error .optionalNotBool
        match opt with
        | .error e => .error e
        | .ok o =>
          if tt == bObject then
            match propsContent children u1 with
            | .error e => .error e
            | .ok (cs, u2) => .ok (.node none tt st value (annotation comment) rs cs keyRef o, u2)
          else if tt == bArray then
            match itemsContent children u1 with
            | .error e => .error e
            | .ok (cs, u2) => .ok (.node none tt st value (annotation comment) rs cs keyRef o, u2)
          else .ok (.node none tt st value (annotation comment) rs [] keyRef o, u1)
  /-- object properties: each keeps its key; a key that is a type shortcut is a used type (added after the child) -/
  def propsContent : List Ast → List Bytes → Except Fault (List Content × List Bytes)
    | [], u => .ok ([], u)
    | a :: rest, u =>
      match contentOf a u with
      | .error e => .error e
      | .ok (c, u1) =>
        let (k, isRef) := match a with | .node _ _ k _ _ _ _ r => (k, r)
        let u2 := if isRef then addUsed u1 k else u1
        match propsContent rest u2 with
        | .error e => .error e
        | .ok (cs, u3) => .ok (c.withKey k :: cs, u3)
  /-- array items: optional -/
  def itemsContent : List Ast → List Bytes → Except Fault (List Content × List Bytes)
    | [], u => .ok ([], u)
    | a :: rest, u =>
      match contentOf a u with
      | .error e => .error e
      | .ok (c, u1) =>
        match itemsContent rest u1 with
        | .error e => .error e
        | .ok (cs, u2) => .ok (c.setOptional :: cs, u2)
end

end JSight.SC
