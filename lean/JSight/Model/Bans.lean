import JSight.Model.Context
/-!
Model of `core.WithBannedDirectives` as enforced at keyword time (`core/scan_project.go setCurrentDirective`
and `core/include.go processInclude`, after the repair F22): when a keyword of a banned kind is read the
project is rejected there — after the previous directive has been placed, before anything of the banned
directive (its parameters, the file an INCLUDE names) is looked at.
-/
namespace JSight
open Gen

inductive BanErr where
  | notAllowed (id : Nat)
  | ctx (e : CtxErr)
  deriving DecidableEq, Repr

def consumeAllBanned (banned : List Kind) (c : Ctx) : List Tok → Except BanErr Ctx
  | [] => .ok c
  | .close :: r =>
    match closeExplicit c.frames c.roots with
    | .error e => .error (.ctx e)
    | .ok c' => consumeAllBanned banned c' r
  | .dir d :: r =>
    if banned.contains d.kind then .error (.notAllowed d.id)
    else match place c.frames c.roots d with
      | .error e => .error (.ctx e)
      | .ok c' => consumeAllBanned banned c' r

def resolveBanned (banned : List Kind) (toks : List Tok) : Except BanErr (List Tree) :=
  match consumeAllBanned banned {} toks with
  | .error e => .error e
  | .ok c => if anyExplicit c.frames then .error (.ctx .unclosedAtEOF) else .ok (closeAll c.frames c.roots)

end JSight
