import JSight.Model.Context
/-!
Model of INCLUDE handling at scan time: `core/include.go processInclude`, `scanner/stack.go` (`Stack.Push` refuses a
file name that is already on the stack; `Pop`; the include trace), `core/scan_project.go` (`scanProject` loop,
`processKeyword`: JSIGHT is refused inside an included file).

Files are lists of file-level tokens; the file system is an association list from file ids to entries.
The directive stream of the project is the textual splice of the files; every directive remembers the include chain
that was live when it was read.  Since the repair F42 the pending directive is placed when an INCLUDE keyword is met
(before the file name is looked at), so that a diagnostic about it is raised while the scanner stack still describes
the file it was written in.  Since the repair of `processEOF` it reports "not all explicit contexts are closed" only at
the end of the ROOT file (`scannersStack.Empty()`, here: the stack of including files is `[]`); a parenthesis that the
including file opened before the INCLUDE is no longer counted against the included file.
-/
namespace JSight
open Gen

inductive FTok where
  | dir (d : Dir)
  | close
  | incl (file : Nat) (validName : Bool := true)   -- INCLUDE <file>; `validName` = the name passes the validator
  deriving Repr

inductive FEntry where
  | file (toks : List FTok)
  | directory
  deriving Repr

abbrev FS := List (Nat × FEntry)       -- a file id that is absent does not exist

def FS.get? (fs : FS) (n : Nat) : Option FEntry := (fs.find? (·.1 == n)).map (·.2)

inductive InclErr where
  | badName (inFile pos : Nat)
  | missing (inFile pos : Nat)
  | isDirectory (inFile pos : Nat)
  | recursion (inFile pos : Nat)        -- `ErrRecursionDetected`
  | jsightInIncluded (inFile pos : Nat)
  | fuel
  deriving DecidableEq, Repr

inductive ProjErr where
  | inc (e : InclErr)
  | ctx (e : CtxErr)
  deriving DecidableEq, Repr

/-- scan state of the core: the context, the pending (current) directive, and for every directive read so far the
include chain that was live when it was read: (including file, position of its INCLUDE), innermost first -/
structure PScan where
  ctx : Ctx := {}
  pending : Option Dir := none
  traces : List (Nat × List (Nat × Nat)) := []
  deriving Repr

/-- `processCurrentDirective`: the pending directive is placed -/
def flushPending (st : PScan) : Except ProjErr PScan :=
  match st.pending with
  | none => .ok st
  | some d =>
    match place st.ctx.frames st.ctx.roots d with
    | .error e => .error (.ctx e)
    | .ok c => .ok { st with ctx := c, pending := none }

/-- `scanProject`: the file `cur` is scanned from position `pos`; `stack` = the including files with the positions of
their INCLUDE directives, innermost first (= `scanner.Stack`, top first). The pending directive is placed at the next
keyword (INCLUDE too), at ")" and at the end of EVERY file (`processEOF`); at the end of the ROOT file (`stack = []`,
`scannersStack.Empty()`) an open parenthesised context is an error (repair of `processEOF`: before, at the end of every file). -/
def scanIncFile (fs : FS) : Nat → List (Nat × Nat) → Nat → Nat → List FTok → PScan → Except ProjErr PScan
  | 0, _, _, _, _, _ => .error (.inc .fuel)
  | _ + 1, stack, _, _, [], st =>
    match flushPending st with
    | .error e => .error e
    | .ok st' => if stack.isEmpty && anyExplicit st'.ctx.frames then .error (.ctx .unclosedAtEOF) else .ok st'
  | fuel + 1, stack, cur, pos, t :: rest, st =>
    match t with
    | .dir d =>
      match flushPending st with
      | .error e => .error e
      | .ok st' =>
        if d.kind == Kind.Jsight && !stack.isEmpty then .error (.inc (.jsightInIncluded cur pos))
        else scanIncFile fs fuel stack cur (pos + 1) rest
          { st' with pending := some d, traces := st'.traces ++ [(d.id, stack)] }
    | .close =>
      match flushPending st with
      | .error e => .error e
      | .ok st' =>
        match closeExplicit st'.ctx.frames st'.ctx.roots with
        | .error e => .error (.ctx e)
        | .ok c => scanIncFile fs fuel stack cur (pos + 1) rest { st' with ctx := c }
    | .incl f valid =>
      -- `processInclude`: the directive written before the INCLUDE is placed first (repair F42)
      match flushPending st with
      | .error e => .error e
      | .ok st =>
      if !valid then .error (.inc (.badName cur pos))
      else match fs.get? f with
        | none => .error (.inc (.missing cur pos))
        | some .directory => .error (.inc (.isDirectory cur pos))
        | some (.file toks) =>
          -- `Stack.Push(core.scanner, at)`: the INCLUDING file is pushed; refused if its name is already on the stack
          if stack.any (·.1 == cur) then .error (.inc (.recursion cur pos))
          else match scanIncFile fs fuel ((cur, pos) :: stack) f 0 toks st with
            | .error e => .error e
            | .ok st' => scanIncFile fs fuel stack cur (pos + 1) rest st'

def fsSize (fs : FS) : Nat := fs.foldl (fun n e => n + (match e.2 with | .file t => t.length + 1 | .directory => 1)) 0

/-- a whole project: the directive forest, or the first error in processing order -/
def scanProject (fs : FS) (root : Nat) : Except ProjErr (List Tree × List (Nat × List (Nat × Nat))) :=
  match fs.get? root with
  | some (.file toks) =>
    match scanIncFile fs ((fs.length + 2) * (fsSize fs + 2) + 2) [] root 0 toks {} with
    | .error e => .error e
    | .ok st => .ok (closeAll st.ctx.frames st.ctx.roots, st.traces)
  | _ => .error (.inc (.missing root 0))

end JSight
