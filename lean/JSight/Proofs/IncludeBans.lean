import JSight.Model.IncludeBans
import JSight.Proofs.Include
import JSight.Proofs.Parens
/-!
Helper definitions and lemmas for `JSight/Props/C18_Include.lean` (banned directive kinds during the scan of a
multi-file project, `scanIncFileB` / `scanProjectB` of `JSight/Model/IncludeBans.lean`).
-/
namespace JSight.C18I
open JSight JSight.Gen JSight.C08

/-! ### lifting results of the scan without bans -/

/-- a result of the scan without bans, in the error type of the scan with bans -/
abbrev liftB {α : Type} (r : Except ProjErr α) : Except ProjErrB α := r.mapError ProjErr.toB

@[simp] theorem liftB_ok {α : Type} (a : α) : liftB (.ok a : Except ProjErr α) = .ok a := rfl
@[simp] theorem liftB_error {α : Type} (e : ProjErr) : liftB (.error e : Except ProjErr α) = .error e.toB := rfl

theorem flushPendingB_eq (st : PScan) : flushPendingB st = liftB (flushPending st) := by
  unfold flushPendingB
  cases flushPending st <;> rfl

/-! ### unfolding equations of `scanIncFileB` -/

theorem scanIncFileB_zero (banned : List Kind) (fs : FS) (stack : List (Nat × Nat)) (cur pos : Nat)
    (toks : List FTok) (st : PScan) :
    scanIncFileB banned fs 0 stack cur pos toks st = .error (.inc .fuel) := by
  cases toks <;> rfl

theorem scanIncFileB_nil (banned : List Kind) (fs : FS) (fuel : Nat) (stack : List (Nat × Nat)) (cur pos : Nat)
    (st : PScan) :
    scanIncFileB banned fs (fuel + 1) stack cur pos [] st =
      match flushPendingB st with
      | .error e => .error e
      | .ok st' => if stack.isEmpty && anyExplicit st'.ctx.frames then .error (.ctx .unclosedAtEOF) else .ok st' := rfl

theorem scanIncFileB_dir (banned : List Kind) (fs : FS) (fuel : Nat) (stack : List (Nat × Nat)) (cur pos : Nat)
    (d : Dir) (rest : List FTok) (st : PScan) :
    scanIncFileB banned fs (fuel + 1) stack cur pos (.dir d :: rest) st =
      match flushPendingB st with
      | .error e => .error e
      | .ok st' =>
        if d.kind == Kind.Jsight && !stack.isEmpty then .error (.inc (.jsightInIncluded cur pos))
        else if banned.contains d.kind then .error (.notAllowed cur pos)
        else scanIncFileB banned fs fuel stack cur (pos + 1) rest
          { st' with pending := some d, traces := st'.traces ++ [(d.id, stack)] } := rfl

theorem scanIncFileB_close (banned : List Kind) (fs : FS) (fuel : Nat) (stack : List (Nat × Nat)) (cur pos : Nat)
    (rest : List FTok) (st : PScan) :
    scanIncFileB banned fs (fuel + 1) stack cur pos (.close :: rest) st =
      match flushPendingB st with
      | .error e => .error e
      | .ok st' =>
        match closeExplicit st'.ctx.frames st'.ctx.roots with
        | .error e => .error (.ctx e)
        | .ok c => scanIncFileB banned fs fuel stack cur (pos + 1) rest { st' with ctx := c } := rfl

/-- the INCLUDE token: the directive written before it is placed first (repair F42), then the ban is checked, then the
name, the target and the include stack -/
theorem scanIncFileB_incl (banned : List Kind) (fs : FS) (fuel : Nat) (stack : List (Nat × Nat)) (cur pos f : Nat)
    (valid : Bool) (rest : List FTok) (st : PScan) :
    scanIncFileB banned fs (fuel + 1) stack cur pos (.incl f valid :: rest) st =
      match flushPendingB st with
      | .error e => .error e
      | .ok stf =>
        if banned.contains Kind.Include then .error (.notAllowed cur pos)
        else if !valid then .error (.inc (.badName cur pos))
        else match fs.get? f with
          | none => .error (.inc (.missing cur pos))
          | some .directory => .error (.inc (.isDirectory cur pos))
          | some (.file toks) =>
            if stack.any (·.1 == cur) then .error (.inc (.recursion cur pos))
            else match scanIncFileB banned fs fuel ((cur, pos) :: stack) f 0 toks stf with
              | .error e => .error e
              | .ok st' => scanIncFileB banned fs fuel stack cur (pos + 1) rest st' := rfl

/-- a banned INCLUDE: the directive written before it is placed, then it is refused -/
theorem scanIncFileB_incl_banned (banned : List Kind) (hb : banned.contains Kind.Include = true) (fs : FS)
    (fuel : Nat) (stack : List (Nat × Nat)) (cur pos f : Nat) (valid : Bool) (rest : List FTok) (st : PScan) :
    scanIncFileB banned fs (fuel + 1) stack cur pos (.incl f valid :: rest) st =
      match flushPendingB st with
      | .error e => .error e
      | .ok _ => .error (.notAllowed cur pos) := by
  rw [scanIncFileB_incl, hb]; rfl

/-- an INCLUDE that is not banned: as without bans -/
theorem scanIncFileB_incl_unbanned (banned : List Kind) (hb : banned.contains Kind.Include = false) (fs : FS)
    (fuel : Nat) (stack : List (Nat × Nat)) (cur pos f : Nat) (valid : Bool) (rest : List FTok) (st : PScan) :
    scanIncFileB banned fs (fuel + 1) stack cur pos (.incl f valid :: rest) st =
      match flushPendingB st with
      | .error e => .error e
      | .ok stf =>
        if !valid then .error (.inc (.badName cur pos))
        else match fs.get? f with
          | none => .error (.inc (.missing cur pos))
          | some .directory => .error (.inc (.isDirectory cur pos))
          | some (.file toks) =>
            if stack.any (·.1 == cur) then .error (.inc (.recursion cur pos))
            else match scanIncFileB banned fs fuel ((cur, pos) :: stack) f 0 toks stf with
              | .error e => .error e
              | .ok st' => scanIncFileB banned fs fuel stack cur (pos + 1) rest st' := by
  rw [scanIncFileB_incl, hb]; rfl

/-! ### the scan with bans against the scan without -/

/-- no directive of a banned kind among the tokens, and no INCLUDE if INCLUDE is banned -/
def Clean (banned : List Kind) (toks : List FTok) : Prop :=
  (∀ d, FTok.dir d ∈ toks → banned.contains d.kind = false) ∧
  (banned.contains Kind.Include = false ∨ ∀ f v, FTok.incl f v ∉ toks)

theorem Clean.tail {banned : List Kind} {t : FTok} {toks : List FTok} (h : Clean banned (t :: toks)) :
    Clean banned toks :=
  ⟨fun d hd => h.1 d (List.mem_cons_of_mem _ hd),
   h.2.imp id (fun h' f v hm => h' f v (List.mem_cons_of_mem _ hm))⟩

theorem Clean.nil (banned : List Kind) : Clean banned [] :=
  ⟨fun _ h => (by cases h), Or.inr (fun _ _ h => (by cases h))⟩

theorem Clean.empty (toks : List FTok) : Clean [] toks := ⟨fun _ _ => rfl, Or.inl rfl⟩

/-- the only difference the bans make is a `notAllowed` error: every other result is the result without bans -/
theorem scanIncFileB_cases (banned : List Kind) (fs : FS) :
    ∀ (fuel : Nat) (stack : List (Nat × Nat)) (cur pos : Nat) (toks : List FTok) (st : PScan),
      scanIncFileB banned fs fuel stack cur pos toks st = liftB (scanIncFile fs fuel stack cur pos toks st) ∨
      ∃ c p, scanIncFileB banned fs fuel stack cur pos toks st = .error (.notAllowed c p) := by
  intro fuel
  induction fuel with
  | zero => intro stack cur pos toks st; left; rw [scanIncFileB_zero, scanIncFile_zero]; rfl
  | succ fuel ih =>
    intro stack cur pos toks st
    cases toks with
    | nil =>
      left
      rw [scanIncFileB_nil, scanIncFile_nil, flushPendingB_eq]
      cases flushPending st with
      | error e => rfl
      | ok st' => simp only [liftB_ok]; split <;> rfl
    | cons t rest =>
      cases t with
      | dir d =>
        rw [scanIncFileB_dir, scanIncFile_dir, flushPendingB_eq]
        cases flushPending st with
        | error e => left; rfl
        | ok st' =>
          simp only [liftB_ok]
          cases hj : (d.kind == Kind.Jsight && !stack.isEmpty) with
          | true => left; rfl
          | false =>
            simp only [Bool.false_eq_true, ↓reduceIte]
            cases hk : banned.contains d.kind with
            | true => right; exact ⟨cur, pos, rfl⟩
            | false => simp only [Bool.false_eq_true, ↓reduceIte]; exact ih _ _ _ _ _
      | close =>
        rw [scanIncFileB_close, scanIncFile_close, flushPendingB_eq]
        cases flushPending st with
        | error e => left; rfl
        | ok st' =>
          simp only [liftB_ok]
          cases closeExplicit st'.ctx.frames st'.ctx.roots with
          | error e => left; rfl
          | ok c => exact ih _ _ _ _ _
      | incl f valid =>
        cases hb : banned.contains Kind.Include with
        | true =>
          rw [scanIncFileB_incl_banned banned hb, scanIncFile_incl, flushPendingB_eq]
          cases flushPending st with
          | error e => left; rfl
          | ok stf => right; exact ⟨cur, pos, rfl⟩
        | false =>
          rw [scanIncFileB_incl_unbanned banned hb, scanIncFile_incl, flushPendingB_eq]
          cases flushPending st with
          | error e => left; rfl
          | ok stf =>
          simp only [liftB_ok]
          cases valid with
          | false => left; rfl
          | true =>
            cases fs.get? f with
            | none => left; rfl
            | some e =>
              cases e with
              | directory => left; rfl
              | file body =>
                cases hs : stack.any (·.1 == cur) with
                | true => left; rfl
                | false =>
                  simp only [Bool.not_true, Bool.false_eq_true, ↓reduceIte]
                  rcases ih ((cur, pos) :: stack) f 0 body stf with hin | ⟨c, p, hin⟩
                  · rw [hin]
                    cases scanIncFile fs fuel ((cur, pos) :: stack) f 0 body stf with
                    | error e => left; rfl
                    | ok st' => simp only [liftB_ok]; exact ih _ _ _ _ _
                  · right; rw [hin]; exact ⟨c, p, rfl⟩

/-- if neither the tokens ahead nor any regular file contain a directive of a banned kind (nor an INCLUDE, if
INCLUDE is banned), the scan with bans is the scan without -/
theorem scanIncFileB_clean (banned : List Kind) (fs : FS)
    (hfs : ∀ n body, fs.get? n = some (.file body) → Clean banned body) :
    ∀ (fuel : Nat) (stack : List (Nat × Nat)) (cur pos : Nat) (toks : List FTok) (st : PScan),
      Clean banned toks →
      scanIncFileB banned fs fuel stack cur pos toks st = liftB (scanIncFile fs fuel stack cur pos toks st) := by
  intro fuel
  induction fuel with
  | zero => intro stack cur pos toks st _; rw [scanIncFileB_zero, scanIncFile_zero]; rfl
  | succ fuel ih =>
    intro stack cur pos toks st hc
    cases toks with
    | nil =>
      rw [scanIncFileB_nil, scanIncFile_nil, flushPendingB_eq]
      cases flushPending st with
      | error e => rfl
      | ok st' => simp only [liftB_ok]; split <;> rfl
    | cons t rest =>
      have hc' := hc.tail
      cases t with
      | dir d =>
        have hk : banned.contains d.kind = false := hc.1 d (List.mem_cons_self ..)
        rw [scanIncFileB_dir, scanIncFile_dir, flushPendingB_eq]
        cases flushPending st with
        | error e => rfl
        | ok st' =>
          simp only [liftB_ok, hk, Bool.false_eq_true, ↓reduceIte]
          split
          · rfl
          · exact ih _ _ _ _ _ hc'
      | close =>
        rw [scanIncFileB_close, scanIncFile_close, flushPendingB_eq]
        cases flushPending st with
        | error e => rfl
        | ok st' =>
          simp only [liftB_ok]
          cases closeExplicit st'.ctx.frames st'.ctx.roots with
          | error e => rfl
          | ok c => exact ih _ _ _ _ _ hc'
      | incl f valid =>
        have hb : banned.contains Kind.Include = false := by
          rcases hc.2 with h | h
          · exact h
          · exact absurd (List.mem_cons_self ..) (h f valid)
        rw [scanIncFileB_incl_unbanned banned hb, scanIncFile_incl, flushPendingB_eq]
        cases flushPending st with
        | error e => rfl
        | ok stf =>
        simp only [liftB_ok]
        cases valid with
        | false => rfl
        | true =>
          cases hg : fs.get? f with
          | none => rfl
          | some e =>
            cases e with
            | directory => rfl
            | file body =>
              cases hs : stack.any (·.1 == cur) with
              | true => rfl
              | false =>
                simp only [Bool.not_true, Bool.false_eq_true, ↓reduceIte]
                rw [ih ((cur, pos) :: stack) f 0 body stf (hfs f body hg)]
                cases scanIncFile fs fuel ((cur, pos) :: stack) f 0 body stf with
                | error e => rfl
                | ok st' => simp only [liftB_ok]; exact ih _ _ _ _ _ hc'

/-! ### heads that are never accepted -/

theorem dir_head_banned (banned : List Kind) (fs : FS) (fuel : Nat) (stack : List (Nat × Nat))
    (cur pos : Nat) (d : Dir) (rest : List FTok) (st : PScan) (hb : banned.contains d.kind = true) :
    scanIncFileB banned fs (fuel + 1) stack cur pos (FTok.dir d :: rest) st =
      match flushPending st with
      | .error e => .error e.toB
      | .ok _ =>
        if d.kind == Kind.Jsight && !stack.isEmpty then .error (.inc (.jsightInIncluded cur pos))
        else .error (.notAllowed cur pos) := by
  rw [scanIncFileB_dir, flushPendingB_eq]
  cases flushPending st with
  | error e => rfl
  | ok st' => simp only [liftB_ok, hb, ↓reduceIte]

theorem dir_head_banned_not_ok (banned : List Kind) (fs : FS) (fuel : Nat) (stack : List (Nat × Nat))
    (cur pos : Nat) (d : Dir) (rest : List FTok) (st r : PScan) (hb : banned.contains d.kind = true) :
    scanIncFileB banned fs fuel stack cur pos (FTok.dir d :: rest) st ≠ .ok r := by
  cases fuel with
  | zero => rw [scanIncFileB_zero]; intro h; cases h
  | succ fuel =>
    rw [dir_head_banned banned fs fuel stack cur pos d rest st hb]
    cases flushPending st with
    | error e => intro h; cases h
    | ok st' => simp only []; split <;> (intro h; cases h)

theorem incl_head_banned_not_ok (banned : List Kind) (hb : banned.contains Kind.Include = true) (fs : FS)
    (fuel : Nat) (stack : List (Nat × Nat)) (cur pos f : Nat) (v : Bool) (rest : List FTok) (st r : PScan) :
    scanIncFileB banned fs fuel stack cur pos (FTok.incl f v :: rest) st ≠ .ok r := by
  cases fuel with
  | zero => rw [scanIncFileB_zero]; intro h; cases h
  | succ fuel =>
    rw [scanIncFileB_incl_banned banned hb]
    cases flushPendingB st with
    | error e => intro h; cases h
    | ok stf => intro h; cases h

/-- a banned INCLUDE, in terms of the placement without bans: the context error of the directive written before it,
or the refusal at the INCLUDE -/
theorem incl_head_banned (banned : List Kind) (hb : banned.contains Kind.Include = true) (fs : FS)
    (fuel : Nat) (stack : List (Nat × Nat)) (cur pos f : Nat) (valid : Bool) (rest : List FTok) (st : PScan) :
    scanIncFileB banned fs (fuel + 1) stack cur pos (FTok.incl f valid :: rest) st =
      match flushPending st with
      | .error e => .error e.toB
      | .ok _ => .error (.notAllowed cur pos) := by
  rw [scanIncFileB_incl_banned banned hb, flushPendingB_eq]
  cases flushPending st <;> rfl

/-- an accepted INCLUDE: the directive written before it was placed (giving `stf`), it is not banned, names an existing
regular file, and that file was accepted -/
theorem incl_head_ok (banned : List Kind) (fs : FS) (fuel : Nat) (stack : List (Nat × Nat)) (cur pos f : Nat)
    (v : Bool) (rest : List FTok) (st r : PScan)
    (h : scanIncFileB banned fs fuel stack cur pos (FTok.incl f v :: rest) st = .ok r) :
    ∃ n body stf st', fuel = n + 1 ∧ flushPendingB st = .ok stf ∧ banned.contains Kind.Include = false ∧ v = true ∧
      fs.get? f = some (.file body) ∧ stack.any (·.1 == cur) = false ∧
      scanIncFileB banned fs n ((cur, pos) :: stack) f 0 body stf = .ok st' ∧
      scanIncFileB banned fs n stack cur (pos + 1) rest st' = .ok r := by
  cases fuel with
  | zero => rw [scanIncFileB_zero] at h; cases h
  | succ n =>
    cases hb : banned.contains Kind.Include with
    | true => exact absurd h (incl_head_banned_not_ok banned hb fs _ stack cur pos f v rest st r)
    | false =>
      rw [scanIncFileB_incl_unbanned banned hb] at h
      cases hfl : flushPendingB st with
      | error e => simp [hfl] at h
      | ok stf =>
      simp only [hfl] at h
      cases v with
      | false => simp at h
      | true =>
        cases hg : fs.get? f with
        | none => simp [hg] at h
        | some e =>
          cases e with
          | directory => simp [hg] at h
          | file body =>
            simp only [hg] at h
            cases hs : stack.any (·.1 == cur) with
            | true => simp [hs] at h
            | false =>
              simp only [hs] at h
              cases hi : scanIncFileB banned fs n ((cur, pos) :: stack) f 0 body stf with
              | error e => simp [hi] at h
              | ok st' =>
                simp only [hi] at h
                exact ⟨n, body, stf, st', rfl, rfl, rfl, rfl, rfl, rfl, hi, by simpa using h⟩

/-- success of a scan implies success of the scan of every suffix, at its position, from some state -/
theorem ok_suffixB (banned : List Kind) (fs : FS) (stack : List (Nat × Nat)) (cur : Nat) (rest : List FTok)
    (r : PScan) :
    ∀ (pre : List FTok) (fuel pos : Nat) (st : PScan),
      scanIncFileB banned fs fuel stack cur pos (pre ++ rest) st = .ok r →
      ∃ fuel' st', scanIncFileB banned fs fuel' stack cur (pos + pre.length) rest st' = .ok r := by
  intro pre
  induction pre with
  | nil => intro fuel pos st h; exact ⟨fuel, st, h⟩
  | cons t pre ih =>
    intro fuel pos st h
    have hpos : pos + (t :: pre).length = (pos + 1) + pre.length := by simp only [List.length_cons]; omega
    rw [hpos]
    rw [List.cons_append] at h
    cases t with
    | dir d =>
      cases fuel with
      | zero => rw [scanIncFileB_zero] at h; cases h
      | succ fuel =>
        rw [scanIncFileB_dir] at h
        cases hfl : flushPendingB st with
        | error e => simp [hfl] at h
        | ok st' =>
          simp only [hfl] at h
          split at h
          · cases h
          · split at h
            · cases h
            · exact ih _ _ _ h
    | close =>
      cases fuel with
      | zero => rw [scanIncFileB_zero] at h; cases h
      | succ fuel =>
        rw [scanIncFileB_close] at h
        cases hfl : flushPendingB st with
        | error e => simp [hfl] at h
        | ok st' =>
          simp only [hfl] at h
          cases hc : closeExplicit st'.ctx.frames st'.ctx.roots with
          | error e => simp [hc] at h
          | ok c => simp only [hc] at h; exact ih _ _ _ h
    | incl f valid =>
      obtain ⟨n, body, stf, st', _, _, _, _, _, _, _, h'⟩ := incl_head_ok banned fs fuel stack cur pos f valid _ st r h
      exact ih _ _ _ h'

/-- an accepted token list is clean -/
theorem ok_clean (banned : List Kind) (fs : FS) (fuel : Nat) (stack : List (Nat × Nat)) (cur pos : Nat)
    (toks : List FTok) (st r : PScan) (h : scanIncFileB banned fs fuel stack cur pos toks st = .ok r) :
    Clean banned toks := by
  refine ⟨?_, ?_⟩
  · intro d hm
    cases hb : banned.contains d.kind with
    | false => rfl
    | true =>
      obtain ⟨pre, post, rfl⟩ := List.append_of_mem hm
      obtain ⟨fuel', st', h'⟩ := ok_suffixB banned fs stack cur _ r pre fuel pos st h
      exact absurd h' (dir_head_banned_not_ok banned fs fuel' stack cur _ d post st' r hb)
  · cases hb : banned.contains Kind.Include with
    | false => exact Or.inl rfl
    | true =>
      right
      intro f v hm
      obtain ⟨pre, post, rfl⟩ := List.append_of_mem hm
      obtain ⟨fuel', st', h'⟩ := ok_suffixB banned fs stack cur _ r pre fuel pos st h
      exact incl_head_banned_not_ok banned hb fs fuel' stack cur _ f v post st' r h'

/-! ### INCLUDE banned: no file system, no fuel -/

/-- the scan of one file when INCLUDE is banned (at an INCLUDE the directive written before it is placed, then the
INCLUDE is refused: no file system in sight) -/
def scanFlatB (banned : List Kind) (stack : List (Nat × Nat)) (cur : Nat) : Nat → List FTok → PScan → Except ProjErrB PScan
  | _, [], st =>
    match flushPendingB st with
    | .error e => .error e
    | .ok st' => if stack.isEmpty && anyExplicit st'.ctx.frames then .error (.ctx .unclosedAtEOF) else .ok st'
  | pos, .dir d :: rest, st =>
    match flushPendingB st with
    | .error e => .error e
    | .ok st' =>
      if d.kind == Kind.Jsight && !stack.isEmpty then .error (.inc (.jsightInIncluded cur pos))
      else if banned.contains d.kind then .error (.notAllowed cur pos)
      else scanFlatB banned stack cur (pos + 1) rest
        { st' with pending := some d, traces := st'.traces ++ [(d.id, stack)] }
  | pos, .close :: rest, st =>
    match flushPendingB st with
    | .error e => .error e
    | .ok st' =>
      match closeExplicit st'.ctx.frames st'.ctx.roots with
      | .error e => .error (.ctx e)
      | .ok c => scanFlatB banned stack cur (pos + 1) rest { st' with ctx := c }
  | pos, .incl _ _ :: _, st =>
    match flushPendingB st with
    | .error e => .error e
    | .ok _ => .error (.notAllowed cur pos)

/-- with INCLUDE banned, and more fuel than tokens, the scan is `scanFlatB`: neither the file system nor the amount of
fuel matter -/
theorem scanIncFileB_flat (banned : List Kind) (hb : banned.contains Kind.Include = true) (fs : FS)
    (stack : List (Nat × Nat)) (cur : Nat) :
    ∀ (toks : List FTok) (fuel pos : Nat) (st : PScan), toks.length < fuel →
      scanIncFileB banned fs fuel stack cur pos toks st = scanFlatB banned stack cur pos toks st := by
  intro toks
  induction toks with
  | nil =>
    intro fuel pos st hf
    cases fuel with
    | zero => cases hf
    | succ fuel => rfl
  | cons t rest ih =>
    intro fuel pos st hf
    cases fuel with
    | zero => cases hf
    | succ fuel =>
      have hf' : rest.length < fuel := by simp only [List.length_cons] at hf; omega
      cases t with
      | dir d =>
        rw [scanIncFileB_dir, scanFlatB]
        cases flushPendingB st with
        | error e => rfl
        | ok st' => simp only [ih fuel (pos + 1) _ hf']
      | close =>
        rw [scanIncFileB_close, scanFlatB]
        cases flushPendingB st with
        | error e => rfl
        | ok st' =>
          simp only []
          cases closeExplicit st'.ctx.frames st'.ctx.roots with
          | error e => rfl
          | ok c => exact ih fuel (pos + 1) _ hf'
      | incl f v => rw [scanIncFileB_incl_banned banned hb, scanFlatB]

theorem project_fuel_gt {fs : FS} {root : Nat} {toks : List FTok} (h : fs.get? root = some (.file toks)) :
    toks.length < (fs.length + 2) * (fsSize fs + 2) + 2 := by
  have h1 := file_length_lt_fsSize h
  have h2 : (fs.length + 2) * (fsSize fs + 2) = fs.length * (fsSize fs + 2) + 2 * (fsSize fs + 2) := Nat.add_mul ..
  omega

/-- with INCLUDE banned the project is the flat scan of its root file -/
theorem scanProjectB_flat (banned : List Kind) (hb : banned.contains Kind.Include = true) (fs : FS) (root : Nat) :
    scanProjectB banned fs root =
      match fs.get? root with
      | some (.file toks) =>
        match scanFlatB banned [] root 0 toks {} with
        | .error e => .error e
        | .ok st => .ok (closeAll st.ctx.frames st.ctx.roots, st.traces)
      | _ => .error (.inc (.missing root 0)) := by
  unfold scanProjectB
  cases hr : fs.get? root with
  | none => rfl
  | some e =>
    cases e with
    | directory => rfl
    | file toks =>
      simp only []
      rw [scanIncFileB_flat banned hb fs [] root toks _ 0 {} (project_fuel_gt hr)]
      rfl

/-! ### accepted ⇒ nothing banned in the forest -/

/-- the directives of a forest: those of its pre-order token stream -/
def dirsOf (forest : List Tree) : List Dir :=
  (flattenForest forest).filterMap (fun t => match t with | .dir d => some d | .close => none)

theorem mem_dirsOf {forest : List Tree} {d : Dir} : d ∈ dirsOf forest ↔ Tok.dir d ∈ flattenForest forest := by
  unfold dirsOf
  rw [List.mem_filterMap]
  constructor
  · rintro ⟨t, ht, he⟩
    cases t with
    | dir d' => simp at he; subst he; exact ht
    | close => simp at he
  · intro h; exact ⟨_, h, rfl⟩

/-- every directive that the state holds (placed, or pending) has the property -/
def StAll (P : Dir → Prop) (st : PScan) : Prop :=
  (∀ d, Tok.dir d ∈ C05P.flat st.ctx.frames st.ctx.roots → P d) ∧ (∀ d, st.pending = some d → P d)

theorem flush_StAll {P : Dir → Prop} {st st' : PScan} (h : flushPending st = .ok st') (hs : StAll P st) :
    StAll P st' ∧ st'.pending = none := by
  unfold flushPending at h
  split at h
  · rename_i hp
    cases h
    exact ⟨hs, hp⟩
  · rename_i d hp
    split at h
    · cases h
    · rename_i c hc
      cases h
      refine ⟨⟨?_, ?_⟩, rfl⟩
      · intro d' hd'
        simp only [] at hd'
        rw [C05P.place_flat _ _ _ _ hc, List.mem_append, List.mem_singleton] at hd'
        rcases hd' with hd' | hd'
        · exact hs.1 d' hd'
        · cases hd'; exact hs.2 d hp
      · intro d' hd'; cases hd'

theorem flushB_ok {st st' : PScan} (h : flushPendingB st = .ok st') : flushPending st = .ok st' := by
  unfold flushPendingB at h
  split at h
  · rename_i s hs; cases h; exact hs
  · cases h

/-- an accepted scan: every directive held at the end is one held at the beginning or an unbanned one; nothing is
pending, and at the end of the root file (`stack = []`) no parenthesised context is open (since the repair of
`processEOF` an included file may end inside a parenthesised context) -/
theorem scanIncFileB_StAll (banned : List Kind) (fs : FS) (P : Dir → Prop)
    (hP : ∀ d, banned.contains d.kind = false → P d) :
    ∀ (fuel : Nat) (stack : List (Nat × Nat)) (cur pos : Nat) (toks : List FTok) (st r : PScan),
      scanIncFileB banned fs fuel stack cur pos toks st = .ok r → StAll P st →
      StAll P r ∧ r.pending = none ∧ (stack = [] → anyExplicit r.ctx.frames = false) := by
  intro fuel
  induction fuel with
  | zero => intro stack cur pos toks st r h; rw [scanIncFileB_zero] at h; cases h
  | succ fuel ih =>
    intro stack cur pos toks st r h hs
    cases toks with
    | nil =>
      rw [scanIncFileB_nil] at h
      cases hfl : flushPendingB st with
      | error e => simp [hfl] at h
      | ok st' =>
        simp only [hfl] at h
        have ⟨hs', hp'⟩ := flush_StAll (flushB_ok hfl) hs
        split at h
        · cases h
        · rename_i hx
          cases h
          refine ⟨hs', hp', ?_⟩
          intro he
          subst he
          simpa using hx
    | cons t rest =>
      cases t with
      | dir d =>
        rw [scanIncFileB_dir] at h
        cases hfl : flushPendingB st with
        | error e => simp [hfl] at h
        | ok st' =>
          simp only [hfl] at h
          have ⟨hs', _⟩ := flush_StAll (flushB_ok hfl) hs
          split at h
          · cases h
          · cases hk : banned.contains d.kind with
            | true => simp only [hk, ↓reduceIte] at h; cases h
            | false =>
              simp only [hk, Bool.false_eq_true, ↓reduceIte] at h
              refine ih _ _ _ _ _ _ h ⟨hs'.1, ?_⟩
              intro d' hd'
              cases hd'
              exact hP d hk
      | close =>
        rw [scanIncFileB_close] at h
        cases hfl : flushPendingB st with
        | error e => simp [hfl] at h
        | ok st' =>
          simp only [hfl] at h
          have ⟨hs', hp'⟩ := flush_StAll (flushB_ok hfl) hs
          cases hc : closeExplicit st'.ctx.frames st'.ctx.roots with
          | error e => simp [hc] at h
          | ok c =>
            simp only [hc] at h
            refine ih _ _ _ _ _ _ h ⟨?_, ?_⟩
            · intro d' hd'
              simp only [] at hd'
              rw [C05P.closeExplicit_flat _ _ _ hc, List.mem_append, List.mem_singleton] at hd'
              rcases hd' with hd' | hd'
              · exact hs'.1 d' hd'
              · cases hd'
            · intro d' hd'; simp only [] at hd'; rw [hp'] at hd'; cases hd'
      | incl f v =>
        obtain ⟨n, body, stf, st', hn, hfl, _, _, _, _, hi, h'⟩ := incl_head_ok banned fs _ stack cur pos f v rest st r h
        cases hn
        have ⟨hsf, _⟩ := flush_StAll (flushB_ok hfl) hs
        have ⟨hs', _, _⟩ := ih _ _ _ _ _ _ hi hsf
        exact ih _ _ _ _ _ _ h' hs'

theorem StAll_init (P : Dir → Prop) : StAll P {} :=
  ⟨fun _ h => by simp [C05P.flat, C05P.openFlatten] at h, fun _ h => by cases h⟩

/-- the project: what `scanProjectB` accepts -/
theorem scanProjectB_ok {banned : List Kind} {fs : FS} {root : Nat} {res : List Tree × List (Nat × List (Nat × Nat))}
    (h : scanProjectB banned fs root = .ok res) :
    ∃ toks st, fs.get? root = some (.file toks) ∧
      scanIncFileB banned fs ((fs.length + 2) * (fsSize fs + 2) + 2) [] root 0 toks {} = .ok st ∧
      res = (closeAll st.ctx.frames st.ctx.roots, st.traces) := by
  unfold scanProjectB at h
  cases hr : fs.get? root with
  | none => rw [hr] at h; cases h
  | some e =>
    cases e with
    | directory => rw [hr] at h; cases h
    | file toks =>
      rw [hr] at h
      simp only [] at h
      split at h
      · cases h
      · rename_i st hst
        cases h
        exact ⟨toks, st, rfl, hst, rfl⟩

/-! ### accepted ⇒ every file that is read is clean -/

theorem getElem?_split {α} {l : List α} {i : Nat} {a : α} (h : l[i]? = some a) :
    l = l.take i ++ a :: l.drop (i + 1) ∧ (l.take i).length = i := by
  obtain ⟨hlt, hget⟩ := List.getElem?_eq_some_iff.mp h
  refine ⟨?_, ?_⟩
  · have := (List.take_append_drop i l).symm
    rw [List.drop_eq_getElem_cons hlt, hget] at this
    exact this
  · rw [List.length_take]; omega

/-- if the root file is accepted, every live file has been accepted (from some state) -/
theorem live_visited (banned : List Kind) (fs : FS) (root : Nat) (toks0 : List FTok) (fuel0 : Nat) (st0 r0 : PScan)
    (hroot : fs.get? root = some (.file toks0))
    (h : scanIncFileB banned fs fuel0 [] root 0 toks0 st0 = .ok r0) :
    ∀ stack cur, Live fs root stack cur →
      ∃ all fuel st r, fs.get? cur = some (.file all) ∧ scanIncFileB banned fs fuel stack cur 0 all st = .ok r := by
  intro stack cur hl
  induction hl with
  | root => exact ⟨toks0, fuel0, st0, r0, hroot, h⟩
  | @push stack cur pos f all body _ hs hc hp hf ih =>
    obtain ⟨all', fuel, st, r, hc', hscan⟩ := ih
    rw [hc] at hc'
    cases hc'
    obtain ⟨hsplit, hlen⟩ := getElem?_split hp
    rw [hsplit] at hscan
    obtain ⟨fuel', st', h'⟩ := ok_suffixB banned fs stack cur _ r _ fuel 0 st hscan
    rw [hlen, Nat.zero_add] at h'
    obtain ⟨n, body', stf, st'', _, _, _, _, hg, _, hi, _⟩ := incl_head_ok banned fs fuel' stack cur pos f true _ st' r h'
    rw [hf] at hg
    cases hg
    exact ⟨body, n, stf, st'', hf, hi⟩

/-! ### a `notAllowed` error points at a banned directive of a file that is read -/

/-- the token at position `p` is a directive of a banned kind, or an INCLUDE while INCLUDE is banned -/
def BannedAt (banned : List Kind) (all : List FTok) (p : Nat) : Prop :=
  (∃ d, all[p]? = some (FTok.dir d) ∧ banned.contains d.kind = true) ∨
  (∃ f v, all[p]? = some (FTok.incl f v) ∧ banned.contains Kind.Include = true)

theorem flushB_not_notAllowed (st : PScan) (c p : Nat) : flushPendingB st ≠ .error (.notAllowed c p) := by
  rw [flushPendingB_eq]
  cases flushPending st with
  | ok s => intro h; cases h
  | error e => cases e <;> (intro h; cases h)

theorem notAllowed_sound (banned : List Kind) (fs : FS) (root : Nat) :
    ∀ (fuel : Nat) (stack : List (Nat × Nat)) (cur pos : Nat) (toks : List FTok) (st : PScan)
      (all : List FTok) (c p : Nat),
      Live fs root stack cur → fs.get? cur = some (.file all) → toks = all.drop pos →
      scanIncFileB banned fs fuel stack cur pos toks st = .error (.notAllowed c p) →
      ∃ stack' all', Live fs root stack' c ∧ fs.get? c = some (.file all') ∧ BannedAt banned all' p := by
  intro fuel
  induction fuel with
  | zero => intro stack cur pos toks st all c p _ _ _ h; rw [scanIncFileB_zero] at h; cases h
  | succ fuel ih =>
    intro stack cur pos toks st all c p hl hc ht h
    cases toks with
    | nil =>
      rw [scanIncFileB_nil] at h
      cases hfl : flushPendingB st with
      | error e =>
        simp only [hfl] at h
        cases h
        exact absurd hfl (flushB_not_notAllowed st c p)
      | ok st' =>
        simp only [hfl] at h
        split at h <;> cases h
    | cons t rest =>
      obtain ⟨hpos, hrest⟩ := drop_cons ht
      cases t with
      | dir d =>
        rw [scanIncFileB_dir] at h
        cases hfl : flushPendingB st with
        | error e =>
          simp only [hfl] at h
          cases h
          exact absurd hfl (flushB_not_notAllowed st c p)
        | ok st' =>
          simp only [hfl] at h
          split at h
          · cases h
          · cases hk : banned.contains d.kind with
            | true =>
              simp only [hk, ↓reduceIte] at h
              cases h
              exact ⟨stack, all, hl, hc, Or.inl ⟨d, hpos, hk⟩⟩
            | false =>
              simp only [hk, Bool.false_eq_true, ↓reduceIte] at h
              exact ih _ _ _ _ _ all c p hl hc hrest h
      | close =>
        rw [scanIncFileB_close] at h
        cases hfl : flushPendingB st with
        | error e =>
          simp only [hfl] at h
          cases h
          exact absurd hfl (flushB_not_notAllowed st c p)
        | ok st' =>
          simp only [hfl] at h
          cases hce : closeExplicit st'.ctx.frames st'.ctx.roots with
          | error e => simp only [hce] at h; cases h
          | ok c' => simp only [hce] at h; exact ih _ _ _ _ _ all c p hl hc hrest h
      | incl f v =>
        cases hb : banned.contains Kind.Include with
        | true =>
          rw [scanIncFileB_incl_banned banned hb] at h
          cases hfl : flushPendingB st with
          | error e =>
            simp only [hfl] at h
            cases h
            exact absurd hfl (flushB_not_notAllowed st c p)
          | ok stf =>
            simp only [hfl] at h
            cases h
            exact ⟨stack, all, hl, hc, Or.inr ⟨f, v, hpos, hb⟩⟩
        | false =>
          rw [scanIncFileB_incl_unbanned banned hb] at h
          cases hfl : flushPendingB st with
          | error e =>
            simp only [hfl] at h
            cases h
            exact absurd hfl (flushB_not_notAllowed st c p)
          | ok stf =>
          simp only [hfl] at h
          cases v with
          | false => simp at h
          | true =>
            cases hg : fs.get? f with
            | none => simp [hg] at h
            | some e =>
              cases e with
              | directory => simp [hg] at h
              | file body =>
                simp only [hg] at h
                cases hs : stack.any (·.1 == cur) with
                | true => simp [hs] at h
                | false =>
                  simp only [hs] at h
                  cases hi : scanIncFileB banned fs fuel ((cur, pos) :: stack) f 0 body stf with
                  | error e =>
                    simp only [hi] at h
                    have he : e = .notAllowed c p := by simpa using h
                    subst he
                    exact ih _ _ _ _ _ body c p (Live.push hl hs hc hpos hg) hg (by simp) hi
                  | ok st' =>
                    simp only [hi] at h
                    exact ih _ _ _ _ _ all c p hl hc hrest (by simpa using h)

/-! ### INCLUDE banned: every recorded trace is the stack of the one file -/

theorem scanFlatB_traces (banned : List Kind) (stack : List (Nat × Nat)) (cur : Nat) :
    ∀ (toks : List FTok) (pos : Nat) (st r : PScan), scanFlatB banned stack cur pos toks st = .ok r →
      ∀ e ∈ r.traces, e ∈ st.traces ∨ e.2 = stack := by
  intro toks
  induction toks with
  | nil =>
    intro pos st r h
    rw [scanFlatB] at h
    cases hfl : flushPendingB st with
    | error e => simp [hfl] at h
    | ok st' =>
      simp only [hfl] at h
      split at h
      · cases h
      · cases h; intro e he; rw [flush_traces (flushB_ok hfl)] at he; exact Or.inl he
  | cons t rest ih =>
    intro pos st r h
    cases t with
    | dir d =>
      rw [scanFlatB] at h
      cases hfl : flushPendingB st with
      | error e => simp [hfl] at h
      | ok st' =>
        simp only [hfl] at h
        split at h
        · cases h
        · split at h
          · cases h
          · intro e he
            rcases ih _ _ _ h e he with h1 | h1
            · simp only [List.mem_append, List.mem_singleton] at h1
              rcases h1 with h1 | h1
              · rw [flush_traces (flushB_ok hfl)] at h1; exact Or.inl h1
              · subst h1; exact Or.inr rfl
            · exact Or.inr h1
    | close =>
      rw [scanFlatB] at h
      cases hfl : flushPendingB st with
      | error e => simp [hfl] at h
      | ok st' =>
        simp only [hfl] at h
        cases hc : closeExplicit st'.ctx.frames st'.ctx.roots with
        | error e => simp [hc] at h
        | ok c =>
          simp only [hc] at h
          intro e he
          rcases ih _ _ _ h e he with h1 | h1
          · simp only [] at h1; rw [flush_traces (flushB_ok hfl)] at h1; exact Or.inl h1
          · exact Or.inr h1
    | incl f v =>
      rw [scanFlatB] at h
      cases hfl : flushPendingB st with
      | error e => simp [hfl] at h
      | ok st' => simp [hfl] at h

end JSight.C18I
