import JSight.Proofs.ScanParam
/-!
Helpers of `Props/C15_Scan.lean`: the run of the scanner model over an annotation in its two spellings,
`/* … */` and `// …`, after a keyword or a parameter of a directive.

* `hasClose t`: the text contains the two bytes `*/` (`hasClose_iff`: as an infix).
* `stepPA_slash`, `stepAS2_star`, `stepMTS`, `stepM_plain`, `stepM_slash_no`, `stepM_close`, `stepATS_eol`,
  `stepA_eolS`, `stepEK_eol` …: ONE byte step (`byteStep`) of the states involved (`stateAnnotationSign2`,
  `stateMultilineAnnotationTextStart`, `stateMultilineAnnotation`, `stateAnnotationTextStart`, `stateAnnotation`)
  on a symbolic byte, by `simp [code, …]` on these states of the regenerated table.
* `loopM`: the loop of `stateMultilineAnnotation` consumes a text without NUL in which no `/` follows a `*`
  (the byte BEFORE the text is part of the invariant: this is `prevIsStar`).
* `block_sign2`, `block_byteLoop`, `block_byteLoop0`: the block spelling from `stateAnnotationSign2` /
  `stateParameterOrAnnotation` (with / without blanks in front).
* `line_sign2`, `line_byteLoop`, `line_byteLoop0`: the line spelling.
* `block_tail`, `line_tail`, `get_block`, `get_line`, `get_quoted_block`, `get_quoted_line`: whole runs (`lexAll`).
-/
namespace JSight.ScanAnnot
open JSight JSight.Gen JSight.ScanParam

/-! ### `*/` in a text -/

/-- the text contains the two-byte sequence `*/` -/
def hasClose : Bytes → Bool
  | [] => false
  | a :: r => (a == 42 && r.head? == some 47) || hasClose r

theorem hasClose_cons2 (a b : UInt8) (r : Bytes) :
    hasClose (a :: b :: r) = ((a == 42 && b == 47) || hasClose (b :: r)) := by
  simp [hasClose]

/-- `hasClose` is the infix relation -/
theorem hasClose_iff : ∀ (t : Bytes), hasClose t = true ↔ ∃ a b, t = a ++ 42 :: 47 :: b
  | [] => by simp [hasClose]
  | [x] => by
    simp only [hasClose, List.head?_nil, Bool.or_false, Bool.and_eq_true]
    constructor
    · intro h; simp at h
    · rintro ⟨a, b, h⟩
      cases a with
      | nil => simp at h
      | cons y a => cases a <;> simp at h
  | x :: y :: r => by
    rw [hasClose_cons2, Bool.or_eq_true, hasClose_iff (y :: r)]
    constructor
    · rintro (h | ⟨a, b, h⟩)
      · simp only [Bool.and_eq_true, beq_iff_eq] at h
        exact ⟨[], r, by rw [h.1, h.2]; rfl⟩
      · exact ⟨x :: a, b, by rw [h]; rfl⟩
    · rintro ⟨a, b, h⟩
      cases a with
      | nil =>
        simp only [List.nil_append, List.cons.injEq] at h
        left; simp [h.1, h.2.1]
      | cons z a =>
        simp only [List.cons_append, List.cons.injEq] at h
        right; exact ⟨a, b, h.2⟩

theorem hasClose_false_iff (t : Bytes) : hasClose t = false ↔ ∀ a b, t ≠ a ++ 42 :: 47 :: b := by
  rw [← Bool.not_eq_true, hasClose_iff]
  constructor
  · intro h a b e; exact h ⟨a, b, e⟩
  · rintro h ⟨a, b, e⟩; exact h a b e

/-- a `*` behind the text closes nothing by itself -/
theorem hasClose_append_star : ∀ (t : Bytes), hasClose (t ++ [42]) = hasClose t
  | [] => by simp [hasClose]
  | [x] => by simp [hasClose]
  | x :: y :: r => by
    have ih := hasClose_append_star (y :: r)
    simp only [List.cons_append] at ih ⊢
    rw [hasClose_cons2, hasClose_cons2, ih]

/-! ### one byte step of the states involved (facts about the regenerated table) -/

section steps
set_option linter.unusedSimpArgs false
variable (d : Src) (o : Oracle) (stk : List St) (es : List (Ev × Nat)) (lp : List (Nat × Nat)) (p : Nat)

/-- right after a keyword / a parameter (no blank): `/` may open an annotation -/
theorem stepPA_slash (hp : p < d.size) (h : d.get p = 47) :
    byteStep d o (cfg .stateParameterOrAnnotation stk es lp p) = .ok (cfg .stateAnnotationSign2 stk es lp (p + 1)) := by
  simp [byteStep, curByte, Nat.ne_of_lt hp, interp, stepFuel, code, Code.select, execOps, execOp, h]

/-- `/*`: the block spelling -/
theorem stepAS2_star (hp : p < d.size) (h : d.get p = 42) :
    byteStep d o (cfg .stateAnnotationSign2 stk es lp p) =
      .ok (cfg .stateMultilineAnnotationTextStart stk es lp (p + 1)) := by
  simp [byteStep, curByte, Nat.ne_of_lt hp, interp, stepFuel, code, Code.select, execOps, execOp, h]

/-- the first byte after `/*`, whatever it is (`/` included — the special case of the table: this `/` is NOT
tested against the `*` of `/*`): `AnnotationBegin` found at this byte, which is consumed -/
theorem stepMTS (hp : p < d.size) (h0 : d.get p ≠ 0) :
    byteStep d o (cfg .stateMultilineAnnotationTextStart stk es lp p) =
      .ok ⟨.stateMultilineAnnotation, stk, [(.annotationBegin, p)], es, lp, p + 1, 0⟩ := by
  by_cases h47 : d.get p = 47
  · simp [byteStep, curByte, Nat.ne_of_lt hp, interp, stepFuel, code, Code.select, execOps, execOp, h47]
  · simp [byteStep, curByte, Nat.ne_of_lt hp, interp, stepFuel, code, Code.select, execOps, execOp, h0, h47]

/-- in the block: a byte other than `/` is consumed -/
theorem stepM_plain (hp : p < d.size) (h0 : d.get p ≠ 0) (h47 : d.get p ≠ 47) :
    byteStep d o (cfg .stateMultilineAnnotation stk es lp p) = .ok (cfg .stateMultilineAnnotation stk es lp (p + 1)) := by
  simp [byteStep, curByte, Nat.ne_of_lt hp, interp, stepFuel, code, Code.select, execOps, execOp, h0, h47]

/-- in the block: a `/` that does not follow a `*` is consumed -/
theorem stepM_slash_no (hp : p + 1 < d.size) (h : d.get (p + 1) = 47) (hprev : d.get p ≠ 42) :
    byteStep d o (cfg .stateMultilineAnnotation stk es lp (p + 1)) =
      .ok (cfg .stateMultilineAnnotation stk es lp (p + 2)) := by
  simp [byteStep, curByte, Nat.ne_of_lt hp, interp, stepFuel, code, Code.select, execOps, execOp, evalCond, h,
    hprev, B.star]

/-- in the block: a `/` right after a `*` closes the annotation: `AnnotationEnd` found TWO bytes back, the state
is popped from the step stack, the `/` is consumed -/
theorem stepM_close (s : St) (hp : p + 2 < d.size) (h : d.get (p + 2) = 47) (hprev : d.get (p + 1) = 42) :
    byteStep d o (cfg .stateMultilineAnnotation (s :: stk) es lp (p + 2)) =
      .ok ⟨s, stk, [(.annotationEnd, p)], es, lp, p + 3, 0⟩ := by
  have e1 : p + 2 - 1 = p + 1 := by omega
  simp [byteStep, curByte, Nat.ne_of_lt hp, interp, stepFuel, code, Code.select, execOps, execOp, evalCond, h,
    hprev, B.star, e1]

/-- in the block: a zero byte / the end of the file is an error -/
theorem stepM_eof (hp : p = d.size) :
    byteStep d o (cfg .stateMultilineAnnotation stk es lp p) = .error (.diag p) := by
  simp [byteStep, curByte, hp, interp, stepFuel, code, Code.select, execOps, execOp]

/-- table facts: what `stateAnnotationTextStart` and `stateAnnotation` do with a line end -/
theorem code_ATS (c : UInt8) (ev : Cond → Bool) :
    (code .stateAnnotationTextStart).select c ev = ([.found .annotationBegin 0, .setStep .stateAnnotation], .redispatch) := by
  simp [code, Code.select]

theorem code_A_eol (e : UInt8) (he : e = 10 ∨ e = 13) (ev : Cond → Bool) :
    (code .stateAnnotation).select e ev = ([.found .annotationEnd 1, .popToStep], .redispatch) := by
  rcases he with he | he <;> subst he <;> simp [code, Code.select]

/-- the line spelling, EMPTY text: the line end right after `//` — `AnnotationBegin` at the line end and
`AnnotationEnd` one byte before it (the empty lexeme), the state is popped and sees the line end -/
theorem stepATS_eol (s : St) (e : UInt8) (hp : p + 1 < d.size) (h : d.get (p + 1) = e) (he : e = 10 ∨ e = 13)
    (hs : ∀ ev, (code s).select e ev = ([], .done)) :
    byteStep d o (cfg .stateAnnotationTextStart (s :: stk) es lp (p + 1)) =
      .ok ⟨s, stk, [(.annotationBegin, p + 1), (.annotationEnd, p)], es, lp, p + 2, 0⟩ := by
  have h0 : e ≠ 0 := by rcases he with he | he <;> rw [he] <;> decide
  simp [byteStep, curByte, Nat.ne_of_lt hp, interp, stepFuel, execOps, execOp, h, h0, code_ATS, code_A_eol e he, hs]

/-- the line spelling: the line end after a non-empty text — `AnnotationEnd` one byte back, the state is popped
and sees the line end -/
theorem stepA_eolS (s : St) (e : UInt8) (hp : p + 1 < d.size) (h : d.get (p + 1) = e) (he : e = 10 ∨ e = 13)
    (hs : ∀ ev, (code s).select e ev = ([], .done)) :
    byteStep d o (cfg .stateAnnotation (s :: stk) es lp (p + 1)) =
      .ok ⟨s, stk, [(.annotationEnd, p)], es, lp, p + 2, 0⟩ := by
  have h0 : e ≠ 0 := by rcases he with he | he <;> rw [he] <;> decide
  simp [byteStep, curByte, Nat.ne_of_lt hp, interp, stepFuel, execOps, execOp, h, h0, code_A_eol e he, hs]

/-- the line spelling: `#` ends the annotation (a comment follows) -/
theorem stepA_hash (hp : p + 1 < d.size) (h : d.get (p + 1) = 35) :
    byteStep d o (cfg .stateAnnotation stk es lp (p + 1)) =
      .ok ⟨.stateSingleComment, stk, [(.annotationEnd, p)], es, lp, p + 2, 0⟩ := by
  simp [byteStep, curByte, Nat.ne_of_lt hp, interp, stepFuel, code, Code.select, execOps, execOp, h]

/-- `stateExpectKeyword` skips a line end -/
theorem stepEK_eol (hp : p < d.size) (h : d.get p = 10 ∨ d.get p = 13) :
    byteStep d o (cfg .stateExpectKeyword stk es lp p) = .ok (cfg .stateExpectKeyword stk es lp (p + 1)) := by
  rcases h with h | h <;>
    simp [byteStep, curByte, Nat.ne_of_lt hp, interp, stepFuel, code, Code.select, execOps, execOp, h]

end steps

/-- the states a keyword pushes that skip a line end (the hypothesis `hs` of the line spelling) -/
theorem skips_eol (s : St)
    (h : s ∈ [St.stateExpectKeyword, .stateEnumBody, .stateHeaderBody, .stateParamsBody, .statePathBody,
      .stateQueryBodyOrKeyword, .stateResultBody]) (e : UInt8) (he : e = 10 ∨ e = 13) :
    ∀ ev, (code s).select e ev = ([], .done) := by
  intro ev
  simp only [List.mem_cons, List.mem_nil_iff, or_false] at h
  rcases h with h | h | h | h | h | h | h <;> rcases he with he | he <;> subst h <;> subst he <;>
    simp [code, Code.select]

/-! ### the byte loop -/

/-- a byte step that finds `AnnotationBegin` and `AnnotationEnd` at once (the empty line annotation) -/
theorem byteLoop_annotBoth {d : Src} {o : Oracle} {sc : Sc} {st : St} {stk : List St} {b q : Nat}
    {es : List (Ev × Nat)} {lp : List (Nat × Nat)} {p' : Nat} (fuel : Nat) (hle : sc.cur ≤ d.size)
    (hs : byteStep d o sc = .ok ⟨st, stk, [(.annotationBegin, b), (.annotationEnd, q)], es, lp, p', 0⟩) :
    byteLoop d o (fuel + 1) sc = .ok (some ⟨.annotation, b, q + 1⟩, cfg st stk es lp p') := by
  rw [byteLoop, if_neg (Nat.not_lt.mpr hle), hs]
  simp [drainFinds, processEvent, Ev.isBeginning, Ev.isEnding, Ev.matches, Ev.lexTy]

/-- **the loop of the block**: a text without NUL is consumed as long as no `/` follows a `*`; the byte before
the text (`prev`, at `p`) takes part — this is the `prevIsStar` test of the table -/
theorem loopM (d : Src) (o : Oracle) (stk : List St) (es : List (Ev × Nat)) (lp : List (Nat × Nat)) :
    ∀ (t : Bytes) (prev : UInt8) (p fuel : Nat), (∀ c ∈ t, c ≠ 0) → hasClose (prev :: t) = false →
      d.get p = prev → At d (p + 1) t →
      byteLoop d o (fuel + t.length) (cfg .stateMultilineAnnotation stk es lp (p + 1)) =
        byteLoop d o fuel (cfg .stateMultilineAnnotation stk es lp (p + 1 + t.length))
  | [], _, _, _, _, _, _, _ => by simp
  | c :: t, prev, p, fuel, ht, hcl, hprev, hat => by
    obtain ⟨h1, h2, h3⟩ := hat
    have hc := ht c (by simp)
    rw [hasClose_cons2, Bool.or_eq_false_iff] at hcl
    have e1 : fuel + (c :: t).length = fuel + t.length + 1 := by simp only [List.length_cons]; omega
    have e2 : p + 1 + (c :: t).length = p + 1 + 1 + t.length := by simp only [List.length_cons]; omega
    have ih := loopM d o stk es lp t c (p + 1) fuel (fun x hx => ht x (List.mem_cons_of_mem _ hx)) hcl.2 h2 h3
    rw [e1, e2]
    by_cases h47 : c = 47
    · have hp42 : d.get p ≠ 42 := by
        intro h
        have := hcl.1
        rw [← hprev, h, h47] at this
        simp at this
      rw [byteLoop_ok _ (Nat.le_of_lt h1) (stepM_slash_no d o stk es lp p h1 (h2.trans h47) hp42) rfl]
      exact ih
    · rw [byteLoop_ok _ (Nat.le_of_lt h1) (stepM_plain d o stk es lp (p + 1) h1 (h2 ▸ hc) (h2 ▸ h47)) rfl]
      exact ih

/-! ### the block spelling -/

/-- **the block spelling after `/`**: `*`, the text, `*/`.  The text has no NUL and no `*/`; it may be empty,
begin with `/` and end with `*`.  One Annotation lexeme, exactly the text; the state is the one popped from the
step stack, the position is right after the closing `/`. -/
theorem block_sign2 (d : Src) (o : Oracle) (s : St) (stk : List St) (es : List (Ev × Nat)) (lp : List (Nat × Nat))
    (t : Bytes) (p fuel : Nat) (ht : ∀ c ∈ t, c ≠ 0) (hcl : hasClose t = false)
    (hat : At d p (42 :: (t ++ [42, 47]))) :
    byteLoop d o (fuel + 1 + t.length + 2) (cfg .stateAnnotationSign2 (s :: stk) es lp p) =
      .ok (some ⟨.annotation, p + 1, p + 1 + t.length⟩, cfg s stk es lp (p + 1 + t.length + 2)) := by
  obtain ⟨h1, h2, h3⟩ := hat
  -- the text and the closing star together: a non-empty block `c :: r`
  obtain ⟨c, r, hcr⟩ : ∃ c r, t ++ [42] = c :: r := by
    cases t with
    | nil => exact ⟨42, [], rfl⟩
    | cons c r => exact ⟨c, r ++ [42], rfl⟩
  have hlen : r.length = t.length := by
    have := congrArg List.length hcr
    simp only [List.length_append, List.length_cons, List.length_nil] at this
    omega
  have h3' : At d (p + 1) ((c :: r) ++ [47]) := by rw [← hcr]; simpa using h3
  obtain ⟨h4, h5⟩ := At.append h3'
  obtain ⟨h6, h7, h8⟩ := h4
  have hu0 : ∀ x ∈ c :: r, x ≠ 0 := by
    intro x hx
    rw [← hcr, List.mem_append] at hx
    rcases hx with hx | hx
    · exact ht x hx
    · simp only [List.mem_cons, List.mem_nil_iff, or_false] at hx; rw [hx]; decide
  have hucl : hasClose (c :: r) = false := by rw [← hcr, hasClose_append_star]; exact hcl
  -- the closing `*/` is at `p + 1 + t.length`
  obtain ⟨-, h9⟩ := At.append (a := t) (b := [42, 47]) h3
  obtain ⟨h10, h11, h12, h13, -⟩ := h9
  have e0 : fuel + 1 + t.length + 2 = ((fuel + 1) + r.length + 1) + 1 := by omega
  rw [e0, byteLoop_ok _ (Nat.le_of_lt h1) (stepAS2_star d o _ es lp p h1 h2) rfl,
    byteLoop_begin _ (Nat.le_of_lt h6) (stepMTS d o _ es lp _ h6 (h7 ▸ hu0 c (by simp))) rfl,
    loopM d o _ _ lp r c (p + 1) _ (fun x hx => hu0 x (List.mem_cons_of_mem _ hx)) hucl h7 h8, hlen]
  have e2 : p + 1 + 1 + t.length = (p + t.length) + 2 := by omega
  have e3 : p + 1 + t.length = (p + t.length) + 1 := by omega
  have e4 : p + 1 + t.length + 1 = (p + t.length) + 2 := by omega
  rw [e3] at h11
  rw [e4] at h12 h13
  rw [e2, byteLoop_annotEnd _ (Nat.le_of_lt h12) (stepM_close d o stk _ lp _ s h12 h13 h11)]
  have e5 : p + t.length + 1 = p + 1 + t.length := by omega
  have e6 : p + t.length + 3 = p + 1 + t.length + 2 := by omega
  rw [e5, e6]

/-- **the block spelling after a keyword or a parameter, blanks in front** -/
theorem block_byteLoop (d : Src) (o : Oracle) (s : St) (stk : List St) (es : List (Ev × Nat)) (lp : List (Nat × Nat))
    (sp : UInt8) (ws t : Bytes) (p fuel : Nat) (hsp : sp = 32 ∨ sp = 9) (hws : ∀ w ∈ ws, w = 32 ∨ w = 9)
    (ht : ∀ c ∈ t, c ≠ 0) (hcl : hasClose t = false)
    (hat : At d p (sp :: (ws ++ 47 :: 42 :: (t ++ [42, 47])))) :
    byteLoop d o (fuel + 1 + t.length + 2 + 1 + ws.length + 1) (cfg .stateParameterOrAnnotation (s :: stk) es lp p) =
      .ok (some ⟨.annotation, p + 1 + ws.length + 2, p + 1 + ws.length + 2 + t.length⟩,
        cfg s stk es lp (p + 1 + ws.length + 2 + t.length + 2)) := by
  obtain ⟨h1, h2, h3⟩ := hat
  obtain ⟨h4, h5⟩ := At.append h3
  obtain ⟨h6, h7, h8⟩ := h5
  generalize hb : p + 1 + ws.length = b at *
  rw [byteLoop_ok _ (Nat.le_of_lt h1) (stepPA_blank d o _ es lp p h1 (h2 ▸ hsp)) rfl,
    loopBlanks d o _ es lp ws (p + 1) _ hws h4, hb,
    byteLoop_ok _ (Nat.le_of_lt h6) (stepPAS_slash d o _ es lp _ h6 h7) rfl,
    block_sign2 d o s stk es lp t (b + 1) fuel ht hcl h8]

/-- **the block spelling right after a keyword or a parameter, no blank in front** -/
theorem block_byteLoop0 (d : Src) (o : Oracle) (s : St) (stk : List St) (es : List (Ev × Nat)) (lp : List (Nat × Nat))
    (t : Bytes) (p fuel : Nat) (ht : ∀ c ∈ t, c ≠ 0) (hcl : hasClose t = false)
    (hat : At d p (47 :: 42 :: (t ++ [42, 47]))) :
    byteLoop d o (fuel + 1 + t.length + 2 + 1) (cfg .stateParameterOrAnnotation (s :: stk) es lp p) =
      .ok (some ⟨.annotation, p + 2, p + 2 + t.length⟩, cfg s stk es lp (p + 2 + t.length + 2)) := by
  obtain ⟨h1, h2, h3⟩ := hat
  rw [byteLoop_ok _ (Nat.le_of_lt h1) (stepPA_slash d o _ es lp p h1 h2) rfl,
    block_sign2 d o s stk es lp t (p + 1) fuel ht hcl h3]

/-! ### the line spelling -/

/-- **the line spelling after the first `/`**: `/`, the text, a line end.  The text has no NUL, no line end and
no `#`; it may be empty.  One Annotation lexeme, exactly the text (leading blanks included); the state is the
one popped from the step stack (which must skip a line end, `hs`), the position is right after the line end. -/
theorem line_sign2 (d : Src) (o : Oracle) (s : St) (stk : List St) (es : List (Ev × Nat)) (lp : List (Nat × Nat))
    (t : Bytes) (e : UInt8) (p fuel : Nat) (ht : ∀ c ∈ t, c ≠ 0 ∧ c ≠ 10 ∧ c ≠ 13 ∧ c ≠ 35) (he : e = 10 ∨ e = 13)
    (hs : ∀ ev, (code s).select e ev = ([], .done))
    (hat : At d p (47 :: (t ++ [e]))) :
    byteLoop d o (fuel + 1 + t.length + 1) (cfg .stateAnnotationSign2 (s :: stk) es lp p) =
      .ok (some ⟨.annotation, p + 1, p + 1 + t.length⟩, cfg s stk es lp (p + 1 + t.length + 1)) := by
  obtain ⟨h1, h2, h3⟩ := hat
  cases t with
  | nil =>
    obtain ⟨h4, h5, -⟩ := h3
    simp only [List.length_nil, Nat.add_zero]
    rw [byteLoop_ok _ (Nat.le_of_lt h1) (stepAS2_slash d o _ es lp p h1 h2) rfl,
      byteLoop_annotBoth fuel (Nat.le_of_lt h4) (stepATS_eol d o stk es lp p s e h4 h5 he hs)]
  | cons x t =>
    obtain ⟨h4, h5, h6⟩ := h3
    obtain ⟨h7, h8⟩ := At.append h6
    obtain ⟨h9, h10, -⟩ := h8
    have hx := ht x (by simp)
    have e0 : fuel + 1 + (x :: t).length + 1 = ((fuel + 1) + t.length + 1) + 1 := by
      simp only [List.length_cons]; omega
    rw [e0, byteLoop_ok _ (Nat.le_of_lt h1) (stepAS2_slash d o _ es lp p h1 h2) rfl,
      byteLoop_begin _ (Nat.le_of_lt h4)
        (stepATS_plain d o _ es lp _ h4 (h5 ▸ hx.1) (h5 ▸ hx.2.1) (h5 ▸ hx.2.2.1) (h5 ▸ hx.2.2.2)) rfl,
      loopA d o _ _ lp t _ _ (fun c hc => ht c (List.mem_cons_of_mem _ hc)) h7]
    have e2 : p + 1 + 1 + t.length = (p + 1 + t.length) + 1 := by omega
    rw [e2] at h9 h10 ⊢
    rw [byteLoop_annotEnd _ (Nat.le_of_lt h9) (stepA_eolS d o stk _ lp _ s e h9 h10 he hs)]
    simp only [List.length_cons]
    have e5 : p + 1 + t.length + 1 = p + 1 + (t.length + 1) := by omega
    have e6 : p + 1 + t.length + 2 = p + 1 + (t.length + 1) + 1 := by omega
    rw [e5, e6]

/-- **the line spelling after a keyword or a parameter, blanks in front** -/
theorem line_byteLoop (d : Src) (o : Oracle) (s : St) (stk : List St) (es : List (Ev × Nat)) (lp : List (Nat × Nat))
    (sp : UInt8) (ws t : Bytes) (e : UInt8) (p fuel : Nat) (hsp : sp = 32 ∨ sp = 9) (hws : ∀ w ∈ ws, w = 32 ∨ w = 9)
    (ht : ∀ c ∈ t, c ≠ 0 ∧ c ≠ 10 ∧ c ≠ 13 ∧ c ≠ 35) (he : e = 10 ∨ e = 13)
    (hs : ∀ ev, (code s).select e ev = ([], .done))
    (hat : At d p (sp :: (ws ++ 47 :: 47 :: (t ++ [e])))) :
    byteLoop d o (fuel + 1 + t.length + 1 + 1 + ws.length + 1) (cfg .stateParameterOrAnnotation (s :: stk) es lp p) =
      .ok (some ⟨.annotation, p + 1 + ws.length + 2, p + 1 + ws.length + 2 + t.length⟩,
        cfg s stk es lp (p + 1 + ws.length + 2 + t.length + 1)) := by
  obtain ⟨h1, h2, h3⟩ := hat
  obtain ⟨h4, h5⟩ := At.append h3
  obtain ⟨h6, h7, h8⟩ := h5
  generalize hb : p + 1 + ws.length = b at *
  rw [byteLoop_ok _ (Nat.le_of_lt h1) (stepPA_blank d o _ es lp p h1 (h2 ▸ hsp)) rfl,
    loopBlanks d o _ es lp ws (p + 1) _ hws h4, hb,
    byteLoop_ok _ (Nat.le_of_lt h6) (stepPAS_slash d o _ es lp _ h6 h7) rfl,
    line_sign2 d o s stk es lp t e (b + 1) fuel ht he hs h8]

/-- **the line spelling right after a keyword or a parameter, no blank in front** -/
theorem line_byteLoop0 (d : Src) (o : Oracle) (s : St) (stk : List St) (es : List (Ev × Nat)) (lp : List (Nat × Nat))
    (t : Bytes) (e : UInt8) (p fuel : Nat) (ht : ∀ c ∈ t, c ≠ 0 ∧ c ≠ 10 ∧ c ≠ 13 ∧ c ≠ 35) (he : e = 10 ∨ e = 13)
    (hs : ∀ ev, (code s).select e ev = ([], .done))
    (hat : At d p (47 :: 47 :: (t ++ [e]))) :
    byteLoop d o (fuel + 1 + t.length + 1 + 1) (cfg .stateParameterOrAnnotation (s :: stk) es lp p) =
      .ok (some ⟨.annotation, p + 2, p + 2 + t.length⟩, cfg s stk es lp (p + 2 + t.length + 1)) := by
  obtain ⟨h1, h2, h3⟩ := hat
  rw [byteLoop_ok _ (Nat.le_of_lt h1) (stepPA_slash d o _ es lp p h1 h2) rfl,
    line_sign2 d o s stk es lp t e (p + 1) fuel ht he hs h3]

/-! ### whole runs (`lexAll`) -/

/-- `stateExpectKeyword` before a line end that ends the file: clean end, no lexeme -/
theorem ek_tail_eol (d : Src) (o : Oracle) (stk : List St) (es : List (Ev × Nat)) (lp : List (Nat × Nat))
    (e : UInt8) (q fuel : Nat) (he : e = 10 ∨ e = 13) (hat : At d q [e]) (hsz : d.size = q + 1) :
    byteLoop d o (fuel + 3) (cfg .stateExpectKeyword stk es lp q) = .ok (none, cfg .stateExpectKeyword stk es lp (q + 2)) := by
  obtain ⟨h1, h2, -⟩ := hat
  rw [byteLoop_ok _ (Nat.le_of_lt h1) (stepEK_eol d o stk es lp q h1 (h2 ▸ he)) rfl,
    byteLoop_ok _ (Nat.le_of_eq hsz.symm) (stepEK_eof d o stk es lp _ hsz.symm) rfl, byteLoop_exit]
  show q + 1 + 1 > d.size
  omega

/-- `stateExpectKeyword` at the end of the file: clean end, no lexeme -/
theorem ek_tail_eof (d : Src) (o : Oracle) (stk : List St) (es : List (Ev × Nat)) (lp : List (Nat × Nat))
    (q fuel : Nat) (hsz : d.size = q) :
    byteLoop d o (fuel + 2) (cfg .stateExpectKeyword stk es lp q) = .ok (none, cfg .stateExpectKeyword stk es lp (q + 1)) := by
  rw [byteLoop_ok _ (Nat.le_of_eq hsz.symm) (stepEK_eof d o stk es lp _ hsz.symm) rfl, byteLoop_exit]
  show q + 1 > d.size
  omega

theorem ek_eol (e : UInt8) (he : e = 10 ∨ e = 13) : ∀ ev, (code .stateExpectKeyword).select e ev = ([], .done) :=
  skips_eol _ (by simp) e he

section tails
variable (d : Src) (o : Oracle) (lp : List (Nat × Nat)) (sp : UInt8) (ws t : Bytes) (e : UInt8) (p n : Nat)
  (hsp : sp = 32 ∨ sp = 9) (hws : ∀ w ∈ ws, w = 32 ∨ w = 9) (he : e = 10 ∨ e = 13)
include hsp hws he

/-- after the keyword / the parameters of a top-level directive: blanks, `/*`, the text, `*/`, a line end, end of
the file — the Annotation lexeme is the text, the run ends cleanly -/
theorem block_tail (ht : ∀ c ∈ t, c ≠ 0) (hcl : hasClose t = false)
    (hat : At d p (sp :: (ws ++ 47 :: 42 :: (t ++ [42, 47, e]))))
    (hsz : d.size = p + 1 + ws.length + 2 + t.length + 3) :
    lexAll d o (n + 2) (cfg .stateParameterOrAnnotation [.stateExpectKeyword] [] lp p) [] =
      ([⟨.annotation, p + 1 + ws.length + 2, p + 1 + ws.length + 2 + t.length⟩], none,
        cfg .stateExpectKeyword [] [] lp (d.size + 1)) := by
  have el : sp :: (ws ++ 47 :: 42 :: (t ++ [42, 47, e])) = (sp :: (ws ++ 47 :: 42 :: (t ++ [42, 47]))) ++ [e] := by simp
  rw [el] at hat
  obtain ⟨h1, h2⟩ := At.append hat
  have e1 : p + (sp :: (ws ++ 47 :: 42 :: (t ++ [42, 47]))).length = p + 1 + ws.length + 2 + t.length + 2 := by
    simp only [List.length_append, List.length_cons, List.length_nil]; omega
  rw [e1] at h2
  obtain ⟨f, hf⟩ := fuel_split (F := 4 * (d.size + 2)) (k := 1 + t.length + 2 + 1 + ws.length + 1) (by omega)
  obtain ⟨f2, hf2⟩ := fuel_split (F := 4 * (d.size + 2)) (k := 3) (by omega)
  have h3 := block_byteLoop d o .stateExpectKeyword [] [] lp sp ws t p f hsp hws ht hcl h1
  have hF : f + 1 + t.length + 2 + 1 + ws.length + 1 = 4 * (d.size + 2) := by omega
  rw [hF] at h3
  have h4 := ek_tail_eol d o [] [] lp e _ f2 he h2 (by omega)
  have e3 : p + 1 + ws.length + 2 + t.length + 2 + 2 = d.size + 1 := by omega
  rw [← hf2, e3] at h4
  rw [lexAll_some_cfg (n + 1) h3, lexAll_none_cfg n h4]

/-- after the keyword / the parameters of a top-level directive: blanks, `//`, the text, a line end, end of the
file — the Annotation lexeme is the text, the run ends cleanly -/
theorem line_tail (ht : ∀ c ∈ t, c ≠ 0 ∧ c ≠ 10 ∧ c ≠ 13 ∧ c ≠ 35)
    (hat : At d p (sp :: (ws ++ 47 :: 47 :: (t ++ [e]))))
    (hsz : d.size = p + 1 + ws.length + 2 + t.length + 1) :
    lexAll d o (n + 2) (cfg .stateParameterOrAnnotation [.stateExpectKeyword] [] lp p) [] =
      ([⟨.annotation, p + 1 + ws.length + 2, p + 1 + ws.length + 2 + t.length⟩], none,
        cfg .stateExpectKeyword [] [] lp (d.size + 1)) := by
  obtain ⟨f, hf⟩ := fuel_split (F := 4 * (d.size + 2)) (k := 1 + t.length + 1 + 1 + ws.length + 1) (by omega)
  obtain ⟨f2, hf2⟩ := fuel_split (F := 4 * (d.size + 2)) (k := 2) (by omega)
  have h3 := line_byteLoop d o .stateExpectKeyword [] [] lp sp ws t e p f hsp hws ht he (ek_eol e he) hat
  have hF : f + 1 + t.length + 1 + 1 + ws.length + 1 = 4 * (d.size + 2) := by omega
  rw [hF, ← hsz] at h3
  have h4 := ek_tail_eof d o [] [] lp d.size f2 rfl
  rw [← hf2] at h4
  rw [lexAll_some_cfg (n + 1) h3, lexAll_none_cfg n h4]

end tails

section files
variable (d : Src) (o : Oracle) (sp : UInt8) (ws t : Bytes) (e : UInt8)
  (hsp : sp = 32 ∨ sp = 9) (hws : ∀ w ∈ ws, w = 32 ∨ w = 9) (he : e = 10 ∨ e = 13)
include hsp hws he

/-- `GET`, blanks, `/*`, the text, `*/`, a line end: the whole run -/
theorem get_block (ht : ∀ c ∈ t, c ≠ 0) (hcl : hasClose t = false)
    (hH : Holds d ([71, 69, 84] ++ (sp :: (ws ++ 47 :: 42 :: (t ++ [42, 47, e]))))) :
    lexAll d o (d.size + 2) Sc.init [] =
      ([⟨.keyword, 0, 3⟩, ⟨.annotation, 4 + ws.length + 2, 4 + ws.length + 2 + t.length⟩], none,
        cfg .stateExpectKeyword [] [] [] (d.size + 1)) := by
  have hat : At d 3 (sp :: (ws ++ 47 :: 42 :: (t ++ [42, 47, e]))) := at_of_holds _ [71, 69, 84] [] (by simpa using hH)
  have hsz : d.size = 3 + 1 + ws.length + 2 + t.length + 3 := by
    rw [hH.1]; simp only [List.length_append, List.length_cons, List.length_nil]; omega
  obtain ⟨n, hn⟩ : ∃ n, d.size + 1 = n + 2 := ⟨d.size - 1, by omega⟩
  have h := block_tail d o [] sp ws t e 3 n hsp hws he ht hcl hat hsz
  have e4 : 3 + 1 + ws.length = 4 + ws.length := by omega
  rw [← hn, e4] at h
  rw [lexAll_some (d.size + 1) (get_first d o hH), h]

/-- `GET`, blanks, `//`, the text, a line end: the whole run -/
theorem get_line (ht : ∀ c ∈ t, c ≠ 0 ∧ c ≠ 10 ∧ c ≠ 13 ∧ c ≠ 35)
    (hH : Holds d ([71, 69, 84] ++ (sp :: (ws ++ 47 :: 47 :: (t ++ [e]))))) :
    lexAll d o (d.size + 2) Sc.init [] =
      ([⟨.keyword, 0, 3⟩, ⟨.annotation, 4 + ws.length + 2, 4 + ws.length + 2 + t.length⟩], none,
        cfg .stateExpectKeyword [] [] [] (d.size + 1)) := by
  have hat : At d 3 (sp :: (ws ++ 47 :: 47 :: (t ++ [e]))) := at_of_holds _ [71, 69, 84] [] (by simpa using hH)
  have hsz : d.size = 3 + 1 + ws.length + 2 + t.length + 1 := by
    rw [hH.1]; simp only [List.length_append, List.length_cons, List.length_nil]; omega
  obtain ⟨n, hn⟩ : ∃ n, d.size + 1 = n + 2 := ⟨d.size - 1, by omega⟩
  have h := line_tail d o [] sp ws t e 3 n hsp hws he ht hat hsz
  have e4 : 3 + 1 + ws.length = 4 + ws.length := by omega
  rw [← hn, e4] at h
  rw [lexAll_some (d.size + 1) (get_first d o hH), h]

variable (v : Bytes) (sp1 : UInt8) (ws1 : Bytes) (hv : ∀ c ∈ v, c ≠ 10 ∧ c ≠ 13 ∧ c ≠ 0)
  (hsp1 : sp1 = 32 ∨ sp1 = 9) (hws1 : ∀ w ∈ ws1, w = 32 ∨ w = 9)
include hv hsp1 hws1

/-- `GET`, a quoted parameter, blanks, `/*`, the text, `*/`, a line end: the whole run -/
theorem get_quoted_block (ht : ∀ c ∈ t, c ≠ 0) (hcl : hasClose t = false) (b1 b2 : Nat)
    (hb1 : b1 = 4 + ws1.length) (hb2 : b2 = b1 + (quoteParam v).length + 1 + ws.length + 2)
    (hH : Holds d (([71, 69, 84] ++ (sp1 :: (ws1 ++ quoteParam v))) ++ (sp :: (ws ++ 47 :: 42 :: (t ++ [42, 47, e]))) ++ [])) :
    lexAll d o (d.size + 2) Sc.init [] =
      ([⟨.keyword, 0, 3⟩, ⟨.parameter, b1, b1 + (quoteParam v).length⟩, ⟨.annotation, b2, b2 + t.length⟩], none,
        cfg .stateExpectKeyword [] [] [(b1, b1 + (quoteParam v).length)] (d.size + 1)) := by
  have hH1 : Holds d ([71, 69, 84] ++ (sp1 :: (ws1 ++ quoteParam v)) ++ (sp :: (ws ++ 47 :: 42 :: (t ++ [42, 47, e])))) := by
    simpa using hH
  rw [get_quoted_lexAll d o sp1 ws1 hsp1 hws1 v _ hv hH1, ← hb1]
  have hat := at_of_holds (sp :: (ws ++ 47 :: 42 :: (t ++ [42, 47, e]))) ([71, 69, 84] ++ (sp1 :: (ws1 ++ quoteParam v))) [] hH
  have e1 : ([71, 69, 84] ++ (sp1 :: (ws1 ++ quoteParam v))).length = b1 + (quoteParam v).length := by
    simp only [List.length_append, List.length_cons, List.length_nil]; omega
  rw [e1] at hat
  have hsz : d.size = b1 + (quoteParam v).length + 1 + ws.length + 2 + t.length + 3 := by
    rw [hH.1, ← e1]; simp only [List.length_append, List.length_cons, List.length_nil]; omega
  obtain ⟨n, hn⟩ : ∃ n, d.size = n + 2 := ⟨d.size - 2, by omega⟩
  have h := block_tail d o [(b1, b1 + (quoteParam v).length)] sp ws t e _ n hsp hws he ht hcl hat hsz
  rw [← hb2] at h
  conv => lhs; rw [hn]
  rw [h]

/-- `GET`, a quoted parameter, blanks, `//`, the text, a line end: the whole run -/
theorem get_quoted_line (ht : ∀ c ∈ t, c ≠ 0 ∧ c ≠ 10 ∧ c ≠ 13 ∧ c ≠ 35) (b1 b2 : Nat)
    (hb1 : b1 = 4 + ws1.length) (hb2 : b2 = b1 + (quoteParam v).length + 1 + ws.length + 2)
    (hH : Holds d (([71, 69, 84] ++ (sp1 :: (ws1 ++ quoteParam v))) ++ (sp :: (ws ++ 47 :: 47 :: (t ++ [e]))) ++ [])) :
    lexAll d o (d.size + 2) Sc.init [] =
      ([⟨.keyword, 0, 3⟩, ⟨.parameter, b1, b1 + (quoteParam v).length⟩, ⟨.annotation, b2, b2 + t.length⟩], none,
        cfg .stateExpectKeyword [] [] [(b1, b1 + (quoteParam v).length)] (d.size + 1)) := by
  have hH1 : Holds d ([71, 69, 84] ++ (sp1 :: (ws1 ++ quoteParam v)) ++ (sp :: (ws ++ 47 :: 47 :: (t ++ [e])))) := by
    simpa using hH
  rw [get_quoted_lexAll d o sp1 ws1 hsp1 hws1 v _ hv hH1, ← hb1]
  have hat := at_of_holds (sp :: (ws ++ 47 :: 47 :: (t ++ [e]))) ([71, 69, 84] ++ (sp1 :: (ws1 ++ quoteParam v))) [] hH
  have e1 : ([71, 69, 84] ++ (sp1 :: (ws1 ++ quoteParam v))).length = b1 + (quoteParam v).length := by
    simp only [List.length_append, List.length_cons, List.length_nil]; omega
  rw [e1] at hat
  have hsz : d.size = b1 + (quoteParam v).length + 1 + ws.length + 2 + t.length + 1 := by
    rw [hH.1, ← e1]; simp only [List.length_append, List.length_cons, List.length_nil]; omega
  obtain ⟨n, hn⟩ : ∃ n, d.size = n + 2 := ⟨d.size - 2, by omega⟩
  have h := line_tail d o [(b1, b1 + (quoteParam v).length)] sp ws t e _ n hsp hws he ht hat hsz
  rw [← hb2] at h
  conv => lhs; rw [hn]
  rw [h]

end files

end JSight.ScanAnnot
