import JSight.Model.Ids
/-! Helper lemmas for C09 (interaction id keys). -/
namespace JSight.C09

/-- splitting at the first space is unambiguous -/
theorem split_at_space : ∀ (a b x y : Bytes), (32 : UInt8) ∉ a → (32 : UInt8) ∉ b →
    a ++ 32 :: x = b ++ 32 :: y → a = b ∧ x = y
  | [], [], x, y, _, _, h => by
    simp at h; exact ⟨rfl, h⟩
  | [], c :: b, x, y, _, hb, h => by
    simp at h; exact absurd (h.1 ▸ List.mem_cons_self) hb
  | c :: a, [], x, y, ha, _, h => by
    simp at h; exact absurd (h.1 ▸ List.mem_cons_self) ha
  | c :: a, d :: b, x, y, ha, hb, h => by
    simp only [List.cons_append, List.cons.injEq] at h
    have ha' : (32 : UInt8) ∉ a := fun m => ha (List.mem_cons_of_mem _ m)
    have hb' : (32 : UInt8) ∉ b := fun m => hb (List.mem_cons_of_mem _ m)
    obtain ⟨e1, e2⟩ := split_at_space a b x y ha' hb' h.2
    exact ⟨by rw [h.1, e1], e2⟩

/-- a shared prefix followed by `x ++ " " ++ p` determines `x` and `p` when `x` has no space -/
theorem prefixed_injective (pre a b x y : Bytes) (ha : (32 : UInt8) ∉ a) (hb : (32 : UInt8) ∉ b)
    (h : pre ++ a ++ [32] ++ x = pre ++ b ++ [32] ++ y) : a = b ∧ x = y := by
  simp only [List.append_assoc, List.singleton_append] at h
  exact split_at_space a b x y ha hb (List.append_cancel_left h)

/-- invariant of the accepting fold: the result is `keys ++ ks` and has no duplicates -/
theorem addInteractions_spec : ∀ (ks keys res : List Bytes), keys.Nodup →
    addInteractions keys ks = some res → res.Nodup ∧ res = keys ++ ks
  | [], keys, res, hk, h => by
    simp [addInteractions] at h; subst h; simp [hk]
  | k :: r, keys, res, hk, h => by
    simp only [addInteractions, addInteraction, List.contains_eq_mem, decide_eq_true_eq] at h
    by_cases hn : k ∈ keys
    · simp [hn] at h
    · simp only [hn, if_false] at h
      have hk' : (keys ++ [k]).Nodup := by
        rw [List.nodup_append]
        refine ⟨hk, by simp, ?_⟩
        intro a ha b hb e
        simp at hb; subst hb; subst e; exact hn ha
      obtain ⟨h1, h2⟩ := addInteractions_spec r (keys ++ [k]) res hk' h
      exact ⟨h1, by simpa using h2⟩

end JSight.C09
