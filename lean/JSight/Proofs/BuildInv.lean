import JSight.Model.Build
import JSight.Proofs.C09
/-!
Helper lemmas for C09 (catalog construction): the self-consistency invariant `Inv` of a catalog and its
preservation by every `add…` function of `Model/Build.lean`, by `addDirective`, by the preorder fold
`addBranch`/`addForest`, by `collectTags` and by `compile`.
-/
namespace JSight.BuildInv
open JSight JSight.Build JSight.Gen

/-! ### plumbing of the `Except` monad -/

theorem bind_ok {ε α β : Type} {x : Except ε α} {f : α → Except ε β} {b : β}
    (h : (x >>= f) = .ok b) : ∃ a, x = .ok a ∧ f a = .ok b := by
  cases x with
  | error e => cases h
  | ok a => exact ⟨a, rfl, h⟩

theorem fail_ne_ok {α : Type} {d : BDir} {m : Msg} {a : α} : fail d m ≠ .ok a := by
  intro h; cases h

theorem liftAt_ok {α : Type} {d : BDir} {e : Except Msg α} {a : α} (h : liftAt d e = .ok a) : e = .ok a := by
  cases e with
  | error m => cases h
  | ok v => cases h; rfl

theorem pure_ok {α : Type} {a b : α} (h : (pure a : R α) = .ok b) : a = b := by
  cases h; rfl

/-! ### the invariant -/

/-- the interaction ids listed by a tag for a protocol -/
def grp (t : TagM) (p : Proto) : List Bytes := match p with | .http => t.http | .rpc => t.rpc

/-- every body of the interaction has the serialisation format of its notation -/
def InterOK (x : InterM) : Prop :=
  (∀ r ∈ x.responses, ∀ b, r.body = some b → b.format = formatOf b.nota) ∧
  (∀ q, x.request = some q → ∀ b, q.body = some b → b.format = formatOf b.nota)

structure Inv (c : Cat) : Prop where
  keys_nodup    : (c.inters.map (·.iid.text)).Nodup
  tags_nodup    : (c.tags.map (·.name)).Nodup
  servers_nodup : (c.servers.map (·.name)).Nodup
  types_nodup   : (c.types.map (·.name)).Nodup
  tagged        : ∀ x ∈ c.inters, x.tags ≠ []
  tag_exists    : ∀ x ∈ c.inters, ∀ n ∈ x.tags, ∃ t ∈ c.tags, t.name = n ∧ x.iid.text ∈ grp t x.iid.proto
  tag_back      : ∀ t ∈ c.tags, ∀ p, ∀ i ∈ grp t p,
                    ∃ x ∈ c.inters, x.iid.proto = p ∧ x.iid.text = i ∧ t.name ∈ x.tags
  body_format   : ∀ x ∈ c.inters, InterOK x
  id_shape      : ∀ x ∈ c.inters, (x.iid.proto = .http → x.iid.method ∈ verbs)

theorem Inv.empty : Inv {} := by
  constructor <;> simp

/-- the invariant reads four lists only -/
theorem Inv.of_eq {c c' : Cat} (h : Inv c) (hi : c'.inters = c.inters) (ht : c'.tags = c.tags)
    (hs : c'.servers = c.servers) (hy : c'.types = c.types) : Inv c' := by
  constructor
  · rw [hi]; exact h.keys_nodup
  · rw [ht]; exact h.tags_nodup
  · rw [hs]; exact h.servers_nodup
  · rw [hy]; exact h.types_nodup
  · rw [hi]; exact h.tagged
  · rw [hi, ht]; exact h.tag_exists
  · rw [hi, ht]; exact h.tag_back
  · rw [hi]; exact h.body_format
  · rw [hi]; exact h.id_shape

theorem Inv.setServers {c : Cat} (h : Inv c) (s : List ServerM) (hs : (s.map (·.name)).Nodup) :
    Inv { c with servers := s } :=
  ⟨h.keys_nodup, h.tags_nodup, hs, h.types_nodup, h.tagged, h.tag_exists, h.tag_back, h.body_format, h.id_shape⟩

theorem Inv.setTypes {c : Cat} (h : Inv c) (s : List TypeM) (hs : (s.map (·.name)).Nodup) :
    Inv { c with types := s } :=
  ⟨h.keys_nodup, h.tags_nodup, h.servers_nodup, hs, h.tagged, h.tag_exists, h.tag_back, h.body_format, h.id_shape⟩

/-- a map over the interactions that keeps ids, tag lists and well-formatted bodies -/
theorem Inv.mapInters {c : Cat} (h : Inv c) (g : InterM → InterM)
    (g1 : ∀ x, (g x).iid = x.iid) (g2 : ∀ x, (g x).tags = x.tags)
    (g3 : ∀ x ∈ c.inters, InterOK x → InterOK (g x)) :
    Inv { c with inters := c.inters.map g } := by
  have hk : (c.inters.map g).map (·.iid.text) = c.inters.map (·.iid.text) := by
    rw [List.map_map]; apply List.map_congr_left; intro x _; simp [g1]
  constructor
  · show ((c.inters.map g).map _).Nodup
    rw [hk]; exact h.keys_nodup
  · exact h.tags_nodup
  · exact h.servers_nodup
  · exact h.types_nodup
  · intro x hx
    obtain ⟨y, hy, rfl⟩ := List.mem_map.1 hx
    rw [g2]; exact h.tagged y hy
  · intro x hx n hn
    obtain ⟨y, hy, rfl⟩ := List.mem_map.1 hx
    rw [g2] at hn; rw [g1]; exact h.tag_exists y hy n hn
  · intro t ht p i hi
    obtain ⟨x, hx, e1, e2, e3⟩ := h.tag_back t ht p i hi
    exact ⟨g x, List.mem_map_of_mem hx, by rw [g1]; exact e1, by rw [g1]; exact e2, by rw [g2]; exact e3⟩
  · intro x hx
    obtain ⟨y, hy, rfl⟩ := List.mem_map.1 hx
    exact g3 y hy (h.body_format y hy)
  · intro x hx
    obtain ⟨y, hy, rfl⟩ := List.mem_map.1 hx
    rw [g1]; exact h.id_shape y hy

theorem Inv.updInter {c : Cat} (h : Inv c) (i : IId) (f : InterM → InterM)
    (f1 : ∀ x, (f x).iid = x.iid) (f2 : ∀ x, (f x).tags = x.tags)
    (f3 : ∀ x ∈ c.inters, InterOK x → InterOK (f x)) : Inv (c.updInter i f) := by
  unfold Cat.updInter
  apply h.mapInters
  · intro x; split <;> simp [f1]
  · intro x; split <;> simp [f2]
  · intro x hx ok; split
    · exact f3 x hx ok
    · exact ok

/-- an update that leaves ids, tag lists, requests and responses alone -/
theorem Inv.updInter' {c : Cat} (h : Inv c) (i : IId) (f : InterM → InterM)
    (f1 : ∀ x, (f x).iid = x.iid) (f2 : ∀ x, (f x).tags = x.tags)
    (f3 : ∀ x, (f x).request = x.request) (f4 : ∀ x, (f x).responses = x.responses) :
    Inv (c.updInter i f) := by
  apply h.updInter i f f1 f2
  intro x _ ok
  unfold InterOK; rw [f3, f4]; exact ok

/-- a map over the tags that keeps names and groups -/
theorem Inv.mapTags {c : Cat} (h : Inv c) (g : TagM → TagM)
    (gn : ∀ t, (g t).name = t.name) (gg : ∀ t p, grp (g t) p = grp t p) :
    Inv { c with tags := c.tags.map g } := by
  have hk : (c.tags.map g).map (·.name) = c.tags.map (·.name) := by
    rw [List.map_map]; apply List.map_congr_left; intro x _; simp [gn]
  constructor
  · exact h.keys_nodup
  · show ((c.tags.map g).map _).Nodup
    rw [hk]; exact h.tags_nodup
  · exact h.servers_nodup
  · exact h.types_nodup
  · exact h.tagged
  · intro x hx n hn
    obtain ⟨t, ht, e, m⟩ := h.tag_exists x hx n hn
    exact ⟨g t, List.mem_map_of_mem ht, by rw [gn]; exact e, by rw [gg]; exact m⟩
  · intro t ht p i hi
    obtain ⟨s, hs, rfl⟩ := List.mem_map.1 ht
    rw [gg] at hi; rw [gn]
    exact h.tag_back s hs p i hi
  · exact h.body_format
  · exact h.id_shape

theorem Inv.updTag {c : Cat} (h : Inv c) (n : Bytes) (f : TagM → TagM)
    (fn : ∀ t, (f t).name = t.name) (fh : ∀ t, (f t).http = t.http) (fr : ∀ t, (f t).rpc = t.rpc) :
    Inv (c.updTag n f) := by
  unfold Cat.updTag
  apply h.mapTags
  · intro t; split <;> simp [fn]
  · intro t p; split
    · cases p <;> simp [grp, fh, fr]
    · rfl

/-- a new tag without interactions -/
theorem Inv.addTag {c : Cat} (h : Inv c) (t0 : TagM) (h0 : ∀ t ∈ c.tags, t.name ≠ t0.name)
    (e1 : t0.http = []) (e2 : t0.rpc = []) : Inv { c with tags := c.tags ++ [t0] } := by
  constructor
  · exact h.keys_nodup
  · show ((c.tags ++ [t0]).map _).Nodup
    rw [List.map_append, List.nodup_append]
    refine ⟨h.tags_nodup, by simp, ?_⟩
    intro a ha b hb
    obtain ⟨t, ht, rfl⟩ := List.mem_map.1 ha
    simp at hb; subst hb
    exact h0 t ht
  · exact h.servers_nodup
  · exact h.types_nodup
  · exact h.tagged
  · intro x hx n hn
    obtain ⟨t, ht, e, m⟩ := h.tag_exists x hx n hn
    exact ⟨t, List.mem_append_left _ ht, e, m⟩
  · intro t ht p i hi
    rcases List.mem_append.1 ht with ht | ht
    · exact h.tag_back t ht p i hi
    · simp at ht; subst ht
      cases p <;> simp [grp, e1, e2] at hi
  · exact h.body_format
  · exact h.id_shape

/-! ### attaching an interaction to its tags -/

/-- what `attachAll` does to one tag -/
def attachList (i : IId) (ns : List Bytes) (t : TagM) : TagM :=
  ns.foldl (fun t n => if t.name == n then attach i t else t) t

theorem attach_name (i : IId) (t : TagM) : (attach i t).name = t.name := by
  unfold attach; split <;> rfl

theorem mem_grp_attach (i : IId) (t : TagM) (p : Proto) (j : Bytes) :
    j ∈ grp (attach i t) p ↔ j ∈ grp t p ∨ (j = i.text ∧ p = i.proto) := by
  obtain ⟨ip, im, ipath⟩ := i
  cases ip <;> cases p <;> simp [attach, grp]

theorem attachList_cons (i : IId) (n : Bytes) (r : List Bytes) (t : TagM) :
    attachList i (n :: r) t = attachList i r (if t.name == n then attach i t else t) := rfl

theorem attachList_name (i : IId) : ∀ (ns : List Bytes) (t : TagM), (attachList i ns t).name = t.name
  | [], _ => rfl
  | n :: r, t => by
    rw [attachList_cons, attachList_name i r]
    split <;> simp [attach_name]

theorem mem_grp_attachList (i : IId) (p : Proto) (j : Bytes) : ∀ (ns : List Bytes) (t : TagM),
    j ∈ grp (attachList i ns t) p ↔ j ∈ grp t p ∨ (j = i.text ∧ p = i.proto ∧ t.name ∈ ns)
  | [], t => by simp [attachList]
  | n :: r, t => by
    rw [attachList_cons, mem_grp_attachList i p j r]
    by_cases hn : t.name = n
    · subst hn
      simp only [beq_self_eq_true, if_true, mem_grp_attach, attach_name, List.mem_cons, true_or, and_true]
      constructor
      · rintro ((a | a) | a)
        · exact Or.inl a
        · exact Or.inr a
        · exact Or.inr ⟨a.1, a.2.1⟩
      · rintro (a | a)
        · exact Or.inl (Or.inl a)
        · exact Or.inl (Or.inr a)
    · have hb : (t.name == n) = false := by simpa using hn
      simp only [hb, List.mem_cons, hn, false_or]
      simp

theorem attachAll_eq (i : IId) : ∀ (ns : List Bytes) (c : Cat),
    attachAll c i ns = { c with tags := c.tags.map (attachList i ns) }
  | [], c => by
    have : (attachList i []) = fun t => t := rfl
    simp [attachAll, this]
  | n :: r, c => by
    rw [attachAll, attachAll_eq i r]
    simp only [Cat.updTag, List.map_map]
    congr 1

/-- the one step that breaks and restores the tag/interaction correspondence: attach the id to every named
tag, then append the interaction -/
theorem Inv.addInter {c : Cat} (h : Inv c) (i : IId) (ns : List Bytes) (a : Bytes)
    (hne : ns ≠ []) (hex : ∀ n ∈ ns, ∃ t ∈ c.tags, t.name = n)
    (hfresh : ∀ x ∈ c.inters, x.iid.text ≠ i.text)
    (hshape : i.proto = .http → i.method ∈ verbs) :
    Inv { attachAll c i ns with
          inters := (attachAll c i ns).inters ++ [{ iid := i, annot := a, tags := ns }] } := by
  rw [attachAll_eq]
  have hk : (c.tags.map (attachList i ns)).map (·.name) = c.tags.map (·.name) := by
    rw [List.map_map]; apply List.map_congr_left; intro x _; simp [attachList_name]
  constructor
  · show ((c.inters ++ [_]).map _).Nodup
    rw [List.map_append, List.nodup_append]
    refine ⟨h.keys_nodup, by simp, ?_⟩
    intro k hk' b hb
    obtain ⟨x, hx, rfl⟩ := List.mem_map.1 hk'
    simp at hb; subst hb
    exact hfresh x hx
  · show ((c.tags.map (attachList i ns)).map _).Nodup
    rw [hk]; exact h.tags_nodup
  · exact h.servers_nodup
  · exact h.types_nodup
  · intro x hx
    rcases List.mem_append.1 hx with hx | hx
    · exact h.tagged x hx
    · simp at hx; subst hx; exact hne
  · intro x hx n hn
    rcases List.mem_append.1 hx with hx | hx
    · obtain ⟨t, ht, e, m⟩ := h.tag_exists x hx n hn
      exact ⟨attachList i ns t, List.mem_map_of_mem ht, by rw [attachList_name]; exact e,
        (mem_grp_attachList i _ _ ns t).2 (Or.inl m)⟩
    · simp at hx; subst hx
      obtain ⟨t, ht, e⟩ := hex n hn
      exact ⟨attachList i ns t, List.mem_map_of_mem ht, by rw [attachList_name]; exact e,
        (mem_grp_attachList i _ _ ns t).2 (Or.inr ⟨rfl, rfl, by rw [e]; exact hn⟩)⟩
  · intro t ht p j hj
    obtain ⟨s, hs, rfl⟩ := List.mem_map.1 ht
    rw [attachList_name]
    rcases (mem_grp_attachList i p j ns s).1 hj with m | ⟨m1, m2, m3⟩
    · obtain ⟨x, hx, e1, e2, e3⟩ := h.tag_back s hs p j m
      exact ⟨x, List.mem_append_left _ hx, e1, e2, e3⟩
    · exact ⟨_, List.mem_append_right _ (List.mem_singleton.2 rfl), m2.symm, m1.symm, m3⟩
  · intro x hx
    rcases List.mem_append.1 hx with hx | hx
    · exact h.body_format x hx
    · simp at hx; subst hx
      constructor
      · intro r hr; cases hr
      · intro q hq; cases hq
  · intro x hx
    rcases List.mem_append.1 hx with hx | hx
    · exact h.id_shape x hx
    · simp at hx; subst hx; exact hshape
/-! ### interaction ids -/

theorem httpMethods_table : httpMethods = [.Get, .Post, .Put, .Patch, .Delete] := by decide

theorem verbOf_mem (k : Kind) (h : isHTTP k = true) : verbOf k ∈ verbs := by
  cases k <;> first | (exact absurd h (by decide)) | decide

theorem methodChain_spec : ∀ (ch : List BDir) (k : Kind), methodChain ch = .ok k → isHTTP k = true
  | [], k, h => by cases h
  | d :: r, k, h => by
    unfold methodChain at h
    split at h
    · cases h; assumption
    · exact methodChain_spec r k h

theorem httpIdOf_spec {ch : List BDir} {i : IId} (h : httpIdOf ch = .ok i) :
    i.proto = .http ∧ i.method ∈ verbs := by
  unfold httpIdOf at h
  obtain ⟨p, _, h⟩ := bind_ok h
  obtain ⟨k, hk, h⟩ := bind_ok h
  cases h
  exact ⟨rfl, verbOf_mem k (methodChain_spec _ _ hk)⟩

theorem rpcIdOf_spec {ch : List BDir} {i : IId} (h : rpcIdOf ch = .ok i) : i.proto = .rpc := by
  unfold rpcIdOf at h
  obtain ⟨p, _, h⟩ := bind_ok h
  obtain ⟨k, hk, h⟩ := bind_ok h
  cases h
  rfl

theorem verbs_no_space : ∀ v ∈ verbs, (32 : UInt8) ∉ v := by decide

theorem http_ne_rpc (m p n q : Bytes) : httpId m p ≠ rpcId n q := by
  intro h
  simp [httpId, rpcId, httpPrefix, rpcPrefix] at h

theorem httpId_inj (m₁ m₂ p₁ p₂ : Bytes) (h₁ : m₁ ∈ verbs) (h₂ : m₂ ∈ verbs)
    (h : httpId m₁ p₁ = httpId m₂ p₂) : m₁ = m₂ ∧ p₁ = p₂ :=
  C09.prefixed_injective httpPrefix m₁ m₂ p₁ p₂ (verbs_no_space _ h₁) (verbs_no_space _ h₂) h

/-- an HTTP id that is not in the catalog has a text that is not in the catalog -/
theorem http_fresh {c : Cat} (h : Inv c) {i : IId} (hp : i.proto = .http) (hm : i.method ∈ verbs)
    (hn : c.hasInter i = false) : ∀ x ∈ c.inters, x.iid.text ≠ i.text := by
  intro x hx e
  have hne : x.iid ≠ i := by
    intro e'
    have : c.hasInter i = true := by
      unfold Cat.hasInter; rw [List.any_eq_true]; exact ⟨x, hx, by simp [e']⟩
    rw [hn] at this; cases this
  have hs := h.id_shape x hx
  generalize x.iid = xi at hs e hne
  obtain ⟨xp, xm, xpath⟩ := xi
  obtain ⟨ip, im, ipath⟩ := i
  simp only at hp; subst hp
  cases xp with
  | rpc => simp only [IId.text] at e; exact http_ne_rpc _ _ _ _ e.symm
  | http =>
    simp only [IId.text] at e
    obtain ⟨e1, e2⟩ := httpId_inj _ _ _ _ (hs rfl) hm e
    subst e1; subst e2; exact hne rfl

/-! ### tags of a new interaction -/

theorem getTag_some {c : Cat} {n : Bytes} {t : TagM} (h : c.getTag n = some t) : t ∈ c.tags ∧ t.name = n := by
  unfold Cat.getTag at h
  exact ⟨List.mem_of_find?_eq_some h, by simpa using List.find?_some h⟩

theorem getTag_none {c : Cat} {n : Bytes} (h : c.getTag n = none) : ∀ t ∈ c.tags, t.name ≠ n := by
  unfold Cat.getTag at h
  intro t ht
  simpa using List.find?_eq_none.1 h t ht

theorem tagsFromDirective_spec {c : Cat} {td : BDir} {ns : List Bytes} (h : tagsFromDirective c td = .ok ns) :
    ns ≠ [] ∧ ∀ n ∈ ns, ∃ t ∈ c.tags, t.name = n := by
  unfold tagsFromDirective at h
  split at h
  · exact absurd h fail_ne_ok
  · split at h
    · exact absurd h fail_ne_ok
    · rename_i hne
      split at h
      · rename_i hall
        cases h
        refine ⟨by intro e; simp [e] at hne, ?_⟩
        intro n hn
        have := List.all_eq_true.1 hall n hn
        split at this
        · rename_i t ht
          exact ⟨t, (getTag_some ht).1, (getTag_some ht).2⟩
        · cases this
      · exact absurd h fail_ne_ok

theorem tagsFor_leafA {c c1 : Cat} {td : BDir} {ns : List Bytes} (hc : Inv c)
    (h : (do let ns ← tagsFromDirective c td; pure (ns, c) : R (List Bytes × Cat)) = .ok (ns, c1)) :
    Inv c1 ∧ c1.inters = c.inters ∧ ns ≠ [] ∧ ∀ n ∈ ns, ∃ t ∈ c1.tags, t.name = n := by
  obtain ⟨ns', h1, h⟩ := bind_ok h
  cases h
  exact ⟨hc, rfl, tagsFromDirective_spec h1⟩

theorem tagsFor_spec {c c1 : Cat} {kids : List BDir} {anc : List Up} {i : IId} {ns : List Bytes}
    (hc : Inv c) (h : tagsFor c kids anc i = .ok (ns, c1)) :
    Inv c1 ∧ c1.inters = c.inters ∧ ns ≠ [] ∧ ∀ n ∈ ns, ∃ t ∈ c1.tags, t.name = n := by
  unfold tagsFor at h
  split at h
  · exact tagsFor_leafA hc h
  · simp only [] at h
    split at h
    · exact tagsFor_leafA hc h
    · split at h
      · rename_i t ht
        cases h
        exact ⟨hc, rfl, by simp, by
          intro n hn; simp at hn; subst hn
          exact ⟨t, (getTag_some ht).1, (getTag_some ht).2⟩⟩
      · rename_i ht
        cases h
        refine ⟨hc.addTag _ (getTag_none ht) rfl rfl, rfl, by simp, ?_⟩
        intro n hn; simp at hn; subst hn
        exact ⟨_, List.mem_append_right _ (List.mem_singleton.2 rfl), rfl⟩


/-! ### the `add…` functions -/

theorem addJSight_inv {d : BDir} {c c' : Cat} (hc : Inv c) (h : addJSight d c = .ok c') : Inv c' := by
  simp only [addJSight] at h
  repeat' split at h
  all_goals first | exact absurd h fail_ne_ok | (cases h; exact hc.of_eq rfl rfl rfl rfl)

theorem addInfo_inv {d : BDir} {c c' : Cat} (hc : Inv c) (h : addInfo d c = .ok c') : Inv c' := by
  simp only [addInfo] at h
  repeat' split at h
  all_goals first | exact absurd h fail_ne_ok | (cases h; exact hc.of_eq rfl rfl rfl rfl)

theorem addTitle_inv {d : BDir} {c c' : Cat} (hc : Inv c) (h : addTitle d c = .ok c') : Inv c' := by
  simp only [addTitle] at h
  repeat' split at h
  all_goals first | exact absurd h fail_ne_ok | (cases h; exact hc.of_eq rfl rfl rfl rfl)

theorem addVersion_inv {d : BDir} {c c' : Cat} (hc : Inv c) (h : addVersion d c = .ok c') : Inv c' := by
  simp only [addVersion] at h
  repeat' split at h
  all_goals first | exact absurd h fail_ne_ok | (cases h; exact hc.of_eq rfl rfl rfl rfl)

theorem addProtocol_inv {d : BDir} {anc : List Up} {c c' : Cat} (hc : Inv c) (h : addProtocol d anc c = .ok c') :
    Inv c' := by
  simp only [addProtocol] at h
  repeat' split at h
  all_goals first | exact absurd h fail_ne_ok | (cases h; exact hc.of_eq rfl rfl rfl rfl)

theorem addTags_inv {d : BDir} {anc : List Up} {c c' : Cat} (hc : Inv c) (h : addTags d anc c = .ok c') : Inv c' := by
  unfold addTags at h
  split at h; · exact absurd h fail_ne_ok
  obtain ⟨_, _, h⟩ := bind_ok h
  cases h; exact hc

theorem addURL_inv {d : BDir} {kids : List BDir} {anc : List Up} {c c' : Cat} (hc : Inv c)
    (h : addURL d kids anc c = .ok c') : Inv c' := by
  unfold addURL at h
  split at h
  · exact absurd h fail_ne_ok
  · obtain ⟨path, _, h⟩ := bind_ok h
    obtain ⟨pp, _, h⟩ := bind_ok h
    try simp only [] at h
    repeat' split at h
    all_goals first | exact absurd h fail_ne_ok | (cases h; exact hc.of_eq rfl rfl rfl rfl)

theorem addServer_inv {d : BDir} {c c' : Cat} (hc : Inv c) (h : addServer d c = .ok c') : Inv c' := by
  simp only [addServer] at h
  split at h
  · exact absurd h fail_ne_ok
  · split at h
    · exact absurd h fail_ne_ok
    · rename_i hany
      cases h
      apply hc.setServers
      rw [List.map_append, List.nodup_append]
      refine ⟨hc.servers_nodup, by simp, ?_⟩
      intro a ha b hb e
      obtain ⟨s, hs, rfl⟩ := List.mem_map.1 ha
      simp at hb; subst hb
      apply hany
      rw [List.any_eq_true]
      exact ⟨s, hs, by simp [e]⟩

theorem map_baseUrl_names (l : List ServerM) (n v : Bytes) :
    (l.map fun x => if x.name == n then { x with baseUrl := v } else x).map (·.name) = l.map (·.name) := by
  rw [List.map_map]; apply List.map_congr_left; intro x _; simp only [Function.comp]; split <;> rfl

theorem addBaseUrl_inv {d : BDir} {anc : List Up} {c c' : Cat} (hc : Inv c) (h : addBaseUrl d anc c = .ok c') :
    Inv c' := by
  simp only [addBaseUrl] at h
  repeat' split at h
  all_goals first | exact absurd h fail_ne_ok | skip
  cases h
  apply hc.setServers
  rw [map_baseUrl_names]
  exact hc.servers_nodup

theorem addType_inv {d : BDir} {c c' : Cat} (hc : Inv c) (h : addType d c = .ok c') : Inv c' := by
  simp only [addType] at h
  split at h
  · exact absurd h fail_ne_ok
  · split at h
    · exact absurd h fail_ne_ok
    · rename_i hany
      obtain ⟨nt, _, h⟩ := bind_ok h
      try simp only [] at h
      split at h
      · exact absurd h fail_ne_ok
      · cases h
        apply hc.setTypes
        rw [List.map_append, List.nodup_append]
        refine ⟨hc.types_nodup, by simp, ?_⟩
        intro a ha b hb e
        obtain ⟨s, hs, rfl⟩ := List.mem_map.1 ha
        simp at hb; subst hb
        apply hany
        rw [List.any_eq_true]
        exact ⟨s, hs, by simp [e]⟩


theorem addHTTPMethod_inv {d : BDir} {kids : List BDir} {anc : List Up} {c c' : Cat} (hc : Inv c)
    (h : addHTTPMethod d kids anc c = .ok c') : Inv c' := by
  unfold addHTTPMethod at h
  obtain ⟨path, _, h⟩ := bind_ok h
  obtain ⟨pp, _, h⟩ := bind_ok h
  try simp only [] at h
  split at h
  · exact absurd h fail_ne_ok
  · rename_i sim _
    obtain ⟨i, hi, h⟩ := bind_ok h
    try simp only [] at h
    split at h
    · exact absurd h fail_ne_ok
    · rename_i hn
      obtain ⟨⟨ns, c1⟩, htf, h⟩ := bind_ok h
      cases h
      have hc0 : Inv { c with similar := sim } := hc.of_eq rfl rfl rfl rfl
      obtain ⟨hc1, ei, hne, hex⟩ := tagsFor_spec hc0 htf
      obtain ⟨hp, hm⟩ := httpIdOf_spec (liftAt_ok hi)
      apply hc1.addInter i ns d.annot hne hex
      · rw [ei]
        exact http_fresh hc0 hp hm (by simpa using hn)
      · intro _; exact hm

theorem addJsonRpcMethod_inv {d : BDir} {kids : List BDir} {anc : List Up} {c c' : Cat} (hc : Inv c)
    (h : addJsonRpcMethod d kids anc c = .ok c') : Inv c' := by
  unfold addJsonRpcMethod at h
  split at h
  · exact absurd h fail_ne_ok
  · split at h
    · exact absurd h fail_ne_ok
    · split at h
      · exact absurd h fail_ne_ok
      · obtain ⟨i, hi, h⟩ := bind_ok h
        try simp only [] at h
        split at h
        · exact absurd h fail_ne_ok
        · rename_i hn
          obtain ⟨⟨ns, c1⟩, htf, h⟩ := bind_ok h
          cases h
          obtain ⟨hc1, ei, hne, hex⟩ := tagsFor_spec hc htf
          have hp := rpcIdOf_spec (liftAt_ok hi)
          apply hc1.addInter i ns d.annot hne hex
          · rw [ei]
            intro x hx e
            apply hn
            simp only [Bool.or_eq_true, List.any_eq_true]
            exact Or.inr ⟨x, hx, by simp [e]⟩
          · intro e; rw [hp] at e; cases e

theorem getInter_mem {c : Cat} {i : IId} {x : InterM} (h : c.getInter i = some x) : x ∈ c.inters :=
  List.mem_of_find?_eq_some h

theorem addQuery_inv {d : BDir} {anc : List Up} {c c' : Cat} (hc : Inv c)
    (h : addQuery d anc c = .ok c') : Inv c' := by
  unfold addQuery at h
  split at h
  · exact absurd h fail_ne_ok
  · split at h
    · exact absurd h fail_ne_ok
    · obtain ⟨i, hi, h⟩ := bind_ok h
      try simp only [] at h
      repeat' split at h
      all_goals first | exact absurd h fail_ne_ok | skip
      all_goals
        cases h
        exact hc.updInter' _ _ (fun _ => rfl) (fun _ => rfl) (fun _ => rfl) (fun _ => rfl)

theorem addRpcSchema_inv {b : Bool} {d : BDir} {anc : List Up} {c c' : Cat} (hc : Inv c)
    (h : addRpcSchema b d anc c = .ok c') : Inv c' := by
  unfold addRpcSchema at h
  split at h
  · exact absurd h fail_ne_ok
  · split at h
    · exact absurd h fail_ne_ok
    · obtain ⟨i, hi, h⟩ := bind_ok h
      try simp only [] at h
      repeat' split at h
      all_goals first | exact absurd h fail_ne_ok | skip
      all_goals
        cases h
        exact hc.updInter' _ _ (fun _ => rfl) (fun _ => rfl) (fun _ => rfl) (fun _ => rfl)

theorem addRequestBody_inv {d : BDir} {anc : List Up} {b : BodyM} {c c' : Cat} (hc : Inv c)
    (hb : b.format = formatOf b.nota) (h : addRequestBody d anc b c = .ok c') : Inv c' := by
  unfold addRequestBody at h
  obtain ⟨i, hi, h⟩ := bind_ok h
  try simp only [] at h
  repeat' split at h
  all_goals first | exact absurd h fail_ne_ok | skip
  cases h
  refine hc.updInter _ _ (fun _ => rfl) (fun _ => rfl) ?_
  intro x _ ok
  refine ⟨ok.1, ?_⟩
  intro q hq bb hbb
  simp only [Option.map_eq_some_iff] at hq
  obtain ⟨r, _, rfl⟩ := hq
  simp only [Option.some.injEq] at hbb
  subst hbb; exact hb

theorem addRequest_tail {d : BDir} {anc : List Up} {b : BodyM} {c2 c' : Cat} {b1 b2 b3 b4 b5 : Bool} {m : Msg}
    (hc2 : Inv c2) (hb : b.format = formatOf b.nota)
    (h : (if b1 = true then addRequestBody d anc b c2
          else if b2 = true then addRequestBody d anc b c2
          else if b3 = true then addRequestBody d anc b c2
          else if b4 = true then addRequestBody d anc b c2
          else if b5 = true then fail d m else pure c2) = .ok c') : Inv c' := by
  repeat' split at h
  all_goals first
    | exact absurd h fail_ne_ok
    | exact addRequestBody_inv hc2 hb h
    | (cases h; exact hc2)

theorem addRequest_inv {d : BDir} {anc : List Up} {c c' : Cat} (hc : Inv c)
    (h : addRequest d anc c = .ok c') : Inv c' := by
  unfold addRequest at h
  split at h
  · exact absurd h fail_ne_ok
  · try simp only [] at h
    split at h
    · exact absurd h fail_ne_ok
    · obtain ⟨nt, _, h⟩ := bind_ok h
      try simp only [] at h
      split at h
      · obtain ⟨i, _, h⟩ := bind_ok h
        split at h
        · split at h
          · -- a second Request directive of one method: refused
            obtain ⟨c2, h2, _⟩ := bind_ok h
            exact absurd h2 fail_ne_ok
          · obtain ⟨c2, h2, h⟩ := bind_ok h
            cases h2
            refine addRequest_tail ?_ rfl h
            refine hc.updInter _ _ (fun _ => rfl) (fun _ => rfl) ?_
            intro x _ ok
            refine ⟨ok.1, ?_⟩
            intro q hq bb hbb
            cases hq; cases hbb
        · obtain ⟨c2, h2, h⟩ := bind_ok h
          cases h2
          exact addRequest_tail hc rfl h
      · obtain ⟨c2, h2, h⟩ := bind_ok h
        cases h2
        exact addRequest_tail hc rfl h

theorem addResponseBody_inv {d : BDir} {anc : List Up} {b : BodyM} {c c' : Cat} (hc : Inv c)
    (hb : b.format = formatOf b.nota) (h : addResponseBody d anc b c = .ok c') : Inv c' := by
  unfold addResponseBody at h
  obtain ⟨i, hi, h⟩ := bind_ok h
  try simp only [] at h
  repeat' split at h
  all_goals first | exact absurd h fail_ne_ok | skip
  cases h
  refine hc.updInter _ _ (fun _ => rfl) (fun _ => rfl) ?_
  intro x _ ok
  refine ⟨?_, ok.2⟩
  intro r hr bb hbb
  rcases List.mem_append.1 hr with hr | hr
  · exact ok.1 r (List.dropLast_subset _ hr) bb hbb
  · simp only [List.mem_singleton] at hr
    subst hr
    simp only [Option.some.injEq] at hbb
    subst hbb; exact hb

theorem ite_fail {α : Type} {p : Prop} [Decidable p] {d : BDir} {m : Msg} {X : R α} {a : α}
    (h : (if p then fail d m else X) = .ok a) : X = .ok a := by
  split at h
  · exact absurd h fail_ne_ok
  · exact h

theorem addResponse_tail {d : BDir} {anc : List Up} {b : BodyM} {c2 c' : Cat} {b1 b2 b3 b4 : Bool} {m : Msg}
    (hc2 : Inv c2) (hb : b.format = formatOf b.nota)
    (h : (if b1 = true then addResponseBody d anc b c2
          else if b2 = true then addResponseBody d anc b c2
          else if b3 = true then addResponseBody d anc b c2
          else if b4 = true then fail d m else pure c2) = .ok c') : Inv c' := by
  repeat' split at h
  all_goals first
    | exact absurd h fail_ne_ok
    | exact addResponseBody_inv hc2 hb h
    | (cases h; exact hc2)

theorem addResponse_inv {d : BDir} {anc : List Up} {c c' : Cat} (hc : Inv c)
    (h : addResponse d anc c = .ok c') : Inv c' := by
  unfold addResponse at h
  try simp only [] at h
  split at h
  · exact absurd h fail_ne_ok
  split at h
  · exact absurd h fail_ne_ok
  · obtain ⟨nt, _, h⟩ := bind_ok h
    try simp only [] at h
    replace h := ite_fail h
    · split at h
      · obtain ⟨i, _, h⟩ := bind_ok h
        obtain ⟨c2, h2, h⟩ := bind_ok h
        cases h2
        refine addResponse_tail ?_ rfl h
        refine hc.updInter _ _ (fun _ => rfl) (fun _ => rfl) ?_
        intro x _ ok
        refine ⟨?_, ok.2⟩
        intro r hr bb hbb
        rcases List.mem_append.1 hr with hr | hr
        · exact ok.1 r hr bb hbb
        · simp only [List.mem_singleton] at hr
          subst hr; cases hbb
      · obtain ⟨c2, h2, h⟩ := bind_ok h
        cases h2
        exact addResponse_tail hc rfl h

theorem addHeaders_inv {d : BDir} {anc : List Up} {c c' : Cat} (hc : Inv c)
    (h : addHeaders d anc c = .ok c') : Inv c' := by
  unfold addHeaders at h
  split at h
  · exact absurd h fail_ne_ok
  · split at h
    · exact absurd h fail_ne_ok
    · split at h
      · exact absurd h fail_ne_ok
      · split at h
        · obtain ⟨i, hi, h⟩ := bind_ok h
          try simp only [] at h
          repeat' split at h
          all_goals first | exact absurd h fail_ne_ok | skip
          cases h
          refine hc.updInter _ _ (fun _ => rfl) (fun _ => rfl) ?_
          intro x _ ok
          refine ⟨ok.1, ?_⟩
          intro q hq bb hbb
          simp only [Option.map_eq_some_iff] at hq
          obtain ⟨r, hr, rfl⟩ := hq
          exact ok.2 r hr bb hbb
        · split at h
          · obtain ⟨i, hi, h⟩ := bind_ok h
            try simp only [] at h
            split at h
            · exact absurd h fail_ne_ok
            · rename_i x0 hx0
              split at h
              · exact absurd h fail_ne_ok
              · rename_i r0 hr0
                split at h
                · exact absurd h fail_ne_ok
                · cases h
                  have hr0m : r0 ∈ x0.responses := by
                    obtain ⟨ys, e⟩ := List.getLast?_eq_some_iff.1 hr0
                    rw [e]; simp
                  have ok0 := hc.body_format x0 (getInter_mem hx0)
                  refine hc.updInter _ _ (fun _ => rfl) (fun _ => rfl) ?_
                  intro x _ ok
                  refine ⟨?_, ok.2⟩
                  intro r hr bb hbb
                  rcases List.mem_append.1 hr with hr | hr
                  · exact ok.1 r (List.dropLast_subset _ hr) bb hbb
                  · simp only [List.mem_singleton] at hr
                    subst hr
                    exact ok0.1 r0 hr0m bb hbb
          · exact absurd h fail_ne_ok

theorem addBody_inv {d : BDir} {anc : List Up} {c c' : Cat} (hc : Inv c)
    (h : addBody d anc c = .ok c') : Inv c' := by
  unfold addBody at h
  repeat' split at h
  all_goals first
    | exact absurd h fail_ne_ok
    | exact addRequest_inv hc h
    | exact addResponse_inv hc h
    | (cases h; exact hc)

theorem addDescription_inv {d : BDir} {anc : List Up} {c c' : Cat} (hc : Inv c)
    (h : addDescription d anc c = .ok c') : Inv c' := by
  unfold addDescription at h
  split at h
  · exact absurd h fail_ne_ok
  · split at h
    · exact absurd h fail_ne_ok
    · split at h
      · exact absurd h fail_ne_ok
      · split at h
        · exact absurd h fail_ne_ok
        · split at h
          · exact absurd h fail_ne_ok
          · try simp only [] at h
            split at h
            · repeat' split at h
              all_goals first | exact absurd h fail_ne_ok | (cases h; exact hc.of_eq rfl rfl rfl rfl)
            · split at h
              · obtain ⟨i, hi, h⟩ := bind_ok h
                try simp only [] at h
                repeat' split at h
                all_goals first | exact absurd h fail_ne_ok | skip
                cases h
                exact hc.updInter' _ _ (fun _ => rfl) (fun _ => rfl) (fun _ => rfl) (fun _ => rfl)
              · split at h
                · obtain ⟨i, hi, h⟩ := bind_ok h
                  try simp only [] at h
                  repeat' split at h
                  all_goals first | exact absurd h fail_ne_ok | skip
                  cases h
                  exact hc.updInter' _ _ (fun _ => rfl) (fun _ => rfl) (fun _ => rfl) (fun _ => rfl)
                · split at h
                  · try simp only [] at h
                    repeat' split at h
                    all_goals first | exact absurd h fail_ne_ok | skip
                    cases h
                    exact hc.updTag _ _ (fun _ => rfl) (fun _ => rfl) (fun _ => rfl)
                  · exact absurd h fail_ne_ok

theorem addDirective_inv {banned : List Kind} {d : BDir} {kids : List BDir} {anc : List Up} {c c' : Cat}
    (hc : Inv c) (h : addDirective banned d kids anc c = .ok c') : Inv c' := by
  unfold addDirective at h
  split at h
  · exact absurd h fail_ne_ok
  · split at h
    all_goals first
      | exact addJSight_inv hc h
      | exact addInfo_inv hc h
      | exact addTitle_inv hc h
      | exact addVersion_inv hc h
      | exact addDescription_inv hc h
      | exact addServer_inv hc h
      | exact addBaseUrl_inv hc h
      | exact addType_inv hc h
      | exact addURL_inv hc h
      | exact addHTTPMethod_inv hc h
      | exact addQuery_inv hc h
      | exact addRequest_inv hc h
      | exact addResponse_inv hc h
      | exact addHeaders_inv hc h
      | exact addBody_inv hc h
      | exact addProtocol_inv hc h
      | exact addJsonRpcMethod_inv hc h
      | exact addRpcSchema_inv hc h
      | exact addTags_inv hc h
      | (cases h; exact hc)

/-! ### the fold over the forest -/

theorem addForest_inv (banned : List Kind) (anc : List Up) (ts : List BTree) (c : Cat) :
    ∀ c', Inv c → addForest banned anc ts c = .ok c' → Inv c' := by
  apply addForest.induct banned
    (motive_1 := fun anc t c => ∀ c', Inv c → addBranch banned anc t c = .ok c' → Inv c')
    (motive_2 := fun anc ts c => ∀ c', Inv c → addForest banned anc ts c = .ok c' → Inv c')
  · intro anc d kids c e he c' _ h
    rw [addBranch, he] at h; cases h
  · intro anc d kids c c1 he ih c' hc h
    rw [addBranch, he] at h
    exact ih c' (addDirective_inv hc he) h
  · intro anc c c' hc h
    rw [addForest] at h; cases h; exact hc
  · intro anc t r c e he _ c' _ h
    rw [addForest, he] at h; cases h
  · intro anc t r c c1 he ih1 ih2 c' hc h
    rw [addForest, he] at h
    exact ih2 c' (ih1 c1 hc he) h

theorem collectTags_inv : ∀ (ts : List BTree) (c c' : Cat), Inv c → collectTags ts c = .ok c' → Inv c'
  | [], c, c', hc, h => by rw [collectTags] at h; cases h; exact hc
  | t :: r, c, c', hc, h => by
    rw [collectTags] at h
    try simp only [] at h
    split at h
    · split at h
      · exact absurd h fail_ne_ok
      · split at h
        · exact absurd h fail_ne_ok
        · rename_i hn
          refine collectTags_inv r _ c' ?_ h
          apply hc.addTag _ _ rfl rfl
          apply getTag_none
          simpa using hn
    · exact collectTags_inv r c c' hc h

theorem compile_tail {banned : List Kind} {forest : List BTree} {c0 c : Cat}
    (h : (do
      let c ← addForest banned [] forest c0
      validateInfo c
      validateRequestBody c.inters
      validateResponseBody c.inters
      pure c : R Cat) = .ok c) :
    addForest banned [] forest c0 = .ok c ∧
      validateRequestBody c.inters = .ok () ∧ validateResponseBody c.inters = .ok () := by
  obtain ⟨c1, h1, h⟩ := bind_ok h
  obtain ⟨_, _, h⟩ := bind_ok h
  obtain ⟨_, hq, h⟩ := bind_ok h
  obtain ⟨_, hr, h⟩ := bind_ok h
  cases h
  exact ⟨h1, hq, hr⟩

/-- the stages of an accepted compilation -/
theorem compile_parts {banned : List Kind} {forest : List BTree} {c : Cat} (h : compile banned forest = .ok c) :
    ∃ c0, collectTags forest {} = .ok c0 ∧ addForest banned [] forest c0 = .ok c ∧
      validateRequestBody c.inters = .ok () ∧ validateResponseBody c.inters = .ok () := by
  unfold compile at h
  obtain ⟨c0, h0, h⟩ := bind_ok h
  obtain ⟨_, _, h⟩ := bind_ok h
  obtain ⟨_, _, h⟩ := bind_ok h
  refine ⟨c0, h0, ?_⟩
  simp only [] at h
  split at h
  · split at h
    · obtain ⟨_, hf, _⟩ := bind_ok h
      exact absurd hf fail_ne_ok
    · exact compile_tail h
  · exact compile_tail h

theorem compile_inv {banned : List Kind} {forest : List BTree} {c : Cat} (h : compile banned forest = .ok c) :
    Inv c := by
  obtain ⟨c0, h0, h1, _, _⟩ := compile_parts h
  exact addForest_inv banned [] forest c0 _ (collectTags_inv forest {} c0 Inv.empty h0) h1

theorem validateRequestBody_spec : ∀ (l : List InterM), validateRequestBody l = .ok () →
    ∀ x ∈ l, ∀ q, x.request = some q → q.body.isSome = true
  | [], _, x, hx => by cases hx
  | y :: r, h, x, hx => by
    rw [validateRequestBody] at h
    rcases List.mem_cons.1 hx with rfl | hx
    · intro q hq
      rw [hq] at h
      simp only [] at h
      split at h
      · cases h
      · rename_i hb
        cases hb' : q.body with
        | none => simp [hb'] at hb
        | some _ => rfl
    · apply validateRequestBody_spec r _ x hx
      split at h
      · split at h
        · cases h
        · exact h
      · exact h

theorem firstBodyless_none : ∀ (l : List RespM), firstBodyless l = none → ∀ r ∈ l, r.body.isSome = true
  | [], _, r, hr => by cases hr
  | y :: l, h, r, hr => by
    rw [firstBodyless] at h
    split at h
    · cases h
    · rename_i hb
      rcases List.mem_cons.1 hr with rfl | hr
      · cases hb' : r.body with
        | none => simp [hb'] at hb
        | some _ => rfl
      · exact firstBodyless_none l h r hr

theorem validateResponseBody_spec : ∀ (l : List InterM), validateResponseBody l = .ok () →
    ∀ x ∈ l, ∀ r ∈ x.responses, r.body.isSome = true
  | [], _, x, hx => by cases hx
  | y :: l, h, x, hx => by
    rw [validateResponseBody] at h
    split at h
    · cases h
    · rename_i hf
      rcases List.mem_cons.1 hx with rfl | hx
      · exact firstBodyless_none _ hf
      · exact validateResponseBody_spec l h x hx

theorem compile_bodies {banned : List Kind} {forest : List BTree} {c : Cat} (h : compile banned forest = .ok c) :
    ∀ x ∈ c.inters, (∀ r ∈ x.responses, r.body.isSome = true) ∧ (∀ q, x.request = some q → q.body.isSome = true) := by
  obtain ⟨c0, h0, h1, hq, hr⟩ := compile_parts h
  intro x hx
  exact ⟨validateResponseBody_spec _ hr x hx, validateRequestBody_spec _ hq x hx⟩


end JSight.BuildInv
