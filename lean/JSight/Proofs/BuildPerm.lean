import JSight.Model.Build
import JSight.Proofs.BuildInv
/-!
Helpers of `Props/C10_Build.lean` (C10, catalog construction): swapping a top-level declaration with its
neighbour changes neither the verdict of `compile` nor — up to the order of `servers`, `types`, `tags` — the catalog.

* part A: frame lemmas of the `add…` functions (what a function does not read it does not change);
* part B: the same for `addDirective`, lifted to `addBranch` / `addForest` (`lift`);
* part C: what a declaration does (`…_summary`);
* part D: a declaration commutes with a neighbouring block (`comm`);
* part E: the stages of `compile`.
-/
set_option linter.unusedSimpArgs false
set_option linter.unusedVariables false

namespace JSight.BuildPerm
open JSight JSight.Build JSight.Gen JSight.BuildInv

/-! ### results -/

def rmap (g : Cat → Cat) : R Cat → R Cat
  | .ok a => .ok (g a)
  | .error e => .error e

theorem bind_eq {α β : Type} (x : R α) (k : α → R β) :
    (x >>= k) = match x with | .ok a => k a | .error e => .error e := by cases x <;> rfl
theorem pure_eq {α : Type} (a : α) : (pure a : R α) = .ok a := rfl

@[simp] theorem rmap_ok (g : Cat → Cat) (a : Cat) : rmap g (.ok a) = .ok (g a) := rfl
@[simp] theorem rmap_error (g : Cat → Cat) (e : BErr) : rmap g (.error e) = .error e := rfl
@[simp] theorem rmap_fail (g : Cat → Cat) (d : BDir) (m : Msg) : rmap g (fail d m) = fail d m := rfl

theorem rmap_ite (g : Cat → Cat) (p : Prop) [Decidable p] (a b : R Cat) :
    rmap g (if p then a else b) = if p then rmap g a else rmap g b := by split <;> rfl

theorem rmap_id (r : R Cat) : rmap (fun x => x) r = r := by cases r <;> rfl

theorem rmap_rmap (g h : Cat → Cat) (r : R Cat) : rmap g (rmap h r) = rmap (fun x => g (h x)) r := by
  cases r <;> rfl

theorem rmap_eq_ok {g : Cat → Cat} {r : R Cat} {y : Cat} (h : rmap g r = .ok y) : ∃ x, r = .ok x ∧ y = g x := by
  cases r with
  | error e => cases h
  | ok x => cases h; exact ⟨x, rfl, rfl⟩

/-! ### part A: frame lemmas -/

def put (c : Cat) (S : List ServerM) (T : List TypeM) (G : List TagM) : Cat :=
  { c with servers := S, types := T, tags := G }

/-- the two catalogs agree outside `servers`, `types`, `tags` -/
structure Eq6 (c c' : Cat) : Prop where
  jsight : c'.jsight = c.jsight
  info : c'.info = c.info
  inters : c'.inters = c.inters
  uniqURL : c'.uniqURL = c.uniqURL
  similar : c'.similar = c.similar
  protoURLs : c'.protoURLs = c.protoURLs

theorem Eq6.put (c : Cat) (S : List ServerM) (T : List TypeM) (G : List TagM) : Eq6 c (put c S T G) :=
  ⟨rfl, rfl, rfl, rfl, rfl, rfl⟩

theorem Eq6.eq_put {c c' : Cat} (h : Eq6 c c') : c' = BuildPerm.put c c'.servers c'.types c'.tags := by
  cases c; cases c'; cases h; simp_all [BuildPerm.put]

macro "gen_tac" h:ident : tactic => `(tactic| (
  simp only [bind_eq, pure_eq, rmap, put, Cat.getInter, Cat.updInter, Cat.hasInter,
    ($h).jsight, ($h).info, ($h).inters, ($h).uniqURL, ($h).similar, ($h).protoURLs]
  repeat' (first | rfl | split)))

/-- a function that neither reads nor writes `servers`, `types`, `tags` -/
def Gen (f : Cat → R Cat) : Prop :=
  ∀ c c', Eq6 c c' → f c' = rmap (put · c'.servers c'.types c'.tags) (f c)

theorem Gen.put {f : Cat → R Cat} (h : Gen f) (c : Cat) (S : List ServerM) (T : List TypeM) (G : List TagM) :
    f (put c S T G) = rmap (put · S T G) (f c) :=
  h c (BuildPerm.put c S T G) (Eq6.put c S T G)

/-- an accepted step of such a function keeps the three lists -/
theorem Gen.keeps {f : Cat → R Cat} (h : Gen f) {c d : Cat} (hd : f c = .ok d) :
    d.servers = c.servers ∧ d.types = c.types ∧ d.tags = c.tags := by
  have := h c c ⟨rfl, rfl, rfl, rfl, rfl, rfl⟩
  rw [hd] at this
  simp only [rmap_ok] at this
  have e : d = BuildPerm.put d c.servers c.types c.tags := Except.ok.inj this
  exact ⟨(congrArg Cat.servers e : d.servers = _), (congrArg Cat.types e : d.types = _),
    (congrArg Cat.tags e : d.tags = _)⟩

theorem addJSight_gen (d : BDir) : Gen (addJSight d) := by
  intro c c' h; unfold addJSight; gen_tac h
theorem addInfo_gen (d : BDir) : Gen (addInfo d) := by
  intro c c' h; unfold addInfo; gen_tac h
theorem addTitle_gen (d : BDir) : Gen (addTitle d) := by
  intro c c' h; unfold addTitle; gen_tac h
theorem addVersion_gen (d : BDir) : Gen (addVersion d) := by
  intro c c' h; unfold addVersion; gen_tac h
theorem addURL_gen (d : BDir) (kids : List BDir) (anc : List Up) : Gen (addURL d kids anc) := by
  intro c c' h; unfold addURL; gen_tac h
theorem addQuery_gen (d : BDir) (anc : List Up) : Gen (addQuery d anc) := by
  intro c c' h; unfold addQuery; gen_tac h
theorem addRequestBody_gen (d : BDir) (anc : List Up) (b : BodyM) : Gen (addRequestBody d anc b) := by
  intro c c' h; unfold addRequestBody; gen_tac h
theorem addResponseBody_gen (d : BDir) (anc : List Up) (b : BodyM) : Gen (addResponseBody d anc b) := by
  intro c c' h; unfold addResponseBody; gen_tac h
theorem addHeaders_gen (d : BDir) (anc : List Up) : Gen (addHeaders d anc) := by
  intro c c' h; unfold addHeaders; gen_tac h
theorem addProtocol_gen (d : BDir) (anc : List Up) : Gen (addProtocol d anc) := by
  intro c c' h; unfold addProtocol; gen_tac h
theorem addRpcSchema_gen (b : Bool) (d : BDir) (anc : List Up) : Gen (addRpcSchema b d anc) := by
  intro c c' h; unfold addRpcSchema; gen_tac h

theorem gen_of_put {f : Cat → R Cat}
    (h : ∀ c S T G, f (put c S T G) = rmap (put · S T G) (f c)) : Gen f := by
  intro c c' e
  rw [e.eq_put]
  exact h _ _ _ _

theorem put_updInter (c : Cat) (S : List ServerM) (T : List TypeM) (G : List TagM) (i : IId) (f : InterM → InterM) :
    (put c S T G).updInter i f = put (c.updInter i f) S T G := rfl

theorem put_getInter (c : Cat) (S : List ServerM) (T : List TypeM) (G : List TagM) (i : IId) :
    (put c S T G).getInter i = c.getInter i := rfl

theorem addRequestBody_put (d : BDir) (anc : List Up) (b : BodyM) (c : Cat) (S : List ServerM) (T : List TypeM)
    (G : List TagM) : addRequestBody d anc b (put c S T G) = rmap (put · S T G) (addRequestBody d anc b c) :=
  (addRequestBody_gen d anc b).put c S T G

theorem addResponseBody_put (d : BDir) (anc : List Up) (b : BodyM) (c : Cat) (S : List ServerM) (T : List TypeM)
    (G : List TagM) : addResponseBody d anc b (put c S T G) = rmap (put · S T G) (addResponseBody d anc b c) :=
  (addResponseBody_gen d anc b).put c S T G

theorem rmap_bind {α : Type} (g : Cat → Cat) (x : R α) (k : α → R Cat) :
    rmap g (x >>= k) = x >>= fun a => rmap g (k a) := by cases x <;> rfl
theorem ite_bind {α β : Type} (p : Prop) [Decidable p] (a b : R α) (k : α → R β) :
    ((if p then a else b) >>= k) = if p then a >>= k else b >>= k := by split <;> rfl
theorem ok_bind {α β : Type} (a : α) (k : α → R β) : ((Except.ok a : R α) >>= k) = k a := rfl
theorem error_bind {α β : Type} (e : BErr) (k : α → R β) : ((Except.error e : R α) >>= k) = .error e := rfl
theorem fail_bind {α β : Type} (d : BDir) (m : Msg) (k : α → R β) : ((fail d m : R α) >>= k) = fail d m := rfl
theorem bind_bind {α β γ : Type} (x : R α) (k : α → R β) (l : β → R γ) :
    ((x >>= k) >>= l) = x >>= fun a => k a >>= l := by cases x <;> rfl

theorem addRequest_gen (d : BDir) (anc : List Up) : Gen (addRequest d anc) := by
  apply gen_of_put
  intro c S T G
  unfold addRequest
  simp only [pure_eq, ite_bind, bind_bind, ok_bind, fail_bind, rmap_bind, rmap_ite, rmap_fail, rmap_ok, put_updInter,
    put_getInter, addRequestBody_put]
  refine ite_congr rfl (fun _ => rfl) (fun _ => ?_)
  refine ite_congr rfl (fun _ => rfl) (fun _ => ?_)
  congr 1; funext nt
  refine ite_congr rfl (fun _ => ?_) (fun _ => rfl)
  congr 1; funext i
  cases c.getInter i with
  | none => simp only [rmap_ite, rmap_fail, rmap_ok]
  | some x => simp only [rmap_ite, rmap_fail, rmap_ok]

theorem addResponse_gen (d : BDir) (anc : List Up) : Gen (addResponse d anc) := by
  apply gen_of_put
  intro c S T G
  unfold addResponse
  simp only [pure_eq, ite_bind, bind_bind, ok_bind, rmap_bind, rmap_ite, rmap_fail, rmap_ok, put_updInter,
    addResponseBody_put]

theorem addBody_gen (d : BDir) (anc : List Up) : Gen (addBody d anc) := by
  apply gen_of_put
  intro c S T G
  unfold addBody
  simp only [(addRequest_gen d anc).put, (addResponse_gen d anc).put]
  repeat' (first | rfl | split)

/-! #### the tag stage of a method directive -/

/-- the Tags directive that names the tags of a method directive (its own, else the one of its URL) -/
def tagsSource (kids : List BDir) (anc : List Up) : Option BDir :=
  match tagsChild kids with
  | some td => some td
  | none => match anc with
    | u :: _ => if u.d.kind == .URL then tagsChild u.kids else none
    | [] => none

def autoName (i : IId) : Bytes := tagName (pathTagTitle i.path)

/-- the catalog with the automatic tag of the path, when it is missing -/
def autoCat (c : Cat) (i : IId) : Cat :=
  match c.getTag (autoName i) with
  | some _ => c
  | none => { c with tags := c.tags ++ [{ name := autoName i, title := pathTagTitle i.path, declared := false }] }

def fin (d : BDir) (i : IId) (ns : List Bytes) (c : Cat) : Cat :=
  { c with inters := c.inters ++ [{ iid := i, annot := d.annot, tags := ns }] }

/-- `tagsFor`, `attachAll` and the new interaction -/
def tagStage (d : BDir) (kids : List BDir) (anc : List Up) (i : IId) (c : Cat) : R Cat :=
  match tagsSource kids anc with
  | some td =>
    match tagsFromDirective c td with
    | .ok ns => .ok (fin d i ns (attachAll c i ns))
    | .error e => .error e
  | none => .ok (fin d i [autoName i] (attachAll (autoCat c i) i [autoName i]))

theorem tagStage_eq (d : BDir) (kids : List BDir) (anc : List Up) (i : IId) (c : Cat) :
    (do
      let (ns, c) ← tagsFor c kids anc i
      let c := attachAll c i ns
      pure { c with inters := c.inters ++ [{ iid := i, annot := d.annot, tags := ns }] } : R Cat)
      = tagStage d kids anc i c := by
  unfold tagStage tagsSource tagsFor autoCat autoName
  cases tagsChild kids with
  | some td => simp only [bind_eq, pure_eq]; cases tagsFromDirective c td <;> rfl
  | none =>
    simp only []
    cases anc with
    | nil => simp only []; cases c.getTag (tagName (pathTagTitle i.path)) <;> rfl
    | cons u r =>
      simp only []
      by_cases hu : (u.d.kind == Kind.URL) = true
      · simp only [hu, if_true]
        cases tagsChild u.kids with
        | some td => simp only [bind_eq, pure_eq]; cases tagsFromDirective c td <;> rfl
        | none => simp only []; cases c.getTag (tagName (pathTagTitle i.path)) <;> rfl
      · simp only [hu, if_false]
        cases c.getTag (tagName (pathTagTitle i.path)) <;> rfl

theorem addHTTPMethod_eq (d : BDir) (kids : List BDir) (anc : List Up) (c : Cat) :
    addHTTPMethod d kids anc c = (do
      let path ← liftAt d (pathChain (d :: anc.map (·.d)))
      let pp ← checkedParams d path
      match checkSimilar c.similar pp with
      | none => fail d .similarPaths
      | some sim => do
        let i ← liftAt d (httpIdOf (d :: anc.map (·.d)))
        if c.hasInter i then fail d .methodDefined
        else tagStage d kids anc i { c with similar := sim }) := by
  unfold addHTTPMethod
  simp only [← tagStage_eq]
  rfl

theorem addJsonRpcMethod_eq (d : BDir) (kids : List BDir) (anc : List Up) (c : Cat) :
    addJsonRpcMethod d kids anc c =
      (if (d.param "MethodName").isEmpty then fail d (.required "MethodName")
      else match anc with
      | [] => fail d .internal
      | p :: _ =>
        if !p.kids.any (·.kind == .Protocol) then fail d .protocolMissing
        else do
          let i ← liftAt d (rpcIdOf (d :: anc.map (·.d)))
          if c.hasInter i || c.inters.any (fun x => x.iid.text == i.text) then fail d .methodDefined
          else tagStage d kids anc i c) := by
  unfold addJsonRpcMethod
  simp only [← tagStage_eq]
  rfl

/-! #### relations between two catalogs, component by component -/

/-- verdicts agree and accepted results are related -/
def RRel (Rel : Cat → Cat → Prop) : R Cat → R Cat → Prop
  | .ok x, .ok y => Rel x y
  | .error _, .error _ => True
  | _, _ => False

theorem RRel.fail {Rel : Cat → Cat → Prop} {d d' : BDir} {m m' : Msg} : RRel Rel (fail d m) (fail d' m') := trivial
theorem RRel.err {Rel : Cat → Cat → Prop} {e e' : BErr} : RRel Rel (.error e) (.error e') := trivial
theorem RRel.ok {Rel : Cat → Cat → Prop} {x y : Cat} (h : Rel x y) : RRel Rel (.ok x) (.ok y) := h

theorem RRel.bind_same {Rel : Cat → Cat → Prop} {α : Type} (x : R α) {k k' : α → R Cat}
    (h : ∀ a, RRel Rel (k a) (k' a)) : RRel Rel (x >>= k) (x >>= k') := by
  cases x with
  | error e => trivial
  | ok a => exact h a

theorem RRel.bind {Rel Rel' : Cat → Cat → Prop} {r r' : R Cat} {k k' : Cat → R Cat} (h : RRel Rel r r')
    (hk : ∀ x y, Rel x y → RRel Rel' (k x) (k' y)) : RRel Rel' (r >>= k) (r' >>= k') := by
  cases r with
  | error e => cases r' with
    | error e' => trivial
    | ok y => cases h
  | ok x => cases r' with
    | error e' => cases h
    | ok y => exact hk x y h

theorem RRel.mono {Rel Rel' : Cat → Cat → Prop} {r r' : R Cat} (h : RRel Rel r r')
    (hk : ∀ x y, Rel x y → Rel' x y) : RRel Rel' r r' := by
  cases r with
  | error e => cases r' with
    | error e' => trivial
    | ok y => cases h
  | ok x => cases r' with
    | error e' => cases h
    | ok y => exact hk x y h

/-- how the three lists of the two catalogs are related -/
structure Frames where
  Qs : List ServerM → List ServerM → Prop
  Qt : List TypeM → List TypeM → Prop
  Qg : List TagM → List TagM → Prop

structure Frames.Rel (F : Frames) (c c' : Cat) : Prop where
  eq6 : Eq6 c c'
  s : F.Qs c.servers c'.servers
  t : F.Qt c.types c'.types
  g : F.Qg c.tags c'.tags

/-- what `addServer` / `addBaseUrl` need of the relation between the server lists -/
structure ServerFrame (Q : List ServerM → List ServerM → Prop) : Prop where
  any : ∀ {S S'}, Q S S' → ∀ n : Bytes, S'.any (fun x => x.name == n) = S.any (fun x => x.name == n)
  app : ∀ {S S'}, Q S S' → ∀ t : ServerM, S.any (fun x => x.name == t.name) = false → Q (S ++ [t]) (S' ++ [t])
  find : ∀ {S S'}, Q S S' → ∀ n : Bytes, S'.find? (fun x => x.name == n) = S.find? (fun x => x.name == n)
  upd : ∀ {S S'}, Q S S' → ∀ n p : Bytes,
    Q (S.map fun x => if x.name == n then { x with baseUrl := p } else x)
      (S'.map fun x => if x.name == n then { x with baseUrl := p } else x)

/-- what `addType` needs -/
structure TypeFrame (Q : List TypeM → List TypeM → Prop) : Prop where
  any : ∀ {S S'}, Q S S' → ∀ n : Bytes, S'.any (fun x => x.name == n) = S.any (fun x => x.name == n)
  app : ∀ {S S'}, Q S S' → ∀ t : TypeM, S.any (fun x => x.name == t.name) = false → Q (S ++ [t]) (S' ++ [t])

/-- what the tag stage of a method and `addTags` need -/
structure TagFrame (Q : List TagM → List TagM → Prop) : Prop where
  find : ∀ {G G'}, Q G G' → ∀ m : Bytes,
    (G'.find? (fun x => x.name == m)).map (·.declared) = (G.find? (fun x => x.name == m)).map (·.declared)
  upd : ∀ {G G'}, Q G G' → ∀ (m : Bytes) (i : IId),
    Q (G.map fun x => if x.name == m then attach i x else x) (G'.map fun x => if x.name == m then attach i x else x)
  app : ∀ {G G'}, Q G G' → ∀ t : TagM, G.find? (fun x => x.name == t.name) = none → Q (G ++ [t]) (G' ++ [t])

/-- what a Description under a TAG needs -/
structure DescrFrame (Q : List TagM → List TagM → Prop) : Prop where
  find : ∀ {G G'}, Q G G' → ∀ m : Bytes,
    (G'.find? (fun x => x.name == m)).map (·.descr) = (G.find? (fun x => x.name == m)).map (·.descr)
  upd : ∀ {G G'}, Q G G' → ∀ (m text : Bytes),
    Q (G.map fun x => if x.name == m then { x with descr := some text } else x)
      (G'.map fun x => if x.name == m then { x with descr := some text } else x)

theorem gen_rel {F : Frames} {f : Cat → R Cat} (hf : Gen f) {c c' : Cat} (h : F.Rel c c') :
    RRel F.Rel (f c) (f c') := by
  rw [hf c c' h.eq6]
  cases hd : f c with
  | error e => trivial
  | ok d =>
    obtain ⟨h1, h2, h3⟩ := hf.keeps hd
    refine ⟨⟨rfl, rfl, rfl, rfl, rfl, rfl⟩, ?_, ?_, ?_⟩
    · show F.Qs d.servers c'.servers
      rw [h1]; exact h.s
    · show F.Qt d.types c'.types
      rw [h2]; exact h.t
    · show F.Qg d.tags c'.tags
      rw [h3]; exact h.g

theorem addType_rel {F : Frames} (hT : TypeFrame F.Qt) (d : BDir) {c c' : Cat} (h : F.Rel c c') :
    RRel F.Rel (addType d c) (addType d c') := by
  unfold addType
  simp only [bind_eq, pure_eq]
  rw [hT.any h.t]
  split
  · exact RRel.fail
  · split
    · exact RRel.fail
    · rename_i hfresh
      split
      · split
        · exact RRel.fail
        · exact ⟨⟨h.eq6.1, h.eq6.2, h.eq6.3, h.eq6.4, h.eq6.5, h.eq6.6⟩, h.s,
            hT.app h.t _ (by simpa using hfresh), h.g⟩
      · trivial

theorem addServer_rel {F : Frames} (hS : ServerFrame F.Qs) (d : BDir) {c c' : Cat} (h : F.Rel c c') :
    RRel F.Rel (addServer d c) (addServer d c') := by
  unfold addServer
  simp only []
  rw [hS.any h.s]
  split
  · exact RRel.fail
  · split
    · exact RRel.fail
    · rename_i hfresh
      exact ⟨⟨h.eq6.1, h.eq6.2, h.eq6.3, h.eq6.4, h.eq6.5, h.eq6.6⟩,
        hS.app h.s _ (by simpa using hfresh), h.t, h.g⟩

theorem addBaseUrl_rel {F : Frames} (hS : ServerFrame F.Qs) (d : BDir) (anc : List Up) {c c' : Cat}
    (h : F.Rel c c') : RRel F.Rel (addBaseUrl d anc c) (addBaseUrl d anc c') := by
  unfold addBaseUrl
  simp only []
  split
  · exact RRel.fail
  · split
    · exact RRel.fail
    · split
      · exact RRel.fail
      · rw [hS.find h.s]
        split
        · exact RRel.fail
        · split
          · exact RRel.fail
          · exact ⟨⟨h.eq6.1, h.eq6.2, h.eq6.3, h.eq6.4, h.eq6.5, h.eq6.6⟩, hS.upd h.s _ _, h.t, h.g⟩

theorem declared_getD (o : Option TagM) :
    (match o with | some t => t.declared | none => false) = (o.map (·.declared)).getD false := by
  cases o <;> rfl

theorem tagsFromDirective_rel {Q : List TagM → List TagM → Prop} (hG : TagFrame Q) {c c' : Cat}
    (h : Q c.tags c'.tags) (td : BDir) : tagsFromDirective c' td = tagsFromDirective c td := by
  unfold tagsFromDirective
  refine ite_congr rfl (fun _ => rfl) (fun _ => ite_congr rfl (fun _ => rfl) (fun _ =>
    ite_congr ?_ (fun _ => rfl) (fun _ => rfl)))
  congr 2
  funext n
  have e := hG.find h n
  unfold Cat.getTag
  cases h1 : c'.tags.find? (fun x => x.name == n) <;> cases h2 : c.tags.find? (fun x => x.name == n) <;>
    simp_all

theorem Frames.Rel.with {F : Frames} {c c' : Cat} (h : F.Rel c c') {x y : Cat} (e : Eq6 x y)
    (hs : x.servers = c.servers) (hs' : y.servers = c'.servers) (ht : x.types = c.types) (ht' : y.types = c'.types)
    (hg : F.Qg x.tags y.tags) : F.Rel x y := by
  refine ⟨e, ?_, ?_, hg⟩
  · rw [hs, hs']; exact h.s
  · rw [ht, ht']; exact h.t

theorem autoCat_rel {F : Frames} (hG : TagFrame F.Qg) {c c' : Cat} (h : F.Rel c c') (i : IId) :
    F.Rel (autoCat c i) (autoCat c' i) := by
  unfold autoCat
  have e := hG.find h.g (autoName i)
  unfold Cat.getTag
  cases h1 : c.tags.find? (fun x => x.name == autoName i) with
  | some t =>
    rw [h1] at e
    cases h2 : c'.tags.find? (fun x => x.name == autoName i) with
    | some t' => exact h
    | none => rw [h2] at e; cases e
  | none =>
    rw [h1] at e
    cases h2 : c'.tags.find? (fun x => x.name == autoName i) with
    | some t' => rw [h2] at e; cases e
    | none =>
      exact h.with ⟨h.eq6.1, h.eq6.2, h.eq6.3, h.eq6.4, h.eq6.5, h.eq6.6⟩ rfl rfl rfl rfl (hG.app h.g _ h1)

theorem attachAll_rel {F : Frames} (hG : TagFrame F.Qg) (i : IId) :
    ∀ (ns : List Bytes) {c c' : Cat}, F.Rel c c' → F.Rel (attachAll c i ns) (attachAll c' i ns)
  | [], c, c', h => h
  | n :: r, c, c', h => by
    unfold attachAll
    apply attachAll_rel hG i r
    exact h.with ⟨h.eq6.1, h.eq6.2, h.eq6.3, h.eq6.4, h.eq6.5, h.eq6.6⟩ rfl rfl rfl rfl (hG.upd h.g n i)

theorem fin_rel {F : Frames} {c c' : Cat} (h : F.Rel c c') (d : BDir) (i : IId) (ns : List Bytes) :
    F.Rel (fin d i ns c) (fin d i ns c') := by
  refine h.with ⟨h.eq6.1, h.eq6.2, ?_, h.eq6.4, h.eq6.5, h.eq6.6⟩ rfl rfl rfl rfl h.g
  show c'.inters ++ _ = c.inters ++ _
  rw [h.eq6.3]

theorem tagStage_rel {F : Frames} (hG : TagFrame F.Qg) (d : BDir) (kids : List BDir) (anc : List Up) (i : IId)
    {c c' : Cat} (h : F.Rel c c') : RRel F.Rel (tagStage d kids anc i c) (tagStage d kids anc i c') := by
  unfold tagStage
  cases tagsSource kids anc with
  | some td =>
    simp only []
    rw [tagsFromDirective_rel hG h.g td]
    cases tagsFromDirective c td with
    | error e => trivial
    | ok ns => exact fin_rel (attachAll_rel hG i ns h) d i ns
  | none => exact fin_rel (attachAll_rel hG i _ (autoCat_rel hG h i)) d i _

theorem addHTTPMethod_rel {F : Frames} (hG : TagFrame F.Qg) (d : BDir) (kids : List BDir) (anc : List Up)
    {c c' : Cat} (h : F.Rel c c') : RRel F.Rel (addHTTPMethod d kids anc c) (addHTTPMethod d kids anc c') := by
  rw [addHTTPMethod_eq, addHTTPMethod_eq]
  unfold Cat.hasInter
  rw [h.eq6.similar, h.eq6.inters]
  apply RRel.bind_same; intro path
  apply RRel.bind_same; intro pp
  cases checkSimilar c.similar pp with
  | none => exact RRel.fail
  | some sim =>
    apply RRel.bind_same; intro i
    split
    · exact RRel.fail
    · apply tagStage_rel hG
      exact h.with ⟨h.eq6.1, h.eq6.2, rfl, h.eq6.4, rfl, h.eq6.6⟩ rfl rfl rfl rfl h.g

theorem addJsonRpcMethod_rel {F : Frames} (hG : TagFrame F.Qg) (d : BDir) (kids : List BDir) (anc : List Up)
    {c c' : Cat} (h : F.Rel c c') :
    RRel F.Rel (addJsonRpcMethod d kids anc c) (addJsonRpcMethod d kids anc c') := by
  rw [addJsonRpcMethod_eq, addJsonRpcMethod_eq]
  unfold Cat.hasInter
  rw [h.eq6.inters]
  split
  · exact RRel.fail
  · split
    · exact RRel.fail
    · split
      · exact RRel.fail
      · apply RRel.bind_same; intro i
        split
        · exact RRel.fail
        · exact tagStage_rel hG d kids _ i h

theorem addTags_rel {F : Frames} (hG : TagFrame F.Qg) (d : BDir) (anc : List Up) {c c' : Cat} (h : F.Rel c c') :
    RRel F.Rel (addTags d anc c) (addTags d anc c') := by
  unfold addTags
  split; · exact RRel.fail
  rw [tagsFromDirective_rel hG h.g d]
  apply RRel.bind_same; intro _
  exact h

theorem Frames.Rel.updInter {F : Frames} {c c' : Cat} (h : F.Rel c c') (i : IId) (f : InterM → InterM) :
    F.Rel (c.updInter i f) (c'.updInter i f) := by
  refine h.with ⟨h.eq6.1, h.eq6.2, ?_, h.eq6.4, h.eq6.5, h.eq6.6⟩ rfl rfl rfl rfl h.g
  show c'.inters.map _ = c.inters.map _
  rw [h.eq6.3]

theorem descrTag_rel {F : Frames} (hD : DescrFrame F.Qg) (d : BDir) (n text : Bytes) {c c' : Cat}
    (h : F.Rel c c') :
    RRel F.Rel
      (match c.getTag n with
        | none => fail d .tagNotFound
        | some t => if t.descr.isSome then fail d .notUnique else .ok (c.updTag n fun t => { t with descr := some text }))
      (match c'.getTag n with
        | none => fail d .tagNotFound
        | some t => if t.descr.isSome then fail d .notUnique else .ok (c'.updTag n fun t => { t with descr := some text })) := by
  have e := hD.find h.g n
  unfold Cat.getTag
  cases h1 : c.tags.find? (fun x => x.name == n) with
  | none =>
    rw [h1] at e
    cases h2 : c'.tags.find? (fun x => x.name == n) with
    | none => exact RRel.fail
    | some t' => rw [h2] at e; cases e
  | some t =>
    rw [h1] at e
    cases h2 : c'.tags.find? (fun x => x.name == n) with
    | none => rw [h2] at e; cases e
    | some t' =>
      rw [h2] at e
      have e' : t'.descr = t.descr := by simpa using e
      simp only [e']
      split
      · exact RRel.fail
      · exact h.with ⟨h.eq6.1, h.eq6.2, h.eq6.3, h.eq6.4, h.eq6.5, h.eq6.6⟩ rfl rfl rfl rfl (hD.upd h.g n text)

theorem addDescription_rel {F : Frames} (d : BDir) (anc : List Up)
    (hD : ∀ p r, anc = p :: r → (p.d.kind == Kind.TAG) = true → DescrFrame F.Qg) {c c' : Cat} (h : F.Rel c c') :
    RRel F.Rel (addDescription d anc c) (addDescription d anc c') := by
  unfold addDescription
  unfold Cat.getInter
  rw [h.eq6.info, h.eq6.inters]
  split
  · exact RRel.fail
  · split
    · exact RRel.fail
    · split
      · exact RRel.fail
      · split
        · exact RRel.fail
        · split
          · exact RRel.fail
          · rename_i text _ p r
            simp only [bind_eq, pure_eq]
            split
            · split
              · exact RRel.fail
              · split
                · exact RRel.fail
                · exact h.with ⟨h.eq6.1, rfl, rfl, h.eq6.4, h.eq6.5, h.eq6.6⟩ rfl rfl rfl rfl h.g
            · split
              · split
                · split
                  · exact RRel.fail
                  · split
                    · exact RRel.fail
                    · exact h.updInter _ _
                · exact RRel.err
              · split
                · split
                  · split
                    · exact RRel.fail
                    · split
                      · exact RRel.fail
                      · exact h.updInter _ _
                  · exact RRel.err
                · split
                  · rename_i hk
                    exact descrTag_rel (hD p r rfl hk) d _ _ h
                  · exact RRel.fail

/-! ### part B: `addDirective`, `addBranch`, `addForest` -/

/-- the relations support what the directive does -/
structure NodeOK (F : Frames) (d : BDir) (anc : List Up) : Prop where
  hT : d.kind = .Type → TypeFrame F.Qt
  hS : d.kind = .Server ∨ d.kind = .BaseURL → ServerFrame F.Qs
  hD : d.kind = .Description → ∀ p r, anc = p :: r → (p.d.kind == Kind.TAG) = true → DescrFrame F.Qg

theorem addDirective_rel {F : Frames} (hG : TagFrame F.Qg) (banned : List Kind) (d : BDir) (kids : List BDir)
    (anc : List Up) (ok : NodeOK F d anc) {c c' : Cat} (h : F.Rel c c') :
    RRel F.Rel (addDirective banned d kids anc c) (addDirective banned d kids anc c') := by
  unfold addDirective
  split
  · exact RRel.fail
  · split
    all_goals first
      | exact gen_rel (addJSight_gen d) h
      | exact gen_rel (addInfo_gen d) h
      | exact gen_rel (addTitle_gen d) h
      | exact gen_rel (addVersion_gen d) h
      | exact addDescription_rel d anc (ok.hD (by assumption)) h
      | exact addServer_rel (ok.hS (Or.inl (by assumption))) d h
      | exact addBaseUrl_rel (ok.hS (Or.inr (by assumption))) d anc h
      | exact addType_rel (ok.hT (by assumption)) d h
      | exact gen_rel (addURL_gen d kids anc) h
      | exact addHTTPMethod_rel hG d kids anc h
      | exact gen_rel (addQuery_gen d anc) h
      | exact gen_rel (addRequest_gen d anc) h
      | exact gen_rel (addResponse_gen d anc) h
      | exact gen_rel (addHeaders_gen d anc) h
      | exact gen_rel (addBody_gen d anc) h
      | exact gen_rel (addProtocol_gen d anc) h
      | exact addJsonRpcMethod_rel hG d kids anc h
      | exact gen_rel (addRpcSchema_gen _ d anc) h
      | exact addTags_rel hG d anc h
      | exact RRel.ok h

mutual
  /-- every node of the tree / forest satisfies `P` -/
  def allT (P : BDir → Bool) : BTree → Bool
    | .node d kids => P d && allF P kids
  def allF (P : BDir → Bool) : List BTree → Bool
    | [] => true
    | t :: r => allT P t && allF P r
end

/-- the lifting of a step relation to branches and forests -/
theorem lift {F : Frames} (hG : TagFrame F.Qg) (banned : List Kind) (P : BDir → Bool)
    (hok : ∀ d anc, P d = true → (∀ u ∈ anc, P u.d = true) → NodeOK F d anc)
    (anc : List Up) (ts : List BTree) (c : Cat) :
    ∀ c', allF P ts = true → (∀ u ∈ anc, P u.d = true) → F.Rel c c' →
      RRel F.Rel (addForest banned anc ts c) (addForest banned anc ts c') := by
  apply addForest.induct banned
    (motive_1 := fun anc t c => ∀ c', allT P t = true → (∀ u ∈ anc, P u.d = true) → F.Rel c c' →
      RRel F.Rel (addBranch banned anc t c) (addBranch banned anc t c'))
    (motive_2 := fun anc ts c => ∀ c', allF P ts = true → (∀ u ∈ anc, P u.d = true) → F.Rel c c' →
      RRel F.Rel (addForest banned anc ts c) (addForest banned anc ts c'))
  · intro anc d kids c e he c' hp ha h
    rw [allT, Bool.and_eq_true] at hp
    have := addDirective_rel hG banned d (kids.map BTree.dir) anc (hok d anc hp.1 ha) h
    rw [addBranch, addBranch, he]
    rw [he] at this
    cases h2 : addDirective banned d (kids.map BTree.dir) anc c' with
    | error e' => trivial
    | ok x => rw [h2] at this; cases this
  · intro anc d kids c c1 he ih c' hp ha h
    rw [allT, Bool.and_eq_true] at hp
    have := addDirective_rel hG banned d (kids.map BTree.dir) anc (hok d anc hp.1 ha) h
    rw [addBranch, addBranch, he]
    rw [he] at this
    cases h2 : addDirective banned d (kids.map BTree.dir) anc c' with
    | error e' => rw [h2] at this; cases this
    | ok x =>
      rw [h2] at this
      refine ih x hp.2 ?_ this
      intro u hu
      rcases List.mem_cons.1 hu with rfl | hu
      · exact hp.1
      · exact ha u hu
  · intro anc c c' _ _ h
    rw [addForest, addForest]; exact h
  · intro anc t r c e he ih c' hp ha h
    rw [allF, Bool.and_eq_true] at hp
    have := ih c' hp.1 ha h
    rw [addForest, addForest, he]
    rw [he] at this
    cases h2 : addBranch banned anc t c' with
    | error e' => trivial
    | ok x => rw [h2] at this; cases this
  · intro anc t r c c1 he ih1 ih2 c' hp ha h
    rw [allF, Bool.and_eq_true] at hp
    have := ih1 c' hp.1 ha h
    rw [addForest, addForest, he]
    rw [he] at this
    cases h2 : addBranch banned anc t c' with
    | error e' => rw [h2] at this; cases this
    | ok x => rw [h2] at this; exact ih2 x hp.2 ha this

/-! #### the relations used -/

theorem find?_perm {α : Type} (nm : α → Bytes) {l l' : List α} (hp : l'.Perm l) :
    (l.map nm).Nodup → ∀ n, l'.find? (fun x => nm x == n) = l.find? (fun x => nm x == n) := by
  induction hp with
  | nil => intros; rfl
  | cons x _ ih =>
    intro hn n
    simp only [List.map_cons, List.nodup_cons] at hn
    simp only [List.find?_cons]
    rw [ih hn.2]
  | swap x y l =>
    intro hn n
    simp only [List.map_cons, List.nodup_cons, List.mem_cons, not_or] at hn
    simp only [List.find?_cons]
    by_cases hx : (nm x == n) = true <;> by_cases hy : (nm y == n) = true
    · exfalso
      have e1 : nm x = n := by simpa using hx
      have e2 : nm y = n := by simpa using hy
      exact hn.1.1 (e1.trans e2.symm)
    · simp [hx, hy]
    · simp [hx, hy]
    · simp [hx, hy]
  | trans h1 h2 ih1 ih2 =>
    intro hn n
    rw [ih1 (((h2.map nm).nodup_iff).2 hn) n, ih2 hn n]

theorem map_name_upd {α : Type} (nm : α → Bytes) (f : α → α) (hf : ∀ x, nm (f x) = nm x) (l : List α) :
    (l.map f).map nm = l.map nm := by
  rw [List.map_map]
  apply List.map_congr_left
  intro x _
  exact hf x

theorem nodup_snoc {α : Type} (nm : α → Bytes) (l : List α) (t : α) (hn : (l.map nm).Nodup)
    (hf : ∀ x ∈ l, nm x ≠ nm t) : ((l ++ [t]).map nm).Nodup := by
  rw [List.map_append, List.nodup_append]
  refine ⟨hn, by simp, ?_⟩
  intro a ha b hb
  simp only [List.map_cons, List.map_nil, List.mem_singleton] at hb
  obtain ⟨x, hx, rfl⟩ := List.mem_map.1 ha
  rw [hb]; exact hf x hx

def PermNd {α : Type} (nm : α → Bytes) (l l' : List α) : Prop := l'.Perm l ∧ (l.map nm).Nodup

theorem serverFrame_perm : ServerFrame (PermNd (·.name)) where
  any h n := h.1.any_eq
  app h t hf := ⟨h.1.append_right _, nodup_snoc _ _ _ h.2 (by
    intro x hx
    have := List.any_eq_false.1 hf x hx
    simpa using this)⟩
  find h n := find?_perm (·.name) h.1 h.2 n
  upd h n p := ⟨h.1.map _, by
    rw [map_name_upd]; exact h.2
    intro x; split <;> rfl⟩

theorem typeFrame_perm : TypeFrame (fun T T' : List TypeM => T'.Perm T) where
  any h n := h.any_eq
  app h t _ := h.append_right _

theorem tagFrame_perm : TagFrame (PermNd (·.name)) where
  find h m := by rw [find?_perm (·.name) h.1 h.2 m]
  upd h m i := ⟨h.1.map _, by
    rw [map_name_upd]; exact h.2
    intro x; split
    · exact attach_name i x
    · rfl⟩
  app h t hf := ⟨h.1.append_right _, nodup_snoc _ _ _ h.2 (by
    intro x hx
    have := List.find?_eq_none.1 hf x hx
    simpa using this)⟩

theorem descrFrame_perm : DescrFrame (PermNd (·.name)) where
  find h m := by rw [find?_perm (·.name) h.1 h.2 m]
  upd h m text := ⟨h.1.map _, by
    rw [map_name_upd]; exact h.2
    intro x; split <;> rfl⟩

/-- equality -/
def EqR {α : Type} (l l' : List α) : Prop := l' = l

theorem serverFrame_eq : ServerFrame EqR where
  any h n := by rw [h]
  app h t _ := by rw [h]; rfl
  find h n := by rw [h]
  upd h n p := by rw [h]; rfl

theorem typeFrame_eq : TypeFrame EqR where
  any h n := by rw [h]
  app h t _ := by rw [h]; rfl

theorem tagFrame_eq : TagFrame EqR where
  find h m := by rw [h]
  upd h m i := by rw [h]; rfl
  app h t _ := by rw [h]; rfl

theorem descrFrame_eq : DescrFrame EqR where
  find h m := by rw [h]
  upd h m text := by rw [h]; rfl

/-- the catalogs agree up to the order of `servers`, `types`, `tags`; the names of the first are unique -/
def FSim : Frames := ⟨PermNd (·.name), fun T T' => T'.Perm T, PermNd (·.name)⟩

mutual
  theorem allT_true : ∀ t : BTree, allT (fun _ => true) t = true
    | .node d kids => by rw [allT, allF_true kids]; rfl
  theorem allF_true : ∀ ts : List BTree, allF (fun _ => true) ts = true
    | [] => by rw [allF]
    | t :: r => by rw [allF, allT_true t, allF_true r]; rfl
end

theorem sim_lift (banned : List Kind) (anc : List Up) (ts : List BTree) {c c' : Cat} (h : FSim.Rel c c') :
    RRel FSim.Rel (addForest banned anc ts c) (addForest banned anc ts c') :=
  lift (F := FSim) tagFrame_perm banned (fun _ => true)
    (fun d anc _ _ => ⟨fun _ => typeFrame_perm, fun _ => serverFrame_perm, fun _ _ _ _ _ => descrFrame_perm⟩)
    anc ts c c' (allF_true ts) (fun _ _ => rfl) h

/-- the second catalog is the first with another list of types; the first has the types `T0` -/
def FTypes (T0 T1 : List TypeM) : Frames := ⟨EqR, fun T T' => T = T0 ∧ T' = T1, EqR⟩

theorem FTypes.start (c : Cat) (T1 : List TypeM) : (FTypes c.types T1).Rel c { c with types := T1 } :=
  ⟨⟨rfl, rfl, rfl, rfl, rfl, rfl⟩, rfl, ⟨rfl, rfl⟩, rfl⟩

theorem FTypes.out {T0 T1 : List TypeM} {d d' : Cat} (h : (FTypes T0 T1).Rel d d') :
    d' = { d with types := T1 } ∧ d.types = T0 := by
  obtain ⟨⟨h1, h2, h3, h4, h5, h6⟩, hs, ⟨ht, ht'⟩, hg⟩ := h
  have hs : d'.servers = d.servers := hs
  have hg : d'.tags = d.tags := hg
  cases d; cases d'
  simp_all

theorem types_lift (banned : List Kind) (anc : List Up) (ts : List BTree) (c : Cat) (T1 : List TypeM)
    (hp : allF (fun d => d.kind != .Type) ts = true) (ha : ∀ u ∈ anc, (u.d.kind != .Type) = true) :
    RRel (FTypes c.types T1).Rel (addForest banned anc ts c) (addForest banned anc ts { c with types := T1 }) :=
  lift (F := FTypes c.types T1) tagFrame_eq banned (fun d => d.kind != .Type)
    (fun d anc hd _ => ⟨fun hk => by simp [hk] at hd, fun _ => serverFrame_eq, fun _ _ _ _ _ => descrFrame_eq⟩)
    anc ts c _ hp ha (FTypes.start c T1)

/-- the same for the servers -/
def FServers (S0 S1 : List ServerM) : Frames := ⟨fun S S' => S = S0 ∧ S' = S1, EqR, EqR⟩

theorem FServers.start (c : Cat) (S1 : List ServerM) : (FServers c.servers S1).Rel c { c with servers := S1 } :=
  ⟨⟨rfl, rfl, rfl, rfl, rfl, rfl⟩, ⟨rfl, rfl⟩, rfl, rfl⟩

theorem FServers.out {S0 S1 : List ServerM} {d d' : Cat} (h : (FServers S0 S1).Rel d d') :
    d' = { d with servers := S1 } ∧ d.servers = S0 := by
  obtain ⟨⟨h1, h2, h3, h4, h5, h6⟩, ⟨hs, hs'⟩, ht, hg⟩ := h
  have ht : d'.types = d.types := ht
  have hg : d'.tags = d.tags := hg
  cases d; cases d'
  simp_all

def noServerKind (d : BDir) : Bool := d.kind != .Server && d.kind != .BaseURL

theorem servers_lift (banned : List Kind) (anc : List Up) (ts : List BTree) (c : Cat) (S1 : List ServerM)
    (hp : allF noServerKind ts = true) (ha : ∀ u ∈ anc, noServerKind u.d = true) :
    RRel (FServers c.servers S1).Rel (addForest banned anc ts c)
      (addForest banned anc ts { c with servers := S1 }) :=
  lift (F := FServers c.servers S1) tagFrame_eq banned noServerKind
    (fun d anc hd _ => ⟨fun _ => typeFrame_eq,
      fun hk => by rcases hk with hk | hk <;> simp [noServerKind, hk] at hd,
      fun _ _ _ _ _ => descrFrame_eq⟩)
    anc ts c _ hp ha (FServers.start c S1)

/-- the second catalog is the first with the description `text` on the tag `n`, which the first catalog has
with the description `x0` -/
def descrSet (n text : Bytes) (x : TagM) : TagM := if x.name == n then { x with descr := some text } else x

def QDescr (n text : Bytes) (x0 : Option Bytes) (G G' : List TagM) : Prop :=
  G' = G.map (descrSet n text) ∧ (G.find? (fun x => x.name == n)).map (·.descr) = some x0

theorem descrSet_name (n text : Bytes) (x : TagM) : (descrSet n text x).name = x.name := by
  unfold descrSet; split <;> rfl

theorem tagFrame_descr (n text : Bytes) (x0 : Option Bytes) : TagFrame (QDescr n text x0) where
  find := by
    intro G G' h m
    rw [h.1, List.find?_map]
    have : ((fun x : TagM => x.name == m) ∘ descrSet n text) = (fun x => x.name == m) := by
      funext x; simp [descrSet_name]
    rw [this]
    cases G.find? (fun x => x.name == m) with
    | none => rfl
    | some t => simp only [Option.map_some]; unfold descrSet; split <;> rfl
  upd := by
    intro G G' h m i
    refine ⟨?_, ?_⟩
    · rw [h.1, List.map_map, List.map_map]
      apply List.map_congr_left
      intro x _
      simp only [Function.comp, descrSet_name]
      unfold descrSet
      by_cases h1 : (x.name == m) = true <;> by_cases h2 : (x.name == n) = true <;>
        simp [h1, h2, attach_name] <;> (unfold attach; split <;> rfl)
    · rw [List.find?_map]
      have : ((fun x : TagM => x.name == n) ∘ fun x => if (x.name == m) = true then attach i x else x)
          = (fun x => x.name == n) := by
        funext x; simp only [Function.comp]; split
        · rw [attach_name]
        · rfl
      rw [this, ← h.2]
      cases G.find? (fun x => x.name == n) with
      | none => rfl
      | some t =>
        simp only [Option.map_some]
        split
        · unfold attach; split <;> rfl
        · rfl
  app := by
    intro G G' h t hf
    have hne : (t.name == n) = false := by
      cases hn : G.find? (fun x => x.name == n) with
      | none => have h2 := h.2; rw [hn] at h2; cases h2
      | some u =>
        have hu := List.find?_some hn
        have hm := List.mem_of_find?_eq_some hn
        have := List.find?_eq_none.1 hf u hm
        cases hb : (t.name == n) with
        | false => rfl
        | true =>
          exfalso; apply this
          have e1 : u.name = n := by simpa using hu
          have e2 : t.name = n := by simpa using hb
          simp [e1, e2]
    refine ⟨?_, ?_⟩
    · rw [h.1, List.map_append]
      simp [descrSet, hne]
    · rw [List.find?_append, ← h.2]
      cases G.find? (fun x => x.name == n) with
      | none => have := h.2; simp_all
      | some u => rfl

def FDescr (n text : Bytes) (x0 : Option Bytes) : Frames := ⟨EqR, EqR, QDescr n text x0⟩

theorem FDescr.out {n text : Bytes} {x0 : Option Bytes} {d d' : Cat} (h : (FDescr n text x0).Rel d d') :
    d' = d.updTag n (fun t => { t with descr := some text }) ∧
      (d.getTag n).map (·.descr) = some x0 := by
  obtain ⟨⟨h1, h2, h3, h4, h5, h6⟩, hs, ht, ⟨hg, hx⟩⟩ := h
  refine ⟨?_, hx⟩
  have hs2 : d'.servers = d.servers := hs
  have ht2 : d'.types = d.types := ht
  have hg2 : d'.tags = d.tags.map (descrSet n text) := hg
  clear hs ht hg hx
  cases d; cases d'
  simp only at h1 h2 h3 h4 h5 h6 hs2 ht2 hg2
  subst h1 h2 h3 h4 h5 h6 hs2 ht2 hg2
  rfl

theorem descr_lift (banned : List Kind) (anc : List Up) (ts : List BTree) (c : Cat) (n text : Bytes)
    (x0 : Option Bytes) (hx : (c.getTag n).map (·.descr) = some x0)
    (hp : allF (fun d => d.kind != .TAG) ts = true) (ha : ∀ u ∈ anc, (u.d.kind != .TAG) = true) :
    RRel (FDescr n text x0).Rel (addForest banned anc ts c)
      (addForest banned anc ts (c.updTag n (fun t => { t with descr := some text }))) :=
  lift (F := FDescr n text x0) (tagFrame_descr n text x0) banned (fun d => d.kind != .TAG)
    (fun d anc _ ha => ⟨fun _ => typeFrame_eq, fun _ => serverFrame_eq, fun _ p r e hk => by
      have := ha p (by rw [e]; exact List.mem_cons_self)
      rw [bne_iff_ne] at this
      exact absurd (by simpa using hk) this⟩)
    anc ts c _ hp ha ⟨⟨rfl, rfl, rfl, rfl, rfl, rfl⟩, rfl, rfl, ⟨rfl, hx⟩⟩

/-- the catalog keeps the tag names it has -/
def QHas (n : Bytes) (G G' : List TagM) : Prop := G' = G ∧ n ∈ G.map (·.name)

theorem tagFrame_has (n : Bytes) : TagFrame (QHas n) where
  find h m := by rw [h.1]
  upd h m i := ⟨by rw [h.1], by
    rw [map_name_upd]; exact h.2
    intro x; split
    · exact attach_name i x
    · rfl⟩
  app h t _ := ⟨by rw [h.1], by rw [List.map_append]; exact List.mem_append_left _ h.2⟩

theorem descrFrame_has (n : Bytes) : DescrFrame (QHas n) where
  find h m := by rw [h.1]
  upd h m text := ⟨by rw [h.1], by
    rw [map_name_upd]; exact h.2
    intro x; split <;> rfl⟩

def FHas (n : Bytes) : Frames := ⟨EqR, EqR, QHas n⟩

theorem has_lift (banned : List Kind) (anc : List Up) (ts : List BTree) {c d : Cat} (n : Bytes)
    (hn : n ∈ c.tags.map (·.name)) (h : addForest banned anc ts c = .ok d) : n ∈ d.tags.map (·.name) := by
  have := lift (F := FHas n) (tagFrame_has n) banned (fun _ => true)
    (fun d anc _ _ => ⟨fun _ => typeFrame_eq, fun _ => serverFrame_eq, fun _ _ _ _ _ => descrFrame_has n⟩)
    anc ts c c (allF_true ts) (fun _ _ => rfl) ⟨⟨rfl, rfl, rfl, rfl, rfl, rfl⟩, rfl, rfl, ⟨rfl, hn⟩⟩
  rw [h] at this
  exact this.g.2

/-! ### part C: what a declaration does -/

theorem addForest_nil (banned : List Kind) (anc : List Up) (c : Cat) : addForest banned anc [] c = .ok c := by
  rw [addForest]

theorem addForest_cons (banned : List Kind) (anc : List Up) (t : BTree) (r : List BTree) (c : Cat) :
    addForest banned anc (t :: r) c = addBranch banned anc t c >>= addForest banned anc r := by
  rw [addForest]; cases addBranch banned anc t c <;> rfl

theorem addForest_append (banned : List Kind) (anc : List Up) (l r : List BTree) (c : Cat) :
    addForest banned anc (l ++ r) c = addForest banned anc l c >>= addForest banned anc r := by
  induction l generalizing c with
  | nil => rw [List.nil_append, addForest_nil]; rfl
  | cons t l ih =>
    rw [List.cons_append, addForest_cons, addForest_cons, bind_bind]
    cases addBranch banned anc t c with
    | error e => rfl
    | ok x => exact ih x

theorem bind_ok_right {α : Type} (x : R α) : (x >>= fun a => (.ok a : R α)) = x := by cases x <;> rfl

theorem addForest_single (banned : List Kind) (anc : List Up) (t : BTree) (c : Cat) :
    addForest banned anc [t] c = addBranch banned anc t c := by
  rw [addForest_cons]
  have : addForest banned anc [] = fun c => (.ok c : R Cat) := by funext c; exact addForest_nil banned anc c
  rw [this, bind_ok_right]

theorem addBranch_eq (banned : List Kind) (anc : List Up) (d : BDir) (kids : List BTree) (c : Cat) :
    addBranch banned anc (.node d kids) c =
      addDirective banned d (kids.map BTree.dir) anc c >>= addForest banned (⟨d, kids.map BTree.dir⟩ :: anc) kids := by
  rw [addBranch]; cases addDirective banned d (kids.map BTree.dir) anc c <;> rfl

theorem addBranch_leaf (banned : List Kind) (anc : List Up) (d : BDir) (c : Cat) :
    addBranch banned anc (.node d []) c = addDirective banned d [] anc c := by
  rw [addBranch_eq]
  have : addForest banned (⟨d, [].map BTree.dir⟩ :: anc) [] = fun c => (.ok c : R Cat) := by
    funext c; exact addForest_nil banned _ c
  rw [this, bind_ok_right]; rfl

def leafOf (k : Kind) (t : BTree) : Bool := t.dir.kind == k && t.kids.isEmpty

/-- a declaration at the top level: TYPE, ENUM, MACRO without children, SERVER with BaseUrl children, TAG with
Description children -/
def isDecl (t : BTree) : Bool :=
  match t.dir.kind with
  | .Type | .Enum | .Macro => t.kids.isEmpty
  | .Server => t.kids.all (leafOf .BaseURL)
  | .TAG => t.kids.all (leafOf .Description)
  | _ => false

theorem leafOf_eq {k : Kind} {t : BTree} (h : leafOf k t = true) : ∃ d, t = .node d [] ∧ d.kind = k := by
  cases t with
  | node d kids =>
    simp only [leafOf, BTree.dir, BTree.kids, Bool.and_eq_true, List.isEmpty_iff, beq_iff_eq] at h
    exact ⟨d, by rw [h.2], h.1⟩

/-- an operation that always fails -/
def Fails (f : Cat → R Cat) : Prop := ∀ c, ∃ e, f c = .error e

/-- an operation that appends the type `t` when its name is new -/
def AppendsType (d : BDir) (t : TypeM) (f : Cat → R Cat) : Prop :=
  ∀ c, f c = if c.types.any (fun x => x.name == t.name) then fail d .duplicateNames
    else .ok { c with types := c.types ++ [t] }

theorem type_summary (banned : List Kind) (anc : List Up) (d : BDir) (hk : d.kind = .Type) :
    Fails (addBranch banned anc (.node d [])) ∨ ∃ t, AppendsType d t (addBranch banned anc (.node d [])) := by
  have e : ∀ c, addBranch banned anc (.node d []) c =
      if banned.contains .Type then fail d .notAllowed else addType d c := by
    intro c; rw [addBranch_leaf]; unfold addDirective; rw [hk]
  by_cases hb : banned.contains .Type = true
  · left; intro c; rw [e, if_pos hb]; exact ⟨_, rfl⟩
  by_cases hn : (d.param "Name").isEmpty = true
  · left; intro c; rw [e, if_neg hb]; unfold addType; simp only [hn, if_true]; exact ⟨_, rfl⟩
  cases hnt : newNotation (d.param "SchemaNotation") with
  | error m =>
    left; intro c; rw [e, if_neg hb]; unfold addType
    simp only [hn, hnt, liftAt, bind_eq, if_false, Bool.false_eq_true, ↓reduceIte]
    split <;> exact ⟨_, rfl⟩
  | ok nt =>
    by_cases hbody : ((nt == nJsight || nt == nRegex) && d.body.isNone) = true
    · left; intro c; rw [e, if_neg hb]; unfold addType
      simp only [hn, hnt, liftAt, bind_eq, if_false, hbody, if_true, Bool.false_eq_true, ↓reduceIte]
      split <;> exact ⟨_, rfl⟩
    · right
      refine ⟨{ name := d.param "Name", annot := d.annot, nota := nt }, ?_⟩
      intro c; rw [e, if_neg hb]; unfold addType
      simp only [hn, hnt, liftAt, bind_eq, pure_eq, if_false, hbody, Bool.false_eq_true, ↓reduceIte]

/-- an operation that appends the server `s` when its name is new -/
def AppendsServer (d : BDir) (s : ServerM) (f : Cat → R Cat) : Prop :=
  ∀ c, f c = if c.servers.any (fun x => x.name == s.name) then fail d .duplicateNames
    else .ok { c with servers := c.servers ++ [s] }

/-- a BaseUrl under the SERVER `d`, when the server of that name is the last one -/
theorem base_step (banned : List Kind) (anc : List Up) (d : BDir) (ks : List BDir) (dk : BDir)
    (hdk : dk.kind = .BaseURL) (c1 : Cat) (S : List ServerM) (s1 : ServerM)
    (hs : c1.servers = S ++ [s1]) (hn : s1.name = d.param "Name")
    (hS : S.any (fun x => x.name == d.param "Name") = false) :
    addBranch banned (⟨d, ks⟩ :: anc) (.node dk []) c1 =
      if banned.contains .BaseURL then fail dk .notAllowed
      else if (dk.param "Path").isEmpty then fail dk (.required "Path")
      else if !dk.annot.isEmpty then fail dk .annotationForbidden
      else if !s1.baseUrl.isEmpty then fail dk .baseUrlDefined
      else .ok { c1 with servers := S ++ [{ s1 with baseUrl := dk.param "Path" }] } := by
  rw [addBranch_leaf]; unfold addDirective; rw [hdk]; simp only []
  split
  · rfl
  unfold addBaseUrl; simp only []
  split
  · rfl
  split
  · rfl
  have hnone : S.find? (fun x => x.name == d.param "Name") = none := by
    rw [List.find?_eq_none]; intro x hx; exact List.any_eq_false.1 hS x hx
  have hfind : c1.servers.find? (fun x => x.name == d.param "Name") = some s1 := by
    rw [hs, List.find?_append, hnone]; simp [hn]
  rw [hfind]; simp only []
  split
  · rfl
  have hmap : c1.servers.map (fun x => if x.name == d.param "Name" then { x with baseUrl := dk.param "Path" } else x)
      = S ++ [{ s1 with baseUrl := dk.param "Path" }] := by
    rw [hs, List.map_append]
    congr 1
    · conv => rhs; rw [← List.map_id S]
      apply List.map_congr_left
      intro x hx
      have := List.any_eq_false.1 hS x hx
      simp only [this, if_false, Bool.false_eq_true, ↓reduceIte, id]
    · simp [hn]
  rw [hmap]

theorem server_summary (banned : List Kind) (anc : List Up) (d : BDir) (kids : List BTree)
    (hk : d.kind = .Server) (hkids : kids.all (leafOf .BaseURL) = true) :
    Fails (addBranch banned anc (.node d kids)) ∨ ∃ s, AppendsServer d s (addBranch banned anc (.node d kids)) := by
  have e : ∀ c, addBranch banned anc (.node d kids) c =
      (if banned.contains .Server then fail d .notAllowed else addServer d c)
        >>= addForest banned (⟨d, kids.map BTree.dir⟩ :: anc) kids := by
    intro c; rw [addBranch_eq]; unfold addDirective; rw [hk]
  by_cases hb : banned.contains .Server = true
  · left; intro c; rw [e, if_pos hb]; exact ⟨_, rfl⟩
  by_cases hn : (d.param "Name").isEmpty = true
  · left; intro c; rw [e, if_neg hb]; unfold addServer; simp only [hn, if_true]; exact ⟨_, rfl⟩
  -- the SERVER directive itself
  have e1 : ∀ c, addBranch banned anc (.node d kids) c =
      if c.servers.any (fun x => x.name == d.param "Name") then fail d .duplicateNames
      else addForest banned (⟨d, kids.map BTree.dir⟩ :: anc) kids
        { c with servers := c.servers ++ [{ name := d.param "Name", annot := d.annot }] } := by
    intro c; rw [e, if_neg hb]; unfold addServer
    simp only [hn, Bool.false_eq_true, ↓reduceIte]
    split <;> rfl
  cases kids with
  | nil =>
    right; refine ⟨{ name := d.param "Name", annot := d.annot }, ?_⟩
    intro c; rw [e1, addForest_nil]
  | cons k r =>
    simp only [List.all_cons, Bool.and_eq_true] at hkids
    obtain ⟨dk, rfl, hdk⟩ := leafOf_eq hkids.1
    have ek : ∀ c : Cat, c.servers.any (fun x => x.name == d.param "Name") = false →
        addBranch banned (⟨d, (BTree.node dk [] :: r).map BTree.dir⟩ :: anc) (.node dk [])
          { c with servers := c.servers ++ [{ name := d.param "Name", annot := d.annot }] } = _ :=
      fun c hc => base_step banned anc d _ dk hdk _ c.servers _ rfl rfl hc
    by_cases hv : banned.contains .BaseURL = true ∨ (dk.param "Path").isEmpty = true ∨ (!dk.annot.isEmpty) = true
    · left; intro c; rw [e1]
      split
      · exact ⟨_, rfl⟩
      · rename_i hc
        rw [addForest_cons, ek c (by simpa using hc)]
        repeat' split
        all_goals first | exact ⟨_, rfl⟩ | (exfalso; rcases hv with hv | hv | hv <;> contradiction)
    · simp only [not_or] at hv
      obtain ⟨hv1, hv2, hv3⟩ := hv
      have ek' : ∀ c : Cat, c.servers.any (fun x => x.name == d.param "Name") = false →
          addBranch banned (⟨d, (BTree.node dk [] :: r).map BTree.dir⟩ :: anc) (.node dk [])
            { c with servers := c.servers ++ [{ name := d.param "Name", annot := d.annot }] } =
          .ok { c with servers := c.servers ++
            [{ name := d.param "Name", annot := d.annot, baseUrl := dk.param "Path" }] } := by
        intro c hc
        rw [ek c hc, if_neg hv1, if_neg hv2, if_neg hv3]
        rfl
      cases r with
      | nil =>
        right; refine ⟨{ name := d.param "Name", annot := d.annot, baseUrl := dk.param "Path" }, ?_⟩
        intro c; rw [e1]
        split
        · rfl
        · rename_i hc
          rw [addForest_single, ek' c (by simpa using hc)]
      | cons k2 r2 =>
        left; intro c; rw [e1]
        split
        · exact ⟨_, rfl⟩
        · rename_i hc
          simp only [List.all_cons, Bool.and_eq_true] at hkids
          obtain ⟨dk2, rfl, hdk2⟩ := leafOf_eq hkids.2.1
          rw [addForest_cons, ek' c (by simpa using hc), ok_bind, addForest_cons,
            base_step banned anc d _ dk2 hdk2 _ c.servers _ rfl rfl (by simpa using hc)]
          have hne : (!(dk.param "Path").isEmpty) = true := by simpa using hv2
          repeat' split
          all_goals first | exact ⟨_, rfl⟩ | (exfalso; contradiction)

/-- a Description under a TAG: the tag of that name receives the text, once -/
def descrStep (e1 e2 : BErr) (n text : Bytes) (c : Cat) : R Cat :=
  match c.getTag n with
  | none => .error e1
  | some t => if t.descr.isSome then .error e2 else .ok (c.updTag n fun t => { t with descr := some text })

theorem getTag_updTag (c : Cat) (m n : Bytes) (f : TagM → TagM) (hf : ∀ x, (f x).name = x.name) :
    (c.updTag m f).getTag n = (c.getTag n).map (fun x => if x.name == m then f x else x) := by
  unfold Cat.updTag Cat.getTag
  simp only []
  rw [List.find?_map]
  have : ((fun x : TagM => x.name == n) ∘ fun x => if (x.name == m) = true then f x else x)
      = (fun x => x.name == n) := by
    funext x; simp only [Function.comp]; split
    · rw [hf]
    · rfl
  rw [this]

theorem descr_child (banned : List Kind) (anc : List Up) (d : BDir) (ks : List BDir) (dk : BDir)
    (hd : d.kind = .TAG) (hdk : dk.kind = .Description) :
    Fails (addBranch banned (⟨d, ks⟩ :: anc) (.node dk [])) ∨
    ∃ text, ∀ c, addBranch banned (⟨d, ks⟩ :: anc) (.node dk []) c =
      descrStep ⟨dk.id, .tagNotFound⟩ ⟨dk.id, .notUnique⟩ (d.param "TagName") text c := by
  have e : ∀ c, addBranch banned (⟨d, ks⟩ :: anc) (.node dk []) c =
      if banned.contains .Description then fail dk .notAllowed else addDescription dk (⟨d, ks⟩ :: anc) c := by
    intro c; rw [addBranch_leaf]; unfold addDirective; rw [hdk]
  by_cases hb : banned.contains .Description = true
  · left; intro c; rw [e, if_pos hb]; exact ⟨_, rfl⟩
  by_cases ha : (!dk.annot.isEmpty) = true
  · left; intro c; rw [e, if_neg hb]; unfold addDescription; rw [if_pos ha]; exact ⟨_, rfl⟩
  cases hbody : dk.body with
  | none => left; intro c; rw [e, if_neg hb]; unfold addDescription; rw [if_neg ha, hbody]; exact ⟨_, rfl⟩
  | some b =>
    cases hdes : description b with
    | error x =>
      left; intro c; rw [e, if_neg hb]; unfold addDescription; rw [if_neg ha, hbody]
      simp only [hdes]; exact ⟨_, rfl⟩
    | ok text =>
      by_cases ht : text.isEmpty = true
      · left; intro c; rw [e, if_neg hb]; unfold addDescription; rw [if_neg ha, hbody]
        simp only [hdes, ht, if_true]; exact ⟨_, rfl⟩
      · right; refine ⟨text, ?_⟩
        intro c; rw [e, if_neg hb]; unfold addDescription; rw [if_neg ha, hbody]
        have h1 : (Kind.TAG == Kind.Info) = false := by decide
        have h2 : isHTTP Kind.TAG = false := by decide
        have h3 : (Kind.TAG == Kind.Method) = false := by decide
        simp only [hdes, ht, hd, h1, h2, h3, Bool.false_eq_true, ↓reduceIte, beq_self_eq_true]
        unfold descrStep
        cases c.getTag (d.param "TagName") <;> rfl

theorem tag_summary (banned : List Kind) (anc : List Up) (d : BDir) (kids : List BTree)
    (hk : d.kind = .TAG) (hkids : kids.all (leafOf .Description) = true) :
    Fails (addBranch banned anc (.node d kids)) ∨ (∀ c, addBranch banned anc (.node d kids) c = .ok c) ∨
    ∃ e1 e2 text, ∀ c, addBranch banned anc (.node d kids) c = descrStep e1 e2 (d.param "TagName") text c := by
  have e : ∀ c, addBranch banned anc (.node d kids) c =
      (if banned.contains .TAG then fail d .notAllowed else .ok c)
        >>= addForest banned (⟨d, kids.map BTree.dir⟩ :: anc) kids := by
    intro c; rw [addBranch_eq]; unfold addDirective; rw [hk]
  by_cases hb : banned.contains .TAG = true
  · left; intro c; rw [e, if_pos hb]; exact ⟨_, rfl⟩
  have e1 : ∀ c, addBranch banned anc (.node d kids) c =
      addForest banned (⟨d, kids.map BTree.dir⟩ :: anc) kids c := by
    intro c; rw [e, if_neg hb]; rfl
  cases kids with
  | nil => right; left; intro c; rw [e1, addForest_nil]
  | cons k r =>
    simp only [List.all_cons, Bool.and_eq_true] at hkids
    obtain ⟨dk, rfl, hdk⟩ := leafOf_eq hkids.1
    rcases descr_child banned anc d ((BTree.node dk [] :: r).map BTree.dir) dk hk hdk with hf | ⟨text, ht⟩
    · left; intro c; rw [e1, addForest_cons]
      obtain ⟨x, hx⟩ := hf c
      rw [hx]; exact ⟨_, rfl⟩
    · cases r with
      | nil =>
        right; right; refine ⟨⟨dk.id, .tagNotFound⟩, ⟨dk.id, .notUnique⟩, text, ?_⟩
        intro c; rw [e1, addForest_single, ht]
      | cons k2 r2 =>
        left; intro c; rw [e1, addForest_cons, ht]
        simp only [List.all_cons, Bool.and_eq_true] at hkids
        obtain ⟨dk2, rfl, hdk2⟩ := leafOf_eq hkids.2.1
        unfold descrStep
        cases hg : c.getTag (d.param "TagName") with
        | none => exact ⟨_, rfl⟩
        | some t =>
          simp only []
          split
          · exact ⟨_, rfl⟩
          · rw [ok_bind, addForest_cons]
            rcases descr_child banned anc d ((BTree.node dk [] :: BTree.node dk2 [] :: r2).map BTree.dir) dk2 hk hdk2
              with hf | ⟨text2, ht2⟩
            · obtain ⟨x, hx⟩ := hf (c.updTag (d.param "TagName") fun t => { t with descr := some text })
              rw [hx]; exact ⟨_, rfl⟩
            · rw [ht2]
              unfold descrStep
              rw [getTag_updTag c _ _ (fun t => { t with descr := some text }) (fun _ => rfl), hg]
              have hn : (t.name == d.param "TagName") = true := by
                have := (getTag_some hg).2; simp [this]
              simp only [Option.map_some, hn, if_true, Option.isSome_some]
              exact ⟨_, rfl⟩

/-- ENUM, MACRO without children -/
theorem noop_summary (banned : List Kind) (anc : List Up) (d : BDir) (hk : d.kind = .Enum ∨ d.kind = .Macro) (c : Cat) :
    addBranch banned anc (.node d []) c = if banned.contains d.kind then fail d .notAllowed else .ok c := by
  rw [addBranch_leaf]; unfold addDirective
  rcases hk with hk | hk <;> rw [hk]

/-! ### part D: a declaration commutes with its neighbour -/

theorem FSim.refl {c : Cat} (h : Inv c) : FSim.Rel c c :=
  ⟨⟨rfl, rfl, rfl, rfl, rfl, rfl⟩, ⟨List.Perm.refl _, h.servers_nodup⟩, List.Perm.refl _,
    ⟨List.Perm.refl _, h.tags_nodup⟩⟩

theorem FSim.symm {c c' : Cat} (h : FSim.Rel c c') : FSim.Rel c' c := by
  obtain ⟨⟨h1, h2, h3, h4, h5, h6⟩, ⟨hs, hsn⟩, ht, ⟨hg, hgn⟩⟩ := h
  exact ⟨⟨h1.symm, h2.symm, h3.symm, h4.symm, h5.symm, h6.symm⟩,
    ⟨hs.symm, ((hs.map _).nodup_iff).2 hsn⟩, ht.symm, ⟨hg.symm, ((hg.map _).nodup_iff).2 hgn⟩⟩

theorem FSim.trans {c c' c'' : Cat} (h : FSim.Rel c c') (h' : FSim.Rel c' c'') : FSim.Rel c c'' := by
  obtain ⟨⟨h1, h2, h3, h4, h5, h6⟩, ⟨hs, hsn⟩, ht, ⟨hg, hgn⟩⟩ := h
  obtain ⟨⟨k1, k2, k3, k4, k5, k6⟩, ⟨ks, _⟩, kt, ⟨kg, _⟩⟩ := h'
  exact ⟨⟨k1.trans h1, k2.trans h2, k3.trans h3, k4.trans h4, k5.trans h5, k6.trans h6⟩,
    ⟨ks.trans hs, hsn⟩, kt.trans ht, ⟨kg.trans hg, hgn⟩⟩

theorem RRel.symm_sim {r r' : R Cat} (h : RRel FSim.Rel r r') : RRel FSim.Rel r' r := by
  cases r with
  | error e => cases r' with
    | error e' => trivial
    | ok y => cases h
  | ok x => cases r' with
    | error e' => cases h
    | ok y => exact FSim.symm h

theorem RRel.trans_sim {r r' r'' : R Cat} (h : RRel FSim.Rel r r') (h' : RRel FSim.Rel r' r'') :
    RRel FSim.Rel r r'' := by
  cases r with
  | error e => cases r' with
    | error e' => cases r'' with
      | error _ => trivial
      | ok _ => cases h'
    | ok y => cases h
  | ok x => cases r' with
    | error e' => cases h
    | ok y => cases r'' with
      | error _ => cases h'
      | ok z => exact FSim.trans h h'

/-- equal verdicts and equal accepted results -/
theorem rrel_of_exact {r r' : R Cat} (hinv : ∀ d, r = .ok d → Inv d)
    (h : (∀ d, r = .ok d → r' = .ok d) ∧ (∀ e, r = .error e → ∃ e', r' = .error e')) :
    RRel FSim.Rel r r' := by
  cases r with
  | error e => obtain ⟨e', he⟩ := h.2 e rfl; rw [he]; trivial
  | ok d => rw [h.1 d rfl]; exact FSim.refl (hinv d rfl)

/-- `A` has the effect `eff` under the condition `p` and fails otherwise; `B` does not disturb that -/
theorem comm_exact {A B : Cat → R Cat} {c : Cat} {p : Cat → Prop} {eff : Cat → Cat}
    (hA1 : ∀ x, p x → A x = .ok (eff x)) (hA2 : ∀ x, ¬ p x → ∃ e, A x = .error e)
    (hB1 : p c → RRel (fun d d' => d' = eff d ∧ p d) (B c) (B (eff c)))
    (hB2 : ¬ p c → ∀ d, B c = .ok d → ¬ p d) :
    (∀ d, (A c >>= B) = .ok d → (B c >>= A) = .ok d) ∧
    (∀ e, (A c >>= B) = .error e → ∃ e', (B c >>= A) = .error e') := by
  by_cases hp : p c
  · have h1 := hB1 hp
    rw [hA1 c hp, ok_bind]
    cases hb : B c with
    | error e =>
      rw [hb] at h1
      cases hb' : B (eff c) with
      | error e' => exact ⟨fun d hd => (by cases hd), fun _ _ => ⟨_, rfl⟩⟩
      | ok d' => rw [hb'] at h1; cases h1
    | ok d =>
      rw [hb] at h1
      cases hb' : B (eff c) with
      | error e' => rw [hb'] at h1; cases h1
      | ok d' =>
        rw [hb'] at h1
        obtain ⟨rfl, hpd⟩ := h1
        rw [ok_bind, hA1 d hpd]
        exact ⟨fun _ h => h, fun e he => (by cases he)⟩
  · obtain ⟨e, he⟩ := hA2 c hp
    rw [he, error_bind]
    refine ⟨fun d hd => (by cases hd), fun _ _ => ?_⟩
    cases hb : B c with
    | error e' => exact ⟨_, rfl⟩
    | ok d =>
      obtain ⟨e', he'⟩ := hA2 d (hB2 hp d hb)
      rw [ok_bind, he']; exact ⟨_, rfl⟩

theorem fails_comm {A B : Cat → R Cat} (hA : Fails A) (c : Cat) : RRel FSim.Rel (A c >>= B) (B c >>= A) := by
  obtain ⟨e, he⟩ := hA c
  rw [he, error_bind]
  cases hb : B c with
  | error e' => trivial
  | ok d => obtain ⟨e', he'⟩ := hA d; rw [ok_bind, he']; trivial

theorem pair_eq (banned : List Kind) (a b : BTree) (c : Cat) :
    addForest banned [] [a, b] c = addBranch banned [] a c >>= addBranch banned [] b := by
  rw [addForest_cons]
  have : addForest banned [] [b] = addBranch banned [] b := by funext x; exact addForest_single banned [] b x
  rw [this]

theorem with_types_self (c : Cat) : { c with types := c.types } = c := by cases c; rfl
theorem with_servers_self (c : Cat) : { c with servers := c.servers } = c := by cases c; rfl

/-- a TYPE and a block without TYPE directives -/
theorem comm_type (banned : List Kind) (da : BDir) (hk : da.kind = .Type) (b : BTree)
    (hb : allT (fun d => d.kind != .Type) b = true) (c : Cat) (hc : Inv c) :
    RRel FSim.Rel (addForest banned [] [.node da [], b] c) (addForest banned [] [b, .node da []] c) := by
  have hinv : ∀ d, addForest banned [] [.node da [], b] c = .ok d → Inv d :=
    fun d hd => addForest_inv banned [] _ c d hc hd
  rw [pair_eq, pair_eq] at *
  have hall : allF (fun d => d.kind != .Type) [b] = true := by rw [allF, allF, hb]; rfl
  have hB : ∀ (x : Cat) (T1 : List TypeM),
      RRel (FTypes x.types T1).Rel (addBranch banned [] b x) (addBranch banned [] b { x with types := T1 }) := by
    intro x T1
    have := types_lift banned [] [b] x T1 hall (by intro u hu; cases hu)
    rwa [addForest_single, addForest_single] at this
  rcases type_summary banned [] da hk with hf | ⟨t, ht⟩
  · exact fails_comm hf c
  · apply rrel_of_exact hinv
    apply comm_exact (p := fun x => x.types.any (fun y => y.name == t.name) = false)
      (eff := fun x => { x with types := x.types ++ [t] })
    · intro x hx; rw [ht x, hx]; rfl
    · intro x hx; rw [ht x]
      have : x.types.any (fun y => y.name == t.name) = true := by simpa using hx
      rw [this]; exact ⟨_, rfl⟩
    · intro hp
      refine (hB c (c.types ++ [t])).mono ?_
      intro d d' hr
      obtain ⟨h1, h2⟩ := FTypes.out hr
      refine ⟨by rw [h1, h2], ?_⟩
      show d.types.any _ = false
      rw [h2]; exact hp
    · intro hp d hd
      have := hB c c.types
      rw [with_types_self c, hd] at this
      have h2 := (FTypes.out this).2
      show ¬ d.types.any _ = false
      rw [h2]; exact hp

/-- a SERVER and a block without SERVER and BaseUrl directives -/
theorem comm_server (banned : List Kind) (da : BDir) (ka : List BTree) (hk : da.kind = .Server)
    (hka : ka.all (leafOf .BaseURL) = true) (b : BTree)
    (hb : allT noServerKind b = true) (c : Cat) (hc : Inv c) :
    RRel FSim.Rel (addForest banned [] [.node da ka, b] c) (addForest banned [] [b, .node da ka] c) := by
  have hinv : ∀ d, addForest banned [] [.node da ka, b] c = .ok d → Inv d :=
    fun d hd => addForest_inv banned [] _ c d hc hd
  rw [pair_eq, pair_eq] at *
  have hall : allF noServerKind [b] = true := by rw [allF, allF, hb]; rfl
  have hB : ∀ (x : Cat) (S1 : List ServerM),
      RRel (FServers x.servers S1).Rel (addBranch banned [] b x) (addBranch banned [] b { x with servers := S1 }) := by
    intro x S1
    have := servers_lift banned [] [b] x S1 hall (by intro u hu; cases hu)
    rwa [addForest_single, addForest_single] at this
  rcases server_summary banned [] da ka hk hka with hf | ⟨t, ht⟩
  · exact fails_comm hf c
  · apply rrel_of_exact hinv
    apply comm_exact (p := fun x => x.servers.any (fun y => y.name == t.name) = false)
      (eff := fun x => { x with servers := x.servers ++ [t] })
    · intro x hx; rw [ht x, hx]; rfl
    · intro x hx; rw [ht x]
      have : x.servers.any (fun y => y.name == t.name) = true := by simpa using hx
      rw [this]; exact ⟨_, rfl⟩
    · intro hp
      refine (hB c (c.servers ++ [t])).mono ?_
      intro d d' hr
      obtain ⟨h1, h2⟩ := FServers.out hr
      refine ⟨by rw [h1, h2], ?_⟩
      show d.servers.any _ = false
      rw [h2]; exact hp
    · intro hp d hd
      have := hB c c.servers
      rw [with_servers_self c, hd] at this
      have h2 := (FServers.out this).2
      show ¬ d.servers.any _ = false
      rw [h2]; exact hp

theorem descrStep_ok {e1 e2 : BErr} {n text : Bytes} {x : Cat} (hx : (x.getTag n).map (·.descr) = some none) :
    descrStep e1 e2 n text x = .ok (x.updTag n fun t => { t with descr := some text }) := by
  unfold descrStep
  cases hg : x.getTag n with
  | none => rw [hg] at hx; cases hx
  | some t =>
    rw [hg] at hx
    have : t.descr = none := by simpa using hx
    simp only [this]; rfl

theorem descrStep_err {e1 e2 : BErr} {n text : Bytes} {x : Cat} (hx : ¬ (x.getTag n).map (·.descr) = some none) :
    ∃ e, descrStep e1 e2 n text x = .error e := by
  unfold descrStep
  cases hg : x.getTag n with
  | none => exact ⟨_, rfl⟩
  | some t =>
    rw [hg] at hx
    simp only []
    split
    · exact ⟨_, rfl⟩
    · rename_i h
      exfalso; apply hx
      cases hd : t.descr with
      | none => simp [hd]
      | some v => rw [hd] at h; simp at h

theorem getTag_isSome_of_mem {c : Cat} {n : Bytes} (h : n ∈ c.tags.map (·.name)) : ∃ t, c.getTag n = some t := by
  cases hg : c.getTag n with
  | some t => exact ⟨t, rfl⟩
  | none =>
    obtain ⟨t, ht, rfl⟩ := List.mem_map.1 h
    exact absurd rfl (getTag_none hg t ht)

/-- a TAG (with its Description) and a block without TAG directives -/
theorem comm_tag (banned : List Kind) (da : BDir) (ka : List BTree) (hk : da.kind = .TAG)
    (hka : ka.all (leafOf .Description) = true) (b : BTree)
    (hb : allT (fun d => d.kind != .TAG) b = true) (c : Cat) (hc : Inv c)
    (hn : da.param "TagName" ∈ c.tags.map (·.name)) :
    RRel FSim.Rel (addForest banned [] [.node da ka, b] c) (addForest banned [] [b, .node da ka] c) := by
  have hinv : ∀ d, addForest banned [] [.node da ka, b] c = .ok d → Inv d :=
    fun d hd => addForest_inv banned [] _ c d hc hd
  rw [pair_eq, pair_eq] at *
  have hall : allF (fun d => d.kind != .TAG) [b] = true := by rw [allF, allF, hb]; rfl
  rcases tag_summary banned [] da ka hk hka with hf | hid | ⟨e1, e2, text, ht⟩
  · exact fails_comm hf c
  · apply rrel_of_exact hinv
    have : addBranch banned [] (.node da ka) = fun x => (.ok x : R Cat) := funext hid
    rw [this, ok_bind, bind_ok_right]
    exact ⟨fun _ h => h, fun e he => ⟨e, he⟩⟩
  · have hA : addBranch banned [] (.node da ka) = descrStep e1 e2 (da.param "TagName") text := funext ht
    rw [hA] at hinv ⊢
    have hB : ∀ x0, (c.getTag (da.param "TagName")).map (·.descr) = some x0 →
        RRel (FDescr (da.param "TagName") text x0).Rel (addBranch banned [] b c)
          (addBranch banned [] b (c.updTag (da.param "TagName") fun t => { t with descr := some text })) := by
      intro x0 hx
      have := descr_lift banned [] [b] c (da.param "TagName") text x0 hx hall (by intro u hu; cases hu)
      rwa [addForest_single, addForest_single] at this
    apply rrel_of_exact hinv
    apply comm_exact (p := fun x => (x.getTag (da.param "TagName")).map (·.descr) = some none)
      (eff := fun x => x.updTag (da.param "TagName") fun t => { t with descr := some text })
    · intro x hx; exact descrStep_ok hx
    · intro x hx; exact descrStep_err hx
    · intro hp
      refine (hB none hp).mono ?_
      intro d d' hr
      exact FDescr.out hr
    · intro hp d hd
      obtain ⟨t, hg⟩ := getTag_isSome_of_mem hn
      have := hB t.descr (by rw [hg]; rfl)
      rw [hd] at this
      cases hb' : addBranch banned [] b (c.updTag (da.param "TagName") fun t => { t with descr := some text }) with
      | error e => rw [hb'] at this; cases this
      | ok d' =>
        rw [hb'] at this
        have h2 := (FDescr.out this).2
        show ¬ _ = some none
        rw [h2]
        intro h3
        apply hp
        rw [hg]
        simpa using h3

/-- ENUM, MACRO without children -/
theorem comm_noop (banned : List Kind) (da : BDir) (hk : da.kind = .Enum ∨ da.kind = .Macro) (b : BTree)
    (c : Cat) (hc : Inv c) :
    RRel FSim.Rel (addForest banned [] [.node da [], b] c) (addForest banned [] [b, .node da []] c) := by
  have hinv : ∀ d, addForest banned [] [.node da [], b] c = .ok d → Inv d :=
    fun d hd => addForest_inv banned [] _ c d hc hd
  rw [pair_eq, pair_eq] at *
  by_cases hbn : banned.contains da.kind = true
  · apply fails_comm
    intro x; rw [noop_summary banned [] da hk x, if_pos hbn]; exact ⟨_, rfl⟩
  · have : addBranch banned [] (.node da []) = fun x => (.ok x : R Cat) := by
      funext x; rw [noop_summary banned [] da hk x, if_neg hbn]
    apply rrel_of_exact hinv
    rw [this, ok_bind, bind_ok_right]
    exact ⟨fun _ h => h, fun e he => ⟨e, he⟩⟩

theorem perm_snoc2 {α : Type} (l : List α) (a b : α) : (l ++ [b] ++ [a]).Perm (l ++ [a] ++ [b]) := by
  rw [List.append_assoc, List.append_assoc]
  exact List.Perm.append_left l (List.Perm.swap a b [])

/-- two TYPE declarations -/
theorem appendsType_comm {da db : BDir} {ta tb : TypeM} {A B : Cat → R Cat} (hA : AppendsType da ta A)
    (hB : AppendsType db tb B) (c : Cat) (hc : Inv c) : RRel FSim.Rel (A c >>= B) (B c >>= A) := by
  rw [hA c, hB c]
  by_cases h1 : c.types.any (fun x => x.name == ta.name) = true
  · rw [if_pos h1, fail_bind]
    by_cases h2 : c.types.any (fun x => x.name == tb.name) = true
    · rw [if_pos h2]; exact RRel.fail
    · rw [if_neg h2, ok_bind, hA]
      have : (c.types ++ [tb]).any (fun x => x.name == ta.name) = true := by simp [List.any_append, h1]
      simp only [this, if_true]; exact RRel.fail
  · rw [if_neg h1, ok_bind, hB]
    by_cases h2 : c.types.any (fun x => x.name == tb.name) = true
    · have : (c.types ++ [ta]).any (fun x => x.name == tb.name) = true := by simp [List.any_append, h2]
      simp only [this, if_true, h2]; exact RRel.fail
    · rw [if_neg h2, ok_bind, hA]
      have e1 : (c.types ++ [ta]).any (fun x => x.name == tb.name) = (ta.name == tb.name) := by
        simp [List.any_append, h2]
      have e2 : (c.types ++ [tb]).any (fun x => x.name == ta.name) = (tb.name == ta.name) := by
        simp [List.any_append, h1]
      simp only [e1, e2]
      by_cases h3 : ta.name = tb.name
      · simp only [h3, beq_self_eq_true, if_true]; exact RRel.fail
      · have h4 : (ta.name == tb.name) = false := by simpa using h3
        have h5 : (tb.name == ta.name) = false := by simpa using (Ne.symm h3)
        simp only [h4, h5, Bool.false_eq_true, if_false]
        exact ⟨⟨rfl, rfl, rfl, rfl, rfl, rfl⟩, ⟨List.Perm.refl _, hc.servers_nodup⟩, perm_snoc2 _ _ _,
          ⟨List.Perm.refl _, hc.tags_nodup⟩⟩

/-- two SERVER declarations -/
theorem appendsServer_comm {da db : BDir} {ta tb : ServerM} {A B : Cat → R Cat} (hA : AppendsServer da ta A)
    (hB : AppendsServer db tb B) (c : Cat) (hinv : ∀ d, (A c >>= B) = .ok d → Inv d) :
    RRel FSim.Rel (A c >>= B) (B c >>= A) := by
  revert hinv
  rw [hA c, hB c]
  by_cases h1 : c.servers.any (fun x => x.name == ta.name) = true
  · rw [if_pos h1, fail_bind]
    intro _
    by_cases h2 : c.servers.any (fun x => x.name == tb.name) = true
    · rw [if_pos h2]; exact RRel.fail
    · rw [if_neg h2, ok_bind, hA]
      have : (c.servers ++ [tb]).any (fun x => x.name == ta.name) = true := by simp [List.any_append, h1]
      simp only [this, if_true]; exact RRel.fail
  · rw [if_neg h1, ok_bind, hB]
    by_cases h2 : c.servers.any (fun x => x.name == tb.name) = true
    · have : (c.servers ++ [ta]).any (fun x => x.name == tb.name) = true := by simp [List.any_append, h2]
      simp only [this, if_true, h2]; intro _; exact RRel.fail
    · rw [if_neg h2, ok_bind, hA]
      have e1 : (c.servers ++ [ta]).any (fun x => x.name == tb.name) = (ta.name == tb.name) := by
        simp [List.any_append, h2]
      have e2 : (c.servers ++ [tb]).any (fun x => x.name == ta.name) = (tb.name == ta.name) := by
        simp [List.any_append, h1]
      simp only [e1, e2]
      by_cases h3 : ta.name = tb.name
      · simp only [h3, beq_self_eq_true, if_true]; intro _; exact RRel.fail
      · have h4 : (ta.name == tb.name) = false := by simpa using h3
        have h5 : (tb.name == ta.name) = false := by simpa using (Ne.symm h3)
        simp only [h4, h5, Bool.false_eq_true, if_false]
        intro hinv
        have hi := hinv _ rfl
        exact ⟨⟨rfl, rfl, rfl, rfl, rfl, rfl⟩, ⟨perm_snoc2 _ _ _, hi.servers_nodup⟩, List.Perm.refl _,
          ⟨List.Perm.refl _, hi.tags_nodup⟩⟩

theorem updTag_comm (c : Cat) (m n : Bytes) (f g : TagM → TagM) (hmn : m ≠ n) (hf : ∀ x, (f x).name = x.name)
    (hg : ∀ x, (g x).name = x.name) : (c.updTag m f).updTag n g = (c.updTag n g).updTag m f := by
  unfold Cat.updTag
  simp only [List.map_map]
  congr 1
  apply List.map_congr_left
  intro x _
  simp only [Function.comp]
  by_cases h1 : (x.name == m) = true <;> by_cases h2 : (x.name == n) = true
  · exfalso; apply hmn
    have e1 : x.name = m := by simpa using h1
    have e2 : x.name = n := by simpa using h2
    exact e1.symm.trans e2
  · simp [h1, h2, hf]
  · simp [h1, h2, hg]
  · simp [h1, h2]

/-- the description status of the tag `m` does not depend on the description of another tag -/
theorem descr_other (c : Cat) (m n text : Bytes) (hmn : m ≠ n) :
    ((c.updTag m fun t => { t with descr := some text }).getTag n).map (·.descr) = (c.getTag n).map (·.descr) := by
  rw [getTag_updTag c m n (fun t => { t with descr := some text }) (fun _ => rfl)]
  cases hg : c.getTag n with
  | none => rfl
  | some t =>
    have hn : t.name = n := (getTag_some hg).2
    have : (t.name == m) = false := by
      rw [hn]; simpa using (Ne.symm hmn)
    simp only [Option.map_some, this, Bool.false_eq_true, if_false]

/-- two Descriptions of one tag -/
theorem descrStep_twice (e1 e2 e3 e4 : BErr) (n ta tb : Bytes) (c : Cat) :
    ∃ e, (descrStep e1 e2 n ta c >>= descrStep e3 e4 n tb) = .error e := by
  unfold descrStep
  cases hg : c.getTag n with
  | none => exact ⟨_, rfl⟩
  | some t =>
    simp only []
    split
    · exact ⟨_, rfl⟩
    · rw [ok_bind, getTag_updTag c _ _ (fun t => { t with descr := some ta }) (fun _ => rfl), hg]
      have hn : (t.name == n) = true := by
        have := (getTag_some hg).2; simp [this]
      simp only [Option.map_some, hn, if_true, Option.isSome_some]
      exact ⟨_, rfl⟩

/-- two TAG declarations with one Description each -/
theorem descrStep_comm (e1 e2 e3 e4 : BErr) (na ta nb tb : Bytes) (c : Cat)
    (hinv : ∀ d, (descrStep e1 e2 na ta c >>= descrStep e3 e4 nb tb) = .ok d → Inv d) :
    RRel FSim.Rel (descrStep e1 e2 na ta c >>= descrStep e3 e4 nb tb)
      (descrStep e3 e4 nb tb c >>= descrStep e1 e2 na ta) := by
  by_cases hab : na = nb
  · subst hab
    obtain ⟨x, hx⟩ := descrStep_twice e1 e2 e3 e4 na ta tb c
    obtain ⟨y, hy⟩ := descrStep_twice e3 e4 e1 e2 na tb ta c
    rw [hx, hy]; trivial
  · apply rrel_of_exact hinv
    apply comm_exact (p := fun x => (x.getTag na).map (·.descr) = some none)
      (eff := fun x => x.updTag na fun t => { t with descr := some ta })
    · intro x hx; exact descrStep_ok hx
    · intro x hx; exact descrStep_err hx
    · intro hp
      by_cases hq : (c.getTag nb).map (·.descr) = some none
      · have hq' : ((c.updTag na fun t => { t with descr := some ta }).getTag nb).map (·.descr) = some none := by
          rw [descr_other c na nb ta hab]; exact hq
        rw [descrStep_ok hq, descrStep_ok hq']
        refine ⟨updTag_comm c na nb _ _ hab (fun _ => rfl) (fun _ => rfl), ?_⟩
        show ((c.updTag nb fun t => { t with descr := some tb }).getTag na).map (·.descr) = some none
        rw [descr_other c nb na tb (Ne.symm hab)]; exact hp
      · have hq' : ¬ ((c.updTag na fun t => { t with descr := some ta }).getTag nb).map (·.descr) = some none := by
          rw [descr_other c na nb ta hab]; exact hq
        obtain ⟨x, hx⟩ := descrStep_err (e1 := e3) (e2 := e4) (text := tb) hq
        obtain ⟨y, hy⟩ := descrStep_err (e1 := e3) (e2 := e4) (text := tb) hq'
        rw [hx, hy]; trivial
    · intro hp d hd
      by_cases hq : (c.getTag nb).map (·.descr) = some none
      · rw [descrStep_ok hq] at hd
        cases hd
        show ¬ ((c.updTag nb fun t => { t with descr := some tb }).getTag na).map (·.descr) = some none
        rw [descr_other c nb na tb (Ne.symm hab)]; exact hp
      · obtain ⟨x, hx⟩ := descrStep_err (e1 := e3) (e2 := e4) (text := tb) hq
        rw [hx] at hd; cases hd

theorem id_comm {A B : Cat → R Cat} (hA : ∀ x, A x = .ok x) (c : Cat) (hinv : ∀ d, (A c >>= B) = .ok d → Inv d) :
    RRel FSim.Rel (A c >>= B) (B c >>= A) := by
  apply rrel_of_exact hinv
  have : A = fun x => (.ok x : R Cat) := funext hA
  rw [this, ok_bind, bind_ok_right]
  exact ⟨fun _ h => h, fun e he => ⟨e, he⟩⟩

/-! #### blocks -/

def plainKind (d : BDir) : Bool :=
  d.kind != .Type && d.kind != .Server && d.kind != .BaseURL && d.kind != .TAG

/-- a declaration, or a tree without TYPE, SERVER, BaseUrl, TAG directives -/
def isBlock (t : BTree) : Bool := isDecl t || allT plainKind t

mutual
  theorem allT_mono {P Q : BDir → Bool} (h : ∀ d, P d = true → Q d = true) :
      ∀ t : BTree, allT P t = true → allT Q t = true
    | .node d kids, ht => by
      rw [allT, Bool.and_eq_true] at ht ⊢
      exact ⟨h d ht.1, allF_mono h kids ht.2⟩
  theorem allF_mono {P Q : BDir → Bool} (h : ∀ d, P d = true → Q d = true) :
      ∀ ts : List BTree, allF P ts = true → allF Q ts = true
    | [], _ => by rw [allF]
    | t :: r, ht => by
      rw [allF, Bool.and_eq_true] at ht ⊢
      exact ⟨allT_mono h t ht.1, allF_mono h r ht.2⟩
end

theorem allF_leaves (P : BDir → Bool) (k : Kind) (hPk : ∀ x : BDir, x.kind = k → P x = true) :
    ∀ kids : List BTree, kids.all (leafOf k) = true → allF P kids = true
  | [], _ => by rw [allF]
  | t :: r, h => by
    simp only [List.all_cons, Bool.and_eq_true] at h
    obtain ⟨dk, rfl, hdk⟩ := leafOf_eq h.1
    rw [allF, allT, allF, hPk dk hdk, allF_leaves P k hPk r h.2]; rfl

theorem decl_cases {d : BDir} {kids : List BTree} (h : isDecl (.node d kids) = true) :
    ((d.kind = .Type ∨ d.kind = .Enum ∨ d.kind = .Macro) ∧ kids = []) ∨
    (d.kind = .Server ∧ kids.all (leafOf .BaseURL) = true) ∨
    (d.kind = .TAG ∧ kids.all (leafOf .Description) = true) := by
  unfold isDecl at h
  simp only [BTree.dir, BTree.kids] at h
  split at h
  · rename_i hk; exact Or.inl ⟨Or.inl hk, by simpa using h⟩
  · rename_i hk; exact Or.inl ⟨Or.inr (Or.inl hk), by simpa using h⟩
  · rename_i hk; exact Or.inl ⟨Or.inr (Or.inr hk), by simpa using h⟩
  · rename_i hk; exact Or.inr (Or.inl ⟨hk, h⟩)
  · rename_i hk; exact Or.inr (Or.inr ⟨hk, h⟩)
  · cases h

/-- a declaration that is not of one of the kinds excluded by `P` satisfies `P` everywhere -/
theorem decl_all (P : BDir → Bool) {d : BDir} {kids : List BTree} (h : isDecl (.node d kids) = true)
    (hroot : P d = true)
    (h1 : d.kind = .Server → ∀ x : BDir, x.kind = .BaseURL → P x = true)
    (h2 : d.kind = .TAG → ∀ x : BDir, x.kind = .Description → P x = true) : allT P (.node d kids) = true := by
  rw [allT, hroot, Bool.true_and]
  rcases decl_cases h with ⟨_, rfl⟩ | ⟨hk, hl⟩ | ⟨hk, hl⟩
  · rw [allF]
  · exact allF_leaves P _ (h1 hk) kids hl
  · exact allF_leaves P _ (h2 hk) kids hl

theorem block_no {P : BDir → Bool} (hplain : ∀ d, plainKind d = true → P d = true) {b : BTree}
    (hb : isBlock b = true) (hroot : P b.dir = true)
    (h1 : b.dir.kind = .Server → ∀ x : BDir, x.kind = .BaseURL → P x = true)
    (h2 : b.dir.kind = .TAG → ∀ x : BDir, x.kind = .Description → P x = true) : allT P b = true := by
  unfold isBlock at hb
  rw [Bool.or_eq_true] at hb
  rcases hb with hb | hb
  · cases b with
    | node d kids => exact decl_all P hb hroot h1 h2
  · exact allT_mono hplain b hb

theorem block_decl_of {b : BTree} (hb : isBlock b = true)
    (hk : b.dir.kind = .Type ∨ b.dir.kind = .Server ∨ b.dir.kind = .TAG) : isDecl b = true := by
  unfold isBlock at hb
  rw [Bool.or_eq_true] at hb
  rcases hb with hb | hb
  · exact hb
  · cases b with
    | node d kids =>
      rw [allT, Bool.and_eq_true] at hb
      have := hb.1
      simp only [BTree.dir] at hk
      rcases hk with hk | hk | hk <;> simp [plainKind, hk] at this

/-- (the core of C10) a declaration and the block that follows it may be exchanged -/
theorem comm (banned : List Kind) (a b : BTree) (ha : isDecl a = true) (hb : isBlock b = true) (c : Cat)
    (hc : Inv c) (hn : a.dir.kind = .TAG → a.dir.param "TagName" ∈ c.tags.map (·.name)) :
    RRel FSim.Rel (addForest banned [] [a, b] c) (addForest banned [] [b, a] c) := by
  have hinv : ∀ d, addForest banned [] [a, b] c = .ok d → Inv d :=
    fun d hd => addForest_inv banned [] _ c d hc hd
  have hinv' : ∀ d, addForest banned [] [b, a] c = .ok d → Inv d :=
    fun d hd => addForest_inv banned [] _ c d hc hd
  cases a with
  | node da ka =>
  rcases decl_cases ha with ⟨hk, rfl⟩ | ⟨hk, hl⟩ | ⟨hk, hl⟩
  · rcases hk with hk | hk
    · -- TYPE
      by_cases hbk : b.dir.kind = .Type
      · have hbd := block_decl_of hb (Or.inl hbk)
        cases b with
        | node db kb =>
        rcases decl_cases hbd with ⟨_, rfl⟩ | ⟨hk', _⟩ | ⟨hk', _⟩
        · rw [pair_eq, pair_eq]
          rcases type_summary banned [] da hk with hf | ⟨ta, hta⟩
          · exact fails_comm hf c
          · rcases type_summary banned [] db hbk with hf | ⟨tb, htb⟩
            · exact (fails_comm hf c).symm_sim
            · exact appendsType_comm hta htb c hc
        · simp only [BTree.dir] at hbk; rw [hbk] at hk'; cases hk'
        · simp only [BTree.dir] at hbk; rw [hbk] at hk'; cases hk'
      · apply comm_type banned da hk b _ c hc
        apply block_no _ hb
        · simpa using hbk
        · intro _ x hx; simp [hx]
        · intro _ x hx; simp [hx]
        · intro d hd; simp only [plainKind, Bool.and_eq_true] at hd; exact hd.1.1.1
    · exact comm_noop banned da hk b c hc
  · -- SERVER
    by_cases hbk : b.dir.kind = .Server
    · have hbd := block_decl_of hb (Or.inr (Or.inl hbk))
      cases b with
      | node db kb =>
      rcases decl_cases hbd with ⟨hk', _⟩ | ⟨_, hl'⟩ | ⟨hk', _⟩
      · simp only [BTree.dir] at hbk; rw [hbk] at hk'; rcases hk' with h | h | h <;> cases h
      · rw [pair_eq, pair_eq] at *
        rcases server_summary banned [] da ka hk hl with hf | ⟨ta, hta⟩
        · exact fails_comm hf c
        · rcases server_summary banned [] db kb hbk hl' with hf | ⟨tb, htb⟩
          · exact (fails_comm hf c).symm_sim
          · exact appendsServer_comm hta htb c hinv
      · simp only [BTree.dir] at hbk; rw [hbk] at hk'; cases hk'
    · apply comm_server banned da ka hk hl b _ c hc
      apply block_no _ hb
      · simp only [noServerKind, Bool.and_eq_true, bne_iff_ne]
        refine ⟨hbk, ?_⟩
        intro h
        unfold isBlock at hb
        rw [Bool.or_eq_true] at hb
        cases b with
        | node db kb =>
        simp only [BTree.dir] at h
        rcases hb with hb | hb
        · rcases decl_cases hb with ⟨hk', _⟩ | ⟨hk', _⟩ | ⟨hk', _⟩ <;> rw [h] at hk'
          · rcases hk' with h | h | h <;> cases h
          · cases hk'
          · cases hk'
        · rw [allT, Bool.and_eq_true] at hb
          have := hb.1
          simp [plainKind, h] at this
      · intro h; exact absurd h hbk
      · intro _ x hx; simp [noServerKind, hx]
      · intro d hd
        simp only [plainKind, Bool.and_eq_true] at hd
        simp only [noServerKind, Bool.and_eq_true]
        exact ⟨hd.1.1.2, hd.1.2⟩
  · -- TAG
    have hn' := hn hk
    simp only [BTree.dir] at hn'
    by_cases hbk : b.dir.kind = .TAG
    · have hbd := block_decl_of hb (Or.inr (Or.inr hbk))
      cases b with
      | node db kb =>
      rcases decl_cases hbd with ⟨hk', _⟩ | ⟨hk', _⟩ | ⟨_, hl'⟩
      · simp only [BTree.dir] at hbk; rw [hbk] at hk'; rcases hk' with h | h | h <;> cases h
      · simp only [BTree.dir] at hbk; rw [hbk] at hk'; cases hk'
      · rw [pair_eq, pair_eq] at *
        rcases tag_summary banned [] da ka hk hl with hf | hid | ⟨e1, e2, ta, hta⟩
        · exact fails_comm hf c
        · exact id_comm hid c hinv
        · rcases tag_summary banned [] db kb hbk hl' with hf | hid | ⟨e3, e4, tb, htb⟩
          · exact (fails_comm hf c).symm_sim
          · exact (id_comm hid c hinv').symm_sim
          · have eA : addBranch banned [] (.node da ka) = descrStep e1 e2 (da.param "TagName") ta := funext hta
            have eB : addBranch banned [] (.node db kb) = descrStep e3 e4 (db.param "TagName") tb := funext htb
            rw [eA, eB] at hinv ⊢
            exact descrStep_comm e1 e2 e3 e4 _ ta _ tb c hinv
    · apply comm_tag banned da ka hk hl b _ c hc hn'
      apply block_no _ hb
      · simpa using hbk
      · intro _ x hx; simp [hx]
      · intro h; exact absurd h hbk
      · intro d hd; simp only [plainKind, Bool.and_eq_true] at hd; exact hd.2

/-! ### part E: the stages of `compile` -/

def headCheck (f : List BTree) : R Unit :=
  match f with
  | t :: _ => if t.dir.kind != .Jsight then fail t.dir .jsightFirst else pure ()
  | [] => pure ()

def finish (c : Cat) : R Cat := do
  validateInfo c
  validateRequestBody c.inters
  validateResponseBody c.inters
  pure c

theorem compile_eq (banned : List Kind) (f : List BTree) : compile banned f = (do
    let c ← collectTags f {}
    checkTypeNames f
    let _ ← pathsForest [] f []
    headCheck f
    let c ← addForest banned [] f c
    finish c) := by
  unfold compile headCheck finish
  cases f with
  | nil => rfl
  | cons t r =>
    cases collectTags (t :: r) {} with
    | error e => rfl
    | ok c0 =>
      cases checkTypeNames (t :: r) with
      | error e => rfl
      | ok u =>
        cases pathsForest [] (t :: r) [] with
        | error e => rfl
        | ok l =>
          by_cases h : (t.dir.kind != Kind.Jsight) = true
          · simp only [h, if_true]
            first | rfl | skip
          · simp only [h, if_false]
            first | rfl | skip

def chk (c : Cat) : R Unit := do
  validateInfo c
  validateRequestBody c.inters
  validateResponseBody c.inters

theorem finish_eq (c : Cat) : finish c = chk c >>= fun _ => .ok c := by
  unfold finish chk
  simp only [bind_bind]
  rfl

theorem chk_sim {c c' : Cat} (h : FSim.Rel c c') : chk c' = chk c := by
  unfold chk validateInfo
  rw [h.eq6.info, h.eq6.inters]

theorem finish_sim {c c' : Cat} (h : FSim.Rel c c') : RRel FSim.Rel (finish c) (finish c') := by
  rw [finish_eq, finish_eq, chk_sim h]
  cases chk c with
  | error e => trivial
  | ok _ => exact h

/-! #### `collectTags` -/

def ctStep (t : BTree) (c : Cat) : R Cat :=
  if t.dir.kind == .TAG then
    if (t.dir.param "TagName").isEmpty then fail t.dir (.required "TagName")
    else if c.tags.any (fun x => x.name == t.dir.param "TagName") then fail t.dir .duplicateNames
    else
      let n := t.dir.param "TagName"
      .ok { c with tags := c.tags ++ [{ name := n, title := if t.dir.annot.isEmpty then n else t.dir.annot, declared := true }] }
  else .ok c

theorem getTag_isSome_eq (c : Cat) (n : Bytes) : (c.getTag n).isSome = c.tags.any (fun x => x.name == n) := by
  unfold Cat.getTag
  rw [Bool.eq_iff_iff, List.find?_isSome, List.any_eq_true]

theorem collectTags_cons (t : BTree) (r : List BTree) (c : Cat) :
    collectTags (t :: r) c = ctStep t c >>= collectTags r := by
  rw [collectTags]
  unfold ctStep
  simp only [getTag_isSome_eq]
  split
  · split
    · rfl
    · split <;> rfl
  · rfl

theorem collectTags_nil (c : Cat) : collectTags [] c = .ok c := by rw [collectTags]

theorem collectTags_append (l r : List BTree) (c : Cat) :
    collectTags (l ++ r) c = collectTags l c >>= collectTags r := by
  induction l generalizing c with
  | nil => rw [List.nil_append, collectTags_nil]; rfl
  | cons t l ih =>
    rw [List.cons_append, collectTags_cons, collectTags_cons, bind_bind]
    cases ctStep t c with
    | error e => rfl
    | ok x => exact ih x

theorem ctStep_inv {t : BTree} {c d : Cat} (hc : Inv c) (h : ctStep t c = .ok d) : Inv d := by
  apply collectTags_inv [t] c d hc
  rw [collectTags_cons, h, ok_bind, collectTags_nil]

theorem ctStep_sim (t : BTree) {c c' : Cat} (h : FSim.Rel c c') : RRel FSim.Rel (ctStep t c) (ctStep t c') := by
  unfold ctStep
  rw [h.g.1.any_eq]
  split
  · split
    · exact RRel.fail
    · split
      · exact RRel.fail
      · rename_i hf
        refine h.with ⟨h.eq6.1, h.eq6.2, h.eq6.3, h.eq6.4, h.eq6.5, h.eq6.6⟩ rfl rfl rfl rfl ?_
        apply tagFrame_perm.app h.g
        rw [List.find?_eq_none]
        intro x hx
        have hf' : c.tags.any (fun x => x.name == t.dir.param "TagName") = false := by
          cases hh : c.tags.any (fun x => x.name == t.dir.param "TagName") with
          | false => rfl
          | true => exact absurd hh hf
        exact List.any_eq_false.1 hf' x hx
  · exact h

theorem collectTags_sim (l : List BTree) : ∀ {c c' : Cat}, FSim.Rel c c' →
    RRel FSim.Rel (collectTags l c) (collectTags l c') := by
  induction l with
  | nil => intro c c' h; rw [collectTags_nil, collectTags_nil]; exact h
  | cons t l ih =>
    intro c c' h
    rw [collectTags_cons, collectTags_cons]
    exact RRel.bind (ctStep_sim t h) (fun x y hxy => ih hxy)

/-- two neighbours of the top level in either order -/
theorem ctStep_comm (a b : BTree) (c : Cat) (hc : Inv c) :
    RRel FSim.Rel (ctStep a c >>= ctStep b) (ctStep b c >>= ctStep a) := by
  have hinv : ∀ d, (ctStep a c >>= ctStep b) = .ok d → Inv d := by
    intro d hd
    cases h1 : ctStep a c with
    | error e => rw [h1] at hd; cases hd
    | ok x => rw [h1, ok_bind] at hd; exact ctStep_inv (ctStep_inv hc h1) hd
  by_cases ha : (a.dir.kind == .TAG) = true
  · by_cases hb : (b.dir.kind == .TAG) = true
    · revert hinv
      unfold ctStep
      simp only [ha, hb, if_true]
      by_cases h1 : (a.dir.param "TagName").isEmpty = true
      · simp only [h1, if_true, fail_bind]
        intro _
        split
        · exact RRel.fail
        · split
          · exact RRel.fail
          · exact RRel.fail
      · by_cases h2 : (b.dir.param "TagName").isEmpty = true
        · simp only [h2, if_true, fail_bind, h1, Bool.false_eq_true, if_false]
          intro _
          split <;> exact RRel.fail
        · simp only [h1, h2, Bool.false_eq_true, if_false]
          by_cases h3 : c.tags.any (fun x => x.name == a.dir.param "TagName") = true
          · simp only [h3, if_true, fail_bind]
            intro _
            split
            · exact RRel.fail
            · simp only [ok_bind, List.any_append, h3, Bool.true_or, if_true]; exact RRel.fail
          · by_cases h4 : c.tags.any (fun x => x.name == b.dir.param "TagName") = true
            · simp only [h3, h4, Bool.false_eq_true, if_false, if_true, fail_bind, ok_bind, List.any_append,
                Bool.true_or]
              intro _; exact RRel.fail
            · simp only [h3, h4, Bool.false_eq_true, if_false, ok_bind, List.any_append, Bool.false_or,
                List.any_cons, List.any_nil, Bool.or_false]
              by_cases h5 : a.dir.param "TagName" = b.dir.param "TagName"
              · simp only [h5, beq_self_eq_true, if_true]; intro _; exact RRel.fail
              · have h6 : (a.dir.param "TagName" == b.dir.param "TagName") = false := by simpa using h5
                have h7 : (b.dir.param "TagName" == a.dir.param "TagName") = false := by
                  simpa using (Ne.symm h5)
                simp only [h6, h7, Bool.false_eq_true, if_false]
                intro hinv
                have hi := hinv _ rfl
                exact ⟨⟨rfl, rfl, rfl, rfl, rfl, rfl⟩, ⟨List.Perm.refl _, hi.servers_nodup⟩, List.Perm.refl _,
                  ⟨perm_snoc2 _ _ _, hi.tags_nodup⟩⟩
    · have : ctStep b = fun x => (.ok x : R Cat) := by
        funext x; unfold ctStep; simp only [hb, Bool.false_eq_true, if_false]
      exact (id_comm (A := ctStep b) (B := ctStep a) (fun x => congrFun this x) c (by
        intro d hd
        rw [this, ok_bind] at hd
        exact ctStep_inv hc hd)).symm_sim
  · have : ctStep a = fun x => (.ok x : R Cat) := by
      funext x; unfold ctStep; simp only [ha, Bool.false_eq_true, if_false]
    exact id_comm (fun x => congrFun this x) c hinv

theorem collectTags_cons' (t : BTree) (r : List BTree) :
    collectTags (t :: r) = fun c => ctStep t c >>= collectTags r := funext (collectTags_cons t r)

theorem collectTags_swap (pre post : List BTree) (a b : BTree) :
    RRel FSim.Rel (collectTags (pre ++ a :: b :: post) {}) (collectTags (pre ++ b :: a :: post) {}) := by
  rw [collectTags_append, collectTags_append]
  cases h1 : collectTags pre {} with
  | error e => trivial
  | ok x =>
    have hx : Inv x := collectTags_inv pre {} x Inv.empty h1
    rw [ok_bind, ok_bind, collectTags_cons, collectTags_cons, collectTags_cons', collectTags_cons',
      ← bind_bind, ← bind_bind]
    exact RRel.bind (ctStep_comm a b x hx) (fun y z hyz => collectTags_sim post hyz)

/-- an accepted `collectTags` has the names of the TAG directives -/
theorem collectTags_has (l : List BTree) : ∀ (c d : Cat), collectTags l c = .ok d →
    (∀ n ∈ c.tags.map (·.name), n ∈ d.tags.map (·.name)) ∧
    (∀ t ∈ l, t.dir.kind = .TAG → t.dir.param "TagName" ∈ d.tags.map (·.name)) := by
  induction l with
  | nil => intro c d h; rw [collectTags_nil] at h; cases h; exact ⟨fun _ h => h, fun _ h => by cases h⟩
  | cons t l ih =>
    intro c d h
    rw [collectTags_cons] at h
    cases h1 : ctStep t c with
    | error e => rw [h1] at h; cases h
    | ok x =>
      rw [h1, ok_bind] at h
      obtain ⟨i1, i2⟩ := ih x d h
      have hstep : (∀ n ∈ c.tags.map (·.name), n ∈ x.tags.map (·.name)) ∧
          (t.dir.kind = .TAG → t.dir.param "TagName" ∈ x.tags.map (·.name)) := by
        unfold ctStep at h1
        split at h1
        · split at h1
          · cases h1
          · split at h1
            · cases h1
            · cases h1
              refine ⟨fun n hn => ?_, fun _ => ?_⟩
              · simp only [List.map_append]; exact List.mem_append_left _ hn
              · simp only [List.map_append]; exact List.mem_append_right _ (by simp)
        · rename_i hk
          cases h1
          exact ⟨fun _ h => h, fun h => absurd (by simp [h]) hk⟩
      refine ⟨fun n hn => i1 n (hstep.1 n hn), ?_⟩
      intro u hu hk
      rcases List.mem_cons.1 hu with rfl | hu
      · exact i1 _ (hstep.2 hk)
      · exact i2 u hu hk

/-! #### `checkTypeNames`, `pathsForest`, the first directive -/

theorem checkTypeNames_ok (l : List BTree) : checkTypeNames l = .ok () ↔
    ∀ t ∈ l, ¬ (t.dir.kind == .Type && (t.dir.param "Name").isEmpty) = true := by
  induction l with
  | nil => rw [checkTypeNames]; simp
  | cons t r ih =>
    rw [checkTypeNames]
    split
    · rename_i h
      constructor
      · intro h'; cases h'
      · intro h'; exact absurd h (h' t List.mem_cons_self)
    · rename_i h
      rw [ih]
      constructor
      · intro h' u hu
        rcases List.mem_cons.1 hu with rfl | hu
        · exact h
        · exact h' u hu
      · intro h' u hu; exact h' u (List.mem_cons_of_mem _ hu)

theorem checkTypeNames_swap (pre post : List BTree) (a b : BTree) :
    checkTypeNames (pre ++ a :: b :: post) = .ok () ↔ checkTypeNames (pre ++ b :: a :: post) = .ok () := by
  rw [checkTypeNames_ok, checkTypeNames_ok]
  constructor <;>
  · intro h t ht
    apply h t
    simp only [List.mem_append, List.mem_cons] at ht ⊢
    rcases ht with h | h | h | h
    · exact Or.inl h
    · exact Or.inr (Or.inr (Or.inl h))
    · exact Or.inr (Or.inl h)
    · exact Or.inr (Or.inr (Or.inr h))

theorem pathsForest_nil (anc : List BDir) (last : List Nat) : pathsForest anc [] last = .ok last := by
  rw [pathsForest]

theorem pathsForest_cons (anc : List BDir) (t : BTree) (r : List BTree) (last : List Nat) :
    pathsForest anc (t :: r) last = pathsTree anc t last >>= pathsForest anc r := by
  rw [pathsForest]; cases pathsTree anc t last <;> rfl

theorem pathsForest_append (anc : List BDir) (l r : List BTree) (last : List Nat) :
    pathsForest anc (l ++ r) last = pathsForest anc l last >>= pathsForest anc r := by
  induction l generalizing last with
  | nil => rw [List.nil_append, pathsForest_nil]; rfl
  | cons t l ih =>
    rw [List.cons_append, pathsForest_cons, pathsForest_cons, bind_bind]
    cases pathsTree anc t last with
    | error e => rfl
    | ok x => exact ih x

theorem pathsForest_leaves (anc : List BDir) (k : Kind) (hk : k ≠ .Macro ∧ k ≠ .Path) :
    ∀ (kids : List BTree) (last : List Nat), kids.all (leafOf k) = true → pathsForest anc kids last = .ok last
  | [], last, _ => pathsForest_nil anc last
  | t :: r, last, h => by
    simp only [List.all_cons, Bool.and_eq_true] at h
    obtain ⟨dk, rfl, hdk⟩ := leafOf_eq h.1
    rw [pathsForest_cons]
    unfold pathsTree
    have h1 : (dk.kind == Kind.Macro) = false := by rw [hdk]; simpa using hk.1
    have h2 : (dk.kind == Kind.Path) = false := by rw [hdk]; simpa using hk.2
    simp only [h1, h2, Bool.false_eq_true, if_false, pathsForest_nil, ok_bind]
    exact pathsForest_leaves anc k hk r last h.2

/-- a declaration holds no Path directive -/
theorem paths_decl (anc : List BDir) (a : BTree) (ha : isDecl a = true) (last : List Nat) :
    pathsTree anc a last = .ok last := by
  cases a with
  | node d kids =>
  unfold pathsTree
  rcases decl_cases ha with ⟨hk, rfl⟩ | ⟨hk, hl⟩ | ⟨hk, hl⟩
  · rcases hk with hk | hk | hk <;> simp [hk, pathsForest_nil]
  · simp only [hk, show (Kind.Server == Kind.Macro) = false by decide,
      show (Kind.Server == Kind.Path) = false by decide, Bool.false_eq_true, if_false]
    exact pathsForest_leaves _ _ (by decide) kids last hl
  · simp only [hk, show (Kind.TAG == Kind.Macro) = false by decide,
      show (Kind.TAG == Kind.Path) = false by decide, Bool.false_eq_true, if_false]
    exact pathsForest_leaves _ _ (by decide) kids last hl

theorem pathsForest_swap (pre post : List BTree) (a b : BTree) (ha : isDecl a = true) (last : List Nat) :
    pathsForest [] (pre ++ a :: b :: post) last = pathsForest [] (pre ++ b :: a :: post) last := by
  rw [pathsForest_append, pathsForest_append]
  congr 1
  funext l
  rw [pathsForest_cons, pathsForest_cons, paths_decl [] a ha, ok_bind, pathsForest_cons]
  cases pathsTree [] b l with
  | error e => rfl
  | ok l' => rw [ok_bind, ok_bind, pathsForest_cons, paths_decl [] a ha, ok_bind]

theorem headCheck_swap (pre post : List BTree) (a b : BTree) (hpre : pre ≠ []) :
    headCheck (pre ++ a :: b :: post) = headCheck (pre ++ b :: a :: post) := by
  cases pre with
  | nil => exact absurd rfl hpre
  | cons t r => rfl

/-! #### the fold -/

theorem addForest_swap (banned : List Kind) (pre post : List BTree) (a b : BTree) (ha : isDecl a = true)
    (hb : isBlock b = true) {c0 c0' : Cat} (h0 : collectTags (pre ++ a :: b :: post) {} = .ok c0)
    (hsim : FSim.Rel c0 c0') :
    RRel FSim.Rel (addForest banned [] (pre ++ a :: b :: post) c0) (addForest banned [] (pre ++ b :: a :: post) c0') := by
  have hinv0 : Inv c0 := collectTags_inv _ {} c0 Inv.empty h0
  have htag0 : a.dir.kind = .TAG → a.dir.param "TagName" ∈ c0.tags.map (·.name) :=
    (collectTags_has _ {} c0 h0).2 a (by simp)
  have e1 : pre ++ a :: b :: post = pre ++ ([a, b] ++ post) := rfl
  have e2 : pre ++ b :: a :: post = pre ++ ([b, a] ++ post) := rfl
  rw [e1, e2, addForest_append, addForest_append]
  have hpre := sim_lift banned [] pre hsim
  cases h1 : addForest banned [] pre c0 with
  | error e =>
    rw [h1] at hpre
    cases h2 : addForest banned [] pre c0' with
    | error e' => trivial
    | ok y => rw [h2] at hpre; cases hpre
  | ok x =>
    rw [h1] at hpre
    cases h2 : addForest banned [] pre c0' with
    | error e' => rw [h2] at hpre; cases hpre
    | ok y =>
      rw [h2] at hpre
      have hx : Inv x := addForest_inv banned [] pre c0 x hinv0 h1
      have htag : a.dir.kind = .TAG → a.dir.param "TagName" ∈ x.tags.map (·.name) :=
        fun hk => has_lift banned [] pre _ (htag0 hk) h1
      rw [ok_bind, ok_bind, addForest_append, addForest_append]
      refine RRel.bind ?_ (fun u v huv => sim_lift banned [] post huv)
      exact (comm banned a b ha hb x hx htag).trans_sim (sim_lift banned [] [b, a] hpre)

/-- (C10) exchanging a top-level declaration with the block that follows it -/
theorem swap_rrel (banned : List Kind) (pre post : List BTree) (a b : BTree) (ha : isDecl a = true)
    (hb : isBlock b = true) (hpre : pre ≠ []) :
    RRel FSim.Rel (compile banned (pre ++ a :: b :: post)) (compile banned (pre ++ b :: a :: post)) := by
  rw [compile_eq, compile_eq]
  have h1 := collectTags_swap pre post a b
  cases hc : collectTags (pre ++ a :: b :: post) {} with
  | error e =>
    rw [hc] at h1
    cases hc' : collectTags (pre ++ b :: a :: post) {} with
    | error e' => trivial
    | ok y => rw [hc'] at h1; cases h1
  | ok c0 =>
    rw [hc] at h1
    cases hc' : collectTags (pre ++ b :: a :: post) {} with
    | error e' => rw [hc'] at h1; cases h1
    | ok c0' =>
      rw [hc'] at h1
      rw [ok_bind, ok_bind]
      have h2 := checkTypeNames_swap pre post a b
      cases ht : checkTypeNames (pre ++ a :: b :: post) with
      | error e =>
        cases ht' : checkTypeNames (pre ++ b :: a :: post) with
        | error e' => trivial
        | ok u => cases u; rw [ht'] at h2; rw [h2.2 rfl] at ht; cases ht
      | ok u =>
        cases u
        rw [h2.1 ht, ok_bind, ok_bind, pathsForest_swap pre post a b ha [], headCheck_swap pre post a b hpre]
        cases pathsForest [] (pre ++ b :: a :: post) [] with
        | error e => trivial
        | ok l =>
          rw [ok_bind, ok_bind]
          cases headCheck (pre ++ b :: a :: post) with
          | error e => trivial
          | ok _ =>
            rw [ok_bind, ok_bind]
            exact RRel.bind (addForest_swap banned pre post a b ha hb hc h1) (fun x y hxy => finish_sim hxy)

theorem RRel.both {Rel : Cat → Cat → Prop} {r r' : R Cat} (h : RRel Rel r r') :
    (∀ c, r = .ok c → ∃ c', r' = .ok c' ∧ Rel c c') ∧ (∀ c', r' = .ok c' → ∃ c, r = .ok c ∧ Rel c c') := by
  cases r with
  | error e => cases r' with
    | error e' => exact ⟨fun _ h => (by cases h), fun _ h => (by cases h)⟩
    | ok y => cases h
  | ok x => cases r' with
    | error e' => cases h
    | ok y =>
      refine ⟨fun c hc => ?_, fun c' hc' => ?_⟩
      · cases hc; exact ⟨y, rfl, h⟩
      · cases hc'; exact ⟨x, rfl, h⟩

end JSight.BuildPerm
