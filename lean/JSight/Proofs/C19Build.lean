import JSight.Model.Build
/-!
Helper lemmas for C19 on the catalog-construction model (`Props/C19_Build.lean`): what `tagsFor`,
`attachAll`, `addHTTPMethod` and `addJsonRpcMethod` leave unchanged, and the shape of an accepted method.
-/
namespace JSight.C19B
open JSight JSight.Gen JSight.Build

theorem map_ok {α β} (f : α → β) (r : R α) (b : β) (h : r.map f = .ok b) : ∃ a, r = .ok a ∧ f a = b := by
  cases r with
  | error e => cases h
  | ok a => exact ⟨a, rfl, by injection h⟩

/-- a `do let ns ← r; pure (f ns)` block of the model is `Except.map` -/
theorem bind_pure_eq_map {α β} (f : α → β) (r : R α) : (do let a ← r; pure (f a)) = r.map f := by
  cases r <;> rfl

theorem liftAt_ok {α} (d : BDir) (r : Except Msg α) (a : α) (h : liftAt d r = .ok a) : r = .ok a := by
  cases r with
  | error e => cases h
  | ok b => injection h with h; rw [h]

theorem updTag_inters (c : Cat) (n : Bytes) (f : TagM → TagM) : (c.updTag n f).inters = c.inters := rfl

/-- attaching an interaction id to tags does not touch the interactions -/
theorem attachAll_inters (c : Cat) (i : IId) (ns : List Bytes) : (attachAll c i ns).inters = c.inters := by
  induction ns generalizing c with
  | nil => rfl
  | cons n r ih => simp only [attachAll, ih, updTag_inters]

end JSight.C19B
