import JSight.Model.Build
import JSight.Proofs.BuildFaith
/-!
Helper lemmas for C19 on the catalog-construction model (`Props/C19_Build.lean`): what `tagsFor`,
`attachAll`, `addHTTPMethod` and `addJsonRpcMethod` leave unchanged, and the shape of an accepted method.
-/
namespace JSight.C19B
open JSight JSight.Gen JSight.Build

theorem map_ok {α β} (f : α → β) (r : R α) (b : β) (h : r.map f = .ok b) : ∃ a, r = .ok a ∧ f a = b := by
  cases r with
  | error e => cases h
  | ok a => exact ⟨a, rfl, by injection h⟩

/-- a `do let ns ← r; pure (f ns)` block of the model is `Except.map` -/
theorem bind_pure_eq_map {α β} (f : α → β) (r : R α) : (do let a ← r; pure (f a)) = r.map f := by
  cases r <;> rfl

theorem liftAt_ok {α} (d : BDir) (r : Except Msg α) (a : α) (h : liftAt d r = .ok a) : r = .ok a := by
  cases r with
  | error e => cases h
  | ok b => injection h with h; rw [h]

theorem updTag_inters (c : Cat) (n : Bytes) (f : TagM → TagM) : (c.updTag n f).inters = c.inters := rfl

/-- attaching an interaction id to tags does not touch the interactions -/
theorem attachAll_inters (c : Cat) (i : IId) (ns : List Bytes) : (attachAll c i ns).inters = c.inters := by
  induction ns generalizing c with
  | nil => rfl
  | cons n r ih => simp only [attachAll, ih, updTag_inters]

/-! ### the entries of the children of an entry (for `two_tags_never_accepted`) -/

open JSight.C04B in
/-- the entry of a child tree is among the entries of the forest of its siblings -/
theorem kid_head_mem (anc : List Up) : ∀ (kids : List BTree) (t : BTree), t ∈ kids →
    (⟨t.dir, t.kids.map BTree.dir, anc⟩ : Ent) ∈ flatAF anc kids
  | [], _, h => by cases h
  | a :: r, t, h => by
    simp only [flatAF, List.mem_append]
    rcases List.mem_cons.1 h with rfl | h
    · left
      cases t with
      | node d ks => simp [flatA, BTree.dir, BTree.kids]
    · exact Or.inr (kid_head_mem anc r t h)

open JSight.C04B in
mutual
  /-- every child `k` of an entry `m` of a tree has an entry of its own, whose parent is `m` -/
  theorem kid_ent_tree (anc : List Up) : ∀ (t : BTree) (m : Ent), m ∈ flatA anc t → ∀ k ∈ m.kids,
      ∃ e ∈ flatA anc t, e.d = k ∧ e.anc = ⟨m.d, m.kids⟩ :: m.anc
    | .node d kids, m, hm, k, hk => by
      simp only [flatA, List.mem_cons] at hm
      rcases hm with rfl | hm
      · obtain ⟨t, ht, rfl⟩ := List.mem_map.1 hk
        exact ⟨_, by simp only [flatA]; exact List.mem_cons_of_mem _ (kid_head_mem _ kids t ht), rfl, rfl⟩
      · obtain ⟨e, he, h1, h2⟩ := kid_ent_forest _ kids m hm k hk
        exact ⟨e, by simp only [flatA]; exact List.mem_cons_of_mem _ he, h1, h2⟩
  theorem kid_ent_forest (anc : List Up) : ∀ (f : List BTree) (m : Ent), m ∈ flatAF anc f → ∀ k ∈ m.kids,
      ∃ e ∈ flatAF anc f, e.d = k ∧ e.anc = ⟨m.d, m.kids⟩ :: m.anc
    | [], m, hm, _, _ => by simp [flatAF] at hm
    | t :: r, m, hm, k, hk => by
      simp only [flatAF, List.mem_append] at hm ⊢
      rcases hm with hm | hm
      · obtain ⟨e, he, h1, h2⟩ := kid_ent_tree anc t m hm k hk
        exact ⟨e, Or.inl he, h1, h2⟩
      · obtain ⟨e, he, h1, h2⟩ := kid_ent_forest anc r m hm k hk
        exact ⟨e, Or.inr he, h1, h2⟩
end

end JSight.C19B
