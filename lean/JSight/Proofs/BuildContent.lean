import JSight.Model.Build
import JSight.Proofs.BuildFaith
/-!
Helpers of `Props/C04_Content.lean`: the CONTENT of each interaction of the catalog built by `Model/Build.lean`.

Plan: every step of the construction (`C04B.step`) acts on the interaction with a given id `j` as a pure
function `effP e : InterM → Option InterM`, and only when the entry targets `j` (`tgt e = .ok j`).  The entries
below a method directive target the method's own interaction, no entry elsewhere does (the nesting table
`Gen.childAllowed` is needed for that), so the final interaction is the fold of the method's own subtree over
the freshly created interaction; that fold is computed declaratively (`content`).
-/
namespace JSight.C04C
open JSight JSight.Build JSight.Gen JSight.C04B

/-! ### the subtrees of a forest with their ancestors, in source order -/

mutual
  def subs (anc : List Up) : BTree → List (List Up × BTree)
    | .node d kids => (anc, .node d kids) :: subsF (⟨d, kids.map BTree.dir⟩ :: anc) kids
  def subsF (anc : List Up) : List BTree → List (List Up × BTree)
    | [] => []
    | t :: r => subs anc t ++ subsF anc r
end

/-- the entry (`C04B.Ent`) of a subtree occurrence -/
def entOf (p : List Up × BTree) : Ent := ⟨p.2.dir, p.2.kids.map BTree.dir, p.1⟩

/-! ### the nesting table (`directiveAllowedToDirectiveContext`) -/

/-- the same function as `Context.admits` -/
def admitsK (p c : Kind) : Bool :=
  match childAllowed.find? (fun q => q.1 == p) with
  | some (_, cs) => cs.contains c
  | none => false

mutual
  /-- every child is admitted by its parent -/
  def obeysT : BTree → Bool
    | .node d kids => (kids.map BTree.dir).all (fun k => admitsK d.kind k.kind) && obeysF kids
  def obeysF : List BTree → Bool
    | [] => true
    | t :: r => obeysT t && obeysF r
end

/-! ### what the property says: the content of an interaction, read off the children of its method directive -/

def notaOf (d : BDir) : Bytes :=
  match newNotation (d.param "SchemaNotation") with
  | .ok n => n
  | .error _ => []

/-- the body a directive supplies: format and notation of its `SchemaNotation` parameter -/
def bodyM (d : BDir) : BodyM := { format := formatOf (notaOf d), nota := notaOf d }

/-- a Request directive (or a Body under one) supplies the request body -/
def reqSupplies (d : BDir) : Bool :=
  (notaOf d == nJsight && !(d.param "Type").isEmpty && d.body.isNone) ||
  (notaOf d == nJsight && (d.param "Type").isEmpty && d.body.isSome) ||
  (notaOf d == nRegex && (d.param "Type").isEmpty && d.body.isSome) ||
  (isAnyOrEmpty (notaOf d) && d.body.isNone)

/-- a response directive (or a Body under one) supplies the response body -/
def respSupplies (d : BDir) : Bool :=
  !(d.param "Type").isEmpty || d.body.isSome || isAnyOrEmpty (notaOf d)

def hasKind (k : Kind) (kids : List BDir) : Bool := kids.any (·.kind == k)

/-- the body of the first `Body` child -/
def childBody (kids : List BDir) : Option BodyM := (kids.find? (·.kind == .Body)).map bodyM

/-- own `Type` / body / any-empty notation first, else the `Body` child -/
def respBodyOf (resp : BDir) (kids : List BDir) : Option BodyM :=
  if respSupplies resp then some (bodyM resp) else childBody kids

def reqBodyOf (req : BDir) (kids : List BDir) : Option BodyM :=
  if reqSupplies req then some (bodyM req) else childBody kids

def respOf (t : BTree) : RespM :=
  { id := t.dir.id, code := t.dir.keyword, annot := t.dir.annot,
    body := respBodyOf t.dir (t.kids.map BTree.dir), headers := hasKind .Headers (t.kids.map BTree.dir) }

def reqPart (t : BTree) : ReqM :=
  { id := t.dir.id, body := reqBodyOf t.dir (t.kids.map BTree.dir), headers := hasKind .Headers (t.kids.map BTree.dir) }

def descrText (d : BDir) : Option Bytes :=
  match d.body with
  | some b => (match description b with | .ok t => some t | .error _ => none)
  | none => none

def queryM (d : BDir) : QueryM :=
  { format := if (d.param "Format").isEmpty then htmlFormEncoded else d.param "Format", ex := d.param "QueryExample" }

/-- the content of an interaction apart from id, annotation and tags -/
structure Content where
  descr : Option Bytes := none
  query : Option QueryM := none
  request : Option ReqM := none
  responses : List RespM := []
  params : Bool := false
  result : Bool := false
  deriving Repr, DecidableEq

/-- a second Request directive of a method: the first one stays, body and headers are filled in -/
def mergeReq : Option ReqM → Option ReqM → Option ReqM
  | none, b => b
  | some a, none => some a
  | some a, some b => some { id := a.id, body := a.body.or b.body, headers := a.headers || b.headers }

def Content.merge (a b : Content) : Content :=
  { descr := a.descr.or b.descr, query := a.query.or b.query, request := mergeReq a.request b.request,
    responses := a.responses ++ b.responses, params := a.params || b.params, result := a.result || b.result }

/-- what one child of a method directive contributes -/
def kidContent (t : BTree) : Content :=
  match t.dir.kind with
  | .Description => { descr := descrText t.dir }
  | .Query => { query := some (queryM t.dir) }
  | .Request => { request := some (reqPart t) }
  | .HTTPResponseCode => { responses := [respOf t] }
  | .Params => { params := true }
  | .Result => { result := true }
  | _ => {}

def content : List BTree → Content
  | [] => {}
  | t :: r => (kidContent t).merge (content r)

def InterM.add (x : InterM) (k : Content) : InterM :=
  { x with descr := x.descr.or k.descr, query := x.query.or k.query, request := mergeReq x.request k.request,
           responses := x.responses ++ k.responses, params := x.params || k.params, result := x.result || k.result }

/-- the interaction of a method directive `d` with children `kids`, id `i` and tags `ns` -/
def interOf (i : IId) (d : BDir) (ns : List Bytes) (kids : List BTree) : InterM :=
  InterM.add { iid := i, annot := d.annot, tags := ns } (content kids)

/-! ### the construction seen from one interaction -/

/-- what an accepted Description does to its interaction -/
def lDescr (d : BDir) (x : InterM) : Option InterM :=
  match descrText d with
  | none => none
  | some t => if x.descr.isSome then none else some { x with descr := some t }

def lQuery (d : BDir) (x : InterM) : Option InterM :=
  if x.query.isSome then none else some { x with query := some (queryM d) }

def lReqBody (b : BodyM) (x : InterM) : Option InterM :=
  match x.request with
  | none => none
  | some r => if r.body.isSome then none else some { x with request := some { r with body := some b } }

def lReqNew (d : BDir) (x : InterM) : InterM :=
  if x.request.isNone then { x with request := some { id := d.id } } else x

/-- a Request directive or a Body directive under one -/
def lRequest (d : BDir) (x : InterM) : Option InterM :=
  if reqSupplies d then lReqBody (bodyM d) (if d.kind == .Request then lReqNew d x else x)
  else if d.kind == .Body then none
  else some (if d.kind == .Request then lReqNew d x else x)

def lRespBody (b : BodyM) (x : InterM) : Option InterM :=
  match x.responses.getLast? with
  | none => none
  | some r =>
    if r.body.isSome then none
    else some { x with responses := x.responses.dropLast ++ [{ r with body := some b }] }

def lRespNew (d : BDir) (x : InterM) : InterM :=
  { x with responses := x.responses ++ [{ id := d.id, code := d.keyword, annot := d.annot }] }

/-- a response directive or a Body directive under one -/
def lResponse (d : BDir) (x : InterM) : Option InterM :=
  if respSupplies d then lRespBody (bodyM d) (if d.kind == .HTTPResponseCode then lRespNew d x else x)
  else if d.kind == .Body then none
  else some (if d.kind == .HTTPResponseCode then lRespNew d x else x)

def lHeadReq (x : InterM) : Option InterM :=
  match x.request with
  | none => none
  | some r => if r.headers then none else some { x with request := some { r with headers := true } }

def lHeadResp (x : InterM) : Option InterM :=
  match x.responses.getLast? with
  | none => none
  | some r =>
    if r.headers then none
    else some { x with responses := x.responses.dropLast ++ [{ r with headers := true }] }

def lParams (x : InterM) : Option InterM := if x.params then none else some { x with params := true }
def lResult (x : InterM) : Option InterM := if x.result then none else some { x with result := true }

def lHeaders (anc : List Up) (x : InterM) : Option InterM :=
  match anc with
  | p :: _ => if p.d.kind == .Request then lHeadReq x else if p.d.kind == .HTTPResponseCode then lHeadResp x else none
  | [] => none

def lBody (d : BDir) (anc : List Up) (x : InterM) : Option InterM :=
  match anc with
  | p :: _ => if p.d.kind == .Request then lRequest d x else if p.d.kind == .HTTPResponseCode then lResponse d x else some x
  | [] => none

/-- what an accepted step at `e` does to the interaction it targets (`none`: the step is rejected) -/
def effP (e : Ent) (x : InterM) : Option InterM :=
  match e.d.kind with
  | .Description => lDescr e.d x
  | .Query => lQuery e.d x
  | .Request => lRequest e.d x
  | .HTTPResponseCode => lResponse e.d x
  | .Headers => lHeaders e.anc x
  | .Body => lBody e.d e.anc x
  | .Params => lParams x
  | .Result => lResult x
  | _ => some x

/-- the target of a Description -/
def tgtDescr (e : Ent) : Option IId :=
  match e.anc with
  | p :: _ => if isHTTP p.d.kind then (httpIdOf e.chain).toOption
              else if p.d.kind == .Method then (rpcIdOf e.chain).toOption else none
  | [] => none

/-- the interaction an entry acts on -/
def tgt (e : Ent) : Option IId :=
  match e.d.kind with
  | .Description => tgtDescr e
  | .Query | .Request | .HTTPResponseCode | .Headers | .Body => (httpIdOf e.chain).toOption
  | .Params | .Result => (rpcIdOf e.chain).toOption
  | _ => none

/-- the run acts on the interaction `j` as the fold of the entries that target `j` -/
def foldP (j : IId) : List Ent → InterM → Option InterM
  | [], x => some x
  | e :: r, x => if tgt e = some j then (effP e x).bind (foldP j r) else foldP j r x

theorem foldP_append (j : IId) (l₁ l₂ : List Ent) (x : InterM) :
    foldP j (l₁ ++ l₂) x = (foldP j l₁ x).bind (foldP j l₂) := by
  induction l₁ generalizing x with
  | nil => simp [foldP]
  | cons e r ih =>
    simp only [List.cons_append, foldP]
    split
    · cases effP e x with
      | none => rfl
      | some y => simpa using ih y
    · exact ih x

/-! ### `getInter` under `updInter` -/

theorem find?_map_keep {α} (p : α → Bool) (h : α → α) (hp : ∀ x, p (h x) = p x) (l : List α) :
    (l.map h).find? p = (l.find? p).map h := by
  induction l with
  | nil => rfl
  | cons a r ih =>
    simp only [List.map_cons, List.find?_cons, hp]
    cases p a <;> simp [ih]

theorem getInter_iid {c : Cat} {j : IId} {x : InterM} (h : c.getInter j = some x) : x.iid = j := by
  have := List.find?_some h
  simpa using this

theorem getInter_upd (c : Cat) (i : IId) (g : InterM → InterM) (j : IId) (hg : ∀ x, (g x).iid = x.iid) :
    (c.updInter i g).getInter j = (c.getInter j).map (fun x => if j = i then g x else x) := by
  unfold Cat.updInter
  show List.find? _ (c.inters.map _) = _
  rw [find?_map_keep]
  · show (c.getInter j).map _ = _
    cases hx : c.getInter j with
    | none => rfl
    | some x =>
      have hi := getInter_iid hx
      simp only [Option.map_some, hi]
      by_cases hji : j = i <;> simp [hji]
  · intro x
    by_cases hx : (x.iid == i) = true
    · simp [hx, hg]
    · simp [hx]

/-- between `c` and `c'` the interaction `i` changes by `L`, every other one stays -/
def Loc (i : IId) (L : InterM → Option InterM) (c c' : Cat) : Prop :=
  ∀ j x, c.getInter j = some x → ∃ y, c'.getInter j = some y ∧ (if j = i then L x else some x) = some y

theorem Loc.same {c c' : Cat} (i : IId) (h : c'.inters = c.inters) : Loc i some c c' := by
  intro j x hj
  refine ⟨x, ?_, by simp⟩
  simpa [Cat.getInter, h] using hj

theorem Loc.upd {c : Cat} {i : IId} {L : InterM → Option InterM} (g : InterM → InterM)
    (hg : ∀ x, (g x).iid = x.iid) (hL : ∀ x, c.getInter i = some x → L x = some (g x)) :
    Loc i L c (c.updInter i g) := by
  intro j x hj
  rw [getInter_upd c i g j hg, hj]
  by_cases hji : j = i
  · subst hji; exact ⟨g x, by simp, by simp [hL x hj]⟩
  · exact ⟨x, by simp [hji], by simp [hji]⟩

theorem Loc.comp {c c₁ c₂ : Cat} {i : IId} {L₁ L₂ : InterM → Option InterM}
    (h₁ : Loc i L₁ c c₁) (h₂ : Loc i L₂ c₁ c₂) : Loc i (fun x => (L₁ x).bind L₂) c c₂ := by
  intro j x hj
  obtain ⟨y, hy, e₁⟩ := h₁ j x hj
  obtain ⟨z, hz, e₂⟩ := h₂ j y hy
  refine ⟨z, hz, ?_⟩
  by_cases hji : j = i
  · simp only [hji, if_true] at e₁ e₂ ⊢; simp [e₁, e₂]
  · simp only [hji, if_false] at e₁ e₂ ⊢; cases e₁; exact e₂

theorem Loc.mono {c c' : Cat} {i : IId} {L L' : InterM → Option InterM} (h : Loc i L c c')
    (hL : ∀ x y, c.getInter i = some x → L x = some y → L' x = some y) : Loc i L' c c' := by
  intro j x hj
  obtain ⟨y, hy, e⟩ := h j x hj
  refine ⟨y, hy, ?_⟩
  by_cases hji : j = i
  · subst hji; simp only [if_true] at e ⊢; exact hL x y hj e
  · simpa [hji] using e

/-! ### every `add…` function as a local effect -/

theorem ite3 {α} (p q r : Bool) (A B : α) :
    (if p = true then A else if q = true then A else if r = true then A else B) =
      if (p || q || r) = true then A else B := by
  cases p <;> cases q <;> cases r <;> rfl

theorem ite4 {α} (p q r s : Bool) (A B : α) :
    (if p = true then A else if q = true then A else if r = true then A else if s = true then A else B) =
      if (p || q || r || s) = true then A else B := by
  cases p <;> cases q <;> cases r <;> cases s <;> rfl

theorem notaOf_eq {d : BDir} {nt : Bytes} (h : liftAt d (newNotation (d.param "SchemaNotation")) = .ok nt) :
    notaOf d = nt := by
  have := liftAt_ok h
  simp [notaOf, this]

theorem ok_inj {α} {a b : α} (h₁ : (Except.ok a : Except Msg α) = .ok b) : a = b := by cases h₁; rfl

theorem addQuery_loc {d : BDir} {anc : List Up} {c c' : Cat} (h : addQuery d anc c = .ok c') :
    ∃ i, httpIdOf (d :: anc.map (·.d)) = .ok i ∧ Loc i (lQuery d) c c' := by
  unfold addQuery at h
  simp only [fail] at h
  split at h; · cases h
  split at h; · cases h
  obtain ⟨i, hi, h⟩ := C04B.bind_ok h
  split at h; · cases h
  rename_i x hx
  split at h; · cases h
  rename_i hq
  cases h
  refine ⟨i, C04B.liftAt_ok hi, Loc.upd _ (fun _ => rfl) ?_⟩
  intro x' hx'
  rw [hx] at hx'; cases hx'
  simp [lQuery, queryM, hq]

theorem addRequestBody_loc {d : BDir} {anc : List Up} {b : BodyM} {c c' : Cat}
    (h : addRequestBody d anc b c = .ok c') :
    ∃ i, httpIdOf (d :: anc.map (·.d)) = .ok i ∧ Loc i (lReqBody b) c c' := by
  unfold addRequestBody at h
  simp only [fail] at h
  obtain ⟨i, hi, h⟩ := C04B.bind_ok h
  split at h; · cases h
  rename_i x hx
  split at h; · cases h
  rename_i r hr
  split at h; · cases h
  rename_i hb
  cases h
  refine ⟨i, C04B.liftAt_ok hi, Loc.upd _ (fun _ => rfl) ?_⟩
  intro x' hx'
  rw [hx] at hx'; cases hx'
  simp [lReqBody, hr, hb]

theorem addResponseBody_loc {d : BDir} {anc : List Up} {b : BodyM} {c c' : Cat}
    (h : addResponseBody d anc b c = .ok c') :
    ∃ i, httpIdOf (d :: anc.map (·.d)) = .ok i ∧ Loc i (lRespBody b) c c' := by
  unfold addResponseBody at h
  simp only [fail] at h
  obtain ⟨i, hi, h⟩ := C04B.bind_ok h
  split at h; · cases h
  rename_i x hx
  split at h; · cases h
  rename_i r hr
  split at h; · cases h
  rename_i hb
  cases h
  refine ⟨i, C04B.liftAt_ok hi, Loc.upd _ (fun _ => rfl) ?_⟩
  intro x' hx'
  rw [hx] at hx'; cases hx'
  simp [lRespBody, hr, hb]

theorem addRequest_loc {d : BDir} {anc : List Up} {c c' : Cat} (hk : d.kind = .Request ∨ d.kind = .Body)
    (h : addRequest d anc c = .ok c') :
    ∃ i, httpIdOf (d :: anc.map (·.d)) = .ok i ∧ Loc i (lRequest d) c c' := by
  unfold addRequest at h
  simp only [fail] at h
  split at h; · cases h
  split at h; · cases h
  obtain ⟨nt, hnt, h⟩ := C04B.bind_ok h
  have hn := notaOf_eq hnt
  subst hn
  simp only [ite4] at h
  split at h
  · rename_i hkr
    obtain ⟨i, hi, h⟩ := C04B.bind_ok h
    obtain ⟨c₁, h₁, h⟩ := C04B.bind_ok h
    cases h₁
    have hi' := C04B.liftAt_ok hi
    have hc₁ : Loc i (fun x => some (lReqNew d x)) c (c.updInter i (lReqNew d)) :=
      Loc.upd _ (fun x => by unfold lReqNew; split <;> rfl) (fun x _ => rfl)
    split at h
    · rename_i hs
      obtain ⟨i₂, hi₂, hl⟩ := addRequestBody_loc h
      have : i₂ = i := ok_inj (hi₂.symm.trans hi')
      subst this
      refine ⟨i₂, hi', (hc₁.comp hl).mono ?_⟩
      intro x y _ hy
      have hs' : reqSupplies d = true := hs
      simpa [lRequest, hs', hkr, bodyM] using hy
    · split at h; · cases h
      rename_i hs hkb
      cases h
      refine ⟨i, hi', hc₁.mono ?_⟩
      intro x y _ hy
      have hs' : ¬ (reqSupplies d = true) := hs
      simpa [lRequest, hs', hkr, hkb] using hy
  · rename_i hkr
    obtain ⟨c₁, h₁, h⟩ := C04B.bind_ok h
    cases h₁
    have hkb : d.kind = .Body := by
      rcases hk with hk | hk
      · simp [hk] at hkr
      · exact hk
    split at h
    · rename_i hs
      obtain ⟨i, hi, hl⟩ := addRequestBody_loc h
      refine ⟨i, hi, hl.mono ?_⟩
      intro x y _ hy
      have hs' : reqSupplies d = true := hs
      simpa [lRequest, hs', hkb, bodyM] using hy
    · split at h; · cases h
      rename_i _ hnb
      simp [hkb] at hnb

theorem addResponse_loc {d : BDir} {anc : List Up} {c c' : Cat} (hk : d.kind = .HTTPResponseCode ∨ d.kind = .Body)
    (h : addResponse d anc c = .ok c') :
    ∃ i, httpIdOf (d :: anc.map (·.d)) = .ok i ∧ Loc i (lResponse d) c c' := by
  unfold addResponse at h
  simp only [fail] at h
  split at h; · cases h
  obtain ⟨nt, hnt, h⟩ := C04B.bind_ok h
  have hn := notaOf_eq hnt
  subst hn
  generalize (d.kind == Kind.Body && _) = clash at h
  split at h; · cases h
  simp only [ite3] at h
  split at h
  · rename_i hkr
    obtain ⟨i, hi, h⟩ := C04B.bind_ok h
    obtain ⟨c₁, h₁, h⟩ := C04B.bind_ok h
    cases h₁
    have hi' := C04B.liftAt_ok hi
    have hc₁ : Loc i (fun x => some (lRespNew d x)) c (c.updInter i (lRespNew d)) :=
      Loc.upd _ (fun x => rfl) (fun x _ => rfl)
    split at h
    · rename_i hs
      obtain ⟨i₂, hi₂, hl⟩ := addResponseBody_loc h
      have : i₂ = i := ok_inj (hi₂.symm.trans hi')
      subst this
      refine ⟨i₂, hi', (hc₁.comp hl).mono ?_⟩
      intro x y _ hy
      have hs' : respSupplies d = true := hs
      simpa [lResponse, hs', hkr, bodyM] using hy
    · split at h; · cases h
      rename_i hs hkb
      cases h
      refine ⟨i, hi', hc₁.mono ?_⟩
      intro x y _ hy
      have hs' : ¬ (respSupplies d = true) := hs
      simpa [lResponse, hs', hkr, hkb] using hy
  · rename_i hkr
    obtain ⟨c₁, h₁, h⟩ := C04B.bind_ok h
    cases h₁
    have hkb : d.kind = .Body := by
      rcases hk with hk | hk
      · simp [hk] at hkr
      · exact hk
    split at h
    · rename_i hs
      obtain ⟨i, hi, hl⟩ := addResponseBody_loc h
      refine ⟨i, hi, hl.mono ?_⟩
      intro x y _ hy
      have hs' : respSupplies d = true := hs
      simpa [lResponse, hs', hkb, bodyM] using hy
    · split at h; · cases h
      rename_i _ hnb
      simp [hkb] at hnb

end JSight.C04C
