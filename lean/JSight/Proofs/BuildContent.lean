import JSight.Model.Build
import JSight.Proofs.BuildFaith
/-!
Helpers of `Props/C04_Content.lean`: the CONTENT of each interaction of the catalog built by `Model/Build.lean`.

Plan: every step of the construction (`C04B.step`) acts on the interaction with a given id `j` as a pure
function `effP e : InterM → Option InterM`, and only when the entry targets `j` (`tgt e = .ok j`).  The entries
below a method directive target the method's own interaction, no entry elsewhere does (the nesting table
`Gen.childAllowed` is needed for that), so the final interaction is the fold of the method's own subtree over
the freshly created interaction; that fold is computed declaratively (`content`).
-/
namespace JSight.C04C
open JSight JSight.Build JSight.Gen JSight.C04B

/-! ### the subtrees of a forest with their ancestors, in source order -/

mutual
  def subs (anc : List Up) : BTree → List (List Up × BTree)
    | .node d kids => (anc, .node d kids) :: subsF (⟨d, kids.map BTree.dir⟩ :: anc) kids
  def subsF (anc : List Up) : List BTree → List (List Up × BTree)
    | [] => []
    | t :: r => subs anc t ++ subsF anc r
end

/-- the entry (`C04B.Ent`) of a subtree occurrence -/
def entOf (p : List Up × BTree) : Ent := ⟨p.2.dir, p.2.kids.map BTree.dir, p.1⟩

/-! ### the nesting table (`directiveAllowedToDirectiveContext`) -/

/-- the same function as `Context.admits` -/
def admitsK (p c : Kind) : Bool :=
  match childAllowed.find? (fun q => q.1 == p) with
  | some (_, cs) => cs.contains c
  | none => false

mutual
  /-- every child is admitted by its parent -/
  def obeysT : BTree → Bool
    | .node d kids => (kids.map BTree.dir).all (fun k => admitsK d.kind k.kind) && obeysF kids
  def obeysF : List BTree → Bool
    | [] => true
    | t :: r => obeysT t && obeysF r
end

/-! ### what the property says: the content of an interaction, read off the children of its method directive -/

def notaOf (d : BDir) : Bytes :=
  match newNotation (d.param "SchemaNotation") with
  | .ok n => n
  | .error _ => []

/-- the body a directive supplies: format and notation of its `SchemaNotation` parameter -/
def bodyM (d : BDir) : BodyM := { format := formatOf (notaOf d), nota := notaOf d }

/-- a Request directive (or a Body under one) supplies the request body -/
def reqSupplies (d : BDir) : Bool :=
  (notaOf d == nJsight && !(d.param "Type").isEmpty && d.body.isNone) ||
  (notaOf d == nJsight && (d.param "Type").isEmpty && d.body.isSome) ||
  (notaOf d == nRegex && (d.param "Type").isEmpty && d.body.isSome) ||
  (isAnyOrEmpty (notaOf d) && d.body.isNone)

/-- a response directive (or a Body under one) supplies the response body -/
def respSupplies (d : BDir) : Bool :=
  !(d.param "Type").isEmpty || d.body.isSome || isAnyOrEmpty (notaOf d)

def hasKind (k : Kind) (kids : List BDir) : Bool := kids.any (·.kind == k)

/-- the body of the first `Body` child -/
def childBody (kids : List BDir) : Option BodyM := (kids.find? (·.kind == .Body)).map bodyM

/-- own `Type` / body / any-empty notation first, else the `Body` child -/
def respBodyOf (resp : BDir) (kids : List BDir) : Option BodyM :=
  if respSupplies resp then some (bodyM resp) else childBody kids

def reqBodyOf (req : BDir) (kids : List BDir) : Option BodyM :=
  if reqSupplies req then some (bodyM req) else childBody kids

def respOf (t : BTree) : RespM :=
  { id := t.dir.id, code := t.dir.keyword, annot := t.dir.annot,
    body := respBodyOf t.dir (t.kids.map BTree.dir), headers := hasKind .Headers (t.kids.map BTree.dir) }

def reqPart (t : BTree) : ReqM :=
  { id := t.dir.id, body := reqBodyOf t.dir (t.kids.map BTree.dir), headers := hasKind .Headers (t.kids.map BTree.dir) }

def descrText (d : BDir) : Option Bytes :=
  match d.body with
  | some b => (match description b with | .ok t => some t | .error _ => none)
  | none => none

def queryM (d : BDir) : QueryM :=
  { format := if (d.param "Format").isEmpty then htmlFormEncoded else d.param "Format", ex := d.param "QueryExample" }

/-- the content of an interaction apart from id, annotation and tags -/
structure Content where
  descr : Option Bytes := none
  query : Option QueryM := none
  request : Option ReqM := none
  responses : List RespM := []
  params : Bool := false
  result : Bool := false
  deriving Repr, DecidableEq

/-- the request of a method: a method has at most one Request directive (a second one is refused, see
`lReqNew`), so "the first one" is all there is to say -/
def mergeReq (a b : Option ReqM) : Option ReqM := a.or b

def Content.merge (a b : Content) : Content :=
  { descr := a.descr.or b.descr, query := a.query.or b.query, request := mergeReq a.request b.request,
    responses := a.responses ++ b.responses, params := a.params || b.params, result := a.result || b.result }

/-- what one child of a method directive contributes -/
def kidContent (t : BTree) : Content :=
  match t.dir.kind with
  | .Description => { descr := descrText t.dir }
  | .Query => { query := some (queryM t.dir) }
  | .Request => { request := some (reqPart t) }
  | .HTTPResponseCode => { responses := [respOf t] }
  | .Params => { params := true }
  | .Result => { result := true }
  | _ => {}

def content : List BTree → Content
  | [] => {}
  | t :: r => (kidContent t).merge (content r)

def addC (x : InterM) (k : Content) : InterM :=
  { x with descr := x.descr.or k.descr, query := x.query.or k.query, request := mergeReq x.request k.request,
           responses := x.responses ++ k.responses, params := x.params || k.params, result := x.result || k.result }

/-- the interaction of a method directive `d` with children `kids`, id `i` and tags `ns` -/
def interOf (i : IId) (d : BDir) (ns : List Bytes) (kids : List BTree) : InterM :=
  addC { iid := i, annot := d.annot, tags := ns } (content kids)

/-! ### the construction seen from one interaction -/

/-- what an accepted Description does to its interaction -/
def lDescr (d : BDir) (x : InterM) : Option InterM :=
  match descrText d with
  | none => none
  | some t => if x.descr.isSome then none else some { x with descr := some t }

def lQuery (d : BDir) (x : InterM) : Option InterM :=
  if x.query.isSome then none else some { x with query := some (queryM d) }

def lReqBody (b : BodyM) (x : InterM) : Option InterM :=
  match x.request with
  | none => none
  | some r => if r.body.isSome then none else some { x with request := some { r with body := some b } }

/-- a Request directive: refused when the interaction has a request already -/
def lReqNew (d : BDir) (x : InterM) : Option InterM :=
  if x.request.isSome then none else some { x with request := some { id := d.id } }

/-- the body part of a Request directive or of a Body directive under one -/
def lReqTail (d : BDir) (x : InterM) : Option InterM :=
  if reqSupplies d then lReqBody (bodyM d) x
  else if d.kind == .Body then none
  else some x

/-- a Request directive or a Body directive under one -/
def lRequest (d : BDir) (x : InterM) : Option InterM :=
  (if d.kind == .Request then lReqNew d x else some x).bind (lReqTail d)

def lRespBody (b : BodyM) (x : InterM) : Option InterM :=
  match x.responses.getLast? with
  | none => none
  | some r =>
    if r.body.isSome then none
    else some { x with responses := x.responses.dropLast ++ [{ r with body := some b }] }

def lRespNew (d : BDir) (x : InterM) : InterM :=
  { x with responses := x.responses ++ [{ id := d.id, code := d.keyword, annot := d.annot }] }

/-- a response directive or a Body directive under one -/
def lResponse (d : BDir) (x : InterM) : Option InterM :=
  if respSupplies d then lRespBody (bodyM d) (if d.kind == .HTTPResponseCode then lRespNew d x else x)
  else if d.kind == .Body then none
  else some (if d.kind == .HTTPResponseCode then lRespNew d x else x)

def lHeadReq (x : InterM) : Option InterM :=
  match x.request with
  | none => none
  | some r => if r.headers then none else some { x with request := some { r with headers := true } }

def lHeadResp (x : InterM) : Option InterM :=
  match x.responses.getLast? with
  | none => none
  | some r =>
    if r.headers then none
    else some { x with responses := x.responses.dropLast ++ [{ r with headers := true }] }

def lParams (x : InterM) : Option InterM := if x.params then none else some { x with params := true }
def lResult (x : InterM) : Option InterM := if x.result then none else some { x with result := true }

def lHeaders (anc : List Up) (x : InterM) : Option InterM :=
  match anc with
  | p :: _ => if p.d.kind == .Request then lHeadReq x else if p.d.kind == .HTTPResponseCode then lHeadResp x else none
  | [] => none

def lBody (d : BDir) (anc : List Up) (x : InterM) : Option InterM :=
  match anc with
  | p :: _ => if p.d.kind == .Request then lRequest d x else if p.d.kind == .HTTPResponseCode then lResponse d x else some x
  | [] => none

/-- what an accepted step at `e` does to the interaction it targets (`none`: the step is rejected) -/
def effP (e : Ent) (x : InterM) : Option InterM :=
  match e.d.kind with
  | .Description => lDescr e.d x
  | .Query => lQuery e.d x
  | .Request => lRequest e.d x
  | .HTTPResponseCode => lResponse e.d x
  | .Headers => lHeaders e.anc x
  | .Body => lBody e.d e.anc x
  | .Params => lParams x
  | .Result => lResult x
  | _ => some x

/-- the target of a Description -/
def tgtDescr (e : Ent) : Option IId :=
  match e.anc with
  | p :: _ => if isHTTP p.d.kind then (httpIdOf e.chain).toOption
              else if p.d.kind == .Method then (rpcIdOf e.chain).toOption else none
  | [] => none

/-- the interaction an entry acts on -/
def tgt (e : Ent) : Option IId :=
  match e.d.kind with
  | .Description => tgtDescr e
  | .Query | .Request | .HTTPResponseCode | .Headers | .Body => (httpIdOf e.chain).toOption
  | .Params | .Result => (rpcIdOf e.chain).toOption
  | _ => none

/-- the run acts on the interaction `j` as the fold of the entries that target `j` -/
def foldP (j : IId) : List Ent → InterM → Option InterM
  | [], x => some x
  | e :: r, x => if tgt e = some j then (effP e x).bind (foldP j r) else foldP j r x

theorem foldP_append (j : IId) (l₁ l₂ : List Ent) (x : InterM) :
    foldP j (l₁ ++ l₂) x = (foldP j l₁ x).bind (foldP j l₂) := by
  induction l₁ generalizing x with
  | nil => simp [foldP]
  | cons e r ih =>
    simp only [List.cons_append, foldP]
    split
    · cases effP e x with
      | none => rfl
      | some y => simpa using ih y
    · exact ih x

/-! ### `getInter` under `updInter` -/

theorem find?_map_keep {α} (p : α → Bool) (h : α → α) (hp : ∀ x, p (h x) = p x) (l : List α) :
    (l.map h).find? p = (l.find? p).map h := by
  induction l with
  | nil => rfl
  | cons a r ih =>
    simp only [List.map_cons, List.find?_cons, hp]
    cases p a <;> simp [ih]

theorem getInter_iid {c : Cat} {j : IId} {x : InterM} (h : c.getInter j = some x) : x.iid = j := by
  have := List.find?_some h
  simpa using this

theorem getInter_upd (c : Cat) (i : IId) (g : InterM → InterM) (j : IId) (hg : ∀ x, (g x).iid = x.iid) :
    (c.updInter i g).getInter j = (c.getInter j).map (fun x => if j = i then g x else x) := by
  unfold Cat.updInter
  show List.find? _ (c.inters.map _) = _
  rw [find?_map_keep]
  · show (c.getInter j).map _ = _
    cases hx : c.getInter j with
    | none => rfl
    | some x =>
      have hi := getInter_iid hx
      simp only [Option.map_some, hi]
      by_cases hji : j = i <;> simp [hji]
  · intro x
    by_cases hx : (x.iid == i) = true
    · simp [hx, hg]
    · simp [hx]

/-- between `c` and `c'` the interaction `i` changes by `L`, every other one stays -/
def Loc (i : IId) (L : InterM → Option InterM) (c c' : Cat) : Prop :=
  ∀ j x, c.getInter j = some x → ∃ y, c'.getInter j = some y ∧ (if j = i then L x else some x) = some y

theorem Loc.same {c c' : Cat} (i : IId) (h : c'.inters = c.inters) : Loc i some c c' := by
  intro j x hj
  refine ⟨x, ?_, by simp⟩
  simpa [Cat.getInter, h] using hj

theorem Loc.upd {c : Cat} {i : IId} {L : InterM → Option InterM} (g : InterM → InterM)
    (hg : ∀ x, (g x).iid = x.iid) (hL : ∀ x, c.getInter i = some x → L x = some (g x)) :
    Loc i L c (c.updInter i g) := by
  intro j x hj
  rw [getInter_upd c i g j hg, hj]
  by_cases hji : j = i
  · subst hji; exact ⟨g x, by simp, by simp [hL x hj]⟩
  · exact ⟨x, by simp [hji], by simp [hji]⟩

theorem Loc.comp {c c₁ c₂ : Cat} {i : IId} {L₁ L₂ : InterM → Option InterM}
    (h₁ : Loc i L₁ c c₁) (h₂ : Loc i L₂ c₁ c₂) : Loc i (fun x => (L₁ x).bind L₂) c c₂ := by
  intro j x hj
  obtain ⟨y, hy, e₁⟩ := h₁ j x hj
  obtain ⟨z, hz, e₂⟩ := h₂ j y hy
  refine ⟨z, hz, ?_⟩
  by_cases hji : j = i
  · simp only [hji, if_true] at e₁ e₂ ⊢; simp [e₁, e₂]
  · simp only [hji, if_false] at e₁ e₂ ⊢; cases e₁; exact e₂

theorem Loc.mono {c c' : Cat} {i : IId} {L L' : InterM → Option InterM} (h : Loc i L c c')
    (hL : ∀ x y, c.getInter i = some x → L x = some y → L' x = some y) : Loc i L' c c' := by
  intro j x hj
  obtain ⟨y, hy, e⟩ := h j x hj
  refine ⟨y, hy, ?_⟩
  by_cases hji : j = i
  · subst hji; simp only [if_true] at e ⊢; exact hL x y hj e
  · simpa [hji] using e

/-! ### every `add…` function as a local effect -/

theorem ite3 {α} (p q r : Bool) (A B : α) :
    (if p = true then A else if q = true then A else if r = true then A else B) =
      if (p || q || r) = true then A else B := by
  cases p <;> cases q <;> cases r <;> rfl

theorem ite4 {α} (p q r s : Bool) (A B : α) :
    (if p = true then A else if q = true then A else if r = true then A else if s = true then A else B) =
      if (p || q || r || s) = true then A else B := by
  cases p <;> cases q <;> cases r <;> cases s <;> rfl

theorem notaOf_eq {d : BDir} {nt : Bytes} (h : liftAt d (newNotation (d.param "SchemaNotation")) = .ok nt) :
    notaOf d = nt := by
  have := liftAt_ok h
  simp [notaOf, this]

theorem ok_inj {α} {a b : α} (h₁ : (Except.ok a : Except Msg α) = .ok b) : a = b := by cases h₁; rfl

theorem addQuery_loc {d : BDir} {anc : List Up} {c c' : Cat} (h : addQuery d anc c = .ok c') :
    ∃ i, httpIdOf (d :: anc.map (·.d)) = .ok i ∧ Loc i (lQuery d) c c' := by
  unfold addQuery at h
  simp only [fail] at h
  split at h; · cases h
  split at h; · cases h
  obtain ⟨i, hi, h⟩ := C04B.bind_ok h
  split at h; · cases h
  rename_i x hx
  split at h; · cases h
  rename_i hq
  cases h
  refine ⟨i, C04B.liftAt_ok hi, Loc.upd _ (fun _ => rfl) ?_⟩
  intro x' hx'
  rw [hx] at hx'; cases hx'
  simp [lQuery, queryM, hq]

theorem addRequestBody_loc {d : BDir} {anc : List Up} {b : BodyM} {c c' : Cat}
    (h : addRequestBody d anc b c = .ok c') :
    ∃ i, httpIdOf (d :: anc.map (·.d)) = .ok i ∧ Loc i (lReqBody b) c c' := by
  unfold addRequestBody at h
  simp only [fail] at h
  obtain ⟨i, hi, h⟩ := C04B.bind_ok h
  split at h; · cases h
  rename_i x hx
  split at h; · cases h
  rename_i r hr
  split at h; · cases h
  rename_i hb
  cases h
  refine ⟨i, C04B.liftAt_ok hi, Loc.upd _ (fun _ => rfl) ?_⟩
  intro x' hx'
  rw [hx] at hx'; cases hx'
  simp [lReqBody, hr, hb]

theorem addResponseBody_loc {d : BDir} {anc : List Up} {b : BodyM} {c c' : Cat}
    (h : addResponseBody d anc b c = .ok c') :
    ∃ i, httpIdOf (d :: anc.map (·.d)) = .ok i ∧ Loc i (lRespBody b) c c' := by
  unfold addResponseBody at h
  simp only [fail] at h
  obtain ⟨i, hi, h⟩ := C04B.bind_ok h
  split at h; · cases h
  rename_i x hx
  split at h; · cases h
  rename_i r hr
  split at h; · cases h
  rename_i hb
  cases h
  refine ⟨i, C04B.liftAt_ok hi, Loc.upd _ (fun _ => rfl) ?_⟩
  intro x' hx'
  rw [hx] at hx'; cases hx'
  simp [lRespBody, hr, hb]

theorem Loc.none {c : Cat} (i : IId) (L : InterM → Option InterM) (h : c.getInter i = none) : Loc i L c c := by
  intro j x hj
  refine ⟨x, hj, ?_⟩
  by_cases hji : j = i
  · subst hji; rw [h] at hj; cases hj
  · simp [hji]

/-- the part of `addRequest` after the Request directive itself is registered -/
theorem addRequest_tail_loc {d : BDir} {anc : List Up} {c c₁ c' : Cat} {i : IId} {L₁ : InterM → Option InterM}
    {kb : Bool} {m : Msg} (hi' : httpIdOf (d :: anc.map (·.d)) = .ok i) (hc₁ : Loc i L₁ c c₁)
    (hkb : kb = (d.kind == .Body))
    (h : (if reqSupplies d = true then addRequestBody d anc (bodyM d) c₁
          else if kb = true then (.error ⟨d.id, m⟩ : R Cat) else pure c₁) = .ok c') :
    Loc i (fun x => (L₁ x).bind (lReqTail d)) c c' := by
  subst hkb
  split at h
  · rename_i hs
    obtain ⟨i₂, hi₂, hl⟩ := addRequestBody_loc h
    have : i₂ = i := ok_inj (hi₂.symm.trans hi')
    subst this
    refine (hc₁.comp hl).mono ?_
    intro x y _ hy
    cases hx : L₁ x with
    | none => simp [hx] at hy
    | some x₁ => simpa [hx, lReqTail, hs] using hy
  · rename_i hs
    split at h; · cases h
    rename_i hk
    cases h
    refine hc₁.mono ?_
    intro x y _ hy
    simp [hy, lReqTail, hs, hk]

theorem addRequest_loc {d : BDir} {anc : List Up} {c c' : Cat} (hk : d.kind = .Request ∨ d.kind = .Body)
    (h : addRequest d anc c = .ok c') :
    ∃ i, httpIdOf (d :: anc.map (·.d)) = .ok i ∧ Loc i (lRequest d) c c' := by
  unfold addRequest at h
  simp only [fail] at h
  split at h; · cases h
  split at h; · cases h
  obtain ⟨nt, hnt, h⟩ := C04B.bind_ok h
  have hn := notaOf_eq hnt
  subst hn
  simp only [ite4] at h
  have hbm : ({ format := formatOf (notaOf d), nota := notaOf d } : BodyM) = bodyM d := rfl
  simp only [hbm] at h
  split at h
  · rename_i hkr
    obtain ⟨i, hi, h⟩ := C04B.bind_ok h
    have hi' := C04B.liftAt_ok hi
    have hmono : ∀ x y, (lReqNew d x).bind (lReqTail d) = some y → lRequest d x = some y := by
      intro x y hy
      simpa [lRequest, hkr] using hy
    split at h
    · rename_i x hx
      split at h
      · -- a second Request directive of one method: refused
        obtain ⟨c₁, h₁, _⟩ := C04B.bind_ok h
        cases h₁
      · rename_i hreq
        obtain ⟨c₁, h₁, h⟩ := C04B.bind_ok h
        cases h₁
        have hc₁ : Loc i (lReqNew d) c (c.updInter i fun x => { x with request := some { id := d.id } }) := by
          refine Loc.upd _ (fun _ => rfl) ?_
          intro x' hx'
          rw [hx] at hx'; cases hx'
          simp [lReqNew, hreq]
        exact ⟨i, hi', (addRequest_tail_loc hi' hc₁ rfl h).mono (fun x y _ hy => hmono x y hy)⟩
    · rename_i hx
      obtain ⟨c₁, h₁, h⟩ := C04B.bind_ok h
      cases h₁
      exact ⟨i, hi', (addRequest_tail_loc hi' (Loc.none i (lReqNew d) hx) rfl h).mono (fun x y _ hy => hmono x y hy)⟩
  · rename_i hkr
    obtain ⟨c₁, h₁, h⟩ := C04B.bind_ok h
    cases h₁
    have hkb : d.kind = .Body := by
      rcases hk with hk | hk
      · simp [hk] at hkr
      · exact hk
    split at h
    · rename_i hs
      obtain ⟨i, hi, hl⟩ := addRequestBody_loc h
      refine ⟨i, hi, hl.mono ?_⟩
      intro x y _ hy
      have hs' : reqSupplies d = true := hs
      simpa [lRequest, lReqTail, hs', hkb] using hy
    · split at h; · cases h
      rename_i _ hnb
      simp [hkb] at hnb

theorem addResponse_loc {d : BDir} {anc : List Up} {c c' : Cat} (hk : d.kind = .HTTPResponseCode ∨ d.kind = .Body)
    (h : addResponse d anc c = .ok c') :
    ∃ i, httpIdOf (d :: anc.map (·.d)) = .ok i ∧ Loc i (lResponse d) c c' := by
  unfold addResponse at h
  simp only [fail] at h
  split at h; · cases h
  split at h; · cases h
  obtain ⟨nt, hnt, h⟩ := C04B.bind_ok h
  have hn := notaOf_eq hnt
  subst hn
  generalize (d.kind == Kind.Body && _) = clash at h
  split at h; · cases h
  simp only [ite3] at h
  split at h
  · rename_i hkr
    obtain ⟨i, hi, h⟩ := C04B.bind_ok h
    obtain ⟨c₁, h₁, h⟩ := C04B.bind_ok h
    cases h₁
    have hi' := C04B.liftAt_ok hi
    have hc₁ : Loc i (fun x => some (lRespNew d x)) c (c.updInter i (lRespNew d)) :=
      Loc.upd _ (fun x => rfl) (fun x _ => rfl)
    split at h
    · rename_i hs
      obtain ⟨i₂, hi₂, hl⟩ := addResponseBody_loc h
      have : i₂ = i := ok_inj (hi₂.symm.trans hi')
      subst this
      refine ⟨i₂, hi', (hc₁.comp hl).mono ?_⟩
      intro x y _ hy
      have hs' : respSupplies d = true := hs
      simpa [lResponse, hs', hkr, bodyM] using hy
    · split at h; · cases h
      rename_i hs hkb
      cases h
      refine ⟨i, hi', hc₁.mono ?_⟩
      intro x y _ hy
      have hs' : ¬ (respSupplies d = true) := hs
      simpa [lResponse, hs', hkr, hkb] using hy
  · rename_i hkr
    obtain ⟨c₁, h₁, h⟩ := C04B.bind_ok h
    cases h₁
    have hkb : d.kind = .Body := by
      rcases hk with hk | hk
      · simp [hk] at hkr
      · exact hk
    split at h
    · rename_i hs
      obtain ⟨i, hi, hl⟩ := addResponseBody_loc h
      refine ⟨i, hi, hl.mono ?_⟩
      intro x y _ hy
      have hs' : respSupplies d = true := hs
      simpa [lResponse, hs', hkb, bodyM] using hy
    · split at h; · cases h
      rename_i _ hnb
      simp [hkb] at hnb

theorem addHeaders_loc {d : BDir} {anc : List Up} {c c' : Cat} (h : addHeaders d anc c = .ok c') :
    ∃ i, httpIdOf (d :: anc.map (·.d)) = .ok i ∧ Loc i (lHeaders anc) c c' := by
  unfold addHeaders at h
  simp only [fail] at h
  split at h; · cases h
  split at h; · cases h
  split at h; · cases h
  rename_i p r
  split at h
  · rename_i hp
    obtain ⟨i, hi, h⟩ := C04B.bind_ok h
    split at h; · cases h
    rename_i x hx
    split at h; · cases h
    rename_i q hq
    split at h; · cases h
    rename_i hh
    cases h
    refine ⟨i, C04B.liftAt_ok hi, Loc.upd _ (fun _ => rfl) ?_⟩
    intro x' hx'
    rw [hx] at hx'; cases hx'
    simp [lHeaders, hp, lHeadReq, hq, hh]
  rename_i hp
  split at h
  · rename_i hp2
    obtain ⟨i, hi, h⟩ := C04B.bind_ok h
    split at h; · cases h
    rename_i x hx
    split at h; · cases h
    rename_i q hq
    split at h; · cases h
    rename_i hh
    cases h
    refine ⟨i, C04B.liftAt_ok hi, Loc.upd _ (fun _ => rfl) ?_⟩
    intro x' hx'
    rw [hx] at hx'; cases hx'
    simp [lHeaders, hp, hp2, lHeadResp, hq, hh]
  · cases h

theorem addBody_loc {d : BDir} {anc : List Up} {c c' : Cat} (hk : d.kind = .Body) (h : addBody d anc c = .ok c') :
    (∃ i, httpIdOf (d :: anc.map (·.d)) = .ok i ∧ Loc i (lBody d anc) c c') ∨
      (c' = c ∧ ∀ x, lBody d anc x = some x) := by
  unfold addBody at h
  simp only [fail] at h
  split at h; · cases h
  rename_i p r
  split at h; · cases h
  split at h
  · rename_i hp
    obtain ⟨i, hi, hl⟩ := addRequest_loc (.inr hk) h
    exact .inl ⟨i, hi, hl.mono (fun x y _ hy => by simpa [lBody, hp] using hy)⟩
  rename_i hp
  split at h
  · rename_i hp2
    obtain ⟨i, hi, hl⟩ := addResponse_loc (.inr hk) h
    exact .inl ⟨i, hi, hl.mono (fun x y _ hy => by simpa [lBody, hp, hp2] using hy)⟩
  · rename_i hp2
    cases h
    exact .inr ⟨rfl, fun x => by simp [lBody, hp, hp2]⟩

theorem addRpcSchema_loc {p : Bool} {d : BDir} {anc : List Up} {c c' : Cat} (h : addRpcSchema p d anc c = .ok c') :
    ∃ i, rpcIdOf (d :: anc.map (·.d)) = .ok i ∧ Loc i (if p then lParams else lResult) c c' := by
  unfold addRpcSchema at h
  simp only [fail] at h
  split at h; · cases h
  split at h; · cases h
  obtain ⟨i, hi, h⟩ := C04B.bind_ok h
  split at h; · cases h
  rename_i x hx
  split at h
  · rename_i hp
    split at h; · cases h
    rename_i hh
    cases h
    refine ⟨i, C04B.liftAt_ok hi, Loc.upd _ (fun _ => rfl) ?_⟩
    intro x' hx'
    rw [hx] at hx'; cases hx'
    simp [hp, lParams, hh]
  · rename_i hp
    split at h; · cases h
    rename_i hh
    cases h
    refine ⟨i, C04B.liftAt_ok hi, Loc.upd _ (fun _ => rfl) ?_⟩
    intro x' hx'
    rw [hx] at hx'; cases hx'
    simp [hp, lResult, hh]

theorem addDescription_loc {d : BDir} {kids : List BDir} {anc : List Up} {c c' : Cat}
    (h : addDescription d anc c = .ok c') :
    (∃ i, tgtDescr ⟨d, kids, anc⟩ = some i ∧ Loc i (lDescr d) c c') ∨
      (c'.inters = c.inters ∧ tgtDescr ⟨d, kids, anc⟩ = none) := by
  unfold addDescription at h
  simp only [fail] at h
  split at h; · cases h
  split at h; · cases h
  rename_i b hb
  split at h; · cases h
  rename_i text htext
  have hdt : descrText d = some text := by simp [descrText, hb, htext]
  split at h; · cases h
  split at h; · cases h
  rename_i p r
  split at h
  · rename_i hp
    have hp' : p.d.kind = .Info := by simpa using hp
    split at h; · cases h
    split at h; · cases h
    cases h
    exact .inr ⟨rfl, by simp [tgtDescr, hp', isHTTP, httpMethods]⟩
  rename_i hp
  split at h
  · rename_i hp2
    obtain ⟨i, hi, h⟩ := C04B.bind_ok h
    split at h; · cases h
    rename_i x hx
    split at h; · cases h
    rename_i hh
    cases h
    have hi' := C04B.liftAt_ok hi
    simp only [List.map_cons] at hi'
    refine .inl ⟨i, by simp [tgtDescr, hp2, Ent.chain, hi', Except.toOption], Loc.upd _ (fun _ => rfl) ?_⟩
    intro x' hx'
    rw [hx] at hx'; cases hx'
    simp [lDescr, hdt, hh]
  rename_i hp2
  split at h
  · rename_i hp3
    obtain ⟨i, hi, h⟩ := C04B.bind_ok h
    split at h; · cases h
    rename_i x hx
    split at h; · cases h
    rename_i hh
    cases h
    have hi' := C04B.liftAt_ok hi
    simp only [List.map_cons] at hi'
    refine .inl ⟨i, by simp [tgtDescr, hp2, hp3, Ent.chain, hi', Except.toOption], Loc.upd _ (fun _ => rfl) ?_⟩
    intro x' hx'
    rw [hx] at hx'; cases hx'
    simp [lDescr, hdt, hh]
  rename_i hp3
  split at h
  · split at h; · cases h
    split at h; · cases h
    cases h
    exact .inr ⟨rfl, by simp [tgtDescr, hp2, hp3]⟩
  · cases h

/-! ### one step, seen from the interaction `j` -/

theorem Loc.at' {c c' : Cat} {i : IId} {L : InterM → Option InterM} {t : Option IId} (h : Loc i L c c')
    (ht : t = some i) {j : IId} {x : InterM} (hj : c.getInter j = some x) :
    ∃ y, c'.getInter j = some y ∧ (if t = some j then L x else some x) = some y := by
  subst ht
  obtain ⟨y, hy, e⟩ := h j x hj
  refine ⟨y, hy, ?_⟩
  by_cases hji : j = i
  · subst hji; simpa using e
  · have : ¬ (some i = some j) := fun h => hji (by cases h; rfl)
    simpa [hji, this] using e

theorem keep_same {c c' : Cat} (hc : c'.inters = c.inters) {j : IId} {x : InterM} (hj : c.getInter j = some x) :
    c'.getInter j = some x := by
  simpa [Cat.getInter, hc] using hj

theorem toOption_ok {α} {e : Except Msg α} {a : α} (h : e = .ok a) : e.toOption = some a := by
  subst h; rfl

theorem toOption_some {α} {e : Except Msg α} {a : α} (h : e.toOption = some a) : e = .ok a := by
  cases e with
  | error m => cases h
  | ok b => cases h; rfl

theorem stepR_inters {e : Ent} {c c' : Cat} (h : StepR e c c') (hm : isMeth e.d.kind = false)
    (hn : neutral e.d.kind = false) : c'.inters = c.inters := by
  cases h
  case method hm' _ _ _ _ => rw [hm] at hm'; cases hm'
  case same hn' => rw [hn] at hn'; try cases hn'
  case inters hn' _ => rw [hn] at hn'; try cases hn'
  case tagsMap hn' _ => rw [hn] at hn'; try cases hn'
  case proto hn' => rw [hn] at hn'; try cases hn'
  all_goals rfl

/-- a method directive creates its interaction, which did not exist before -/
theorem step_meth {banned : List Kind} {e : Ent} {c c' : Cat} (hm : isMeth e.d.kind = true)
    (h : step banned e c = .ok c') :
    ∃ i ns, idOf e = .ok i ∧ c.getInter i = none ∧
      c'.inters = c.inters ++ [{ iid := i, annot := e.d.annot, tags := ns }] := by
  have hs := (step_ok h).2
  cases hs
  case method sim i ns extra g _ hi hh _ _ =>
    exact ⟨i, ns, hi, by simpa [Cat.hasInter, Cat.getInter] using hh, rfl⟩
  case same hn => rw [(neutral_facts hn).2.2.1] at hm; cases hm
  case inters hn _ => rw [(neutral_facts hn).2.2.1] at hm; cases hm
  case tagsMap hn _ => rw [(neutral_facts hn).2.2.1] at hm; cases hm
  case proto hn => rw [(neutral_facts hn).2.2.1] at hm; cases hm
  all_goals simp_all [isMeth, isHTTP, httpMethods]

theorem keep_append {c c' : Cat} {a : InterM} (hc : c'.inters = c.inters ++ [a]) {j : IId} {x : InterM}
    (hj : c.getInter j = some x) : c'.getInter j = some x := by
  simp only [Cat.getInter] at hj ⊢
  rw [hc, List.find?_append, hj]; rfl

theorem step_loc {banned : List Kind} {e : Ent} {c c' : Cat} (h : step banned e c = .ok c') {j : IId} {x : InterM}
    (hj : c.getInter j = some x) :
    ∃ y, c'.getInter j = some y ∧ (if tgt e = some j then effP e x else some x) = some y := by
  obtain ⟨d, kids, anc⟩ := e
  have hs := (step_ok h).2
  have hmeth : ∀ {k}, d.kind = k → isMeth k = true → tgt ⟨d, kids, anc⟩ = none →
      ∃ y, c'.getInter j = some y ∧ (if tgt ⟨d, kids, anc⟩ = some j then effP ⟨d, kids, anc⟩ x else some x) = some y := by
    intro k hk hm ht
    obtain ⟨i, ns, _, _, hc⟩ := step_meth (e := ⟨d, kids, anc⟩) (by simpa [hk] using hm) h
    exact ⟨x, keep_append hc hj, by simp [ht]⟩
  have hplain : ∀ {k}, d.kind = k → isMeth k = false → neutral k = false → tgt ⟨d, kids, anc⟩ = none →
      ∃ y, c'.getInter j = some y ∧ (if tgt ⟨d, kids, anc⟩ = some j then effP ⟨d, kids, anc⟩ x else some x) = some y := by
    intro k hk hm hn ht
    have hc := stepR_inters hs (by simpa [hk] using hm) (by simpa [hk] using hn)
    exact ⟨x, keep_same hc hj, by simp [ht]⟩
  unfold step addDirective at h
  simp only [fail] at h
  split at h; · cases h
  split at h
  · rename_i hk; exact hplain hk rfl rfl (by simp [tgt, hk])
  · rename_i hk; exact hplain hk rfl rfl (by simp [tgt, hk])
  · rename_i hk; exact hplain hk rfl rfl (by simp [tgt, hk])
  · rename_i hk; exact hplain hk rfl rfl (by simp [tgt, hk])
  · rename_i hk
    rcases addDescription_loc (kids := kids) h with ⟨i, hi, hl⟩ | ⟨hc, ht⟩
    · simpa [tgt, effP, hk] using hl.at' hi hj
    · exact ⟨x, keep_same hc hj, by simp [tgt, hk, ht]⟩
  · rename_i hk; exact hplain hk rfl rfl (by simp [tgt, hk])
  · rename_i hk; exact hplain hk rfl rfl (by simp [tgt, hk])
  · rename_i hk; exact hplain hk rfl rfl (by simp [tgt, hk])
  · rename_i hk; exact hplain hk rfl rfl (by simp [tgt, hk])
  · rename_i hk; exact hmeth hk rfl (by simp [tgt, hk])
  · rename_i hk; exact hmeth hk rfl (by simp [tgt, hk])
  · rename_i hk; exact hmeth hk rfl (by simp [tgt, hk])
  · rename_i hk; exact hmeth hk rfl (by simp [tgt, hk])
  · rename_i hk; exact hmeth hk rfl (by simp [tgt, hk])
  · rename_i hk
    obtain ⟨i, hi, hl⟩ := addQuery_loc h
    simpa [tgt, effP, hk] using hl.at' (t := tgt ⟨d, kids, anc⟩) (by simp [tgt, hk, Ent.chain, toOption_ok hi]) hj
  · rename_i hk
    obtain ⟨i, hi, hl⟩ := addRequest_loc (.inl hk) h
    simpa [tgt, effP, hk] using hl.at' (t := tgt ⟨d, kids, anc⟩) (by simp [tgt, hk, Ent.chain, toOption_ok hi]) hj
  · rename_i hk
    obtain ⟨i, hi, hl⟩ := addResponse_loc (.inl hk) h
    simpa [tgt, effP, hk] using hl.at' (t := tgt ⟨d, kids, anc⟩) (by simp [tgt, hk, Ent.chain, toOption_ok hi]) hj
  · rename_i hk
    obtain ⟨i, hi, hl⟩ := addHeaders_loc h
    simpa [tgt, effP, hk] using hl.at' (t := tgt ⟨d, kids, anc⟩) (by simp [tgt, hk, Ent.chain, toOption_ok hi]) hj
  · rename_i hk
    rcases addBody_loc hk h with ⟨i, hi, hl⟩ | ⟨hc, hL⟩
    · simpa [tgt, effP, hk] using hl.at' (t := tgt ⟨d, kids, anc⟩) (by simp [tgt, hk, Ent.chain, toOption_ok hi]) hj
    · subst hc
      exact ⟨x, hj, by simp [effP, hk, hL]⟩
  · rename_i hk
    unfold addProtocol at h
    peel h
    cases h
    exact ⟨x, keep_same rfl hj, by simp [tgt, hk]⟩
  · rename_i hk; exact hmeth hk rfl (by simp [tgt, hk])
  · rename_i hk
    obtain ⟨i, hi, hl⟩ := addRpcSchema_loc h
    simpa [tgt, effP, hk] using hl.at' (t := tgt ⟨d, kids, anc⟩) (by simp [tgt, hk, Ent.chain, toOption_ok hi]) hj
  · rename_i hk
    obtain ⟨i, hi, hl⟩ := addRpcSchema_loc h
    simpa [tgt, effP, hk] using hl.at' (t := tgt ⟨d, kids, anc⟩) (by simp [tgt, hk, Ent.chain, toOption_ok hi]) hj
  · rename_i hk
    rw [addTags_ok h]
    exact ⟨x, hj, by simp [tgt, hk]⟩
  · cases h
    refine ⟨x, hj, ?_⟩
    cases hkk : d.kind <;> simp_all [tgt]

/-! ### a run, seen from the interaction `j` -/

theorem run_loc {banned : List Kind} : ∀ (l : List Ent) {c c' : Cat} {j : IId} {x : InterM},
    run banned l c = .ok c' → c.getInter j = some x → ∃ y, c'.getInter j = some y ∧ foldP j l x = some y
  | [], c, c', j, x, h, hj => by
    simp [run] at h; subst h; exact ⟨x, hj, rfl⟩
  | e :: r, c, c', j, x, h, hj => by
    simp only [run] at h
    cases hs : step banned e c with
    | error err => simp [hs] at h
    | ok c₁ =>
      simp only [hs] at h
      obtain ⟨y, hy, e₁⟩ := step_loc hs hj
      obtain ⟨z, hz, e₂⟩ := run_loc r h hy
      refine ⟨z, hz, ?_⟩
      simp only [foldP]
      split
      · rename_i ht
        simp only [ht, if_true] at e₁
        simp [e₁, e₂]
      · rename_i ht
        simp only [ht, if_false] at e₁
        cases e₁; exact e₂

/-- once the interaction `i` exists, no later method directive has the id `i` -/
theorem run_no_meth {banned : List Kind} : ∀ (l : List Ent) {c c' : Cat} {i : IId} {x : InterM},
    run banned l c = .ok c' → c.getInter i = some x → ∀ m ∈ l, isMeth m.d.kind = true → idOf m ≠ .ok i
  | [], _, _, _, _, _, _, m, hm, _ => by cases hm
  | e :: r, c, c', i, x, h, hi, m, hm, hk => by
    simp only [run] at h
    cases hs : step banned e c with
    | error err => simp [hs] at h
    | ok c₁ =>
      simp only [hs] at h
      cases hm with
      | head =>
        obtain ⟨i', _, hid, hnone, _⟩ := step_meth hk hs
        intro heq
        rw [hid] at heq
        cases heq
        rw [hi] at hnone; cases hnone
      | tail _ hm' =>
        obtain ⟨y, hy, _⟩ := step_loc (j := i) hs hi
        exact run_no_meth r h hy m hm' hk

theorem foldP_skip (j : IId) : ∀ (l : List Ent) (x : InterM), (∀ e ∈ l, tgt e ≠ some j) → foldP j l x = some x
  | [], _, _ => rfl
  | e :: r, x, h => by
    simp only [foldP, h e (List.mem_cons_self ..), if_false]
    exact foldP_skip j r x (fun e' he' => h e' (List.mem_cons_of_mem _ he'))

/-! ### the shape of the forest -/

mutual
  theorem flatA_subs (anc : List Up) : ∀ t : BTree, flatA anc t = (subs anc t).map entOf
    | .node d kids => by simp [flatA, subs, entOf, BTree.dir, BTree.kids, flatAF_subs _ kids]
  theorem flatAF_subs (anc : List Up) : ∀ f : List BTree, flatAF anc f = (subsF anc f).map entOf
    | [] => by simp [flatAF, subsF]
    | t :: r => by simp [flatAF, subsF, flatA_subs anc t, flatAF_subs anc r]
end

mutual
  theorem mem_flatA_anc (anc : List Up) : ∀ (t : BTree) (e : Ent), e ∈ flatA anc t →
      ∃ ups, e.anc = ups ++ anc ∧ (∀ u ∈ ups, u.d ∈ flat t) ∧ e.d ∈ flat t
    | .node d kids, e, he => by
      simp only [flatA, List.mem_cons] at he
      rcases he with rfl | he
      · exact ⟨[], rfl, by simp, by simp [flat]⟩
      · obtain ⟨ups, h1, h2, h3⟩ := mem_flatAF_anc _ kids e he
        refine ⟨ups ++ [⟨d, kids.map BTree.dir⟩], by simp [h1], ?_, ?_⟩
        · intro u hu
          simp only [List.mem_append, List.mem_singleton] at hu
          rcases hu with hu | rfl
          · simp [flat, h2 u hu]
          · simp [flat]
        · simp [flat, h3]
  theorem mem_flatAF_anc (anc : List Up) : ∀ (f : List BTree) (e : Ent), e ∈ flatAF anc f →
      ∃ ups, e.anc = ups ++ anc ∧ (∀ u ∈ ups, u.d ∈ flatF f) ∧ e.d ∈ flatF f
    | [], e, he => by simp [flatAF] at he
    | t :: r, e, he => by
      simp only [flatAF, List.mem_append] at he
      rcases he with he | he
      · obtain ⟨ups, h1, h2, h3⟩ := mem_flatA_anc anc t e he
        exact ⟨ups, h1, fun u hu => by simp [flatF, h2 u hu], by simp [flatF, h3]⟩
      · obtain ⟨ups, h1, h2, h3⟩ := mem_flatAF_anc anc r e he
        exact ⟨ups, h1, fun u hu => by simp [flatF, h2 u hu], by simp [flatF, h3]⟩
end

/-- the kinds that occur below a method directive -/
def inner (k : Kind) : Bool :=
  [Kind.Description, .Request, .HTTPResponseCode, .Path, .Query, .Paste, .Tags, .Body, .Headers, .Params, .Result].contains k

theorem inner_closed (p c : Kind) : (isMeth p || inner p) = true → admitsK p c = true → inner c = true := by
  cases p <;> cases c <;> decide

theorem inner_facts {k : Kind} (h : inner k = true) :
    (k == Kind.URL) = false ∧ isHTTP k = false ∧ (k == Kind.Method) = false ∧ isMeth k = false := by
  cases k <;> first | (cases h; done) | decide

mutual
  theorem inner_flat (p : Kind) (hp : (isMeth p || inner p) = true) : ∀ t : BTree, obeysT t = true →
      admitsK p t.dir.kind = true → ∀ d ∈ flat t, inner d.kind = true
    | .node d kids, ho, ha, d', hd' => by
      simp only [obeysT, Bool.and_eq_true, List.all_eq_true] at ho
      have hin : inner d.kind = true := inner_closed p d.kind hp ha
      simp only [flat, List.mem_cons] at hd'
      rcases hd' with rfl | hd'
      · exact hin
      · exact inner_flatF d.kind (by simp [hin]) kids ho.2
          (fun k hk => ho.1 k.dir (List.mem_map_of_mem hk)) d' hd'
  theorem inner_flatF (p : Kind) (hp : (isMeth p || inner p) = true) : ∀ f : List BTree, obeysF f = true →
      (∀ k ∈ f, admitsK p k.dir.kind = true) → ∀ d ∈ flatF f, inner d.kind = true
    | [], _, _, d, hd => by simp [flatF] at hd
    | t :: r, ho, ha, d, hd => by
      simp only [obeysF, Bool.and_eq_true] at ho
      simp only [flatF, List.mem_append] at hd
      rcases hd with hd | hd
      · exact inner_flat p hp t ho.1 (ha t (List.mem_cons_self ..)) d hd
      · exact inner_flatF p hp r ho.2 (fun k hk => ha k (List.mem_cons_of_mem _ hk)) d hd
end

/-! ### the id an entry below a method directive resolves to -/

theorem httpIdOf_skip {d : BDir} {r : List BDir} (h : inner d.kind = true) : httpIdOf (d :: r) = httpIdOf r := by
  obtain ⟨h1, h2, _, _⟩ := inner_facts h
  simp [httpIdOf, pathChain, methodChain, h1, h2]

theorem rpcIdOf_skip {d : BDir} {r : List BDir} (h : inner d.kind = true) : rpcIdOf (d :: r) = rpcIdOf r := by
  obtain ⟨h1, h2, h3, _⟩ := inner_facts h
  simp [rpcIdOf, pathChain, rpcNameChain, h1, h2, h3]

theorem httpIdOf_skips (ch : List BDir) : ∀ ps : List BDir, (∀ d ∈ ps, inner d.kind = true) →
    httpIdOf (ps ++ ch) = httpIdOf ch
  | [], _ => rfl
  | d :: r, h => by
    rw [List.cons_append, httpIdOf_skip (h d (List.mem_cons_self ..))]
    exact httpIdOf_skips ch r (fun d' hd' => h d' (List.mem_cons_of_mem _ hd'))

theorem rpcIdOf_skips (ch : List BDir) : ∀ ps : List BDir, (∀ d ∈ ps, inner d.kind = true) →
    rpcIdOf (ps ++ ch) = rpcIdOf ch
  | [], _ => rfl
  | d :: r, h => by
    rw [List.cons_append, rpcIdOf_skip (h d (List.mem_cons_self ..))]
    exact rpcIdOf_skips ch r (fun d' hd' => h d' (List.mem_cons_of_mem _ hd'))

theorem methodChain_none : ∀ ch : List BDir, (∀ d ∈ ch, isHTTP d.kind = false) →
    methodChain ch = .error .httpMethodNotFound
  | [], _ => rfl
  | d :: r, h => by
    simp only [methodChain, h d (List.mem_cons_self ..)]
    exact methodChain_none r (fun d' hd' => h d' (List.mem_cons_of_mem _ hd'))

theorem rpcNameChain_none : ∀ ch : List BDir, (∀ d ∈ ch, (d.kind == Kind.Method) = false) →
    rpcNameChain ch = .error .rpcMethodNotFound
  | [], _ => rfl
  | d :: r, h => by
    simp only [rpcNameChain, h d (List.mem_cons_self ..)]
    exact rpcNameChain_none r (fun d' hd' => h d' (List.mem_cons_of_mem _ hd'))

theorem httpIdOf_none {ch : List BDir} (h : ∀ d ∈ ch, isHTTP d.kind = false) (i : IId) : httpIdOf ch ≠ .ok i := by
  unfold httpIdOf
  rw [methodChain_none ch h]
  cases pathChain ch <;> intro h' <;> cases h'

theorem rpcIdOf_none {ch : List BDir} (h : ∀ d ∈ ch, (d.kind == Kind.Method) = false) (i : IId) :
    rpcIdOf ch ≠ .ok i := by
  unfold rpcIdOf
  rw [rpcNameChain_none ch h]
  cases pathChain ch <;> intro h' <;> cases h'

theorem isMeth_split {k : Kind} (h : isMeth k = true) : (k == Kind.Method) = true ∨ ((k == Kind.Method) = false ∧ isHTTP k = true) := by
  cases k <;> first | (revert h; decide) | decide

theorem isMeth_false {k : Kind} (h : isMeth k = false) : isHTTP k = false ∧ (k == Kind.Method) = false := by
  cases k <;> first | (revert h; decide) | decide

/-- an entry that targets an interaction has a method directive on its chain -/
theorem tgt_some_meth {e : Ent} {j : IId} (h : tgt e = some j) : ∃ d ∈ e.chain, isMeth d.kind = true := by
  apply Classical.byContradiction
  intro hno
  have hall : ∀ d ∈ e.chain, isMeth d.kind = false := by
    intro d hd
    cases hm : isMeth d.kind with
    | false => rfl
    | true => exact absurd ⟨d, hd, hm⟩ hno
  have hh : ∀ i, httpIdOf e.chain ≠ .ok i := httpIdOf_none (fun d hd => (isMeth_false (hall d hd)).1)
  have hr : ∀ i, rpcIdOf e.chain ≠ .ok i := rpcIdOf_none (fun d hd => (isMeth_false (hall d hd)).2)
  have hh' : (httpIdOf e.chain).toOption ≠ some j := fun h' => hh j (toOption_some h')
  have hr' : (rpcIdOf e.chain).toOption ≠ some j := fun h' => hr j (toOption_some h')
  unfold tgt at h
  split at h
  · unfold tgtDescr at h
    split at h
    · split at h
      · exact hh' h
      · split at h
        · exact hr' h
        · cases h
    · cases h
  all_goals first | exact hh' h | exact hr' h | cases h

/-- an entry below a method directive (inner kinds in between, no method directive above) targets the
method's own interaction, if any -/
theorem tgt_below {e : Ent} {ups : List Up} {md : BDir} {mk : List BDir} {manc : List Up} {j : IId}
    (hin : inner e.d.kind = true) (hanc : e.anc = ups ++ ⟨md, mk⟩ :: manc) (hups : ∀ u ∈ ups, inner u.d.kind = true)
    (hno : ∀ u ∈ manc, isMeth u.d.kind = false) (hm : isMeth md.kind = true) (ht : tgt e = some j) :
    idOf ⟨md, mk, manc⟩ = .ok j := by
  have hch : e.chain = (e.d :: ups.map (·.d)) ++ (md :: manc.map (·.d)) := by simp [Ent.chain, hanc]
  have hps : ∀ d ∈ e.d :: ups.map (·.d), inner d.kind = true := by
    intro d hd
    simp only [List.mem_cons, List.mem_map] at hd
    rcases hd with rfl | ⟨u, hu, rfl⟩
    · exact hin
    · exact hups u hu
  have Hh : httpIdOf e.chain = httpIdOf (md :: manc.map (·.d)) := by rw [hch]; exact httpIdOf_skips _ _ hps
  have Hr : rpcIdOf e.chain = rpcIdOf (md :: manc.map (·.d)) := by rw [hch]; exact rpcIdOf_skips _ _ hps
  have hancH : ∀ d ∈ manc.map (·.d), isHTTP d.kind = false := by
    intro d hd; obtain ⟨u, hu, rfl⟩ := List.mem_map.mp hd; exact (isMeth_false (hno u hu)).1
  have hancM : ∀ d ∈ manc.map (·.d), (d.kind == Kind.Method) = false := by
    intro d hd; obtain ⟨u, hu, rfl⟩ := List.mem_map.mp hd; exact (isMeth_false (hno u hu)).2
  have httpCase : httpIdOf e.chain = .ok j → idOf ⟨md, mk, manc⟩ = .ok j := by
    intro h
    rw [Hh] at h
    rcases isMeth_split hm with hM | ⟨hM, _⟩
    · have hk : md.kind = .Method := by simpa using hM
      exact absurd h (httpIdOf_none (by
        intro d hd
        simp only [List.mem_cons] at hd
        rcases hd with rfl | hd
        · simp [hk, isHTTP, httpMethods]
        · exact hancH d hd) j)
    · simpa [idOf, Ent.chain, hM] using h
  have rpcCase : rpcIdOf e.chain = .ok j → idOf ⟨md, mk, manc⟩ = .ok j := by
    intro h
    rw [Hr] at h
    rcases isMeth_split hm with hM | ⟨hM, _⟩
    · simpa [idOf, Ent.chain, hM] using h
    · exact absurd h (rpcIdOf_none (by
        intro d hd
        simp only [List.mem_cons] at hd
        rcases hd with rfl | hd
        · exact hM
        · exact hancM d hd) j)
  unfold tgt at ht
  split at ht
  · unfold tgtDescr at ht
    rw [hanc] at ht
    cases ups with
    | nil =>
      simp only [List.nil_append] at ht
      split at ht
      · exact httpCase (toOption_some ht)
      · split at ht
        · exact rpcCase (toOption_some ht)
        · cases ht
    | cons u us =>
      obtain ⟨_, h2, h3, _⟩ := inner_facts (hups u (List.mem_cons_self ..))
      simp [h2, h3] at ht
  all_goals first | exact httpCase (toOption_some ht) | exact rpcCase (toOption_some ht) | cases ht

/-! ### who targets whom -/

/-- no method directive among the ancestors -/
def noMeth (anc : List Up) : Prop := ∀ u ∈ anc, isMeth u.d.kind = false

theorem noMeth_cons {d : BDir} {kids : List BDir} {anc : List Up} (hd : isMeth d.kind = false) (h : noMeth anc) :
    noMeth (⟨d, kids⟩ :: anc) := by
  intro u hu
  rcases List.mem_cons.mp hu with rfl | hu
  · exact hd
  · exact h u hu

theorem tgt_meth {e : Ent} (h : isMeth e.d.kind = true) : tgt e = none := by
  unfold tgt
  split <;> first | rfl | (rename_i hk; rw [hk] at h; exact absurd h (by decide))

theorem subsF_dir_mem {anc : List Up} {f : List BTree} {a : List Up} {s : BTree} (hs : (a, s) ∈ subsF anc f) :
    s.dir ∈ flatF f := by
  have h1 : entOf (a, s) ∈ flatAF anc f := by rw [flatAF_subs]; exact List.mem_map_of_mem hs
  rw [← flatAF_dirs anc f]
  exact List.mem_map_of_mem (f := fun e : Ent => e.d) h1

mutual
  /-- in an obeying forest under method-free ancestors every entry that targets an interaction targets the one
  of a method directive of that forest -/
  theorem owned_tree (anc : List Up) (hno : noMeth anc) : ∀ t : BTree, obeysT t = true →
      ∀ e ∈ flatA anc t, ∀ j, tgt e = some j → ∃ m ∈ flatA anc t, isMeth m.d.kind = true ∧ idOf m = .ok j
    | .node d kids, ho, e, he, j, ht => by
      simp only [flatA, List.mem_cons] at he
      simp only [obeysT, Bool.and_eq_true, List.all_eq_true] at ho
      cases hm : isMeth d.kind with
      | true =>
        rcases he with rfl | he
        · rw [tgt_meth hm] at ht; cases ht
        · obtain ⟨ups, h1, h2, h3⟩ := mem_flatAF_anc _ kids e he
          have hinn := inner_flatF d.kind (by simp [hm]) kids ho.2
            (fun k hk => ho.1 k.dir (List.mem_map_of_mem hk))
          have := tgt_below (hinn _ h3) h1 (fun u hu => hinn _ (h2 u hu)) hno hm ht
          exact ⟨⟨d, kids.map BTree.dir, anc⟩, by simp [flatA], hm, this⟩
      | false =>
        rcases he with rfl | he
        · obtain ⟨d', hd', hm'⟩ := tgt_some_meth ht
          simp only [Ent.chain, List.mem_cons, List.mem_map] at hd'
          rcases hd' with rfl | ⟨u, hu, rfl⟩
          · rw [hm] at hm'; cases hm'
          · rw [hno u hu] at hm'; cases hm'
        · obtain ⟨m, hmem, h1, h2⟩ := owned_forest _ (noMeth_cons hm hno) kids ho.2 e he j ht
          exact ⟨m, by simp [flatA, hmem], h1, h2⟩
  theorem owned_forest (anc : List Up) (hno : noMeth anc) : ∀ f : List BTree, obeysF f = true →
      ∀ e ∈ flatAF anc f, ∀ j, tgt e = some j → ∃ m ∈ flatAF anc f, isMeth m.d.kind = true ∧ idOf m = .ok j
    | [], _, e, he, _, _ => by simp [flatAF] at he
    | t :: r, ho, e, he, j, ht => by
      simp only [obeysF, Bool.and_eq_true] at ho
      simp only [flatAF, List.mem_append] at he ⊢
      rcases he with he | he
      · obtain ⟨m, hmem, h1, h2⟩ := owned_tree anc hno t ho.1 e he j ht
        exact ⟨m, .inl hmem, h1, h2⟩
      · obtain ⟨m, hmem, h1, h2⟩ := owned_forest anc hno r ho.2 e he j ht
        exact ⟨m, .inr hmem, h1, h2⟩
end

mutual
  /-- where the subtree of a method directive sits in the source order, and who targets what after it -/
  theorem decomp_tree (anc : List Up) (hno : noMeth anc) : ∀ t : BTree, obeysT t = true →
      ∀ a s, (a, s) ∈ subs anc t → isMeth s.dir.kind = true →
      ∃ pre post, flatA anc t = pre ++ flatA a s ++ post ∧ noMeth a ∧ obeysT s = true ∧
        (∀ e ∈ post, ∀ j, tgt e = some j → ∃ m ∈ post, isMeth m.d.kind = true ∧ idOf m = .ok j)
    | .node d kids, ho, a, s, hs, hm => by
      simp only [subs, List.mem_cons] at hs
      rcases hs with heq | hs
      · cases heq
        exact ⟨[], [], by simp, hno, ho, by simp⟩
      · have ho' := ho
        simp only [obeysT, Bool.and_eq_true, List.all_eq_true] at ho'
        cases hmd : isMeth d.kind with
        | true =>
          exfalso
          have hinn := inner_flatF d.kind (by simp [hmd]) kids ho'.2
            (fun k hk => ho'.1 k.dir (List.mem_map_of_mem hk)) _ (subsF_dir_mem hs)
          rw [(inner_facts hinn).2.2.2] at hm; cases hm
        | false =>
          obtain ⟨pre, post, h1, h2, h3, h4⟩ := decomp_forest _ (noMeth_cons hmd hno) kids ho'.2 a s hs hm
          exact ⟨⟨d, kids.map BTree.dir, anc⟩ :: pre, post, by simp [flatA, h1], h2, h3, h4⟩
  theorem decomp_forest (anc : List Up) (hno : noMeth anc) : ∀ f : List BTree, obeysF f = true →
      ∀ a s, (a, s) ∈ subsF anc f → isMeth s.dir.kind = true →
      ∃ pre post, flatAF anc f = pre ++ flatA a s ++ post ∧ noMeth a ∧ obeysT s = true ∧
        (∀ e ∈ post, ∀ j, tgt e = some j → ∃ m ∈ post, isMeth m.d.kind = true ∧ idOf m = .ok j)
    | [], _, a, s, hs, _ => by simp [subsF] at hs
    | t :: r, ho, a, s, hs, hm => by
      simp only [obeysF, Bool.and_eq_true] at ho
      simp only [subsF, List.mem_append] at hs
      rcases hs with hs | hs
      · obtain ⟨pre, post, h1, h2, h3, h4⟩ := decomp_tree anc hno t ho.1 a s hs hm
        refine ⟨pre, post ++ flatAF anc r, by simp [flatAF, h1], h2, h3, ?_⟩
        intro e he j ht
        rcases List.mem_append.mp he with he | he
        · obtain ⟨m, hm1, hm2, hm3⟩ := h4 e he j ht
          exact ⟨m, List.mem_append_left _ hm1, hm2, hm3⟩
        · obtain ⟨m, hm1, hm2, hm3⟩ := owned_forest anc hno r ho.2 e he j ht
          exact ⟨m, List.mem_append_right _ hm1, hm2, hm3⟩
      · obtain ⟨pre, post, h1, h2, h3, h4⟩ := decomp_forest anc hno r ho.2 a s hs hm
        exact ⟨flatA anc t ++ pre, post, by simp [flatAF, h1], h2, h3, h4⟩
end

/-! ### the fold of a method's own subtree, computed -/

theorem mergeReq_none_right (a : Option ReqM) : mergeReq a none = a := by cases a <;> rfl

theorem mergeReq_assoc (a b c : Option ReqM) : mergeReq (mergeReq a b) c = mergeReq a (mergeReq b c) := by
  cases a <;> cases b <;> cases c <;> simp [mergeReq]

theorem add_empty (x : InterM) : addC x {} = x := by
  cases x; simp [addC, mergeReq_none_right]

theorem add_merge (x : InterM) (a b : Content) : addC (addC x a) b = addC x (a.merge b) := by
  simp [addC, Content.merge, mergeReq_assoc, Option.or_assoc, Bool.or_assoc, List.append_assoc]

theorem fold_one (j : IId) (e : Ent) (x : InterM) :
    foldP j [e] x = if tgt e = some j then effP e x else some x := by
  simp only [foldP]
  split <;> simp

theorem fold_cons_tgt {j : IId} {e : Ent} {r : List Ent} {x y : InterM} (ht : tgt e = some j)
    (h : foldP j (e :: r) x = some y) : ∃ x₀, effP e x = some x₀ ∧ foldP j r x₀ = some y := by
  simp only [foldP, ht, if_true] at h
  cases he : effP e x with
  | none => simp [he] at h
  | some x₀ => exact ⟨x₀, rfl, by simpa [he] using h⟩

theorem admits_leaf {k : Kind}
    (h : k = .Description ∨ k = .Path ∨ k = .Query ∨ k = .Paste ∨ k = .Tags ∨ k = .Params ∨ k = .Result ∨
      k = .Body ∨ k = .Headers) (c : Kind) : admitsK k c = false := by
  rcases h with rfl | rfl | rfl | rfl | rfl | rfl | rfl | rfl | rfl <;> rfl

theorem leaf_kids {d : BDir} {kids : List BTree} (ho : obeysT (.node d kids) = true)
    (hl : ∀ c, admitsK d.kind c = false) : kids = [] := by
  cases kids with
  | nil => rfl
  | cons k r => simp [obeysT, hl] at ho

theorem kid_table (p c : Kind) (hp : isMeth p = true) (ha : admitsK p c = true) :
    (isHTTP p = true ∧ (c = .Description ∨ c = .Request ∨ c = .HTTPResponseCode ∨ c = .Path ∨ c = .Query ∨
        c = .Paste ∨ c = .Tags)) ∨
    (p = .Method ∧ (c = .Description ∨ c = .Params ∨ c = .Result ∨ c = .Tags)) := by
  revert hp ha
  cases p <;> cases c <;> decide

theorem gk_table (p c : Kind) (hp : p = .Request ∨ p = .HTTPResponseCode) (ha : admitsK p c = true) :
    c = .Body ∨ c = .Headers ∨ c = .Paste := by
  revert ha
  rcases hp with rfl | rfl <;> cases c <;> decide

/-- the chain of an entry below a method directive resolves like the chain of the method directive -/
theorem chain_below {e : Ent} {ups : List Up} {md : BDir} {mk : List BDir} {manc : List Up}
    (hin : inner e.d.kind = true) (hanc : e.anc = ups ++ ⟨md, mk⟩ :: manc) (hups : ∀ u ∈ ups, inner u.d.kind = true) :
    httpIdOf e.chain = httpIdOf (md :: manc.map (·.d)) ∧ rpcIdOf e.chain = rpcIdOf (md :: manc.map (·.d)) := by
  have hch : e.chain = (e.d :: ups.map (·.d)) ++ (md :: manc.map (·.d)) := by simp [Ent.chain, hanc]
  have hps : ∀ d ∈ e.d :: ups.map (·.d), inner d.kind = true := by
    intro d hd
    simp only [List.mem_cons, List.mem_map] at hd
    rcases hd with rfl | ⟨u, hu, rfl⟩
    · exact hin
    · exact hups u hu
  exact ⟨by rw [hch]; exact httpIdOf_skips _ _ hps, by rw [hch]; exact rpcIdOf_skips _ _ hps⟩

theorem idOf_http {md : BDir} {mk : List BDir} {manc : List Up} {i : IId} (hid : idOf ⟨md, mk, manc⟩ = .ok i)
    (hh : isHTTP md.kind = true) : httpIdOf (md :: manc.map (·.d)) = .ok i := by
  have : (md.kind == Kind.Method) = false := by
    cases hk : md.kind <;> simp_all [isHTTP, httpMethods]
  simpa [idOf, Ent.chain, this] using hid

theorem idOf_rpc {md : BDir} {mk : List BDir} {manc : List Up} {i : IId} (hid : idOf ⟨md, mk, manc⟩ = .ok i)
    (hh : md.kind = .Method) : rpcIdOf (md :: manc.map (·.d)) = .ok i := by
  simpa [idOf, Ent.chain, hh] using hid

/-! what each accepted local step amounts to -/

theorem lDescr_add {d : BDir} {x x₁ : InterM} (h : lDescr d x = some x₁) :
    x₁ = addC x { descr := descrText d } := by
  unfold lDescr at h
  split at h; · cases h
  rename_i t ht
  split at h; · cases h
  rename_i hs
  cases h
  have : x.descr = none := by cases hd : x.descr <;> simp_all
  cases x
  simp_all [addC, mergeReq_none_right]

theorem lQuery_add {d : BDir} {x x₁ : InterM} (h : lQuery d x = some x₁) :
    x₁ = addC x { query := some (queryM d) } := by
  unfold lQuery at h
  split at h; · cases h
  rename_i hs
  cases h
  have : x.query = none := by cases hd : x.query <;> simp_all
  cases x
  simp_all [addC, mergeReq_none_right]

theorem lParams_add {x x₁ : InterM} (h : lParams x = some x₁) : x₁ = addC x { params := true } := by
  unfold lParams at h
  split at h; · cases h
  cases h
  cases x
  simp_all [addC, mergeReq_none_right]

theorem lResult_add {x x₁ : InterM} (h : lResult x = some x₁) : x₁ = addC x { result := true } := by
  unfold lResult at h
  split at h; · cases h
  cases h
  cases x
  simp_all [addC, mergeReq_none_right]

theorem kbeq (a b : Kind) : (a == b) = decide (a = b) := rfl

theorem lRespBody_last {b : BodyM} {x y : InterM} {pre : List RespM} {r : RespM} (hx : x.responses = pre ++ [r])
    (h : lRespBody b x = some y) :
    r.body = none ∧ y = { x with responses := pre ++ [{ r with body := some b }] } := by
  unfold lRespBody at h
  simp only [hx, List.getLast?_concat, List.dropLast_concat] at h
  split at h; · cases h
  rename_i hb
  cases h
  exact ⟨by cases hr : r.body <;> simp_all, rfl⟩

theorem lHeadResp_last {x y : InterM} {pre : List RespM} {r : RespM} (hx : x.responses = pre ++ [r])
    (h : lHeadResp x = some y) :
    r.headers = false ∧ y = { x with responses := pre ++ [{ r with headers := true }] } := by
  unfold lHeadResp at h
  simp only [hx, List.getLast?_concat, List.dropLast_concat] at h
  split at h; · cases h
  rename_i hb
  cases h
  exact ⟨by simpa using hb, rfl⟩

theorem lResponse_new {d : BDir} {x x₀ : InterM} (hk : d.kind = .HTTPResponseCode) (h : lResponse d x = some x₀) :
    x₀ = { x with responses := x.responses ++ [{ id := d.id, code := d.keyword, annot := d.annot,
                                                  body := if respSupplies d then some (bodyM d) else none }] } := by
  unfold lResponse at h
  simp only [hk, beq_self_eq_true, if_true] at h
  split at h
  · rename_i hs
    obtain ⟨_, rfl⟩ := lRespBody_last (x := lRespNew d x) (pre := x.responses) rfl h
    simp [lRespNew, hs]
  · rename_i hs
    simp at h
    subst h
    simp [lRespNew, hs]

theorem lResponse_body {d : BDir} {x y : InterM} (hk : d.kind = .Body) (h : lResponse d x = some y) :
    lRespBody (bodyM d) x = some y := by
  unfold lResponse at h
  simp only [hk] at h
  split at h
  · simpa using h
  · simp at h

theorem fold_gk_resp {i : IId} {p : Up} {rest : List Up} (hp : p.d.kind = .HTTPResponseCode)
    (hh : ∀ gd : BDir, inner gd.kind = true → (httpIdOf (gd :: (p :: rest).map (·.d))).toOption = some i) :
    ∀ (gks : List BTree), obeysF gks = true → (∀ g ∈ gks, admitsK .HTTPResponseCode g.dir.kind = true) →
    ∀ (x y : InterM) (pre : List RespM) (r : RespM), x.responses = pre ++ [r] →
      foldP i (flatAF (p :: rest) gks) x = some y →
      y = { x with responses := pre ++ [{ r with body := r.body.or (childBody (gks.map BTree.dir)),
                                                 headers := r.headers || hasKind .Headers (gks.map BTree.dir) }] }
  | [], _, _, x, y, pre, r, hx, h => by
    simp [flatAF, foldP] at h; subst h
    cases x; simp_all [childBody, hasKind]
  | .node gd ggk :: gs, ho, ha, x, y, pre, r, hx, h => by
    simp only [obeysF, Bool.and_eq_true] at ho
    have hkind := gk_table _ _ (.inr rfl) (ha _ (List.mem_cons_self ..))
    simp only [BTree.dir] at hkind
    have hleaf : ggk = [] := leaf_kids ho.1 (admits_leaf (by rcases hkind with h | h | h <;> simp [h]))
    subst hleaf
    simp only [flatAF, flatA, List.map_nil, List.cons_append, List.nil_append] at h
    have ih := fold_gk_resp hp hh gs ho.2 (fun g hg => ha g (List.mem_cons_of_mem _ hg))
    rcases hkind with hk | hk | hk
    · have ht : tgt ⟨gd, [], p :: rest⟩ = some i := by
        simp only [tgt, hk, Ent.chain]; exact hh gd (by simp [inner, hk])
      obtain ⟨x₀, he, hf⟩ := fold_cons_tgt ht h
      simp only [effP, hk, lBody, hp] at he
      have he' : lResponse gd x = some x₀ := by simpa using he
      obtain ⟨hrb, rfl⟩ := lRespBody_last hx (lResponse_body hk he')
      rw [ih _ y pre { r with body := some (bodyM gd) } rfl hf]
      simp [childBody, hasKind, BTree.dir, hk, hrb, kbeq]
    · have ht : tgt ⟨gd, [], p :: rest⟩ = some i := by
        simp only [tgt, hk, Ent.chain]; exact hh gd (by simp [inner, hk])
      obtain ⟨x₀, he, hf⟩ := fold_cons_tgt ht h
      simp only [effP, hk, lHeaders, hp] at he
      have he' : lHeadResp x = some x₀ := by simpa using he
      obtain ⟨hrb, rfl⟩ := lHeadResp_last hx he'
      rw [ih _ y pre { r with headers := true } rfl hf]
      simp [childBody, hasKind, BTree.dir, hk, hrb, kbeq]
    · have ht : tgt ⟨gd, [], p :: rest⟩ = none := by simp [tgt, hk]
      simp only [foldP, ht] at h
      rw [ih x y pre r hx (by simpa using h)]
      simp [childBody, hasKind, BTree.dir, hk, kbeq]

theorem lReqBody_some {b : BodyM} {x y : InterM} {r : ReqM} (hx : x.request = some r) (h : lReqBody b x = some y) :
    r.body = none ∧ y = { x with request := some { r with body := some b } } := by
  unfold lReqBody at h
  simp only [hx] at h
  split at h; · cases h
  rename_i hb
  cases h
  exact ⟨by cases hr : r.body <;> simp_all, rfl⟩

theorem lHeadReq_some {x y : InterM} {r : ReqM} (hx : x.request = some r) (h : lHeadReq x = some y) :
    r.headers = false ∧ y = { x with request := some { r with headers := true } } := by
  unfold lHeadReq at h
  simp only [hx] at h
  split at h; · cases h
  rename_i hb
  cases h
  exact ⟨by simpa using hb, rfl⟩

theorem lRequest_body {d : BDir} {x y : InterM} (hk : d.kind = .Body) (h : lRequest d x = some y) :
    lReqBody (bodyM d) x = some y := by
  unfold lRequest at h
  simp only [hk, show (Kind.Body == Kind.Request) = false from rfl, Bool.false_eq_true, if_false,
    Option.bind_some] at h
  unfold lReqTail at h
  simp only [hk, beq_self_eq_true, if_true] at h
  split at h
  · exact h
  · cases h

theorem fold_gk_req {i : IId} {p : Up} {rest : List Up} (hp : p.d.kind = .Request)
    (hh : ∀ gd : BDir, inner gd.kind = true → (httpIdOf (gd :: (p :: rest).map (·.d))).toOption = some i) :
    ∀ (gks : List BTree), obeysF gks = true → (∀ g ∈ gks, admitsK .Request g.dir.kind = true) →
    ∀ (x y : InterM) (r : ReqM), x.request = some r →
      foldP i (flatAF (p :: rest) gks) x = some y →
      y = { x with request := some { r with body := r.body.or (childBody (gks.map BTree.dir)),
                                            headers := r.headers || hasKind .Headers (gks.map BTree.dir) } }
  | [], _, _, x, y, r, hx, h => by
    simp [flatAF, foldP] at h; subst h
    cases x; simp_all [childBody, hasKind]
  | .node gd ggk :: gs, ho, ha, x, y, r, hx, h => by
    simp only [obeysF, Bool.and_eq_true] at ho
    have hkind := gk_table _ _ (.inl rfl) (ha _ (List.mem_cons_self ..))
    simp only [BTree.dir] at hkind
    have hleaf : ggk = [] := leaf_kids ho.1 (admits_leaf (by rcases hkind with h | h | h <;> simp [h]))
    subst hleaf
    simp only [flatAF, flatA, List.map_nil, List.cons_append, List.nil_append] at h
    have ih := fold_gk_req hp hh gs ho.2 (fun g hg => ha g (List.mem_cons_of_mem _ hg))
    rcases hkind with hk | hk | hk
    · have ht : tgt ⟨gd, [], p :: rest⟩ = some i := by
        simp only [tgt, hk, Ent.chain]; exact hh gd (by simp [inner, hk])
      obtain ⟨x₀, he, hf⟩ := fold_cons_tgt ht h
      simp only [effP, hk, lBody, hp] at he
      have he' : lRequest gd x = some x₀ := by simpa using he
      obtain ⟨hrb, rfl⟩ := lReqBody_some hx (lRequest_body hk he')
      rw [ih _ y { r with body := some (bodyM gd) } rfl hf]
      simp [childBody, hasKind, BTree.dir, hk, hrb, kbeq]
    · have ht : tgt ⟨gd, [], p :: rest⟩ = some i := by
        simp only [tgt, hk, Ent.chain]; exact hh gd (by simp [inner, hk])
      obtain ⟨x₀, he, hf⟩ := fold_cons_tgt ht h
      simp only [effP, hk, lHeaders, hp] at he
      have he' : lHeadReq x = some x₀ := by simpa using he
      obtain ⟨hrb, rfl⟩ := lHeadReq_some hx he'
      rw [ih _ y { r with headers := true } rfl hf]
      simp [childBody, hasKind, BTree.dir, hk, hrb, kbeq]
    · have ht : tgt ⟨gd, [], p :: rest⟩ = none := by simp [tgt, hk]
      simp only [foldP, ht] at h
      rw [ih x y r hx (by simpa using h)]
      simp [childBody, hasKind, BTree.dir, hk, kbeq]

theorem mergeReq_some_right (o : Option ReqM) (q : ReqM) : ∃ r, mergeReq o (some q) = some r := by
  cases o <;> exact ⟨_, rfl⟩

/-- a Request directive is accepted only while the interaction has no request; it supplies the request -/
theorem lRequest_new {d : BDir} {x x₀ : InterM} (hk : d.kind = .Request) (h : lRequest d x = some x₀) :
    x.request = none ∧
    x₀ = { x with request := some { id := d.id, body := if reqSupplies d then some (bodyM d) else none } } := by
  unfold lRequest at h
  simp only [hk, beq_self_eq_true, if_true] at h
  cases hr : x.request with
  | some r0 => simp [lReqNew, hr] at h
  | none =>
    refine ⟨rfl, ?_⟩
    have hnew : lReqNew d x = some { x with request := some { id := d.id } } := by simp [lReqNew, hr]
    rw [hnew] at h
    simp only [Option.bind_some, lReqTail, hk, show (Kind.Request == Kind.Body) = false from rfl,
      Bool.false_eq_true, if_false] at h
    split at h
    · rename_i hs
      obtain ⟨_, rfl⟩ := lReqBody_some (r := { id := d.id }) rfl h
      simp [hs]
    · rename_i hs
      cases h
      simp [hs]

theorem ite_or {α} (s : Bool) (b : α) (o : Option α) :
    (if s = true then some b else none).or o = if s = true then some b else o := by
  cases s <;> simp

theorem fold_kid {i : IId} {md : BDir} {mk : List BDir} {manc : List Up} (hm : isMeth md.kind = true)
    (hid : idOf ⟨md, mk, manc⟩ = .ok i) :
    ∀ (k : BTree), obeysT k = true → admitsK md.kind k.dir.kind = true →
      ∀ x y, foldP i (flatA (⟨md, mk⟩ :: manc) k) x = some y → y = addC x (kidContent k)
  | .node kd gks, ho, ha, x, y, h => by
    simp only [BTree.dir] at ha
    have hin : inner kd.kind = true := inner_closed _ _ (by simp [hm]) ha
    have hc0 := chain_below (e := ⟨kd, gks.map BTree.dir, ⟨md, mk⟩ :: manc⟩) (ups := []) hin rfl (by simp)
    have hc1 : ∀ gd : BDir, inner gd.kind = true →
        httpIdOf (gd :: (⟨kd, gks.map BTree.dir⟩ :: ⟨md, mk⟩ :: manc).map (·.d)) = httpIdOf (md :: manc.map (·.d)) := by
      intro gd hgd
      exact (chain_below (e := ⟨gd, [], ⟨kd, gks.map BTree.dir⟩ :: ⟨md, mk⟩ :: manc⟩) (ups := [⟨kd, gks.map BTree.dir⟩])
        hgd rfl (by simpa using hin)).1
    have hho := ho
    simp only [obeysT, Bool.and_eq_true, List.all_eq_true] at hho
    have noeff : tgt ⟨kd, gks.map BTree.dir, ⟨md, mk⟩ :: manc⟩ = none → (∀ c, admitsK kd.kind c = false) →
        kidContent (.node kd gks) = {} → y = addC x (kidContent (.node kd gks)) := by
      intro ht hl hc
      have := leaf_kids ho hl; subst this
      simp only [flatA, flatAF, List.map_nil] at h ht
      rw [fold_one, ht] at h
      simp at h
      rw [hc, add_empty, h]
    rcases kid_table _ _ hm ha with ⟨hH, hk⟩ | ⟨hM, hk⟩
    · have hhttp := idOf_http hid hH
      have ht0 : (httpIdOf (Ent.chain ⟨kd, gks.map BTree.dir, ⟨md, mk⟩ :: manc⟩)).toOption = some i := by
        rw [hc0.1]; exact toOption_ok hhttp
      rcases hk with hk | hk | hk | hk | hk | hk | hk
      · have := leaf_kids ho (admits_leaf (by simp [hk])); subst this
        simp only [flatA, flatAF, List.map_nil] at h ht0
        rw [fold_one] at h
        have ht : tgt ⟨kd, [], ⟨md, mk⟩ :: manc⟩ = some i := by
          simp only [tgt, hk, tgtDescr, hH, if_true]; exact ht0
        simp only [ht, if_true, effP, hk] at h
        rw [lDescr_add h]; simp [kidContent, BTree.dir, hk]
      · simp only [flatA] at h
        have ht : tgt ⟨kd, gks.map BTree.dir, ⟨md, mk⟩ :: manc⟩ = some i := by simp only [tgt, hk]; exact ht0
        obtain ⟨x₀, he, hf⟩ := fold_cons_tgt ht h
        simp only [effP, hk] at he
        obtain ⟨hxr, hx₀⟩ := lRequest_new hk he
        have hgk := fold_gk_req (i := i) (p := ⟨kd, gks.map BTree.dir⟩) (rest := ⟨md, mk⟩ :: manc) hk
          (fun gd hgd => by rw [hc1 gd hgd]; exact toOption_ok hhttp) gks hho.2
          (fun g hg => by simpa [hk] using hho.1 g.dir (List.mem_map_of_mem hg)) x₀ y
          { id := kd.id, body := if reqSupplies kd then some (bodyM kd) else none } (by rw [hx₀]) hf
        rw [hgk, hx₀]
        simp [addC, kidContent, BTree.dir, BTree.kids, hk, hxr, mergeReq, reqPart, reqBodyOf, ite_or]
        try rfl
      · simp only [flatA] at h
        have ht : tgt ⟨kd, gks.map BTree.dir, ⟨md, mk⟩ :: manc⟩ = some i := by simp only [tgt, hk]; exact ht0
        obtain ⟨x₀, he, hf⟩ := fold_cons_tgt ht h
        simp only [effP, hk] at he
        have hx₀ := lResponse_new hk he
        have hgk := fold_gk_resp (i := i) (p := ⟨kd, gks.map BTree.dir⟩) (rest := ⟨md, mk⟩ :: manc) hk
          (fun gd hgd => by rw [hc1 gd hgd]; exact toOption_ok hhttp) gks hho.2
          (fun g hg => by simpa [hk] using hho.1 g.dir (List.mem_map_of_mem hg)) x₀ y x.responses _
          (by rw [hx₀]) hf
        rw [hgk, hx₀]
        simp [addC, kidContent, BTree.dir, BTree.kids, hk, respOf, respBodyOf, ite_or, mergeReq_none_right]
        try rfl
      · exact noeff (by simp [tgt, hk]) (admits_leaf (by simp [hk])) (by simp [kidContent, BTree.dir, hk])
      · have := leaf_kids ho (admits_leaf (by simp [hk])); subst this
        simp only [flatA, flatAF, List.map_nil] at h ht0
        rw [fold_one] at h
        have ht : tgt ⟨kd, [], ⟨md, mk⟩ :: manc⟩ = some i := by simp only [tgt, hk]; exact ht0
        simp only [ht, if_true, effP, hk] at h
        rw [lQuery_add h]; simp [kidContent, BTree.dir, hk]
      · exact noeff (by simp [tgt, hk]) (admits_leaf (by simp [hk])) (by simp [kidContent, BTree.dir, hk])
      · exact noeff (by simp [tgt, hk]) (admits_leaf (by simp [hk])) (by simp [kidContent, BTree.dir, hk])
    · have hrpc := idOf_rpc hid hM
      have ht0 : (rpcIdOf (Ent.chain ⟨kd, gks.map BTree.dir, ⟨md, mk⟩ :: manc⟩)).toOption = some i := by
        rw [hc0.2]; exact toOption_ok hrpc
      rcases hk with hk | hk | hk | hk
      · have := leaf_kids ho (admits_leaf (by simp [hk])); subst this
        simp only [flatA, flatAF, List.map_nil] at h ht0
        rw [fold_one] at h
        have ht : tgt ⟨kd, [], ⟨md, mk⟩ :: manc⟩ = some i := by
          have hf : isHTTP Kind.Method = false := by decide
          simp only [tgt, hk, tgtDescr, hM, hf, Bool.false_eq_true, if_false, beq_self_eq_true, if_true]
          exact ht0
        simp only [ht, if_true, effP, hk] at h
        rw [lDescr_add h]; simp [kidContent, BTree.dir, hk]
      · have := leaf_kids ho (admits_leaf (by simp [hk])); subst this
        simp only [flatA, flatAF, List.map_nil] at h ht0
        rw [fold_one] at h
        have ht : tgt ⟨kd, [], ⟨md, mk⟩ :: manc⟩ = some i := by simp only [tgt, hk]; exact ht0
        simp only [ht, if_true, effP, hk] at h
        rw [lParams_add h]; simp [kidContent, BTree.dir, hk]
      · have := leaf_kids ho (admits_leaf (by simp [hk])); subst this
        simp only [flatA, flatAF, List.map_nil] at h ht0
        rw [fold_one] at h
        have ht : tgt ⟨kd, [], ⟨md, mk⟩ :: manc⟩ = some i := by simp only [tgt, hk]; exact ht0
        simp only [ht, if_true, effP, hk] at h
        rw [lResult_add h]; simp [kidContent, BTree.dir, hk]
      · exact noeff (by simp [tgt, hk]) (admits_leaf (by simp [hk])) (by simp [kidContent, BTree.dir, hk])

theorem fold_kids {i : IId} {md : BDir} {mk : List BDir} {manc : List Up} (hm : isMeth md.kind = true)
    (hid : idOf ⟨md, mk, manc⟩ = .ok i) :
    ∀ (kids : List BTree), obeysF kids = true → (∀ k ∈ kids, admitsK md.kind k.dir.kind = true) →
      ∀ x y, foldP i (flatAF (⟨md, mk⟩ :: manc) kids) x = some y → y = addC x (content kids)
  | [], _, _, x, y, h => by
    simp [flatAF, foldP] at h; subst h; simp [content, add_empty]
  | k :: r, ho, ha, x, y, h => by
    simp only [obeysF, Bool.and_eq_true] at ho
    simp only [flatAF, foldP_append] at h
    cases h1 : foldP i (flatA (⟨md, mk⟩ :: manc) k) x with
    | none => simp [h1] at h
    | some x₁ =>
      simp only [h1, Option.bind_some] at h
      rw [fold_kids hm hid r ho.2 (fun k' hk' => ha k' (List.mem_cons_of_mem _ hk')) x₁ y h,
        fold_kid hm hid k ho.1 (ha k (List.mem_cons_self ..)) x x₁ h1, add_merge]
      rfl

/-- the interaction of a method directive is the fold of the directive's own subtree over the fresh interaction -/
theorem getInter_fold {banned : List Kind} {f : List BTree} {c : Cat} (h : compile banned f = .ok c)
    (ho : obeysF f = true) {a : List Up} {d : BDir} {kids : List BTree} (hp : (a, .node d kids) ∈ subsF [] f)
    (hm : isMeth d.kind = true) :
    ∃ i ns y, idOf ⟨d, kids.map BTree.dir, a⟩ = .ok i ∧ c.getInter i = some y ∧
      foldP i (flatAF (⟨d, kids.map BTree.dir⟩ :: a) kids) { iid := i, annot := d.annot, tags := ns } = some y ∧
      obeysF kids = true ∧ (∀ k ∈ kids, admitsK d.kind k.dir.kind = true) := by
  obtain ⟨c₀, _, _, _, _, hr, _⟩ := compile_ok h
  obtain ⟨pre, post, hdec, hno, hot, hpost⟩ := decomp_forest [] (by intro u hu; cases hu) f ho a _ hp hm
  rw [hdec, List.append_assoc, run_append] at hr
  cases h1 : run banned pre c₀ with
  | error err => simp [h1] at hr
  | ok c₁ =>
    simp only [h1] at hr
    rw [run_append] at hr
    cases h2 : run banned (flatA a (.node d kids)) c₁ with
    | error err => simp [h2] at hr
    | ok c₃ =>
      simp only [h2] at hr
      simp only [flatA, run] at h2
      cases h3 : step banned ⟨d, kids.map BTree.dir, a⟩ c₁ with
      | error err => simp [h3] at h2
      | ok c₂ =>
        simp only [h3] at h2
        obtain ⟨i, ns, hid, hnone, hc₂⟩ := step_meth (e := ⟨d, kids.map BTree.dir, a⟩) hm h3
        have hg₂ : c₂.getInter i = some { iid := i, annot := d.annot, tags := ns } := by
          simp only [Cat.getInter] at hnone ⊢
          rw [hc₂, List.find?_append, hnone]
          simp
        obtain ⟨y, hy, hfy⟩ := run_loc _ h2 hg₂
        obtain ⟨z, hz, hfz⟩ := run_loc _ hr hy
        have hskip : foldP i post y = some y := foldP_skip i post y (fun e he ht => by
          obtain ⟨m, hmm, hk, hidm⟩ := hpost e he i ht
          exact run_no_meth post hr hy m hmm hk hidm)
        rw [hskip] at hfz; cases hfz
        simp only [obeysT, Bool.and_eq_true, List.all_eq_true] at hot
        exact ⟨i, ns, y, hid, hz, hfy, hot.2, fun k hk => hot.1 k.dir (List.mem_map_of_mem hk)⟩

/-- a Description child is accepted only while the interaction has no description -/
theorem fold_kid_descr {i : IId} {md : BDir} {mk : List BDir} {manc : List Up} (hm : isMeth md.kind = true)
    (hid : idOf ⟨md, mk, manc⟩ = .ok i) {kd : BDir} {gks : List BTree} (ho : obeysT (.node kd gks) = true)
    (hk : kd.kind = .Description) {x y : InterM}
    (h : foldP i (flatA (⟨md, mk⟩ :: manc) (.node kd gks)) x = some y) :
    x.descr = none ∧ (descrText kd).isSome = true := by
  have hin : inner kd.kind = true := by simp [hk, inner]
  have hc0 := chain_below (e := ⟨kd, gks.map BTree.dir, ⟨md, mk⟩ :: manc⟩) (ups := []) hin rfl (by simp)
  have := leaf_kids ho (admits_leaf (by simp [hk])); subst this
  simp only [flatA, flatAF, List.map_nil] at h hc0
  rw [fold_one] at h
  have ht : tgt ⟨kd, [], ⟨md, mk⟩ :: manc⟩ = some i := by
    rcases isMeth_split hm with hM | ⟨hM, hH⟩
    · have hM' : md.kind = .Method := by simpa using hM
      have hf : isHTTP Kind.Method = false := by decide
      simp only [tgt, hk, tgtDescr, hM', hf, Bool.false_eq_true, if_false, beq_self_eq_true, if_true]
      rw [hc0.2]; exact toOption_ok (idOf_rpc hid hM')
    · simp only [tgt, hk, tgtDescr, hH, if_true]
      rw [hc0.1]; exact toOption_ok (idOf_http hid hH)
  simp only [ht, if_true, effP, hk] at h
  unfold lDescr at h
  split at h; · cases h
  rename_i t ht'
  split at h; · cases h
  rename_i hs
  exact ⟨by cases hd : x.descr <;> simp_all, by simp [ht']⟩

theorem fold_kid_query {i : IId} {md : BDir} {mk : List BDir} {manc : List Up} (hm : isMeth md.kind = true)
    (hid : idOf ⟨md, mk, manc⟩ = .ok i) {kd : BDir} {gks : List BTree} (ho : obeysT (.node kd gks) = true)
    (ha : admitsK md.kind kd.kind = true) (hk : kd.kind = .Query) {x y : InterM}
    (h : foldP i (flatA (⟨md, mk⟩ :: manc) (.node kd gks)) x = some y) : x.query = none := by
  have hin : inner kd.kind = true := by simp [hk, inner]
  have hc0 := chain_below (e := ⟨kd, gks.map BTree.dir, ⟨md, mk⟩ :: manc⟩) (ups := []) hin rfl (by simp)
  have := leaf_kids ho (admits_leaf (by simp [hk])); subst this
  simp only [flatA, flatAF, List.map_nil] at h hc0
  rw [fold_one] at h
  have hH : isHTTP md.kind = true := by
    rcases kid_table _ _ hm ha with ⟨hH, _⟩ | ⟨_, hc⟩
    · exact hH
    · simp [hk] at hc
  have ht : tgt ⟨kd, [], ⟨md, mk⟩ :: manc⟩ = some i := by
    simp only [tgt, hk]
    rw [hc0.1]; exact toOption_ok (idOf_http hid hH)
  simp only [ht, if_true, effP, hk] at h
  unfold lQuery at h
  split at h; · cases h
  rename_i hs
  cases hd : x.query <;> simp_all

theorem addC_descr (x : InterM) (k : Content) : (addC x k).descr = x.descr.or k.descr := rfl
theorem addC_query (x : InterM) (k : Content) : (addC x k).query = x.query.or k.query := rfl

theorem or_eq_none {α} {a b : Option α} (h : a.or b = none) : a = none ∧ b = none := by
  cases a <;> cases b <;> simp_all

/-- every Description child of an accepted method directive supplies the description -/
theorem fold_kids_descr {i : IId} {md : BDir} {mk : List BDir} {manc : List Up} (hm : isMeth md.kind = true)
    (hid : idOf ⟨md, mk, manc⟩ = .ok i) :
    ∀ (kids : List BTree), obeysF kids = true → (∀ k ∈ kids, admitsK md.kind k.dir.kind = true) →
      ∀ x y, foldP i (flatAF (⟨md, mk⟩ :: manc) kids) x = some y →
        ∀ k ∈ kids, k.dir.kind = .Description →
          x.descr = none ∧ (content kids).descr = descrText k.dir ∧ (descrText k.dir).isSome = true
  | [], _, _, _, _, _, k, hk, _ => by cases hk
  | .node kd gks :: r, ho, ha, x, y, h, k, hk, hkd => by
    simp only [obeysF, Bool.and_eq_true] at ho
    simp only [flatAF, foldP_append] at h
    cases h1 : foldP i (flatA (⟨md, mk⟩ :: manc) (.node kd gks)) x with
    | none => simp [h1] at h
    | some x₁ =>
      simp only [h1, Option.bind_some] at h
      have hx₁ := fold_kid hm hid _ ho.1 (ha _ (List.mem_cons_self ..)) x x₁ h1
      rcases List.mem_cons.mp hk with rfl | hk'
      · simp only [BTree.dir] at hkd
        obtain ⟨h2, h3⟩ := fold_kid_descr hm hid ho.1 hkd h1
        refine ⟨h2, ?_, h3⟩
        cases hdt : descrText kd with
        | none => simp [hdt] at h3
        | some t => simp [content, Content.merge, kidContent, BTree.dir, hkd, hdt]
      · obtain ⟨h2, h3, h4⟩ := fold_kids_descr hm hid r ho.2 (fun k' hk' => ha k' (List.mem_cons_of_mem _ hk')) x₁ y h k hk' hkd
        rw [hx₁, addC_descr] at h2
        obtain ⟨h5, h6⟩ := or_eq_none h2
        exact ⟨h5, by simp [content, Content.merge, h6, h3], h4⟩

theorem fold_kids_query {i : IId} {md : BDir} {mk : List BDir} {manc : List Up} (hm : isMeth md.kind = true)
    (hid : idOf ⟨md, mk, manc⟩ = .ok i) :
    ∀ (kids : List BTree), obeysF kids = true → (∀ k ∈ kids, admitsK md.kind k.dir.kind = true) →
      ∀ x y, foldP i (flatAF (⟨md, mk⟩ :: manc) kids) x = some y →
        ∀ k ∈ kids, k.dir.kind = .Query → x.query = none ∧ (content kids).query = some (queryM k.dir)
  | [], _, _, _, _, _, k, hk, _ => by cases hk
  | .node kd gks :: r, ho, ha, x, y, h, k, hk, hkd => by
    simp only [obeysF, Bool.and_eq_true] at ho
    simp only [flatAF, foldP_append] at h
    cases h1 : foldP i (flatA (⟨md, mk⟩ :: manc) (.node kd gks)) x with
    | none => simp [h1] at h
    | some x₁ =>
      simp only [h1, Option.bind_some] at h
      have hx₁ := fold_kid hm hid _ ho.1 (ha _ (List.mem_cons_self ..)) x x₁ h1
      rcases List.mem_cons.mp hk with rfl | hk'
      · simp only [BTree.dir] at hkd
        have h2 := fold_kid_query hm hid ho.1 (ha _ (List.mem_cons_self ..)) hkd h1
        exact ⟨h2, by simp [content, Content.merge, kidContent, BTree.dir, hkd]⟩
      · obtain ⟨h2, h3⟩ := fold_kids_query hm hid r ho.2 (fun k' hk' => ha k' (List.mem_cons_of_mem _ hk')) x₁ y h k hk' hkd
        rw [hx₁, addC_query] at h2
        obtain ⟨h5, h6⟩ := or_eq_none h2
        exact ⟨h5, by simp [content, Content.merge, h6, h3]⟩

theorem eq_of_nodup_iid : ∀ (l : List InterM), (l.map (·.iid)).Nodup → ∀ x ∈ l, ∀ y ∈ l, x.iid = y.iid → x = y
  | [], _, x, hx, _, _, _ => by cases hx
  | a :: r, hn, x, hx, y, hy, hxy => by
    simp only [List.map_cons, List.nodup_cons, List.mem_map, not_exists, not_and] at hn
    rcases List.mem_cons.mp hx with rfl | hx' <;> rcases List.mem_cons.mp hy with rfl | hy'
    · rfl
    · exact absurd hxy.symm (hn.1 y hy')
    · exact absurd hxy (hn.1 x hx')
    · exact eq_of_nodup_iid r hn.2 x hx' y hy' hxy

/-- the content of the interaction of a method directive: all of it -/
theorem inter_content {banned : List Kind} {f : List BTree} {c : Cat} (h : compile banned f = .ok c)
    (ho : obeysF f = true) {a : List Up} {t : BTree} (hp : (a, t) ∈ subsF [] f) (hm : isMeth t.dir.kind = true)
    {x : InterM} (hx : x ∈ c.inters) (hxi : idOf (entOf (a, t)) = .ok x.iid) :
    x = interOf x.iid t.dir x.tags t.kids ∧
    (∀ k ∈ t.kids, k.dir.kind = .Description →
      (content t.kids).descr = descrText k.dir ∧ (descrText k.dir).isSome = true) ∧
    (∀ k ∈ t.kids, k.dir.kind = .Query → (content t.kids).query = some (queryM k.dir)) := by
  cases t with
  | node d kids =>
  simp only [BTree.dir] at hm
  obtain ⟨i, ns, y, hid, hget, hfold, hok, hak⟩ := getInter_fold h ho hp hm
  have hi : i = x.iid := ok_inj (hid.symm.trans hxi)
  have hyx : y = x :=
    eq_of_nodup_iid _ (nodup_compile h).2.2 y (List.mem_of_find?_eq_some hget) x hx
      ((getInter_iid hget).trans hi)
  have hy := fold_kids hm hid kids hok hak _ y hfold
  subst hyx
  refine ⟨?_, ?_, ?_⟩
  · have htags : y.tags = ns := by rw [hy]; rfl
    rw [htags, ← hi]; exact hy
  · intro k hk hkd
    exact (fold_kids_descr hm hid kids hok hak _ y hfold k hk hkd).2
  · intro k hk hkd
    exact (fold_kids_query hm hid kids hok hak _ y hfold k hk hkd).2

/-- the subtree occurrence of an entry -/
theorem mem_subs_of_ent {f : List BTree} {m : Ent} (h : m ∈ flatAF [] f) :
    ∃ a t, (a, t) ∈ subsF [] f ∧ entOf (a, t) = m := by
  rw [flatAF_subs] at h
  obtain ⟨p, hp, rfl⟩ := List.mem_map.mp h
  exact ⟨p.1, p.2, hp, rfl⟩

/-! ### the fields of `content`, declaratively -/

theorem kidContent_responses (k : BTree) :
    (kidContent k).responses = if k.dir.kind == .HTTPResponseCode then [respOf k] else [] := by
  unfold kidContent
  cases hk : k.dir.kind <;> simp [kbeq]

theorem content_responses : ∀ kids : List BTree,
    (content kids).responses = (kids.filter (·.dir.kind == .HTTPResponseCode)).map respOf
  | [] => rfl
  | k :: r => by
    simp only [content, Content.merge, kidContent_responses, content_responses r, List.filter_cons]
    split <;> simp

theorem content_params : ∀ kids : List BTree, (content kids).params = hasKind .Params (kids.map BTree.dir)
  | [] => rfl
  | k :: r => by
    simp only [content, Content.merge, content_params r, hasKind, List.map_cons, List.any_cons]
    congr 1
    unfold kidContent
    cases hk : k.dir.kind <;> simp [kbeq]

theorem content_result : ∀ kids : List BTree, (content kids).result = hasKind .Result (kids.map BTree.dir)
  | [] => rfl
  | k :: r => by
    simp only [content, Content.merge, content_result r, hasKind, List.map_cons, List.any_cons]
    congr 1
    unfold kidContent
    cases hk : k.dir.kind <;> simp [kbeq]

theorem content_descr_none : ∀ kids : List BTree, (∀ k ∈ kids, k.dir.kind ≠ .Description) →
    (content kids).descr = none
  | [], _ => rfl
  | k :: r, h => by
    simp only [content, Content.merge, content_descr_none r (fun k' hk' => h k' (List.mem_cons_of_mem _ hk'))]
    have := h k (List.mem_cons_self ..)
    unfold kidContent
    cases hk : k.dir.kind <;> simp_all

theorem content_query_none : ∀ kids : List BTree, (∀ k ∈ kids, k.dir.kind ≠ .Query) →
    (content kids).query = none
  | [], _ => rfl
  | k :: r, h => by
    simp only [content, Content.merge, content_query_none r (fun k' hk' => h k' (List.mem_cons_of_mem _ hk'))]
    have := h k (List.mem_cons_self ..)
    unfold kidContent
    cases hk : k.dir.kind <;> simp_all

/-- the Request child of a method directive (the first one; an accepted method directive has at most one, see
`http_one_request`) -/
def reqOf (kids : List BTree) : Option ReqM := (kids.find? (·.dir.kind == .Request)).map reqPart

theorem kidContent_request (k : BTree) :
    (kidContent k).request = if k.dir.kind == .Request then some (reqPart k) else none := by
  unfold kidContent
  cases hk : k.dir.kind <;> simp [kbeq]

theorem content_request : ∀ kids : List BTree, (content kids).request = reqOf kids
  | [] => rfl
  | k :: r => by
    simp only [content, Content.merge, kidContent_request, content_request r, reqOf, List.find?_cons]
    cases (k.dir.kind == Kind.Request) <;> simp [mergeReq]

/-! ### a second Request directive of one method is refused (no nesting hypothesis) -/

theorem lReqBody_request {b : BodyM} {x y : InterM} (h : lReqBody b x = some y) : y.request.isSome = true := by
  unfold lReqBody at h
  split at h; · cases h
  split at h; · cases h
  cases h; rfl

theorem lRequest_mono {d : BDir} {x y : InterM} (h : lRequest d x = some y) (hs : x.request.isSome = true) :
    y.request.isSome = true := by
  unfold lRequest at h
  split at h
  · simp [lReqNew, hs] at h
  · simp only [Option.bind_some] at h
    unfold lReqTail at h
    split at h
    · exact lReqBody_request h
    · split at h
      · cases h
      · cases h; exact hs

theorem lResponse_mono {d : BDir} {x y : InterM} (h : lResponse d x = some y) : y.request = x.request := by
  unfold lResponse at h
  have hb : ∀ {b : BodyM} {x y : InterM}, lRespBody b x = some y → y.request = x.request := by
    intro b x y h
    unfold lRespBody at h
    split at h; · cases h
    split at h; · cases h
    cases h; rfl
  have hn : ∀ x' : InterM, (if (d.kind == Kind.HTTPResponseCode) = true then lRespNew d x' else x').request = x'.request := by
    intro x'; split <;> rfl
  split at h
  · rw [hb h, hn]
  · split at h
    · cases h
    · cases h; rw [hn]

/-- no accepted step takes the request of an interaction away -/
theorem effP_request_mono {e : Ent} {x y : InterM} (h : effP e x = some y) (hs : x.request.isSome = true) :
    y.request.isSome = true := by
  unfold effP at h
  split at h
  · unfold lDescr at h
    split at h; · cases h
    split at h; · cases h
    cases h; exact hs
  · unfold lQuery at h
    split at h; · cases h
    cases h; exact hs
  · exact lRequest_mono h hs
  · rw [lResponse_mono h]; exact hs
  · unfold lHeaders at h
    split at h
    · split at h
      · unfold lHeadReq at h
        split at h; · cases h
        split at h; · cases h
        cases h; rfl
      · split at h
        · unfold lHeadResp at h
          split at h; · cases h
          split at h; · cases h
          cases h; exact hs
        · cases h
    · cases h
  · unfold lBody at h
    split at h
    · split at h
      · exact lRequest_mono h hs
      · split at h
        · rw [lResponse_mono h]; exact hs
        · cases h; exact hs
    · cases h
  · unfold lParams at h
    split at h; · cases h
    cases h; exact hs
  · unfold lResult at h
    split at h; · cases h
    cases h; exact hs
  · cases h; exact hs

theorem foldP_request_mono (j : IId) : ∀ (l : List Ent) {x y : InterM}, foldP j l x = some y →
    x.request.isSome = true → y.request.isSome = true
  | [], x, y, h, hs => by simp [foldP] at h; subst h; exact hs
  | e :: r, x, y, h, hs => by
    simp only [foldP] at h
    split at h
    · cases he : effP e x with
      | none => simp [he] at h
      | some x₀ =>
        simp only [he, Option.bind_some] at h
        exact foldP_request_mono j r h (effP_request_mono he hs)
    · exact foldP_request_mono j r h hs

mutual
  /-- where a subtree sits in the source order -/
  theorem subs_split (anc : List Up) : ∀ (t : BTree) (a : List Up) (s : BTree), (a, s) ∈ subs anc t →
      ∃ pre post, flatA anc t = pre ++ flatA a s ++ post
    | .node d kids, a, s, hs => by
      simp only [subs, List.mem_cons] at hs
      rcases hs with heq | hs
      · cases heq
        exact ⟨[], [], by simp⟩
      · obtain ⟨pre, post, h1⟩ := subsF_split _ kids a s hs
        exact ⟨⟨d, kids.map BTree.dir, anc⟩ :: pre, post, by simp [flatA, h1]⟩
  theorem subsF_split (anc : List Up) : ∀ (f : List BTree) (a : List Up) (s : BTree), (a, s) ∈ subsF anc f →
      ∃ pre post, flatAF anc f = pre ++ flatA a s ++ post
    | [], a, s, hs => by simp [subsF] at hs
    | t :: r, a, s, hs => by
      simp only [subsF, List.mem_append] at hs
      rcases hs with hs | hs
      · obtain ⟨pre, post, h1⟩ := subs_split anc t a s hs
        exact ⟨pre, post ++ flatAF anc r, by simp [flatAF, h1]⟩
      · obtain ⟨pre, post, h1⟩ := subsF_split anc r a s hs
        exact ⟨flatA anc t ++ pre, post, by simp [flatAF, h1]⟩
end

/-- the children of an HTTP method directive, run one after the other, seen from the method's interaction `i`:
a Request child is accepted only while the interaction has no request, and it leaves one -/
theorem run_kids_request {banned : List Kind} {i : IId} {p : Up} {rest : List Up}
    (hpi : httpIdOf (p.d :: rest.map (·.d)) = .ok i) :
    ∀ (kids : List BTree) (c c' : Cat) (x : InterM), run banned (flatAF (p :: rest) kids) c = .ok c' →
      c.getInter i = some x →
      ∃ y, c'.getInter i = some y ∧
        (x.request.isSome = true → y.request.isSome = true ∧ ∀ k ∈ kids, k.dir.kind ≠ .Request) ∧
        (kids.filter (·.dir.kind == .Request)).length ≤ 1
  | [], c, c', x, h, hx => by
    simp [flatAF, run] at h; subst h
    exact ⟨x, hx, fun hs => ⟨hs, fun k hk => by cases hk⟩, by simp⟩
  | .node kd gks :: r, c, c', x, h, hx => by
    simp only [flatAF, flatA, List.cons_append, run] at h
    cases hs : step banned ⟨kd, gks.map BTree.dir, p :: rest⟩ c with
    | error err => simp [hs] at h
    | ok c₁ =>
      simp only [hs] at h
      rw [run_append] at h
      cases hg : run banned (flatAF (⟨kd, gks.map BTree.dir⟩ :: p :: rest) gks) c₁ with
      | error err => simp [hg] at h
      | ok c₂ =>
        simp only [hg] at h
        obtain ⟨y₀, hy₀, e₀⟩ := step_loc hs hx
        obtain ⟨y₁, hy₁, e₁⟩ := run_loc _ hg hy₀
        obtain ⟨y, hy, ih1, ih2⟩ := run_kids_request hpi r c₂ c' y₁ h hy₁
        by_cases hkd : kd.kind = .Request
        · have ht : tgt ⟨kd, gks.map BTree.dir, p :: rest⟩ = some i := by
            simp only [tgt, hkd, Ent.chain, List.map_cons]
            rw [httpIdOf_skip (by simp [inner, hkd])]
            exact toOption_ok hpi
          simp only [ht, if_true, effP, hkd] at e₀
          obtain ⟨hxn, hy₀r⟩ := lRequest_new hkd e₀
          have hy₀s : y₀.request.isSome = true := by rw [hy₀r]; rfl
          obtain ⟨hys, hnor⟩ := ih1 (foldP_request_mono i _ e₁ hy₀s)
          refine ⟨y, hy, ?_, ?_⟩
          · intro hxs; rw [hxn] at hxs; cases hxs
          have : r.filter (·.dir.kind == .Request) = [] := by
            rw [List.filter_eq_nil_iff]
            intro k hk
            simpa using hnor k hk
          have hk1 : ((BTree.node kd gks).dir.kind == Kind.Request) = true := by simp [BTree.dir, hkd]
          rw [List.filter_cons, if_pos hk1, this]
          exact Nat.le_refl 1
        · have hmono : x.request.isSome = true → y₀.request.isSome = true := by
            intro hxs
            split at e₀
            · exact effP_request_mono e₀ hxs
            · cases e₀; exact hxs
          have hk0 : ¬ ((BTree.node kd gks).dir.kind == Kind.Request) = true := by simp [BTree.dir, hkd]
          refine ⟨y, hy, ?_, by rw [List.filter_cons, if_neg hk0]; exact ih2⟩
          intro hxs
          obtain ⟨hys, hnor⟩ := ih1 (foldP_request_mono i _ e₁ (hmono hxs))
          refine ⟨hys, ?_⟩
          intro k hk
          rcases List.mem_cons.mp hk with rfl | hk'
          · exact hkd
          · exact hnor k hk'

/-- an accepted HTTP method directive has at most one Request child.  No nesting hypothesis: the first Request
child leaves a request in the method's interaction, nothing takes it away, the second one is refused -/
theorem http_one_request {banned : List Kind} {f : List BTree} {c : Cat} (h : compile banned f = .ok c)
    {a : List Up} {d : BDir} {kids : List BTree} (hp : (a, .node d kids) ∈ subsF [] f)
    (hH : isHTTP d.kind = true) : (kids.filter (·.dir.kind == .Request)).length ≤ 1 := by
  obtain ⟨c₀, _, _, _, _, hr, _⟩ := compile_ok h
  obtain ⟨pre, post, hdec⟩ := subsF_split [] f a _ hp
  rw [hdec, List.append_assoc, run_append] at hr
  cases h1 : run banned pre c₀ with
  | error err => simp [h1] at hr
  | ok c₁ =>
    simp only [h1] at hr
    rw [run_append] at hr
    cases h2 : run banned (flatA a (.node d kids)) c₁ with
    | error err => simp [h2] at hr
    | ok c₃ =>
      simp only [flatA, run] at h2
      cases h3 : step banned ⟨d, kids.map BTree.dir, a⟩ c₁ with
      | error err => simp [h3] at h2
      | ok c₂ =>
        simp only [h3] at h2
        have hm : isMeth d.kind = true := by simp [isMeth, hH]
        obtain ⟨i, ns, hid, hnone, hc₂⟩ := step_meth (e := ⟨d, kids.map BTree.dir, a⟩) hm h3
        have hg₂ : c₂.getInter i = some { iid := i, annot := d.annot, tags := ns } := by
          simp only [Cat.getInter] at hnone ⊢
          rw [hc₂, List.find?_append, hnone]
          simp
        obtain ⟨y, _, _, hle⟩ := run_kids_request (p := ⟨d, kids.map BTree.dir⟩) (idOf_http hid hH) kids c₂ c₃ _ h2 hg₂
        exact hle

/-- the same for every method directive of a forest that obeys the nesting table (a JSON-RPC `Method` admits no
Request child) -/
theorem meth_one_request {banned : List Kind} {f : List BTree} {c : Cat} (h : compile banned f = .ok c)
    (ho : obeysF f = true) {a : List Up} {t : BTree} (hp : (a, t) ∈ subsF [] f) (hm : isMeth t.dir.kind = true) :
    (t.kids.filter (·.dir.kind == .Request)).length ≤ 1 := by
  cases t with
  | node d kids =>
  simp only [BTree.dir] at hm
  simp only [BTree.kids]
  rcases isMeth_split hm with hM | ⟨_, hH⟩
  · obtain ⟨_, _, _, _, hot, _⟩ := decomp_forest [] (by intro u hu; cases hu) f ho a _ hp hm
    simp only [obeysT, Bool.and_eq_true, List.all_eq_true] at hot
    have hM' : d.kind = .Method := by simpa using hM
    have : kids.filter (·.dir.kind == .Request) = [] := by
      rw [List.filter_eq_nil_iff]
      intro k hk hkr
      have ha := hot.1 k.dir (List.mem_map_of_mem hk)
      have hkr' : k.dir.kind = .Request := by simpa using hkr
      rw [hM', hkr'] at ha
      revert ha; decide
    simp [this]
  · exact http_one_request h hp hH

/-- two positions of a list that satisfy `P` -/
theorem two_filter {α} (P : α → Bool) : ∀ (l : List α) (p q : Nat) (a b : α), p < q → l[p]? = some a →
    l[q]? = some b → P a = true → P b = true → 2 ≤ (l.filter P).length
  | [], p, q, a, b, _, h₁, _, _, _ => by simp at h₁
  | x :: t, 0, q + 1, a, b, _, h₁, h₂, ha, hb => by
    simp only [List.getElem?_cons_zero, Option.some.injEq] at h₁
    subst h₁
    simp only [List.getElem?_cons_succ] at h₂
    have : b ∈ t.filter P := List.mem_filter.mpr ⟨List.mem_of_getElem? h₂, hb⟩
    have := List.length_pos_of_mem this
    simp only [List.filter_cons, ha, if_true, List.length_cons]
    omega
  | x :: t, p + 1, q + 1, a, b, hpq, h₁, h₂, ha, hb => by
    simp only [List.getElem?_cons_succ] at h₁ h₂
    have := two_filter P t p q a b (by omega) h₁ h₂ ha hb
    simp only [List.filter_cons]
    split
    · simp only [List.length_cons]; omega
    · exact this

/-! ### the INFO block -/

def orB (a b : Bytes) : Bytes := if a.isEmpty then b else a

/-- the parameter `p` of the first child of kind `k` ("" when there is none) -/
def firstParam (k : Kind) (p : String) (kids : List BDir) : Bytes :=
  match kids.find? (·.kind == k) with
  | some d => d.param p
  | none => []

/-- the INFO block declared by the children of the INFO directive `d` -/
def infoOf (d : BDir) (kids : List BDir) : InfoM :=
  { id := d.id, title := firstParam .Title "Title" kids, version := firstParam .Version "Version" kids,
    descr := (kids.find? (·.kind == .Description)).bind descrText }

theorem addDescription_info_exact {d : BDir} {anc : List Up} {c c' : Cat}
    (hu : ∃ p r, anc = p :: r ∧ p.d.kind = .Info) (hs : addDescription d anc c = .ok c') :
    ∃ i t, c.info = some i ∧ i.descr = none ∧ descrText d = some t ∧ c'.info = some { i with descr := some t } := by
  obtain ⟨p, r, rfl, hk⟩ := hu
  unfold addDescription at hs
  simp only [fail, hk, beq_self_eq_true, if_true] at hs
  split at hs; · cases hs
  split at hs; · cases hs
  rename_i b hb
  split at hs; · cases hs
  rename_i text htext
  split at hs; · cases hs
  split at hs; · cases hs
  split at hs; · cases hs
  rename_i i hi hd
  cases hs
  exact ⟨i, text, hi, by cases hdd : i.descr <;> simp_all, by simp [descrText, hb, htext], rfl⟩

theorem neutral_not_info {k : Kind} (h : neutral k = true) : k ≠ .Info ∧ k ≠ .Title ∧ k ≠ .Version := by
  cases k <;> first | (cases h; done) | decide

theorem isMeth_not_info {k : Kind} (h : isMeth k = true) :
    k ≠ .Info ∧ k ≠ .Title ∧ k ≠ .Version ∧ k ≠ .Description := by
  cases k <;> first | (revert h; decide) | decide

/-- what one step does to the INFO block -/
theorem info_step {banned : List Kind} {e : Ent} {c c' : Cat} (h : step banned e c = .ok c') :
    (e.d.kind = .Info ∧ c.info = none ∧ c'.info = some { id := e.d.id }) ∨
    (e.d.kind = .Title ∧ ∃ i, c.info = some i ∧ i.title = [] ∧ e.d.param "Title" ≠ [] ∧
      c'.info = some { i with title := e.d.param "Title" }) ∨
    (e.d.kind = .Version ∧ ∃ i, c.info = some i ∧ i.version = [] ∧ e.d.param "Version" ≠ [] ∧
      c'.info = some { i with version := e.d.param "Version" }) ∨
    (e.d.kind = .Description ∧ underInfo e ∧ ∃ i t, c.info = some i ∧ i.descr = none ∧ descrText e.d = some t ∧
      c'.info = some { i with descr := some t }) ∨
    (e.d.kind ≠ .Info ∧ e.d.kind ≠ .Title ∧ e.d.kind ≠ .Version ∧ ¬(e.d.kind = .Description ∧ underInfo e) ∧
      c'.info = c.info) := by
  by_cases hdu : e.d.kind = .Description ∧ underInfo e
  · exact .inr (.inr (.inr (.inl ⟨hdu.1, hdu.2, addDescription_info_exact hdu.2 (step_description hdu.1 h)⟩)))
  · have hs := (step_ok h).2
    cases hs
    case info hk hn => exact .inl ⟨hk, hn, rfl⟩
    case title i hk hi ht hp => exact .inr (.inl ⟨hk, i, hi, ht, hp, rfl⟩)
    case version i hk hi ht hp => exact .inr (.inr (.inl ⟨hk, i, hi, ht, hp, rfl⟩))
    case descrInfo i text hk hu _ _ => exact absurd ⟨hk, hu⟩ hdu
    case same hn => obtain ⟨a, b, c⟩ := neutral_not_info hn; exact .inr (.inr (.inr (.inr ⟨a, b, c, hdu, rfl⟩)))
    case inters hn _ => obtain ⟨a, b, c⟩ := neutral_not_info hn; exact .inr (.inr (.inr (.inr ⟨a, b, c, hdu, rfl⟩)))
    case tagsMap hn _ => obtain ⟨a, b, c⟩ := neutral_not_info hn; exact .inr (.inr (.inr (.inr ⟨a, b, c, hdu, rfl⟩)))
    case proto hn => obtain ⟨a, b, c⟩ := neutral_not_info hn; exact .inr (.inr (.inr (.inr ⟨a, b, c, hdu, rfl⟩)))
    case method hm _ _ _ _ =>
      obtain ⟨a, b, c, _⟩ := isMeth_not_info hm; exact .inr (.inr (.inr (.inr ⟨a, b, c, hdu, rfl⟩)))
    case jsight hk _ => exact .inr (.inr (.inr (.inr ⟨by simp [hk], by simp [hk], by simp [hk], hdu, rfl⟩)))
    case server hk _ _ => exact .inr (.inr (.inr (.inr ⟨by simp [hk], by simp [hk], by simp [hk], hdu, rfl⟩)))
    case baseUrl hk _ => exact .inr (.inr (.inr (.inr ⟨by simp [hk], by simp [hk], by simp [hk], hdu, rfl⟩)))
    case type hk _ _ => exact .inr (.inr (.inr (.inr ⟨by simp [hk], by simp [hk], by simp [hk], hdu, rfl⟩)))
    case url hk _ => exact .inr (.inr (.inr (.inr ⟨by simp [hk], by simp [hk], by simp [hk], hdu, rfl⟩)))

theorem info_step_some {banned : List Kind} {e : Ent} {c c' : Cat} (h : step banned e c = .ok c')
    (hi : c.info.isSome = true) : c'.info.isSome = true ∧ e.d.kind ≠ .Info := by
  rcases info_step h with ⟨_, hn, _⟩ | ⟨hk, i, _, _, _, hc⟩ | ⟨hk, i, _, _, _, hc⟩ | ⟨hk, _, i, t, _, _, _, hc⟩ | ⟨hk, _, _, _, hc⟩
  · rw [hn] at hi; cases hi
  · exact ⟨by simp [hc], by simp [hk]⟩
  · exact ⟨by simp [hc], by simp [hk]⟩
  · exact ⟨by simp [hc], by simp [hk]⟩
  · exact ⟨by rw [hc]; exact hi, hk⟩

/-- once the INFO block exists no later directive is an INFO directive -/
theorem run_no_info {banned : List Kind} : ∀ (l : List Ent) {c c' : Cat}, run banned l c = .ok c' →
    c.info.isSome = true → ∀ e ∈ l, e.d.kind ≠ .Info
  | [], _, _, _, _, e, he => by cases he
  | a :: r, c, c', h, hi, e, he => by
    simp only [run] at h
    cases hs : step banned a c with
    | error err => simp [hs] at h
    | ok c₁ =>
      simp only [hs] at h
      obtain ⟨h1, h2⟩ := info_step_some hs hi
      rcases List.mem_cons.mp he with rfl | he'
      · exact h2
      · exact run_no_info r h h1 e he'

theorem run_info_keep {banned : List Kind} : ∀ (l : List Ent) {c c' : Cat}, run banned l c = .ok c' →
    (∀ e ∈ l, e.d.kind ≠ .Info ∧ e.d.kind ≠ .Title ∧ e.d.kind ≠ .Version ∧ ¬(e.d.kind = .Description ∧ underInfo e)) →
    c'.info = c.info
  | [], c, c', h, _ => by simp [run] at h; rw [h]
  | a :: r, c, c', h, hall => by
    simp only [run] at h
    cases hs : step banned a c with
    | error err => simp [hs] at h
    | ok c₁ =>
      simp only [hs] at h
      obtain ⟨n1, n2, n3, n4⟩ := hall a (List.mem_cons_self ..)
      have hc₁ : c₁.info = c.info := by
        rcases info_step hs with ⟨hk, _⟩ | ⟨hk, _⟩ | ⟨hk, _⟩ | ⟨hk, hu, _⟩ | ⟨_, _, _, _, hc⟩
        · exact absurd hk n1
        · exact absurd hk n2
        · exact absurd hk n3
        · exact absurd ⟨hk, hu⟩ n4
        · exact hc
      rw [run_info_keep r h (fun e he => hall e (List.mem_cons_of_mem _ he)), hc₁]

theorem admits_leaf2 {k : Kind} (h : k = .Title ∨ k = .Version) (c : Kind) : admitsK k c = false := by
  rcases h with rfl | rfl <;> rfl

theorem info_kid_table (c : Kind) (ha : admitsK .Info c = true) :
    c = .Title ∨ c = .Version ∨ c = .Description ∨ c = .Paste := by
  revert ha; cases c <;> decide

theorem orB_nil (b : Bytes) : orB [] b = b := rfl
theorem orB_right_nil (a : Bytes) : orB a [] = a := by unfold orB; split <;> simp_all
theorem orB_ne {a : Bytes} (h : a ≠ []) (b : Bytes) : orB a b = a := by
  unfold orB; cases a <;> simp_all

/-- the children of the INFO directive fill the INFO block -/
theorem run_info_kids {banned : List Kind} {p : Up} {rest : List Up} (hp : p.d.kind = .Info) :
    ∀ (kids : List BTree), obeysF kids = true → (∀ k ∈ kids, admitsK .Info k.dir.kind = true) →
    ∀ (c c' : Cat) (i : InfoM), run banned (flatAF (p :: rest) kids) c = .ok c' → c.info = some i →
      c'.info = some { i with title := orB i.title (firstParam .Title "Title" (kids.map BTree.dir)),
                              version := orB i.version (firstParam .Version "Version" (kids.map BTree.dir)),
                              descr := i.descr.or (((kids.map BTree.dir).find? (·.kind == .Description)).bind descrText) }
  | [], _, _, c, c', i, h, hi => by
    simp [flatAF, run] at h; subst h
    rw [hi]; simp [firstParam, orB_right_nil]
  | .node kd gks :: r, ho, ha, c, c', i, h, hi => by
    simp only [obeysF, Bool.and_eq_true] at ho
    have hkind := info_kid_table _ (ha _ (List.mem_cons_self ..))
    simp only [BTree.dir] at hkind
    have hleaf : gks = [] := leaf_kids ho.1 (by
      rcases hkind with h | h | h | h
      · exact admits_leaf2 (.inl h)
      · exact admits_leaf2 (.inr h)
      · exact admits_leaf (by simp [h])
      · exact admits_leaf (by simp [h]))
    subst hleaf
    simp only [flatAF, flatA, List.map_nil, List.cons_append, List.nil_append, run] at h
    cases hs : step banned ⟨kd, [], p :: rest⟩ c with
    | error err => simp [hs] at h
    | ok c₁ =>
      simp only [hs] at h
      have ih := run_info_kids (banned := banned) (rest := rest) hp r ho.2 (fun k hk => ha k (List.mem_cons_of_mem _ hk)) c₁ c'
      have hund : underInfo ⟨kd, [], p :: rest⟩ := ⟨p, rest, rfl, hp⟩
      rcases info_step hs with ⟨hk, _⟩ | ⟨hk, i', hi', ht, hpn, hc⟩ | ⟨hk, i', hi', ht, hpn, hc⟩ |
          ⟨hk, _, i', t, hi', ht, hdt, hc⟩ | ⟨n1, n2, n3, n4, hc⟩
      · rcases hkind with h' | h' | h' | h' <;> simp [h'] at hk
      · simp only at hk hpn hc
        rw [hi] at hi'; cases hi'
        rw [ih _ h hc]
        simp [firstParam, BTree.dir, hk, kbeq, ht, orB_nil, orB_ne hpn]
      · simp only at hk hpn hc
        rw [hi] at hi'; cases hi'
        rw [ih _ h hc]
        simp [firstParam, BTree.dir, hk, kbeq, ht, orB_nil, orB_ne hpn]
      · simp only at hk hdt hc
        rw [hi] at hi'; cases hi'
        rw [ih _ h hc]
        simp [firstParam, BTree.dir, hk, kbeq, ht, hdt]
      · simp only at n1 n2 n3 n4 hc
        have hnd : kd.kind ≠ .Description := fun hkd => n4 ⟨hkd, hund⟩
        rw [ih i h (hc.trans hi)]
        have hP : kd.kind = .Paste := by rcases hkind with h' | h' | h' | h' <;> simp_all
        simp [firstParam, BTree.dir, hP, kbeq]

mutual
  /-- in an obeying forest the parent of an entry admits it -/
  theorem parent_tree (anc : List Up) : ∀ t : BTree, obeysT t = true → ∀ e ∈ flatA anc t,
      (e.anc = anc ∧ e.d = t.dir) ∨
        ∃ u rest, e.anc = u :: rest ∧ admitsK u.d.kind e.d.kind = true ∧ u.d ∈ flat t
    | .node d kids, ho, e, he => by
      simp only [flatA, List.mem_cons] at he
      simp only [obeysT, Bool.and_eq_true, List.all_eq_true] at ho
      rcases he with rfl | he
      · exact .inl ⟨rfl, rfl⟩
      · rcases parent_forest _ kids ho.2 e he with ⟨h1, k, hk, hkd⟩ | ⟨u, rest, h1, h2, h3⟩
        · exact .inr ⟨⟨d, kids.map BTree.dir⟩, anc, h1,
            by rw [← hkd]; exact ho.1 k.dir (List.mem_map_of_mem hk), by simp [flat]⟩
        · exact .inr ⟨u, rest, h1, h2, by simp [flat, h3]⟩
  theorem parent_forest (anc : List Up) : ∀ f : List BTree, obeysF f = true → ∀ e ∈ flatAF anc f,
      (e.anc = anc ∧ ∃ t ∈ f, t.dir = e.d) ∨
        ∃ u rest, e.anc = u :: rest ∧ admitsK u.d.kind e.d.kind = true ∧ u.d ∈ flatF f
    | [], _, e, he => by simp [flatAF] at he
    | t :: r, ho, e, he => by
      simp only [obeysF, Bool.and_eq_true] at ho
      simp only [flatAF, List.mem_append] at he
      rcases he with he | he
      · rcases parent_tree anc t ho.1 e he with ⟨h1, h2⟩ | ⟨u, rest, h1, h2, h3⟩
        · exact .inl ⟨h1, t, List.mem_cons_self .., h2.symm⟩
        · exact .inr ⟨u, rest, h1, h2, by simp [flatF, h3]⟩
      · rcases parent_forest anc r ho.2 e he with ⟨h1, k, hk, hkd⟩ | ⟨u, rest, h1, h2, h3⟩
        · exact .inl ⟨h1, k, List.mem_cons_of_mem _ hk, hkd⟩
        · exact .inr ⟨u, rest, h1, h2, by simp [flatF, h3]⟩
end

theorem obeysF_append : ∀ f g : List BTree, obeysF (f ++ g) = (obeysF f && obeysF g)
  | [], g => by simp [obeysF]
  | t :: r, g => by simp [obeysF, obeysF_append r g, Bool.and_assoc]

theorem admits_title_version {p c : Kind} (hc : c = .Title ∨ c = .Version) (h : admitsK p c = true) :
    p = .Info ∨ p = .Macro := by
  revert h
  rcases hc with rfl | rfl <;> cases p <;> decide

/-- the INFO block of the catalog is the one the INFO directive declares: its id, the Title and Version of its
children, the normal form of its Description child.  Needs the nesting table, no MACRO directive left (they are
removed before `buildCatalog`) and admissible root directives: otherwise a stray Title could fill the block. -/
theorem info_content {banned : List Kind} {f : List BTree} {c : Cat} (h : compile banned f = .ok c)
    (ho : obeysF f = true) (hnm : ∀ d ∈ flatF f, d.kind ≠ .Macro)
    (hroot : ∀ t ∈ f, rootAllowed.contains t.dir.kind = true)
    {d : BDir} {kids : List BTree} (ht : BTree.node d kids ∈ f) (hk : d.kind = .Info) :
    c.info = some (infoOf d (kids.map BTree.dir)) := by
  obtain ⟨c₀, _, _, _, _, hr, _⟩ := compile_ok h
  obtain ⟨f₁, f₂, rfl⟩ := List.append_of_mem ht
  rw [obeysF_append] at ho
  simp only [obeysF, obeysT, Bool.and_eq_true, List.all_eq_true] at ho
  obtain ⟨_, ⟨hall, hok⟩, ho₂⟩ := ho
  rw [flatAF_append, run_append] at hr
  cases h1 : run banned (flatAF [] f₁) c₀ with
  | error err => simp [h1] at hr
  | ok c₁ =>
    simp only [h1, flatAF, flatA, List.cons_append, run] at hr
    cases h2 : step banned ⟨d, kids.map BTree.dir, []⟩ c₁ with
    | error err => simp [h2] at hr
    | ok c₂ =>
      simp only [h2] at hr
      rw [run_append] at hr
      cases h3 : run banned (flatAF [⟨d, kids.map BTree.dir⟩] kids) c₂ with
      | error err => simp [h3] at hr
      | ok c₃ =>
        simp only [h3] at hr
        have hc₂ : c₂.info = some { id := d.id } := by
          rcases info_step h2 with ⟨_, _, hc⟩ | ⟨hk', _⟩ | ⟨hk', _⟩ | ⟨hk', _⟩ | ⟨hk', _⟩
          · exact hc
          all_goals simp [hk] at hk'
        have hc₃ := run_info_kids (p := ⟨d, kids.map BTree.dir⟩) (rest := []) hk kids hok
          (fun k hk' => by simpa [hk] using hall k.dir (List.mem_map_of_mem hk')) c₂ c₃ _ h3 hc₂
        have hnoinfo : ∀ e ∈ flatAF [] f₂, e.d.kind ≠ .Info := run_no_info _ hr (by simp [hc₃])
        have hnoinfo' : ∀ d' ∈ flatF f₂, d'.kind ≠ .Info := by
          intro d' hd'
          rw [← flatAF_dirs [] f₂] at hd'
          obtain ⟨e', he', rfl⟩ := List.mem_map.mp hd'
          exact hnoinfo e' he'
        have hnm₂ : ∀ d' ∈ flatF f₂, d'.kind ≠ .Macro := by
          intro d' hd'
          exact hnm d' (by simp [flatF_append, flatF, hd'])
        have hkeep := run_info_keep _ hr (fun e he => by
          have hTV : ∀ k : Kind, (k = .Title ∨ k = .Version) → e.d.kind ≠ k := by
            intro k hkk hek
            rcases parent_forest [] f₂ ho₂ e he with ⟨_, t, ht', htd⟩ | ⟨u, rest, _, h2', h3'⟩
            · have := hroot t (by simp [ht'])
              rw [htd, hek] at this
              rcases hkk with rfl | rfl <;> revert this <;> decide
            · rw [hek] at h2'
              rcases admits_title_version hkk h2' with hI | hM
              · exact hnoinfo' _ h3' hI
              · exact hnm₂ _ h3' hM
          refine ⟨hnoinfo e he, hTV _ (.inl rfl), hTV _ (.inr rfl), ?_⟩
          rintro ⟨_, p, r, hanc, hpk⟩
          obtain ⟨ups, h1', h2', _⟩ := mem_flatAF_anc [] f₂ e he
          rw [hanc, List.append_nil] at h1'
          exact hnoinfo' _ (h2' p (by rw [← h1']; exact List.mem_cons_self ..)) hpk)
        rw [hkeep, hc₃]
        simp [infoOf, orB_nil]


theorem run_info_none {banned : List Kind} : ∀ (l : List Ent) {c c' : Cat}, run banned l c = .ok c' →
    c.info = none → (∀ e ∈ l, e.d.kind ≠ .Info) → c'.info = none
  | [], c, c', h, hi, _ => by simp [run] at h; rw [← h]; exact hi
  | a :: r, c, c', h, hi, hall => by
    simp only [run] at h
    cases hs : step banned a c with
    | error err => simp [hs] at h
    | ok c₁ =>
      simp only [hs] at h
      have hc₁ : c₁.info = none := by
        rcases info_step hs with ⟨hk, _⟩ | ⟨_, i, hi', _⟩ | ⟨_, i, hi', _⟩ | ⟨_, _, i, t, hi', _⟩ | ⟨_, _, _, _, hc⟩
        · exact absurd hk (hall a (List.mem_cons_self ..))
        · rw [hi] at hi'; cases hi'
        · rw [hi] at hi'; cases hi'
        · rw [hi] at hi'; cases hi'
        · rw [hc]; exact hi
      exact run_info_none r h hc₁ (fun e he => hall e (List.mem_cons_of_mem _ he))

/-- no INFO directive, no INFO block -/
theorem info_none {banned : List Kind} {f : List BTree} {c : Cat} (h : compile banned f = .ok c)
    (hno : ∀ d ∈ flatF f, d.kind ≠ .Info) : c.info = none := by
  obtain ⟨c₀, h0, _, _, _, hr, _⟩ := compile_ok h
  refine run_info_none _ hr (by rw [collectTags_empty h0]) ?_
  intro e he
  exact hno e.d (by rw [← flatAF_dirs [] f]; exact List.mem_map_of_mem (f := fun e : Ent => e.d) he)

end JSight.C04C
