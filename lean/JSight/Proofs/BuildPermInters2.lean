import JSight.Model.Build
import JSight.Proofs.BuildPermInters
import JSight.Props.C19
/-!
Helpers of `Props/C10_Inters.lean`, second part: two neighbouring HTTP-method blocks of the top level commute.

* part E: everything below a method directive reads and writes the interaction of that method only (`forest_local`);
* part F: what a method directive without Tags does (`methStep`, `method_summary`);
* part G: the commutations (`local_creator_comm`, `local_local_comm`, `methStep_comm`, `comm_methods`);
* part H: the stages of `compile` (`swap_methods_rrel`).
-/
set_option linter.unusedSimpArgs false
set_option linter.unusedVariables false

namespace JSight.BuildPermI
open JSight JSight.Build JSight.Gen JSight.BuildInv JSight.BuildPerm

/-! ### part E: below a method directive -/

/-- the directives allowed below an HTTP method directive (`Gen.childAllowed`), Tags apart -/
def localKind (d : BDir) : Bool :=
  d.kind == .Description || d.kind == .Query || d.kind == .Request || d.kind == .HTTPResponseCode ||
    d.kind == .Headers || d.kind == .Body || d.kind == .Path || d.kind == .Paste

theorem localKind_cases {d : BDir} (h : localKind d = true) :
    d.kind = .Description ∨ d.kind = .Query ∨ d.kind = .Request ∨ d.kind = .HTTPResponseCode ∨
      d.kind = .Headers ∨ d.kind = .Body ∨ d.kind = .Path ∨ d.kind = .Paste := by
  simp only [localKind, Bool.or_eq_true, beq_iff_eq] at h
  rcases h with ((((((h | h) | h) | h) | h) | h) | h) | h
  all_goals simp [h]

theorem localKind_skip {d : BDir} (h : localKind d = true) : d.kind ≠ .URL ∧ isHTTP d.kind = false := by
  rcases localKind_cases h with h | h | h | h | h | h | h | h <;> rw [h] <;> exact ⟨by decide, by decide⟩

/-- the same with Tags -/
def localKindT (d : BDir) : Bool := localKind d || d.kind == .Tags

theorem localKindT_cases {d : BDir} (h : localKindT d = true) : localKind d = true ∨ d.kind = .Tags := by
  simpa [localKindT] using h

theorem localKindT_skip {d : BDir} (h : localKindT d = true) : d.kind ≠ .URL ∧ isHTTP d.kind = false := by
  rcases localKindT_cases h with h | h
  · exact localKind_skip h
  · rw [h]; exact ⟨by decide, by decide⟩

theorem httpIdOf_skip (d : BDir) (rest : List BDir) (h1 : d.kind ≠ .URL) (h2 : isHTTP d.kind = false) :
    httpIdOf (d :: rest) = httpIdOf rest := by
  have e1 : pathChain (d :: rest) = pathChain rest := by
    rw [pathChain]; simp [h1, h2]
  have e2 : methodChain (d :: rest) = methodChain rest := by
    rw [methodChain]; simp [h2]
  unfold httpIdOf
  rw [e1, e2]

theorem addDescription_local (d : BDir) (anc : List Up) (i : IId)
    (hi : ∀ j, httpIdOf (d :: anc.map (·.d)) = .ok j → j = i)
    (hp : ∀ p r, anc = p :: r → p.d.kind ≠ .Info ∧ p.d.kind ≠ .Method ∧ p.d.kind ≠ .TAG) :
    LocalAt i (addDescription d anc) := by
  intro c c' hg _
  unfold addDescription
  cases anc with
  | nil =>
    simp only [fail]
    repeat' split
    all_goals exact Or.inl ⟨_, _, rfl, rfl⟩
  | cons p r =>
    obtain ⟨h1, h2, h3⟩ := hp p r rfl
    have e1 : (p.d.kind == Kind.Info) = false := by simpa using h1
    have e2 : (p.d.kind == Kind.Method) = false := by simpa using h2
    have e3 : (p.d.kind == Kind.TAG) = false := by simpa using h3
    simp only [e1, e2, e3, Bool.false_eq_true, if_false]
    cases hh : httpIdOf (d :: (p :: r).map (·.d)) with
    | error m => local_tac hh hg
    | ok j => cases hi j hh; local_tac hh hg

theorem addDirective_local (banned : List Kind) (d : BDir) (kids : List BDir) (anc : List Up) (i : IId)
    (hl : localKindT d = true) (hi : httpIdOf (anc.map (·.d)) = .ok i)
    (hp : ∀ p r, anc = p :: r → localKindT p.d = true ∨ isHTTP p.d.kind = true) :
    LocalAt i (addDirective banned d kids anc) := by
  have hi' : ∀ j, httpIdOf (d :: anc.map (·.d)) = .ok j → j = i := by
    intro j hj
    rw [httpIdOf_skip d _ (localKindT_skip hl).1 (localKindT_skip hl).2, hi] at hj
    cases hj; rfl
  by_cases hb : banned.contains d.kind = true
  · exact LocalAt.congr (LocalAt.err ⟨d.id, .notAllowed⟩) (fun c => by unfold addDirective; rw [if_pos hb]; rfl)
  · have hpar : ∀ p r, anc = p :: r → p.d.kind ≠ .Info ∧ p.d.kind ≠ .Method ∧ p.d.kind ≠ .TAG := by
      intro p r e
      rcases hp p r e with h | h
      · rcases localKindT_cases h with h | h
        · rcases localKind_cases h with h | h | h | h | h | h | h | h <;> rw [h] <;> exact ⟨by decide, by decide, by decide⟩
        · rw [h]; exact ⟨by decide, by decide, by decide⟩
      · refine ⟨?_, ?_, ?_⟩ <;> (intro e'; rw [e'] at h; exact absurd h (by decide))
    rcases localKindT_cases hl with hl | h
    · rcases localKind_cases hl with h | h | h | h | h | h | h | h
      · exact LocalAt.congr (addDescription_local d anc i hi' hpar) (fun c => by unfold addDirective; rw [if_neg hb, h])
      · exact LocalAt.congr (addQuery_local d anc i hi') (fun c => by unfold addDirective; rw [if_neg hb, h])
      · exact LocalAt.congr (addRequest_local d anc i hi') (fun c => by unfold addDirective; rw [if_neg hb, h])
      · exact LocalAt.congr (addResponse_local d anc i hi') (fun c => by unfold addDirective; rw [if_neg hb, h])
      · exact LocalAt.congr (addHeaders_local d anc i hi') (fun c => by unfold addDirective; rw [if_neg hb, h])
      · exact LocalAt.congr (addBody_local d anc i hi') (fun c => by unfold addDirective; rw [if_neg hb, h])
      · exact LocalAt.congr LocalAt.ok (fun c => by unfold addDirective; rw [if_neg hb, h])
      · exact LocalAt.congr LocalAt.ok (fun c => by unfold addDirective; rw [if_neg hb, h])
    · exact LocalAt.congr (addTags_local d anc i) (fun c => by unfold addDirective; rw [if_neg hb, h])

mutual
  /-- every directive below a method directive works on the interaction of that method -/
  theorem branch_local (banned : List Kind) (i : IId) : ∀ (t : BTree) (anc : List Up), allT localKindT t = true →
      httpIdOf (anc.map (·.d)) = .ok i → (∀ p r, anc = p :: r → localKindT p.d = true ∨ isHTTP p.d.kind = true) →
      LocalAt i (addBranch banned anc t)
    | .node d kids, anc, ht, hi, hp => by
      rw [allT, Bool.and_eq_true] at ht
      refine LocalAt.congr (LocalAt.bind (addDirective_local banned d (kids.map BTree.dir) anc i ht.1 hi hp)
        (forest_local banned i kids (⟨d, kids.map BTree.dir⟩ :: anc) ht.2 ?_ ?_)) (fun c => addBranch_eq banned anc d kids c)
      · show httpIdOf (d :: anc.map (·.d)) = .ok i
        rw [httpIdOf_skip d _ (localKindT_skip ht.1).1 (localKindT_skip ht.1).2]; exact hi
      · intro p r e; cases e; exact Or.inl ht.1
  theorem forest_local (banned : List Kind) (i : IId) : ∀ (ts : List BTree) (anc : List Up), allF localKindT ts = true →
      httpIdOf (anc.map (·.d)) = .ok i → (∀ p r, anc = p :: r → localKindT p.d = true ∨ isHTTP p.d.kind = true) →
      LocalAt i (addForest banned anc ts)
    | [], anc, _, _, _ => LocalAt.congr LocalAt.ok (fun c => addForest_nil banned anc c)
    | t :: r, anc, ht, hi, hp => by
      rw [allF, Bool.and_eq_true] at ht
      exact LocalAt.congr (LocalAt.bind (branch_local banned i t anc ht.1 hi hp) (forest_local banned i r anc ht.2 hi hp))
        (fun c => addForest_cons banned anc t r c)
end

/-! ### part F: a method directive without Tags -/

def newInter (d : BDir) (i : IId) : InterM := { iid := i, annot := d.annot, tags := [autoName i] }

def autoTag (i : IId) : TagM := { name := autoName i, title := pathTagTitle i.path, declared := false }

def updAt (i : IId) (x : TagM) : TagM := if x.name == autoName i then attach i x else x

/-- the automatic tag is created when it is missing, then it receives the id -/
def effTags (i : IId) (G : List TagM) : List TagM :=
  (match G.find? (fun x : TagM => x.name == autoName i) with
    | some _ => G
    | none => G ++ [autoTag i]).map (updAt i)

/-- the effect of an accepted method directive -/
def eff (d : BDir) (i : IId) (c : Cat) : Cat :=
  { c with tags := effTags i c.tags, inters := c.inters ++ [newInter d i] }

theorem tagStage_auto (d : BDir) (kids : List BDir) (anc : List Up) (i : IId) (c : Cat)
    (h : tagsSource kids anc = none) : tagStage d kids anc i c = .ok (eff d i c) := by
  unfold tagStage
  rw [h]
  simp only []
  unfold eff effTags fin autoCat attachAll attachAll Cat.updTag Cat.getTag newInter autoTag updAt
  cases c.tags.find? (fun x => x.name == autoName i) <;> rfl

def methStep (d : BDir) (pp : List (Bytes × Bytes)) (i : IId) (c : Cat) : R Cat :=
  match checkSimilar c.similar pp with
  | none => fail d .similarPaths
  | some sim => if c.hasInter i then fail d .methodDefined else .ok (eff d i { c with similar := sim })

theorem isHTTP_cases {k : Kind} (h : isHTTP k = true) : k = .Get ∨ k = .Post ∨ k = .Put ∨ k = .Patch ∨ k = .Delete := by
  cases k <;> first | (exact absurd h (by decide)) | simp

theorem method_summary (banned : List Kind) (d : BDir) (kids : List BDir) (hk : isHTTP d.kind = true)
    (hnt : tagsChild kids = none) :
    Fails (addDirective banned d kids []) ∨
    ∃ pp i, httpIdOf [d] = .ok i ∧ ∀ c, addDirective banned d kids [] c = methStep d pp i c := by
  have e : ∀ c, addDirective banned d kids [] c =
      if banned.contains d.kind then fail d .notAllowed else addHTTPMethod d kids [] c := by
    intro c
    rcases isHTTP_cases hk with h | h | h | h | h <;> (unfold addDirective; rw [h])
  have hts : tagsSource kids [] = none := by unfold tagsSource; rw [hnt]
  by_cases hb : banned.contains d.kind = true
  · left; intro c; rw [e, if_pos hb]; exact ⟨_, rfl⟩
  cases hp : pathChain [d] with
  | error m =>
    left; intro c; rw [e, if_neg hb, addHTTPMethod_eq]
    simp only [List.map_nil, hp, liftAt]; exact ⟨_, rfl⟩
  | ok path =>
    cases hcp : checkedParams d path with
    | error m =>
      left; intro c; rw [e, if_neg hb, addHTTPMethod_eq]
      simp only [List.map_nil, hp, liftAt, ok_bind, hcp]; exact ⟨_, rfl⟩
    | ok pp =>
      cases hid : httpIdOf [d] with
      | error m =>
        left; intro c; rw [e, if_neg hb, addHTTPMethod_eq]
        simp only [List.map_nil, hp, liftAt, ok_bind, hcp, hid]
        cases checkSimilar c.similar pp <;> exact ⟨_, rfl⟩
      | ok i =>
        right
        refine ⟨pp, i, rfl, fun c => ?_⟩
        rw [e, if_neg hb, addHTTPMethod_eq]
        simp only [List.map_nil, hp, liftAt, ok_bind, hcp, hid]
        unfold methStep
        cases checkSimilar c.similar pp with
        | none => rfl
        | some s =>
          simp only []
          split
          · rfl
          · exact tagStage_auto d kids [] i _ hts

theorem methStep_ok {d : BDir} {pp : List (Bytes × Bytes)} {i : IId} {c c2 : Cat} (h : methStep d pp i c = .ok c2) :
    ∃ s, checkSimilar c.similar pp = some s ∧ c.hasInter i = false ∧ c2 = eff d i { c with similar := s } := by
  unfold methStep at h
  cases hs : checkSimilar c.similar pp with
  | none => rw [hs] at h; cases h
  | some s =>
    rw [hs] at h
    simp only [] at h
    split at h
    · cases h
    · rename_i hn
      cases h
      exact ⟨s, rfl, by simpa using hn, rfl⟩

theorem methStep_of {d : BDir} {pp : List (Bytes × Bytes)} {i : IId} {c : Cat} {s : List (Bytes × Bytes)}
    (hs : checkSimilar c.similar pp = some s) (hn : c.hasInter i = false) :
    methStep d pp i c = .ok (eff d i { c with similar := s }) := by
  unfold methStep
  rw [hs]
  simp only [hn]
  rfl

theorem hasInter_updInter (c : Cat) (i j : IId) {f : InterM → InterM} (hf : Keeps f) :
    (c.updInter j f).hasInter i = c.hasInter i := by
  unfold Cat.hasInter Cat.updInter
  simp only [List.any_map]
  congr 1
  funext x
  simp only [Function.comp]
  split
  · rw [hf]
  · rfl

theorem hasInter_iff_getInter (c : Cat) (i : IId) : c.hasInter i = (c.getInter i).isSome := by
  unfold Cat.hasInter Cat.getInter
  rw [Bool.eq_iff_iff, List.any_eq_true, List.find?_isSome]

/-- a method directive and an update of an interaction that is there -/
theorem methStep_upd (d : BDir) (pp : List (Bytes × Bytes)) (i : IId) (c : Cat) (j : IId) {f : InterM → InterM}
    (hf : Keeps f) (hj : c.hasInter j = true) :
    methStep d pp i (c.updInter j f) = rmap (·.updInter j f) (methStep d pp i c) := by
  unfold methStep
  have e0 : (c.updInter j f).similar = c.similar := rfl
  rw [e0, hasInter_updInter c i j hf]
  cases checkSimilar c.similar pp with
  | none => rfl
  | some s =>
    simp only []
    split
    · rfl
    · rename_i hn
      have hij : i ≠ j := by
        intro e; subst e; exact hn hj
      simp only [rmap_ok]
      congr 1
      unfold eff Cat.updInter
      simp only [List.map_append, List.map_cons, List.map_nil]
      have : ((newInter d i).iid == j) = false := by simpa [newInter] using hij
      simp only [this, Bool.false_eq_true, if_false]

theorem eff_getInter (d : BDir) (i : IId) (c : Cat) (j : IId) (hj : c.hasInter j = true) :
    (eff d i c).getInter j = c.getInter j := by
  rw [hasInter_iff_getInter] at hj
  unfold eff Cat.getInter at *
  simp only [List.find?_append]
  cases h : c.inters.find? (fun x => x.iid == j) with
  | none => rw [h] at hj; cases hj
  | some x => rfl

theorem eff_hasInter (d : BDir) (i : IId) (c : Cat) (j : IId) :
    (eff d i c).hasInter j = (c.hasInter j || i == j) := by
  unfold eff Cat.hasInter
  simp [List.any_append, newInter]

/-! ### part G: the commutations -/

/-- the same verdict and the same accepted result -/
def REq (r r' : R Cat) : Prop := RRel (fun x y => y = x) r r'

theorem REq.refl (r : R Cat) : REq r r := by cases r <;> simp [REq, RRel]

theorem REq.symm {r r' : R Cat} (h : REq r r') : REq r' r := by
  cases r <;> cases r' <;> simp_all [REq, RRel]

theorem REq.bind_right {r r' : R Cat} (h : REq r r') (K : Cat → R Cat) : REq (r >>= K) (r' >>= K) := by
  cases r with
  | error e => cases r' with
    | error e' => trivial
    | ok y => cases h
  | ok x => cases r' with
    | error e' => cases h
    | ok y => cases h; exact REq.refl _

theorem REq.bind_left (r : R Cat) {K K' : Cat → R Cat} (h : ∀ c, r = .ok c → REq (K c) (K' c)) :
    REq (r >>= K) (r >>= K') := by
  cases r with
  | error e => trivial
  | ok x => exact h x rfl

theorem rrel_compose {l l' r r' : R Cat} (h1 : REq l l') (h2 : RRel Sim l' r') (h3 : REq r r') : RRel Sim l r := by
  cases l <;> cases l' <;> cases r <;> cases r' <;> simp_all [REq, RRel]

/-- an operation on the interaction `iA`, which is there, and an operation `M` that leaves the interactions that
are there alone and is not disturbed by an update of one of them -/
theorem local_creator_comm {iA : IId} {KA M : Cat → R Cat} (hK : LocalAt iA KA)
    (hM1 : ∀ (c : Cat) (f : InterM → InterM), Keeps f → c.hasInter iA = true →
      M (c.updInter iA f) = rmap (·.updInter iA f) (M c))
    (hM2 : ∀ c c2, M c = .ok c2 → c.hasInter iA = true → c2.getInter iA = c.getInter iA)
    (hM3 : ∀ c c2, M c = .ok c2 → DeclEq c c2)
    (c : Cat) (hc : c.hasInter iA = true) : REq (KA c >>= M) (M c >>= KA) := by
  cases hm : M c with
  | error e =>
    rcases hK c c rfl (DeclEq.refl c) with ⟨e1, _, h1, _⟩ | ⟨f, hf, h1, _⟩
    · rw [h1]; trivial
    · rw [h1, ok_bind, hM1 c f hf hc, hm]; trivial
  | ok c2 =>
    rw [ok_bind]
    rcases hK c c2 (hM2 c c2 hm hc) (hM3 c c2 hm) with ⟨e1, e2, h1, h2⟩ | ⟨f, hf, h1, h2⟩
    · rw [h1, h2]; trivial
    · rw [h1, h2, ok_bind, hM1 c f hf hc, hm]
      exact REq.refl _

/-- two operations on different interactions -/
theorem local_local_comm {iA iB : IId} {KA KB : Cat → R Cat} (hA : LocalAt iA KA) (hB : LocalAt iB KB)
    (hne : iA ≠ iB) (c : Cat) : REq (KA c >>= KB) (KB c >>= KA) := by
  rcases hA c c rfl (DeclEq.refl c) with ⟨e1, _, h1, _⟩ | ⟨fA, hfA, h1, _⟩
  · rw [h1]
    rcases hB c c rfl (DeclEq.refl c) with ⟨e2, _, h2, _⟩ | ⟨fB, hfB, h2, _⟩
    · rw [h2]; trivial
    · rw [h2, ok_bind]
      rcases hA c (c.updInter iB fB) (getInter_updInter_other c (Ne.symm hne) hfB) (DeclEq.refl c) with ⟨_, e3, h3, h4⟩ | ⟨f, _, h3, _⟩
      · rw [h4]; trivial
      · rw [h1] at h3; cases h3
  · rw [h1, ok_bind]
    rcases hB c (c.updInter iA fA) (getInter_updInter_other c hne hfA) (DeclEq.refl c) with ⟨e2, e3, h2, h3⟩ | ⟨fB, hfB, h2, h3⟩
    · rw [h2, h3]; trivial
    · rw [h2, h3, ok_bind]
      rcases hA c (c.updInter iB fB) (getInter_updInter_other c (Ne.symm hne) hfB) (DeclEq.refl c) with ⟨_, e3, h4, _⟩ | ⟨f, hf, h4, h5⟩
      · rw [h1] at h4; cases h4
      · rw [h5]
        show _ = _
        rw [h1] at h4
        have e : c.updInter iA fA = c.updInter iA f := Except.ok.inj h4
        rw [updInter_comm c (Ne.symm hne) hfB hf, ← e]

/-! #### the tags of two method directives -/

theorem updAt_name (i : IId) (x : TagM) : (updAt i x).name = x.name := by
  unfold updAt; split
  · exact attach_name i x
  · rfl

theorem effTags_nodup (i : IId) {G : List TagM} (h : (G.map (·.name)).Nodup) : ((effTags i G).map (·.name)).Nodup := by
  unfold effTags
  rw [List.map_map]
  have : ((fun x : TagM => x.name) ∘ updAt i) = (fun x => x.name) := by funext x; exact updAt_name i x
  rw [this]
  cases hf : G.find? (fun x : TagM => x.name == autoName i) with
  | some t => exact h
  | none =>
    simp only []
    apply nodup_snoc _ _ _ h
    intro x hx
    simpa [autoTag] using List.find?_eq_none.1 hf x hx

/-- the tag of the name `n` after a method directive -/
def look1 (i : IId) (n : Bytes) (o : Option TagM) : Option TagM :=
  (o.or (if autoName i == n then some (autoTag i) else none)).map (updAt i)

theorem find_effTags (i : IId) (G : List TagM) (n : Bytes) :
    (effTags i G).find? (fun x => x.name == n) = look1 i n (G.find? (fun x => x.name == n)) := by
  unfold effTags look1
  rw [List.find?_map]
  have : ((fun x : TagM => x.name == n) ∘ updAt i) = (fun x => x.name == n) := by
    funext x; simp only [Function.comp, updAt_name]
  rw [this]
  cases hf : G.find? (fun x : TagM => x.name == autoName i) with
  | some t =>
    simp only []
    cases hn : G.find? (fun x => x.name == n) with
    | some u => rfl
    | none =>
      by_cases e : autoName i = n
      · subst e; rw [hf] at hn; cases hn
      · have e' : (autoName i == n) = false := by simpa using e
        simp only [Option.none_or, e', Bool.false_eq_true, if_false]
  | none =>
    simp only [List.find?_append]
    cases hn : G.find? (fun x => x.name == n) with
    | some u => rfl
    | none =>
      simp only [Option.none_or, List.find?_cons, List.find?_nil]
      by_cases e : autoName i = n
      · simp [e, autoTag]
      · have e' : (autoName i == n) = false := by simpa using e
        simp only [autoTag, e', Bool.false_eq_true, if_false]

theorem autoTag_eq {i j : IId} (h : autoName i = autoName j) : autoTag i = autoTag j := by
  unfold autoTag
  rw [h, C19.auto_tag_injective _ _ h]

theorem look1_comm (iA iB : IId) (n : Bytes) (o : Option TagM) (ho : ∀ t, o = some t → t.name = n) :
    ORel TagEqv (look1 iB n (look1 iA n o)) (look1 iA n (look1 iB n o)) := by
  cases o with
  | some t =>
    simp only [look1, Option.some_or, Option.map_some]
    show TagEqv _ _
    have hn := ho t rfl
    unfold updAt
    by_cases hA : (t.name == autoName iA) = true <;> by_cases hB : (t.name == autoName iB) = true
    · simp only [hA, hB, if_true, attach_name]; exact TagEqv.attach_comm t iA iB
    · simp only [hA, hB, if_true, attach_name, Bool.false_eq_true, if_false]; exact TagEqv.refl _
    · simp only [hA, hB, if_true, attach_name, Bool.false_eq_true, if_false]; exact TagEqv.refl _
    · simp only [hA, hB, Bool.false_eq_true, if_false]; exact TagEqv.refl _
  | none =>
    by_cases hA : autoName iA = n <;> by_cases hB : autoName iB = n
    · have e : autoTag iA = autoTag iB := autoTag_eq (hA.trans hB.symm)
      have hAB : autoName iA = autoName iB := hA.trans hB.symm
      simp only [look1, hA, hB, beq_self_eq_true, if_true, Option.none_or, Option.map_some, Option.some_or]
      show TagEqv _ _
      rw [e]
      unfold updAt
      simp only [attach_name, autoTag, hAB, beq_self_eq_true, if_true]
      exact TagEqv.attach_comm _ iA iB
    · have hB' : (autoName iB == n) = false := by simpa using hB
      have hAB : (autoName iA == autoName iB) = false := by rw [hA]; simpa using (Ne.symm hB)
      simp only [look1, hA, hB', beq_self_eq_true, if_true, Option.none_or, Option.map_some, Option.some_or,
        Bool.false_eq_true, if_false, Option.map_none]
      show TagEqv _ _
      have : updAt iB (updAt iA (autoTag iA)) = updAt iA (autoTag iA) := by
        unfold updAt
        simp only [autoTag, beq_self_eq_true, if_true, attach_name, hAB, Bool.false_eq_true, if_false]
      rw [this]; exact TagEqv.refl _
    · have hA' : (autoName iA == n) = false := by simpa using hA
      have hBA : (autoName iB == autoName iA) = false := by rw [hB]; simpa using (Ne.symm hA)
      simp only [look1, hA', hB, beq_self_eq_true, if_true, Option.none_or, Option.map_some, Option.some_or,
        Bool.false_eq_true, if_false, Option.map_none]
      show TagEqv _ _
      have : updAt iA (updAt iB (autoTag iB)) = updAt iB (autoTag iB) := by
        unfold updAt
        simp only [autoTag, beq_self_eq_true, if_true, attach_name, hBA, Bool.false_eq_true, if_false]
      rw [this]; exact TagEqv.refl _
    · have hA' : (autoName iA == n) = false := by simpa using hA
      have hB' : (autoName iB == n) = false := by simpa using hB
      simp only [look1, hA', hB', Option.none_or, Bool.false_eq_true, if_false, Option.map_none]
      trivial

theorem effTags_comm (iA iB : IId) {G : List TagM} (h : (G.map (·.name)).Nodup) :
    TagsRel (effTags iB (effTags iA G)) (effTags iA (effTags iB G)) := by
  refine ⟨effTags_nodup iB (effTags_nodup iA h), effTags_nodup iA (effTags_nodup iB h), fun n => ?_⟩
  rw [find_effTags, find_effTags, find_effTags, find_effTags]
  exact look1_comm iA iB n _ (fun t ht => find_name ht)

theorem iid_nodup_of_inv {c : Cat} (h : Inv c) : (c.inters.map (·.iid)).Nodup := (Sim.refl h).keys

/-- two method directives in either order: the accepted run -/
theorem methStep_comm_ok (dA : BDir) (ppA : List (Bytes × Bytes)) (iA : IId) (dB : BDir)
    (ppB : List (Bytes × Bytes)) (iB : IId) (x : Cat) (hx : Inv x) {r : Cat}
    (h : (methStep dA ppA iA x >>= methStep dB ppB iB) = .ok r) :
    ∃ r', (methStep dB ppB iB x >>= methStep dA ppA iA) = .ok r' ∧ Sim r r' := by
  obtain ⟨x1, h1, h2⟩ := bind_ok h
  obtain ⟨s1, hs1, hnA, rfl⟩ := methStep_ok h1
  obtain ⟨s12, hs12, hnB, rfl⟩ := methStep_ok h2
  rw [eff_hasInter] at hnB
  have hnB' : x.hasInter iB = false := by
    cases hh : x.hasInter iB with
    | false => rfl
    | true => have : ({ x with similar := s1 } : Cat).hasInter iB = true := hh
              rw [this] at hnB; cases hnB
  have hAB : iA ≠ iB := by
    intro e; subst e; simp at hnB
  obtain ⟨s2, s21, hs2, hs21, hm⟩ := checkSimilar_comm (show checkSimilar x.similar ppA = some s1 from hs1)
    (show checkSimilar s1 ppB = some s12 from hs12)
  have hB1 : methStep dB ppB iB x = .ok (eff dB iB { x with similar := s2 }) := methStep_of hs2 hnB'
  have hA2 : methStep dA ppA iA (eff dB iB { x with similar := s2 }) =
      .ok (eff dA iA { eff dB iB { x with similar := s2 } with similar := s21 }) := by
    apply methStep_of
    · exact hs21
    · rw [eff_hasInter]
      have : ({ x with similar := s2 } : Cat).hasInter iA = false := hnA
      rw [this]
      simpa using (Ne.symm hAB)
  refine ⟨_, by rw [hB1, ok_bind, hA2], ?_⟩
  refine ⟨rfl, rfl, rfl, rfl, ?_, ?_, ?_, fun _ => rfl, hm, fun _ => rfl⟩
  · show (x.inters ++ [newInter dB iB] ++ [newInter dA iA]).Perm (x.inters ++ [newInter dA iA] ++ [newInter dB iB])
    exact perm_snoc2 _ _ _
  · show ((x.inters ++ [newInter dA iA] ++ [newInter dB iB]).map (·.iid)).Nodup
    simp only [List.map_append, List.map_cons, List.map_nil, List.append_assoc, List.cons_append, List.nil_append]
    rw [List.nodup_append]
    refine ⟨iid_nodup_of_inv hx, ?_, ?_⟩
    · simp [newInter, hAB]
    · intro a ha b hb
      simp only [List.mem_cons, List.not_mem_nil, or_false, newInter] at hb
      intro e; subst e
      rcases hb with rfl | rfl
      · exact hasInter_false hnA ha
      · exact hasInter_false hnB' ha
  · show TagsRel (effTags iB (effTags iA x.tags)) (effTags iA (effTags iB x.tags))
    exact effTags_comm iA iB hx.tags_nodup

theorem methStep_comm (dA : BDir) (ppA : List (Bytes × Bytes)) (iA : IId) (dB : BDir)
    (ppB : List (Bytes × Bytes)) (iB : IId) (x : Cat) (hx : Inv x) :
    RRel Sim (methStep dA ppA iA x >>= methStep dB ppB iB) (methStep dB ppB iB x >>= methStep dA ppA iA) := by
  cases h1 : (methStep dA ppA iA x >>= methStep dB ppB iB) with
  | ok r =>
    obtain ⟨r', h2, hs⟩ := methStep_comm_ok dA ppA iA dB ppB iB x hx h1
    rw [h2]; exact hs
  | error e =>
    cases h2 : (methStep dB ppB iB x >>= methStep dA ppA iA) with
    | error e' => trivial
    | ok r' =>
      obtain ⟨r, h3, _⟩ := methStep_comm_ok dB ppB iB dA ppA iA x hx h2
      rw [h1] at h3; cases h3

/-! #### two method blocks -/

/-- a top-level HTTP-method tree whose descendants are the directives allowed below a method, Tags apart -/
def isMethodBlock (t : BTree) : Bool := isHTTP t.dir.kind && allF localKind t.kids

theorem fails_comm_sim {A B : Cat → R Cat} (hA : Fails A) (c : Cat) : RRel Sim (A c >>= B) (B c >>= A) := by
  obtain ⟨e, he⟩ := hA c
  rw [he, error_bind]
  cases hb : B c with
  | error e' => trivial
  | ok d => obtain ⟨e', he'⟩ := hA d; rw [ok_bind, he']; trivial

theorem fails_comm_sim' {A B : Cat → R Cat} (hB : Fails B) (c : Cat) : RRel Sim (A c >>= B) (B c >>= A) := by
  obtain ⟨e, he⟩ := hB c
  rw [he, error_bind]
  cases ha : A c with
  | error e' => trivial
  | ok d => obtain ⟨e', he'⟩ := hB d; rw [ok_bind, he']; trivial

theorem tagsChild_none_of_local : ∀ (kids : List BTree), allF localKind kids = true →
    tagsChild (kids.map BTree.dir) = none
  | [], _ => rfl
  | .node d k :: r, h => by
    rw [allF, allT, Bool.and_eq_true, Bool.and_eq_true] at h
    unfold tagsChild
    simp only [List.map_cons, BTree.dir, List.find?_cons]
    have : (d.kind == Kind.Tags) = false := by
      rcases localKind_cases h.1.1 with e | e | e | e | e | e | e | e <;> rw [e] <;> decide
    rw [this]
    exact tagsChild_none_of_local r h.2

/-- the run of the two halves of two method blocks, regrouped -/
theorem chain_comm {iA iB : IId} {MA KA MB KB : Cat → R Cat} (hKA : LocalAt iA KA) (hKB : LocalAt iB KB)
    (hMA1 : ∀ (i : IId) (c : Cat) (f : InterM → InterM), Keeps f → c.hasInter i = true →
      MA (c.updInter i f) = rmap (·.updInter i f) (MA c))
    (hMA2 : ∀ (i : IId) c c2, MA c = .ok c2 → c.hasInter i = true → c2.getInter i = c.getInter i)
    (hMB1 : ∀ (i : IId) (c : Cat) (f : InterM → InterM), Keeps f → c.hasInter i = true →
      MB (c.updInter i f) = rmap (·.updInter i f) (MB c))
    (hMB2 : ∀ (i : IId) c c2, MB c = .ok c2 → c.hasInter i = true → c2.getInter i = c.getInter i)
    (hMA4 : ∀ c c2, MA c = .ok c2 → DeclEq c c2) (hMB4 : ∀ c c2, MB c = .ok c2 → DeclEq c c2)
    (hMA3 : ∀ c c2, MA c = .ok c2 → c2.hasInter iA = true)
    (hMB3 : ∀ c c2, MB c = .ok c2 → c2.hasInter iB = true ∧ c.hasInter iB = false)
    (x : Cat) (hcomm : RRel Sim (MA x >>= MB) (MB x >>= MA)) :
    RRel Sim ((MA x >>= KA) >>= fun c => MB c >>= KB) ((MB x >>= KB) >>= fun c => MA c >>= KA) := by
  -- the left run: MA, MB, then KB, KA
  have hL : REq ((MA x >>= KA) >>= fun c => MB c >>= KB) ((MA x >>= MB) >>= fun c => KB c >>= KA) := by
    rw [bind_bind, bind_bind]
    apply REq.bind_left
    intro c1 h1
    have hc1 : c1.hasInter iA = true := hMA3 x c1 h1
    have s1 : REq (KA c1 >>= fun c => MB c >>= KB) ((MB c1 >>= KA) >>= KB) := by
      rw [← bind_bind]
      exact (local_creator_comm hKA (hMB1 iA) (hMB2 iA) hMB4 c1 hc1).bind_right KB
    have s2 : REq ((MB c1 >>= KA) >>= KB) (MB c1 >>= fun c => KB c >>= KA) := by
      rw [bind_bind]
      apply REq.bind_left
      intro c2 h2
      have hne : iA ≠ iB := by
        intro e; subst e
        have := (hMB3 c1 c2 h2).2
        rw [hc1] at this; cases this
      exact local_local_comm hKA hKB hne c2
    cases h : KA c1 >>= fun c => MB c >>= KB <;> cases h' : (MB c1 >>= KA) >>= KB <;>
      cases h'' : MB c1 >>= fun c => KB c >>= KA <;> rw [h, h'] at s1 <;> rw [h', h''] at s2 <;>
      simp_all [REq, RRel]
  -- the right run: MB, MA, then KB, KA
  have hR : REq ((MB x >>= KB) >>= fun c => MA c >>= KA) ((MB x >>= MA) >>= fun c => KB c >>= KA) := by
    rw [bind_bind, bind_bind]
    apply REq.bind_left
    intro c1 h1
    have hc1 : c1.hasInter iB = true := (hMB3 x c1 h1).1
    have s1 : REq (KB c1 >>= fun c => MA c >>= KA) ((MA c1 >>= KB) >>= KA) := by
      rw [← bind_bind]
      exact (local_creator_comm hKB (hMA1 iB) (hMA2 iB) hMA4 c1 hc1).bind_right KA
    rw [bind_bind] at s1
    exact s1
  refine rrel_compose hL ?_ hR
  exact RRel.bind hcomm (fun u v huv => RRel.bind (localAt_sim hKB huv) (fun _ _ h' => localAt_sim hKA h'))

theorem methStep_get {d : BDir} {pp : List (Bytes × Bytes)} {i : IId} (j : IId) {c c2 : Cat}
    (h : methStep d pp i c = .ok c2) (hj : c.hasInter j = true) : c2.getInter j = c.getInter j := by
  obtain ⟨s, _, _, rfl⟩ := methStep_ok h
  exact eff_getInter d i _ j hj

theorem attach_declared (i : IId) (t : TagM) : (attach i t).declared = t.declared := by
  unfold attach; split <;> rfl

theorem updAt_declared (i : IId) (t : TagM) : (updAt i t).declared = t.declared := by
  unfold updAt; split
  · exact attach_declared i t
  · rfl

theorem eff_decl (d : BDir) (i : IId) (c : Cat) : DeclEq c (eff d i c) := by
  intro n
  unfold declOf Cat.getTag eff
  simp only []
  rw [find_effTags]
  unfold look1
  cases c.tags.find? (fun x => x.name == n) with
  | some t => simp [updAt_declared]
  | none =>
    by_cases e : autoName i = n
    · simp [e, updAt_declared, autoTag]
    · simp [e]

theorem methStep_decl {d : BDir} {pp : List (Bytes × Bytes)} {i : IId} {c c2 : Cat}
    (h : methStep d pp i c = .ok c2) : DeclEq c c2 := by
  obtain ⟨s, _, _, rfl⟩ := methStep_ok h
  exact eff_decl d i { c with similar := s }

theorem methStep_has {d : BDir} {pp : List (Bytes × Bytes)} {i : IId} {c c2 : Cat}
    (h : methStep d pp i c = .ok c2) : c2.hasInter i = true ∧ c.hasInter i = false := by
  obtain ⟨s, _, hn, rfl⟩ := methStep_ok h
  refine ⟨?_, hn⟩
  rw [eff_hasInter]; simp

/-- (the core) two neighbouring method blocks may be exchanged -/
theorem comm_methods (banned : List Kind) (a b : BTree) (ha : isMethodBlock a = true) (hb : isMethodBlock b = true)
    (x : Cat) (hx : Inv x) : RRel Sim (addForest banned [] [a, b] x) (addForest banned [] [b, a] x) := by
  cases a with
  | node dA kA =>
  cases b with
  | node dB kB =>
  simp only [isMethodBlock, BTree.dir, BTree.kids, Bool.and_eq_true] at ha hb
  rw [pair_eq, pair_eq]
  have eA : addBranch banned [] (.node dA kA) = fun c => addDirective banned dA (kA.map BTree.dir) [] c >>=
      addForest banned [⟨dA, kA.map BTree.dir⟩] kA := funext (addBranch_eq banned [] dA kA)
  have eB : addBranch banned [] (.node dB kB) = fun c => addDirective banned dB (kB.map BTree.dir) [] c >>=
      addForest banned [⟨dB, kB.map BTree.dir⟩] kB := funext (addBranch_eq banned [] dB kB)
  rcases method_summary banned dA (kA.map BTree.dir) ha.1 (tagsChild_none_of_local kA ha.2) with hf | ⟨ppA, iA, hiA, hA⟩
  · apply fails_comm_sim
    intro c; rw [eA]; obtain ⟨e, he⟩ := hf c; exact ⟨e, by simp only [he]; rfl⟩
  rcases method_summary banned dB (kB.map BTree.dir) hb.1 (tagsChild_none_of_local kB hb.2) with hf | ⟨ppB, iB, hiB, hB⟩
  · apply fails_comm_sim'
    intro c; rw [eB]; obtain ⟨e, he⟩ := hf c; exact ⟨e, by simp only [he]; rfl⟩
  have hKA : LocalAt iA (addForest banned [⟨dA, kA.map BTree.dir⟩] kA) :=
    forest_local banned iA kA _ (allF_mono (fun d h => by simp [localKindT, h]) kA ha.2) hiA (by intro p r e; cases e; exact Or.inr ha.1)
  have hKB : LocalAt iB (addForest banned [⟨dB, kB.map BTree.dir⟩] kB) :=
    forest_local banned iB kB _ (allF_mono (fun d h => by simp [localKindT, h]) kB hb.2) hiB (by intro p r e; cases e; exact Or.inr hb.1)
  have eA' : addDirective banned dA (kA.map BTree.dir) [] = methStep dA ppA iA := funext hA
  have eB' : addDirective banned dB (kB.map BTree.dir) [] = methStep dB ppB iB := funext hB
  rw [eA, eB, eA', eB']
  exact chain_comm hKA hKB
    (fun i c f hf hi => methStep_upd dA ppA iA c i hf hi) (fun i c c2 h hi => methStep_get i h hi)
    (fun i c f hf hi => methStep_upd dB ppB iB c i hf hi) (fun i c c2 h hi => methStep_get i h hi)
    (fun c c2 h => methStep_decl h) (fun c c2 h => methStep_decl h)
    (fun c c2 h => (methStep_has h).1) (fun c c2 h => methStep_has h) x
    (methStep_comm dA ppA iA dB ppB iB x hx)

/-! ### part H: the stages of `compile` -/

theorem ctStep_notTag {t : BTree} (h : t.dir.kind ≠ .TAG) (c : Cat) : ctStep t c = .ok c := by
  unfold ctStep
  have : (t.dir.kind == Kind.TAG) = false := by simpa using h
  simp only [this, Bool.false_eq_true, if_false]

/-- blocks that are not TAG declarations: `collectTags` does not see them -/
theorem collectTags_swap_eq (pre post : List BTree) (a b : BTree) (ha : a.dir.kind ≠ .TAG) (hb : b.dir.kind ≠ .TAG)
    (c : Cat) : collectTags (pre ++ a :: b :: post) c = collectTags (pre ++ b :: a :: post) c := by
  rw [collectTags_append, collectTags_append]
  congr 1
  funext x
  rw [collectTags_cons a, ctStep_notTag ha, ok_bind, collectTags_cons b, ctStep_notTag hb, ok_bind,
    collectTags_cons b, ctStep_notTag hb, ok_bind, collectTags_cons a, ctStep_notTag ha, ok_bind]

mutual
  /-- a tree without Path directives does not change the state of `collectPaths` -/
  theorem pathsTree_noPath : ∀ (t : BTree) (anc : List BDir) (last : List Nat),
      allT (fun d => d.kind != .Path) t = true → pathsTree anc t last = .ok last
    | .node d kids, anc, last, h => by
      rw [allT, Bool.and_eq_true] at h
      unfold pathsTree
      split
      · rfl
      · have : (d.kind == Kind.Path) = false := by
          have := h.1; simpa using this
        simp only [this, Bool.false_eq_true, if_false]
        exact pathsForest_noPath kids (d :: anc) last h.2
  theorem pathsForest_noPath : ∀ (ts : List BTree) (anc : List BDir) (last : List Nat),
      allF (fun d => d.kind != .Path) ts = true → pathsForest anc ts last = .ok last
    | [], anc, last, _ => pathsForest_nil anc last
    | t :: r, anc, last, h => by
      rw [allF, Bool.and_eq_true] at h
      rw [pathsForest_cons, pathsTree_noPath t anc last h.1, ok_bind]
      exact pathsForest_noPath r anc last h.2
end

theorem pathsForest_swap_noPath (pre post : List BTree) (a b : BTree)
    (ha : allT (fun d => d.kind != .Path) a = true) (hb : allT (fun d => d.kind != .Path) b = true) (last : List Nat) :
    pathsForest [] (pre ++ a :: b :: post) last = pathsForest [] (pre ++ b :: a :: post) last := by
  rw [pathsForest_append, pathsForest_append]
  congr 1
  funext l
  rw [pathsForest_cons, pathsTree_noPath a [] l ha, ok_bind, pathsForest_cons, pathsTree_noPath b [] l hb, ok_bind,
    pathsForest_cons, pathsTree_noPath b [] l hb, ok_bind, pathsForest_cons, pathsTree_noPath a [] l ha, ok_bind]

theorem isHTTP_not_tag {k : Kind} (h : isHTTP k = true) : k ≠ .TAG := by
  intro e; rw [e] at h; exact absurd h (by decide)

/-- exchanging two neighbouring method blocks of the top level (JSIGHT stays first); the verdicts of the Path
stage are assumed to agree (`pathsForest_swap_noPath` when the blocks hold no Path directive) -/
theorem swap_methods_rrel (banned : List Kind) (pre post : List BTree) (a b : BTree)
    (ha : isMethodBlock a = true) (hb : isMethodBlock b = true) (hpre : pre ≠ [])
    (hpaths : (pathsForest [] (pre ++ a :: b :: post) []).isOk = (pathsForest [] (pre ++ b :: a :: post) []).isOk) :
    RRel Sim (compile banned (pre ++ a :: b :: post)) (compile banned (pre ++ b :: a :: post)) := by
  have hka : a.dir.kind ≠ .TAG := by
    simp only [isMethodBlock, Bool.and_eq_true] at ha; exact isHTTP_not_tag ha.1
  have hkb : b.dir.kind ≠ .TAG := by
    simp only [isMethodBlock, Bool.and_eq_true] at hb; exact isHTTP_not_tag hb.1
  rw [compile_eq, compile_eq, collectTags_swap_eq pre post a b hka hkb]
  cases hc : collectTags (pre ++ b :: a :: post) {} with
  | error e => trivial
  | ok c0 =>
    have hinv0 : Inv c0 := collectTags_inv _ {} c0 Inv.empty hc
    rw [ok_bind, ok_bind]
    have h2 := checkTypeNames_swap pre post a b
    cases ht : checkTypeNames (pre ++ a :: b :: post) with
    | error e =>
      cases ht' : checkTypeNames (pre ++ b :: a :: post) with
      | error e' => trivial
      | ok u => cases u; rw [ht'] at h2; rw [h2.2 rfl] at ht; cases ht
    | ok u =>
      cases u
      rw [h2.1 ht, ok_bind, ok_bind, headCheck_swap pre post a b hpre]
      cases hp1 : pathsForest [] (pre ++ a :: b :: post) [] with
      | error e =>
        cases hp2 : pathsForest [] (pre ++ b :: a :: post) [] with
        | error e' => trivial
        | ok l => rw [hp1, hp2] at hpaths; cases hpaths
      | ok l =>
        cases hp2 : pathsForest [] (pre ++ b :: a :: post) [] with
        | error e' => rw [hp1, hp2] at hpaths; cases hpaths
        | ok l' =>
          rw [ok_bind, ok_bind]
          cases headCheck (pre ++ b :: a :: post) with
          | error e => trivial
          | ok _ =>
            rw [ok_bind, ok_bind]
            refine RRel.bind ?_ (fun x y hxy => finish_sim hxy)
            have e1 : pre ++ a :: b :: post = pre ++ ([a, b] ++ post) := rfl
            have e2 : pre ++ b :: a :: post = pre ++ ([b, a] ++ post) := rfl
            rw [e1, e2, addForest_append, addForest_append]
            cases h1 : addForest banned [] pre c0 with
            | error e => trivial
            | ok x =>
              have hx : Inv x := addForest_inv banned [] pre c0 x hinv0 h1
              rw [ok_bind, ok_bind, addForest_append, addForest_append]
              exact RRel.bind (comm_methods banned a b ha hb x hx) (fun u v huv => lift_sim banned [] post u v huv)

/-! ### part I: the tags as a permutation -/

/-- the second list is a permutation of the first one in which corresponding tags are the same (`TagEqv`) -/
inductive Forall2 {α : Type} (Q : α → α → Prop) : List α → List α → Prop
  | nil : Forall2 Q [] []
  | cons {a b : α} {l l' : List α} : Q a b → Forall2 Q l l' → Forall2 Q (a :: l) (b :: l')

def TagsPerm (G G' : List TagM) : Prop := ∃ l : List TagM, l.Perm G ∧ Forall2 TagEqv l G'

theorem find_none_of_not_mem {G : List TagM} {n : Bytes} (h : n ∉ G.map (·.name)) :
    G.find? (fun x => x.name == n) = none := by
  rw [List.find?_eq_none]
  intro x hx e
  apply h
  have : x.name = n := by simpa using e
  rw [← this]; exact List.mem_map_of_mem hx

theorem tagsPerm_of_rel : ∀ (G' G : List TagM), TagsRel G G' → TagsPerm G G'
  | [], G, h => by
    cases G with
    | nil => exact ⟨[], List.Perm.refl _, Forall2.nil⟩
    | cons t r =>
      have := h.look t.name
      simp [ORel] at this
  | t' :: r', G, h => by
    have h0 := h.look t'.name
    simp only [List.find?_cons, beq_self_eq_true] at h0
    cases hf : G.find? (fun x => x.name == t'.name) with
    | none => rw [hf] at h0; cases h0
    | some t =>
      rw [hf] at h0
      have e : TagEqv t t' := h0
      have hmem : t ∈ G := List.mem_of_find?_eq_some hf
      have hperm : G.Perm (t :: G.erase t) := List.perm_cons_erase hmem
      have hnd : ((t :: G.erase t).map (·.name)).Nodup := ((hperm.map (·.name)).nodup_iff).1 h.nd
      have hnd' := h.nd'
      simp only [List.map_cons, List.nodup_cons] at hnd hnd'
      have hrel : TagsRel (G.erase t) r' := by
        refine ⟨hnd.2, hnd'.2, fun n => ?_⟩
        by_cases hn : t.name = n
        · subst hn
          rw [find_none_of_not_mem hnd.1, find_none_of_not_mem (by rw [← e.name]; exact hnd'.1)]
          trivial
        · have h1 := h.look n
          have e1 : G.find? (fun x => x.name == n) = (G.erase t).find? (fun x => x.name == n) := by
            have := find?_perm (·.name) hperm.symm h.nd n
            rw [← this]
            simp only [List.find?_cons]
            have : (t.name == n) = false := by simpa using hn
            rw [this]
          have e2 : (t' :: r').find? (fun x => x.name == n) = r'.find? (fun x => x.name == n) := by
            simp only [List.find?_cons]
            have : (t'.name == n) = false := by rw [e.name]; simpa using hn
            rw [this]
          rw [e1, e2] at h1
          exact h1
      obtain ⟨l, hl, hall⟩ := tagsPerm_of_rel r' (G.erase t) hrel
      exact ⟨t :: l, (hl.cons t).trans hperm.symm, Forall2.cons e hall⟩
termination_by G' => G'.length

end JSight.BuildPermI
