import JSight.Model.Scanner
/-!
C14 (lexical integrity): the abstract interpreter of the scanner table, the certificates it is run with
(computed from the table by forward propagation), and the table theorem `table_ok`
(`decide +kernel` over the CURRENT generated table).

Abstract value carried through one byte step (all relative to the byte index `cur` of the step):

* `opn`  – the `…Begin` event that is open (last found event is a Begin that has no End yet), if any;
* `G`    – a lower bound of `cur + 1 - rew - B` where `B` is the end boundary of the last found event
           (`p` for a Begin at `p`, `q + 1` for an End at `q`, `p + 1` for a context event at `p`);
* `sp`   – when a Keyword is open at `p`: the byte classes read since `p` (`p + sp.length = cur`);
* `rw`   – a `rewind` has been executed in this step;
* `reg`  – the step register if it is known (`none`: it was popped from the step stack, so it is
           one of the `stackable` states);
* `P`    – what is known about the byte of this step (path condition of the decision tree).

The per-state certificate `Cert` is the abstract value at the START of a byte step in that state.
Only the checker (`aRun`/`tableOK`) is trusted by the proofs; the collector that computes the certificates
can be arbitrary.
-/
namespace JSight.ScanLex
open JSight Gen

/-! ### path conditions -/

structure PathCond where
  pos : Option (List UInt8)   -- `some p`: the byte is one of `p`
  neg : List UInt8            -- the byte is none of these
  deriving Repr

def PathCond.top : PathCond := ⟨none, []⟩

def PathCond.thenP (P : PathCond) (bs : List UInt8) : PathCond :=
  { pos := some (match P.pos with
      | none => bs.filter fun x => !P.neg.contains x
      | some p => p.filter fun x => bs.contains x),
    neg := P.neg }

def PathCond.elseP (P : PathCond) (bs : List UInt8) : PathCond :=
  { pos := match P.pos with
      | none => none
      | some p => some (p.filter fun x => !bs.contains x),
    neg := bs ++ P.neg }

def PathCond.isEmpty (P : PathCond) : Bool :=
  match P.pos with
  | some [] => true
  | _ => false

/-- the byte cannot be 0 (so the step is not the EOF step) -/
def PathCond.nonzero (P : PathCond) : Bool :=
  P.neg.contains 0 || (match P.pos with
    | some p => !p.contains 0
    | none => false)

/-- the byte is certainly 0: this is the EOF step, no further step follows it unless it rewinds -/
def PathCond.eofOnly (P : PathCond) : Bool :=
  match P.pos with
  | some p => p.all (· == 0)
  | none => false

def PathCond.Sat (c : UInt8) (P : PathCond) : Prop :=
  (∀ p, P.pos = some p → p.contains c = true) ∧ P.neg.contains c = false

/-! ### keyword patterns -/

def isResponseCode (b : Bytes) : Bool :=
  match b with
  | [a, x, y] => (49 ≤ a && a ≤ 53) && (48 ≤ x && x ≤ 57) && (48 ≤ y && y ≤ 57)
  | _ => false

/-- the byte string is a response code or the name of a directive other than `HTTP-response-code` -/
def isKw (b : Bytes) : Bool :=
  isResponseCode b || Kind.all.any fun k => k != Kind.HTTPResponseCode && k.name.toUTF8.toList == b

/-- all byte strings denoted by a sequence of byte classes -/
def expand : List (List UInt8) → List Bytes
  | [] => [[]]
  | cls :: r => cls.flatMap fun x => (expand r).map (x :: ·)

def goodPattern (pat : List (List UInt8)) : Bool := (expand pat).all isKw

/-! ### abstract values -/

structure Cert where
  opn : Option Ev
  gap : Nat
  spell : List (List UInt8)
  deriving Repr, DecidableEq

structure AbsVal where
  opn : Option Ev
  G : Nat
  sp : List (List UInt8)
  rw : Bool
  reg : Option St
  P : PathCond

def entryAbs (ce : Cert) (st : St) : AbsVal :=
  { opn := ce.opn, G := ce.gap + 1, sp := ce.spell, rw := false, reg := some st, P := .top }

abbrev CertMap := List (St × Cert)

/-- everything the checker is parametrised with -/
structure Certs where
  cm : CertMap
  stackable : List St

def Certs.cert (C : Certs) (s : St) : Option Cert := C.cm.lookup s

def isLib (e : Ev) : Bool := e == .schemaBegin || e == .enumBegin

/-- abstract effect of one op (`none`: the check fails) -/
def aOp (C : Certs) (a : AbsVal) : Op St → Option AbsVal
  | .setStep s => some { a with reg := some s }
  | .push s => if C.stackable.contains s then some a else none
  | .pushCur =>
    match a.reg with
    | some r => if C.stackable.contains r then some a else none
    | none => some a
  | .popToStep => some { a with reg := none }
  | .rewind n => if n ≤ a.G then some { a with G := a.G - n, rw := true } else none
  | .found e back =>
    if a.rw then none
    else if e.isBeginning then
      if a.opn.isNone && decide (back + 1 ≤ a.G) && !isLib e && (e != .keywordBegin || back == 0) then
        some { a with opn := some e, G := back + 1, sp := [] }
      else none
    else if e.isEnding then
      match a.opn with
      | none => none
      | some b =>
        if b.matches e && decide (back ≤ a.G) && (decide (1 ≤ back) || a.P.nonzero)
           && (!isLib b || back == 1)
           && (b != .keywordBegin ||
                (back == 0 && match a.P.pos with
                  | some cls => !cls.contains 0 && goodPattern (a.sp ++ [cls])
                  | none => false)) then
          some { a with opn := none, G := back, sp := [] }
        else none
    else
      if a.opn.isNone && decide (back + 1 ≤ a.G) && (decide (1 ≤ back) || a.P.nonzero) then
        some { a with G := back }
      else none

def aOps (C : Certs) (a : AbsVal) : List (Op St) → Option AbsVal
  | [] => some a
  | op :: r => match aOp C a op with
    | some a' => aOps C a' r
    | none => none

/-- the step ends (`return nil`) with abstract value `a`, the next step starts in state `s` -/
def entryDone (C : Certs) (a : AbsVal) (s : St) : Bool :=
  match C.cert s with
  | none => false
  | some ce =>
    ce.opn == a.opn && decide (ce.gap ≤ a.G) &&
    (match a.opn with
     | none => true
     | some b =>
       !isLib b &&
       (b != .keywordBegin ||
         (!a.rw && match a.P.pos with
           | some cls => !cls.contains 0 && ce.spell == a.sp ++ [cls]
           | none => false)))

/-- same-byte re-dispatch to a state `s` popped from the step stack -/
def entryRedisp (C : Certs) (a : AbsVal) (s : St) : Bool :=
  match C.cert s with
  | none => false
  | some ce => ce.opn.isNone && a.opn.isNone && decide (ce.gap + 1 ≤ a.G) && !a.rw

def libOK (C : Certs) (a : AbsVal) (begin : Ev) (closing : St) : Bool :=
  a.opn.isNone && decide (1 ≤ a.G) && !a.rw &&
  match C.cert closing with
  | none => false
  | some ce => ce.opn == some begin && decide (ce.gap ≤ 1)

def aCont (C : Certs) (run : St → AbsVal → Bool) (a : AbsVal) : Cont St → Bool
  | .done =>
    (a.P.eofOnly && !a.rw) ||
    (match a.reg with
     | some r => entryDone C a r
     | none => C.stackable.all fun s => entryDone C a s)
  | .err => true
  | .call s => run s a
  | .redispatch =>
    (match a.reg with
     | some r => run r a
     | none => C.stackable.all fun s => entryRedisp C a s)
  | .jschema => libOK C a .schemaBegin .stateSchemaClosed
  | .enumBody => libOK C a .enumBegin .stateEnumBodyClose

def aCode (C : Certs) (run : St → AbsVal → Bool) (a : AbsVal) : Code St → Bool
  | .leaf ops k =>
    (match aOps C a ops with
     | some a' => aCont C run a' k
     | none => false)
  | .ifB bs t e =>
    ((a.P.thenP bs).isEmpty || aCode C run { a with P := a.P.thenP bs } t) &&
    ((a.P.elseP bs).isEmpty || aCode C run { a with P := a.P.elseP bs } e)
  | .ifC _ t e => aCode C run a t && aCode C run a e

def aRun (C : Certs) : Nat → St → AbsVal → Bool
  | 0, _, _ => false
  | f + 1, st, a => aCode C (aRun C f) a (code st)

def absFuel : Nat := 6

def stateOK (C : Certs) (st : St) : Bool :=
  match C.cert st with
  | none => true
  | some ce => aRun C absFuel st (entryAbs ce st)

def initOK (C : Certs) : Bool :=
  match C.cert .stateRoot with
  | some ce => ce.opn.isNone && ce.gap == 0
  | none => false

def tableOK (C : Certs) : Bool := initOK C && St.all.all (stateOK C)

/-! ### the collector: computes the certificates (not trusted) -/

/-- states that may be pushed: `push s` targets, states with a `pushCur` leaf, and their callers -/
def hasPushCur (st : St) : Bool := (code st).leaves.any fun l => l.1.contains .pushCur
def pushTargets : List St :=
  (St.all.flatMap fun st => (code st).leaves.flatMap fun l => l.1.filterMap fun
    | .push s => some s
    | _ => none).eraseDups
def callsInto (S : List St) (st : St) : Bool :=
  (code st).leaves.any fun l => match l.2 with
    | .call s => S.contains s
    | _ => false
def stackableC : List St :=
  let s1 := St.all.filter hasPushCur
  let s2 := St.all.filter (callsInto s1)
  let s3 := St.all.filter (callsInto (s1 ++ s2))
  (pushTargets ++ s1 ++ s2 ++ s3).eraseDups

/-- demands: (target state, certificate it must accept) -/
abbrev Demands := List (St × Cert)

def dDone (a : AbsVal) (s : St) : St × Cert :=
  (s, { opn := a.opn, gap := a.G,
        spell := if a.opn == some .keywordBegin then
                   (match a.P.pos with
                    | some cls => a.sp ++ [cls]
                    | none => a.sp)
                 else [] })

def cCont (stk : List St) (run : St → AbsVal → Demands) (a : AbsVal) : Cont St → Demands
  | .done => if a.P.eofOnly && !a.rw then [] else (match a.reg with
      | some r => [dDone a r]
      | none => stk.map (dDone a))
  | .err => []
  | .call s => run s a
  | .redispatch => (match a.reg with
      | some r => run r a
      | none => stk.map fun s => (s, { opn := none, gap := a.G - 1, spell := [] }))
  | .jschema => [(.stateSchemaClosed, { opn := some .schemaBegin, gap := 1, spell := [] })]
  | .enumBody => [(.stateEnumBodyClose, { opn := some .enumBegin, gap := 1, spell := [] })]

/-- a lenient version of `aOp` for the collector -/
def cOp (a : AbsVal) : Op St → AbsVal
  | .setStep s => { a with reg := some s }
  | .popToStep => { a with reg := none }
  | .rewind n => { a with G := a.G - n, rw := true }
  | .found e back =>
    if e.isBeginning then { a with opn := some e, G := back + 1, sp := [] }
    else if e.isEnding then { a with opn := none, G := back, sp := [] }
    else { a with G := back }
  | _ => a

def cCode (stk : List St) (run : St → AbsVal → Demands) (a : AbsVal) : Code St → Demands
  | .leaf ops k => cCont stk run (ops.foldl cOp a) k
  | .ifB bs t e =>
    (if (a.P.thenP bs).isEmpty then [] else cCode stk run { a with P := a.P.thenP bs } t) ++
    (if (a.P.elseP bs).isEmpty then [] else cCode stk run { a with P := a.P.elseP bs } e)
  | .ifC _ t e => cCode stk run a t ++ cCode stk run a e

def cRun (stk : List St) : Nat → St → AbsVal → Demands
  | 0, _, _ => []
  | f + 1, st, a => cCode stk (cRun stk f) a (code st)

/-- phase A: a lower bound (capped at 1) of the gap with which each state is entered: the demands of all
states run with entry gap 0 -/
def gapEdges : Demands :=
  St.all.flatMap fun st => cRun stackableC absFuel st (entryAbs { opn := none, gap := 0, spell := [] } st)

def zeroGapStates : List St := (gapEdges.filterMap fun dm => if dm.2.gap == 0 then some dm.1 else none).eraseDups

def gapC (s : St) : Nat := if zeroGapStates.contains s then 0 else 1

/-- phase B: depth-first propagation of `opn` and `spell` from `stateRoot` (first visit wins) -/
def dfs (stk : List St) : Nat → Demands → CertMap → CertMap
  | 0, _, cm => cm
  | _, [], cm => cm
  | n + 1, (s, ce) :: q, cm =>
    if cm.any (fun x => x.1 == s) then dfs stk n q cm
    else
      let ce' : Cert := { opn := ce.opn, gap := gapC s, spell := ce.spell }
      dfs stk n (cRun stk absFuel s (entryAbs ce' s) ++ q) ((s, ce') :: cm)

def certMapC : CertMap :=
  dfs stackableC 5000 [(.stateRoot, { opn := none, gap := 0, spell := [] })] []

/-- the certificates, computed from the current table -/
def certs : Certs := { cm := certMapC, stackable := stackableC }

end JSight.ScanLex
