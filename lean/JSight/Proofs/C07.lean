import JSight.Model.Paste
/-!
C07 — helper lemmas for the MACRO / PASTE properties (core Lean only, parametric in the admissibility
tables).  The property theorems are in `JSight/Props/C07.lean`.
-/
namespace JSight.C07
open JSight

/-! ## 1. Context-level lemmas: a parenthesised frame stays where it is until its own ")" -/

/-- no frame of the list is parenthesised -/
def NoExp (fs : List Frame) : Prop := ∀ a ∈ fs, a.d.explicit = false

/-- the frame of `D` is open with exactly `rest` below it and nothing above it is parenthesised -/
def Inv (D : Dir) (rest fs : List Frame) : Prop :=
  ∃ above kids, fs = above ++ ⟨D, kids⟩ :: rest ∧ NoExp above

theorem NoExp.nil : NoExp [] := by intro a h; cases h

theorem NoExp.cons {a : Frame} {fs : List Frame} (ha : a.d.explicit = false) (h : NoExp fs) :
    NoExp (a :: fs) := by
  intro b hb
  rcases List.mem_cons.mp hb with rfl | hb
  · exact ha
  · exact h b hb

theorem NoExp.head {a : Frame} {fs : List Frame} (h : NoExp (a :: fs)) : a.d.explicit = false :=
  h a (List.mem_cons_self ..)

theorem NoExp.tail {a : Frame} {fs : List Frame} (h : NoExp (a :: fs)) : NoExp fs :=
  fun b hb => h b (List.mem_cons_of_mem _ hb)

theorem anyExplicit_eq_false {fs : List Frame} : anyExplicit fs = false ↔ NoExp fs := by
  simp [anyExplicit, NoExp]

theorem anyExplicit_mid (above : List Frame) (f : Frame) (rest : List Frame) (hf : f.d.explicit = true) :
    anyExplicit (above ++ f :: rest) = true := by
  simp [anyExplicit, hf]

@[simp] theorem attach_d (t : Tree) (p : Frame) : (attach t p).d = p.d := rfl

theorem consumeAll_append (c : Ctx) (a b : List Tok) :
    consumeAll c (a ++ b) = match consumeAll c a with
      | .ok c' => consumeAll c' b
      | .error e => .error e := by
  induction a generalizing c with
  | nil => simp [consumeAll]
  | cons t r ih =>
    simp only [List.cons_append, consumeAll]
    cases consume c t with
    | error e => simp
    | ok c' => simp [ih]

/-- `place` on success opens a fresh frame for `d` on top; below an all-unparenthesised stack stays so -/
theorem place_head (fs : List Frame) (roots : List Tree) (d : Dir) (c : Ctx)
    (h : place fs roots d = .ok c) :
    ∃ below, c.frames = ⟨d, []⟩ :: below ∧ (NoExp fs → NoExp below) := by
  fun_induction place fs roots d with
  | case1 roots d hr =>
    cases h; exact ⟨[], rfl, fun _ => NoExp.nil⟩
  | case2 roots d hr => cases h
  | case3 => cases h
  | case4 f below roots d _ _ hne =>
    cases h; exact ⟨[], rfl, fun _ => NoExp.nil⟩
  | case5 f below roots d _ _ =>
    cases h; exact ⟨f :: below, rfl, fun hn => hn⟩
  | case6 => cases h
  | case7 f roots d _ _ ih =>
    rcases ih h with ⟨below, hb, hn⟩
    exact ⟨below, hb, fun _ => hn NoExp.nil⟩
  | case8 f roots d _ _ p rest ih =>
    rcases ih h with ⟨below, hb, hn⟩
    refine ⟨below, hb, fun hne => hn ?_⟩
    exact NoExp.cons (by simpa using hne.tail.head) hne.tail.tail

/-- below a parenthesised frame `D` whose upper neighbours are unparenthesised, `place` only pushes on top -/
theorem place_inv {D : Dir} (hD : D.explicit = true) (above : List Frame) (kids : List Tree)
    (rest : List Frame) (roots : List Tree) (d : Dir) (c : Ctx) (hn : NoExp above)
    (h : place (above ++ ⟨D, kids⟩ :: rest) roots d = .ok c) :
    c.roots = roots ∧ ∃ above' kids', NoExp above' ∧
      c.frames = ⟨d, []⟩ :: (above' ++ ⟨D, kids'⟩ :: rest) := by
  generalize hfs : above ++ (⟨D, kids⟩ : Frame) :: rest = fs at h
  fun_induction place fs roots d generalizing above kids with
  | case1 => simp at hfs
  | case2 => simp at hfs
  | case3 => cases h
  | case4 f below roots d _ _ hne =>
    rw [← hfs, anyExplicit_mid above _ rest hD] at hne
    exact absurd rfl hne
  | case5 f below roots d _ _ =>
    cases h
    exact ⟨rfl, above, kids, hn, by rw [hfs]⟩
  | case6 => cases h
  | case7 f roots d _ hne ih =>
    cases above with
    | nil =>
      simp at hfs
      rw [← hfs.1] at hne
      exact absurd hD hne
    | cons a as => simp at hfs
  | case8 f roots d _ hne p rest' ih =>
    cases above with
    | nil =>
      simp at hfs
      rw [← hfs.1] at hne
      exact absurd hD hne
    | cons a as =>
      simp only [List.cons_append, List.cons.injEq] at hfs
      rcases hfs with ⟨rfl, hfs⟩
      cases as with
      | nil =>
        simp only [List.nil_append, List.cons.injEq] at hfs
        rcases hfs with ⟨rfl, rfl⟩
        exact ih [] (kids ++ [a.tree]) NoExp.nil rfl h
      | cons b bs =>
        simp only [List.cons_append, List.cons.injEq] at hfs
        rcases hfs with ⟨rfl, rfl⟩
        exact ih (attach a.tree b :: bs) kids
          (NoExp.cons (by simpa using hn.tail.head) hn.tail.tail) rfl h

theorem truncateTo_ge (n : Nat) (fs : List Frame) (roots : List Tree) (h : fs.length ≤ n) :
    truncateTo n fs roots = (fs, roots) := by
  match fs with
  | [] => simp [truncateTo]
  | [f] =>
    have : 1 ≤ n := by simpa using h
    simp [truncateTo, this]
  | f :: p :: rest => rw [truncateTo, if_pos h]

/-- when the innermost parenthesised frame is `D`, `)` and "back to `D`'s parent" coincide -/
theorem close_trunc {D : Dir} (hD : D.explicit = true) (above : List Frame) (kids : List Tree)
    (rest : List Frame) (roots : List Tree) (hn : NoExp above) :
    ∃ T : Tree,
      closeExplicit (above ++ ⟨D, kids⟩ :: rest) roots =
        .ok (match rest with
          | [] => ⟨[], roots ++ [T]⟩
          | p :: r => ⟨attach T p :: r, roots⟩) ∧
      truncateTo rest.length (above ++ ⟨D, kids⟩ :: rest) roots =
        (match rest with
          | [] => ([], roots ++ [T])
          | p :: r => (attach T p :: r, roots)) := by
  generalize hlen : above.length = n
  induction n generalizing above kids with
  | zero =>
    have : above = [] := List.eq_nil_of_length_eq_zero hlen
    subst this
    cases rest with
    | nil =>
      refine ⟨.node D kids, ?_, ?_⟩
      · simp [closeExplicit, hD, Frame.tree]
      · simp [truncateTo, Frame.tree]
    | cons p r =>
      refine ⟨.node D kids, ?_, ?_⟩
      · simp [closeExplicit, hD, Frame.tree]
      · rw [List.nil_append, truncateTo]
        simp only [List.length_cons, Frame.tree]
        rw [if_neg (by omega), truncateTo_ge _ _ _ (by simp)]
  | succ n ih =>
    cases above with
    | nil => simp at hlen
    | cons a as =>
      have ha : a.d.explicit = false := hn.head
      cases as with
      | nil =>
        rcases ih [] (kids ++ [a.tree]) NoExp.nil (by simp at hlen; simp [hlen]) with ⟨T, h1, h2⟩
        refine ⟨T, ?_, ?_⟩
        · simpa [closeExplicit, ha, attach] using h1
        · rw [List.cons_append, List.nil_append, truncateTo]
          rw [if_neg (by simp; omega)]
          simpa [attach] using h2
      | cons b bs =>
        rcases ih (attach a.tree b :: bs) kids
          (NoExp.cons (by simpa using hn.tail.head) hn.tail.tail) (by simpa using hlen) with ⟨T, h1, h2⟩
        refine ⟨T, ?_, ?_⟩
        · simpa [closeExplicit, ha] using h1
        · rw [List.cons_append, List.cons_append, truncateTo]
          rw [if_neg (by simp; omega)]
          simpa using h2

/-- `toks` leads the scan-time resolution from `c` to `c'`, leaving every open parenthesised frame (and
    everything below it) in place, and opening no parenthesis that it does not close -/
structure Step (c c' : Ctx) (toks : List Tok) : Prop where
  run : consumeAll c toks = .ok c'
  inv : ∀ D rest, D.explicit = true → Inv D rest c.frames → Inv D rest c'.frames
  noexp : NoExp c.frames → NoExp c'.frames

theorem Step.nil (c : Ctx) : Step c c [] := ⟨rfl, fun _ _ _ h => h, fun h => h⟩

theorem Step.append {c c1 c2 : Ctx} {a b : List Tok} (h1 : Step c c1 a) (h2 : Step c1 c2 b) :
    Step c c2 (a ++ b) := by
  refine ⟨?_, fun D rest hD h => h2.inv D rest hD (h1.inv D rest hD h), fun h => h2.noexp (h1.noexp h)⟩
  rw [consumeAll_append, h1.run]
  exact h2.run

/-- an unparenthesised directive followed by its (inlined) children -/
theorem Step.dirPlain {c c1 c2 : Ctx} {d : Dir} {ks : List Tok}
    (hp : place c.frames c.roots d = .ok c1) (hd : d.explicit = false) (hk : Step c1 c2 ks) :
    Step c c2 (Tok.dir d :: (ks ++ (if d.explicit then [Tok.close] else []))) := by
  simp only [hd, Bool.false_eq_true, if_false, List.append_nil]
  refine ⟨?_, ?_, ?_⟩
  · simp only [consumeAll, consume, hp]
    exact hk.run
  · intro D rest hD hI
    apply hk.inv D rest hD
    rcases hI with ⟨above, kids, hfs, hn⟩
    rw [hfs] at hp
    rcases place_inv hD above kids rest c.roots d c1 hn hp with ⟨_, above', kids', hn', hf⟩
    exact ⟨⟨d, []⟩ :: above', kids', by rw [hf]; rfl, NoExp.cons hd hn'⟩
  · intro hn
    apply hk.noexp
    rcases place_head _ _ _ _ hp with ⟨below, hb, hnb⟩
    rw [hb]
    exact NoExp.cons hd (hnb hn)

/-- a parenthesised directive, its (inlined) children, and the return to its parent -/
theorem Step.dirParen {c c1 c2 : Ctx} {d : Dir} {ks : List Tok}
    (hp : place c.frames c.roots d = .ok c1) (hd : d.explicit = true) (hk : Step c1 c2 ks) :
    Step c ⟨(truncateTo (c1.frames.length - 1) c2.frames c2.roots).1,
            (truncateTo (c1.frames.length - 1) c2.frames c2.roots).2⟩
      (Tok.dir d :: (ks ++ (if d.explicit then [Tok.close] else []))) := by
  simp only [hd, if_true]
  rcases place_head _ _ _ _ hp with ⟨below, hb, hnb⟩
  have hI1 : Inv d below c1.frames := ⟨[], [], by rw [hb]; rfl, NoExp.nil⟩
  rcases hk.inv d below hd hI1 with ⟨above2, kids2, hf2, hn2⟩
  have hlen : c1.frames.length - 1 = below.length := by rw [hb]; simp
  rcases close_trunc hd above2 kids2 below c2.roots hn2 with ⟨T, hce, htr⟩
  rw [hlen, hf2, htr]
  refine ⟨?_, ?_, ?_⟩
  · simp only [consumeAll, consume, hp]
    rw [consumeAll_append, hk.run]
    simp only [consumeAll, consume]
    rw [hf2, hce]
    cases below <;> rfl
  · intro D rest hD hI
    rcases hI with ⟨above, kids, hfs, hn⟩
    rw [hfs] at hp
    rcases place_inv hD above kids rest c.roots d c1 hn hp with ⟨_, above', kids', hn', hf⟩
    have hbel : below = above' ++ ⟨D, kids'⟩ :: rest := by
      rw [hb] at hf
      exact (List.cons.inj hf).2
    subst hbel
    cases above' with
    | nil => exact ⟨[], kids' ++ [T], rfl, NoExp.nil⟩
    | cons a as =>
      exact ⟨attach T a :: as, kids', rfl, NoExp.cons (by simpa using hn'.head) hn'.tail⟩
  · intro hn
    have := hnb hn
    cases below with
    | nil => exact NoExp.nil
    | cons p r => exact NoExp.cons (by simpa using this.head) this.tail

/-! ## 2. PASTE names, macro collection -/

/-- names of the PASTE nodes of a tree (`Props/C07.lean` states `pastesOf` and proves it equal to this).
    A PASTE node has no children of its own (no table admits any), they are not looked at. -/
def pastes : Tree → List Nat
  | .node d kids => if d.kind == Gen.Kind.Paste then [d.name] else pastesL kids
where pastesL : List Tree → List Nat
  | [] => []
  | t :: r => pastes t ++ pastesL r

theorem get?_append (ms x : Macros) (n : Nat) : (ms ++ x).get? n = (ms.get? n).or (x.get? n) := by
  unfold Macros.get?
  rw [List.find?_append]
  cases List.find? (fun x => x.1 == n) ms <;> simp

theorem get?_isSome_append_left {ms : Macros} (x : Macros) {n : Nat} (h : (ms.get? n).isSome) :
    ((ms ++ x).get? n).isSome := by
  rw [get?_append]
  cases hm : ms.get? n with
  | none => simp [hm] at h
  | some m => simp

theorem get?_isSome_append_self (ms : Macros) (n : Nat) (t : Tree) :
    ((ms ++ [(n, t)]).get? n).isSome := by
  rw [get?_append]
  cases ms.get? n with
  | none => simp [Macros.get?]
  | some m => simp

theorem get?_mem {ms : Macros} {n : Nat} {m : Tree} (h : ms.get? n = some m) : (n, m) ∈ ms := by
  unfold Macros.get? at h
  cases hf : List.find? (fun x => x.1 == n) ms with
  | none => simp [hf] at h
  | some p =>
    simp [hf] at h
    have h1 := List.find?_some hf
    have h2 := List.mem_of_find?_eq_some hf
    simp at h1
    rcases p with ⟨a, b⟩
    simp at h1 h
    subst h1; subst h
    exact h2

/-- a MACRO whose name is already taken makes the collection fail -/
theorem collect_dup (l : List Tree) (ms : Macros) (acc : List Tree) (t₂ : Tree) (hmem : t₂ ∈ l)
    (hk : t₂.dir.kind = Gen.Kind.Macro) (hs : (ms.get? t₂.dir.name).isSome) :
    ∃ e, collectMacro l ms acc = .error e := by
  induction l generalizing ms acc with
  | nil => cases hmem
  | cons t r ih =>
    rw [collectMacro]
    by_cases hkt : t.dir.kind = Gen.Kind.Macro
    · simp only [hkt, beq_self_eq_true, if_true]
      split
      · exact ⟨_, rfl⟩
      · split
        · exact ⟨_, rfl⟩
        · split
          · exact ⟨_, rfl⟩
          · split
            · exact ⟨_, rfl⟩
            · rename_i hns
              rcases List.mem_cons.mp hmem with rfl | hmem
              · exact absurd hs hns
              · exact ih _ _ hmem (get?_isSome_append_left _ hs)
    · have : (t.dir.kind == Gen.Kind.Macro) = false := by simpa using hkt
      simp only [this]
      rcases List.mem_cons.mp hmem with rfl | hmem
      · exact absurd hk hkt
      · exact ih _ _ hmem hs

theorem collect_dup2 (pre : List Tree) (t₁ : Tree) (mid : List Tree) (t₂ : Tree) (post : List Tree)
    (ms : Macros) (acc : List Tree)
    (h₁ : t₁.dir.kind = Gen.Kind.Macro) (h₂ : t₂.dir.kind = Gen.Kind.Macro)
    (hn : t₁.dir.name = t₂.dir.name) :
    ∃ e, collectMacro (pre ++ t₁ :: (mid ++ t₂ :: post)) ms acc = .error e := by
  induction pre generalizing ms acc with
  | nil =>
    rw [List.nil_append, collectMacro]
    simp only [h₁, beq_self_eq_true, if_true]
    split
    · exact ⟨_, rfl⟩
    · split
      · exact ⟨_, rfl⟩
      · split
        · exact ⟨_, rfl⟩
        · split
          · exact ⟨_, rfl⟩
          · apply collect_dup _ _ _ t₂ (by simp) h₂
            rw [← hn]
            exact get?_isSome_append_self _ _ _
  | cons t r ih =>
    rw [List.cons_append, collectMacro]
    split
    · split
      · exact ⟨_, rfl⟩
      · split
        · exact ⟨_, rfl⟩
        · split
          · exact ⟨_, rfl⟩
          · split
            · exact ⟨_, rfl⟩
            · exact ih _ _
    · exact ih _ _

/-- every PASTE of a tree that the expansion went through names a defined macro -/
theorem expand_defined (ms : Macros) : ∀ fuel : Nat,
    (∀ outer st t st', expandTree ms fuel outer st t = .ok st' →
      ∀ n ∈ pastes t, (ms.get? n).isSome) ∧
    (∀ outer st l st', expandList ms fuel outer st l = .ok st' →
      ∀ n ∈ pastes.pastesL l, (ms.get? n).isSome) := by
  intro fuel
  induction fuel with
  | zero =>
    constructor
    · intro outer st t st' h; simp [expandTree] at h
    · intro outer st l st' h; simp [expandList] at h
  | succ fuel ih =>
    rcases ih with ⟨ihT, ihL⟩
    constructor
    · intro outer st t st' h n hn
      rcases t with ⟨d, kids⟩
      rw [expandTree] at h
      rw [pastes] at hn
      split at h
      · rename_i hk
        simp only [hk, if_true, List.mem_singleton] at hn
        subst hn
        split at h
        · cases h
        · split at h
          · cases h
          · split at h
            · cases h
            · rename_i m hm
              simp [hm]
      · rename_i hk
        simp only [hk] at hn
        split at h
        · cases h
        · split at h
          · cases h
          · rename_i st2 hl
            exact ihL _ _ _ _ hl n hn
    · intro outer st l st' h n hn
      cases l with
      | nil => simp [pastes.pastesL] at hn
      | cons t r =>
        rw [expandList] at h
        split at h
        · cases h
        · rename_i st1 ht
          rw [pastes.pastesL] at hn
          rcases List.mem_append.mp hn with hn | hn
          · exact ihT _ _ _ _ ht n hn
          · exact ihL _ _ _ _ h n hn

/-- the fuel `expand` gives to the expansion -/
def expandFuel (ms : Macros) (rest : List Tree) : Nat :=
  (macrosSize ms + 2) * (macrosSize ms + expand.TreeSize.forest rest + 2) + 2

theorem expand_ok {roots f : List Tree} (h : expand roots = .ok f) :
    ∃ ms rest st, collectMacro roots [] [] = .ok (ms, rest) ∧ checkRecursion ms = .ok () ∧
      expandList ms (expandFuel ms rest) none {} rest = .ok st ∧
      f = closeAll st.ctx.frames st.ctx.roots := by
  unfold expand at h
  split at h
  · cases h
  · rename_i ms rest hc
    split at h
    · cases h
    · rename_i u hr
      simp only at h
      split at h
      · cases h
      · rename_i st hl
        cases h
        exact ⟨ms, rest, st, hc, hr, hl, rfl⟩

theorem expand_of_parts {roots : List Tree} {ms : Macros} {rest : List Tree}
    (hc : collectMacro roots [] [] = .ok (ms, rest)) (hr : checkRecursion ms = .ok ()) :
    expand roots = match expandList ms (expandFuel ms rest) none {} rest with
      | .error e => .error e
      | .ok st => .ok (closeAll st.ctx.frames st.ctx.roots) := by
  unfold expand
  simp only [hc, hr]
  rfl

/-! ## 3. The recursion check is a complete DFS -/

/-- what a successful `findPaste` has established: `visited` only grows; every PASTE of the tree is
    visited and is not the target; every macro visited during the call has all its PASTEs visited, none
    of them the target -/
theorem findPaste_closed (ms : Macros) (tgt : Nat) : ∀ fuel : Nat,
    (∀ t v v', findPaste ms tgt fuel t v = .ok v' →
      (∀ x ∈ v, x ∈ v') ∧ (∀ n ∈ pastes t, n ∈ v' ∧ n ≠ tgt) ∧
      (∀ x ∈ v', x ∉ v → ∀ m, ms.get? x = some m → ∀ n ∈ pastes m, n ∈ v' ∧ n ≠ tgt)) ∧
    (∀ l v v', findPasteList ms tgt fuel l v = .ok v' →
      (∀ x ∈ v, x ∈ v') ∧ (∀ n ∈ pastes.pastesL l, n ∈ v' ∧ n ≠ tgt) ∧
      (∀ x ∈ v', x ∉ v → ∀ m, ms.get? x = some m → ∀ n ∈ pastes m, n ∈ v' ∧ n ≠ tgt)) := by
  intro fuel
  induction fuel with
  | zero =>
    constructor
    · intro t v v' h; simp [findPaste] at h
    · intro l v v' h; simp [findPasteList] at h
  | succ fuel ih =>
    rcases ih with ⟨ihT, ihL⟩
    constructor
    · intro t v v' h
      rcases t with ⟨d, kids⟩
      rw [findPaste] at h
      rw [pastes]
      split at h
      · rename_i hk
        simp only [hk, if_true, List.mem_singleton, forall_eq]
        split at h
        · cases h
        · split at h
          · cases h
          · rename_i hz ht
            have hne : d.name ≠ tgt := by simpa using ht
            split at h
            · rename_i hv
              cases h
              exact ⟨fun x hx => hx, ⟨by simpa using hv, hne⟩, fun x hx hnx => absurd hx hnx⟩
            · rename_i hv
              split at h
              · rename_i m hm
                rcases ihT _ _ _ h with ⟨h1, h2, h3⟩
                refine ⟨fun x hx => h1 x (List.mem_cons_of_mem _ hx),
                  ⟨h1 _ (List.mem_cons_self ..), hne⟩, ?_⟩
                intro x hx hnx mx hmx
                by_cases hxd : x = d.name
                · subst hxd
                  rw [hm] at hmx
                  cases hmx
                  exact h2
                · apply h3 x hx _ mx hmx
                  intro hc
                  rcases List.mem_cons.mp hc with hc | hc
                  · exact hxd hc
                  · exact hnx hc
              · rename_i hm
                cases h
                refine ⟨fun x hx => List.mem_cons_of_mem _ hx, ⟨List.mem_cons_self .., hne⟩, ?_⟩
                intro x hx hnx mx hmx
                rcases List.mem_cons.mp hx with hx | hx
                · subst hx
                  rw [hm] at hmx
                  cases hmx
                · exact absurd hx hnx
      · rename_i hk
        simp only [hk]
        exact ihL _ _ _ h
    · intro l v v' h
      cases l with
      | nil =>
        rw [findPasteList] at h
        cases h
        exact ⟨fun x hx => hx, by simp [pastes.pastesL], fun x hx hnx => absurd hx hnx⟩
      | cons t r =>
        rw [findPasteList] at h
        split at h
        · cases h
        · rename_i v1 ht
          rcases ihT _ _ _ ht with ⟨a1, a2, a3⟩
          rcases ihL _ _ _ h with ⟨b1, b2, b3⟩
          refine ⟨fun x hx => b1 x (a1 x hx), ?_, ?_⟩
          · intro n hn
            rw [pastes.pastesL] at hn
            rcases List.mem_append.mp hn with hn | hn
            · exact ⟨b1 _ (a2 n hn).1, (a2 n hn).2⟩
            · exact b2 n hn
          · intro x hx hnx mx hmx n hn
            by_cases hx1 : x ∈ v1
            · exact ⟨b1 _ (a3 x hx1 hnx mx hmx n hn).1, (a3 x hx1 hnx mx hmx n hn).2⟩
            · exact b3 x hx hx1 mx hmx n hn

theorem go_ok (ms : Macros) : ∀ l : Macros, checkRecursion.go ms l = .ok () →
    ∀ p ∈ l, ∃ v', findPaste ms p.1 (2 * macrosSize ms + 2) p.2 [p.1] = .ok v' := by
  intro l
  induction l with
  | nil => intro _ p hp; cases hp
  | cons q r ih =>
    intro h p hp
    rcases q with ⟨name, m⟩
    rw [checkRecursion.go] at h
    split at h
    · cases h
    · rename_i v' hf
      rcases List.mem_cons.mp hp with rfl | hp
      · exact ⟨v', hf⟩
      · exact ih h p hp

/-- if the check passes then from every defined macro `a` the set of macros reachable through PASTEs is
    closed and none of them pastes `a` -/
theorem check_closed {ms : Macros} (h : checkRecursion ms = .ok ()) {a : Nat} {m : Tree}
    (hm : ms.get? a = some m) :
    ∃ S : Nat → Prop, S a ∧
      ∀ x, S x → ∀ mx, ms.get? x = some mx → ∀ n ∈ pastes mx, S n ∧ n ≠ a := by
  rcases go_ok ms ms h (a, m) (get?_mem hm) with ⟨v', hv⟩
  rcases (findPaste_closed ms a _).1 _ _ _ hv with ⟨h1, h2, h3⟩
  refine ⟨fun x => x ∈ v', h1 a (List.mem_singleton.mpr rfl), ?_⟩
  intro x hx mx hmx
  by_cases hxa : x = a
  · subst hxa
    rw [hm] at hmx
    cases hmx
    exact h2
  · exact h3 x hx (by simpa using hxa) mx hmx

end JSight.C07
