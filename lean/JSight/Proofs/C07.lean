import JSight.Model.Paste
/-!
C07 — helper lemmas for the MACRO / PASTE properties (core Lean only, parametric in the admissibility
tables).  The property theorems are in `JSight/Props/C07.lean`.
-/
namespace JSight.C07
open JSight

/-! ## 1. Context-level lemmas: a parenthesised frame stays where it is until its own ")" -/

/-- no frame of the list is parenthesised -/
def NoExp (fs : List Frame) : Prop := ∀ a ∈ fs, a.d.explicit = false

/-- the frame of `D` is open with exactly `rest` below it and nothing above it is parenthesised -/
def Inv (D : Dir) (rest fs : List Frame) : Prop :=
  ∃ above kids, fs = above ++ ⟨D, kids⟩ :: rest ∧ NoExp above

theorem NoExp.nil : NoExp [] := by intro a h; cases h

theorem NoExp.cons {a : Frame} {fs : List Frame} (ha : a.d.explicit = false) (h : NoExp fs) :
    NoExp (a :: fs) := by
  intro b hb
  rcases List.mem_cons.mp hb with rfl | hb
  · exact ha
  · exact h b hb

theorem NoExp.head {a : Frame} {fs : List Frame} (h : NoExp (a :: fs)) : a.d.explicit = false :=
  h a (List.mem_cons_self ..)

theorem NoExp.tail {a : Frame} {fs : List Frame} (h : NoExp (a :: fs)) : NoExp fs :=
  fun b hb => h b (List.mem_cons_of_mem _ hb)

theorem anyExplicit_eq_false {fs : List Frame} : anyExplicit fs = false ↔ NoExp fs := by
  simp [anyExplicit, NoExp]

theorem anyExplicit_mid (above : List Frame) (f : Frame) (rest : List Frame) (hf : f.d.explicit = true) :
    anyExplicit (above ++ f :: rest) = true := by
  simp [anyExplicit, hf]

@[simp] theorem attach_d (t : Tree) (p : Frame) : (attach t p).d = p.d := rfl

theorem consumeAll_append (c : Ctx) (a b : List Tok) :
    consumeAll c (a ++ b) = match consumeAll c a with
      | .ok c' => consumeAll c' b
      | .error e => .error e := by
  induction a generalizing c with
  | nil => simp [consumeAll]
  | cons t r ih =>
    simp only [List.cons_append, consumeAll]
    cases consume c t with
    | error e => simp
    | ok c' => simp [ih]

/-- `place` on success opens a fresh frame for `d` on top; below an all-unparenthesised stack stays so -/
theorem place_head (fs : List Frame) (roots : List Tree) (d : Dir) (c : Ctx)
    (h : place fs roots d = .ok c) :
    ∃ below, c.frames = ⟨d, []⟩ :: below ∧ (NoExp fs → NoExp below) := by
  fun_induction place fs roots d with
  | case1 roots d hr =>
    cases h; exact ⟨[], rfl, fun _ => NoExp.nil⟩
  | case2 roots d hr => cases h
  | case3 f below roots d _ =>
    cases h; exact ⟨f :: below, rfl, fun hn => hn⟩
  | case4 => cases h
  | case5 => cases h
  | case6 f roots d _ _ ih =>
    rcases ih h with ⟨below, hb, hn⟩
    exact ⟨below, hb, fun _ => hn NoExp.nil⟩
  | case7 f roots d _ _ p rest ih =>
    rcases ih h with ⟨below, hb, hn⟩
    refine ⟨below, hb, fun hne => hn ?_⟩
    exact NoExp.cons (by simpa using hne.tail.head) hne.tail.tail

/-- below a parenthesised frame `D` whose upper neighbours are unparenthesised, `place` only pushes on top -/
theorem place_inv {D : Dir} (hD : D.explicit = true) (above : List Frame) (kids : List Tree)
    (rest : List Frame) (roots : List Tree) (d : Dir) (c : Ctx) (hn : NoExp above)
    (h : place (above ++ ⟨D, kids⟩ :: rest) roots d = .ok c) :
    c.roots = roots ∧ ∃ above' kids', NoExp above' ∧
      c.frames = ⟨d, []⟩ :: (above' ++ ⟨D, kids'⟩ :: rest) := by
  generalize hfs : above ++ (⟨D, kids⟩ : Frame) :: rest = fs at h
  fun_induction place fs roots d generalizing above kids with
  | case1 => simp at hfs
  | case2 => simp at hfs
  | case3 f below roots d _ =>
    cases h
    exact ⟨rfl, above, kids, hn, by rw [hfs]⟩
  | case4 => cases h
  | case5 => cases h
  | case6 f roots d _ hne ih =>
    cases above with
    | nil =>
      simp at hfs
      rw [← hfs.1] at hne
      exact absurd hD hne
    | cons a as => simp at hfs
  | case7 f roots d _ hne p rest' ih =>
    cases above with
    | nil =>
      simp at hfs
      rw [← hfs.1] at hne
      exact absurd hD hne
    | cons a as =>
      simp only [List.cons_append, List.cons.injEq] at hfs
      rcases hfs with ⟨rfl, hfs⟩
      cases as with
      | nil =>
        simp only [List.nil_append, List.cons.injEq] at hfs
        rcases hfs with ⟨rfl, rfl⟩
        exact ih [] (kids ++ [a.tree]) NoExp.nil rfl h
      | cons b bs =>
        simp only [List.cons_append, List.cons.injEq] at hfs
        rcases hfs with ⟨rfl, rfl⟩
        exact ih (attach a.tree b :: bs) kids
          (NoExp.cons (by simpa using hn.tail.head) hn.tail.tail) rfl h

theorem truncateTo_ge (n : Nat) (fs : List Frame) (roots : List Tree) (h : fs.length ≤ n) :
    truncateTo n fs roots = (fs, roots) := by
  match fs with
  | [] => simp [truncateTo]
  | [f] =>
    have : 1 ≤ n := by simpa using h
    simp [truncateTo, this]
  | f :: p :: rest => rw [truncateTo, if_pos h]

/-- when the innermost parenthesised frame is `D`, `)` and "back to `D`'s parent" coincide -/
theorem close_trunc {D : Dir} (hD : D.explicit = true) (above : List Frame) (kids : List Tree)
    (rest : List Frame) (roots : List Tree) (hn : NoExp above) :
    ∃ T : Tree,
      closeExplicit (above ++ ⟨D, kids⟩ :: rest) roots =
        .ok (match rest with
          | [] => ⟨[], roots ++ [T]⟩
          | p :: r => ⟨attach T p :: r, roots⟩) ∧
      truncateTo rest.length (above ++ ⟨D, kids⟩ :: rest) roots =
        (match rest with
          | [] => ([], roots ++ [T])
          | p :: r => (attach T p :: r, roots)) := by
  generalize hlen : above.length = n
  induction n generalizing above kids with
  | zero =>
    have : above = [] := List.eq_nil_of_length_eq_zero hlen
    subst this
    cases rest with
    | nil =>
      refine ⟨.node D kids, ?_, ?_⟩
      · simp [closeExplicit, hD, Frame.tree]
      · simp [truncateTo, Frame.tree]
    | cons p r =>
      refine ⟨.node D kids, ?_, ?_⟩
      · simp [closeExplicit, hD, Frame.tree]
      · rw [List.nil_append, truncateTo]
        simp only [List.length_cons, Frame.tree]
        rw [if_neg (by omega), truncateTo_ge _ _ _ (by simp)]
  | succ n ih =>
    cases above with
    | nil => simp at hlen
    | cons a as =>
      have ha : a.d.explicit = false := hn.head
      cases as with
      | nil =>
        rcases ih [] (kids ++ [a.tree]) NoExp.nil (by simp at hlen; simp [hlen]) with ⟨T, h1, h2⟩
        refine ⟨T, ?_, ?_⟩
        · simpa [closeExplicit, ha, attach] using h1
        · rw [List.cons_append, List.nil_append, truncateTo]
          rw [if_neg (by simp; omega)]
          simpa [attach] using h2
      | cons b bs =>
        rcases ih (attach a.tree b :: bs) kids
          (NoExp.cons (by simpa using hn.tail.head) hn.tail.tail) (by simpa using hlen) with ⟨T, h1, h2⟩
        refine ⟨T, ?_, ?_⟩
        · simpa [closeExplicit, ha] using h1
        · rw [List.cons_append, List.cons_append, truncateTo]
          rw [if_neg (by simp; omega)]
          simpa using h2

/-- `toks` leads the scan-time resolution from `c` to `c'`, leaving every open parenthesised frame (and
    everything below it) in place, and opening no parenthesis that it does not close -/
structure Step (c c' : Ctx) (toks : List Tok) : Prop where
  run : consumeAll c toks = .ok c'
  inv : ∀ D rest, D.explicit = true → Inv D rest c.frames → Inv D rest c'.frames
  noexp : NoExp c.frames → NoExp c'.frames

theorem Step.nil (c : Ctx) : Step c c [] := ⟨rfl, fun _ _ _ h => h, fun h => h⟩

theorem Step.append {c c1 c2 : Ctx} {a b : List Tok} (h1 : Step c c1 a) (h2 : Step c1 c2 b) :
    Step c c2 (a ++ b) := by
  refine ⟨?_, fun D rest hD h => h2.inv D rest hD (h1.inv D rest hD h), fun h => h2.noexp (h1.noexp h)⟩
  rw [consumeAll_append, h1.run]
  exact h2.run

/-- an unparenthesised directive followed by its (inlined) children -/
theorem Step.dirPlain {c c1 c2 : Ctx} {d : Dir} {ks : List Tok}
    (hp : place c.frames c.roots d = .ok c1) (hd : d.explicit = false) (hk : Step c1 c2 ks) :
    Step c c2 (Tok.dir d :: (ks ++ (if d.explicit then [Tok.close] else []))) := by
  simp only [hd, Bool.false_eq_true, if_false, List.append_nil]
  refine ⟨?_, ?_, ?_⟩
  · simp only [consumeAll, consume, hp]
    exact hk.run
  · intro D rest hD hI
    apply hk.inv D rest hD
    rcases hI with ⟨above, kids, hfs, hn⟩
    rw [hfs] at hp
    rcases place_inv hD above kids rest c.roots d c1 hn hp with ⟨_, above', kids', hn', hf⟩
    exact ⟨⟨d, []⟩ :: above', kids', by rw [hf]; rfl, NoExp.cons hd hn'⟩
  · intro hn
    apply hk.noexp
    rcases place_head _ _ _ _ hp with ⟨below, hb, hnb⟩
    rw [hb]
    exact NoExp.cons hd (hnb hn)

/-- a parenthesised directive, its (inlined) children, and the return to its parent -/
theorem Step.dirParen {c c1 c2 : Ctx} {d : Dir} {ks : List Tok}
    (hp : place c.frames c.roots d = .ok c1) (hd : d.explicit = true) (hk : Step c1 c2 ks) :
    Step c ⟨(truncateTo (c1.frames.length - 1) c2.frames c2.roots).1,
            (truncateTo (c1.frames.length - 1) c2.frames c2.roots).2⟩
      (Tok.dir d :: (ks ++ (if d.explicit then [Tok.close] else []))) := by
  simp only [hd, if_true]
  rcases place_head _ _ _ _ hp with ⟨below, hb, hnb⟩
  have hI1 : Inv d below c1.frames := ⟨[], [], by rw [hb]; rfl, NoExp.nil⟩
  rcases hk.inv d below hd hI1 with ⟨above2, kids2, hf2, hn2⟩
  have hlen : c1.frames.length - 1 = below.length := by rw [hb]; simp
  rcases close_trunc hd above2 kids2 below c2.roots hn2 with ⟨T, hce, htr⟩
  rw [hlen, hf2, htr]
  refine ⟨?_, ?_, ?_⟩
  · simp only [consumeAll, consume, hp]
    rw [consumeAll_append, hk.run]
    simp only [consumeAll, consume]
    rw [hf2, hce]
    cases below <;> rfl
  · intro D rest hD hI
    rcases hI with ⟨above, kids, hfs, hn⟩
    rw [hfs] at hp
    rcases place_inv hD above kids rest c.roots d c1 hn hp with ⟨_, above', kids', hn', hf⟩
    have hbel : below = above' ++ ⟨D, kids'⟩ :: rest := by
      rw [hb] at hf
      exact (List.cons.inj hf).2
    subst hbel
    cases above' with
    | nil => exact ⟨[], kids' ++ [T], rfl, NoExp.nil⟩
    | cons a as =>
      exact ⟨attach T a :: as, kids', rfl, NoExp.cons (by simpa using hn'.head) hn'.tail⟩
  · intro hn
    have := hnb hn
    cases below with
    | nil => exact NoExp.nil
    | cons p r => exact NoExp.cons (by simpa using this.head) this.tail

/-! ## 2. PASTE names, macro collection -/

/-- names of the PASTE nodes of a tree (`Props/C07.lean` states `pastesOf` and proves it equal to this).
    A PASTE node has no children of its own (no table allows any), they are not looked at. -/
def pastes : Tree → List Nat
  | .node d kids => if d.kind == Gen.Kind.Paste then [d.name] else pastesL kids
where pastesL : List Tree → List Nat
  | [] => []
  | t :: r => pastes t ++ pastesL r

theorem get?_append (ms x : Macros) (n : Nat) : (ms ++ x).get? n = (ms.get? n).or (x.get? n) := by
  unfold Macros.get?
  rw [List.find?_append]
  cases List.find? (fun x => x.1 == n) ms <;> simp

theorem get?_isSome_append_left {ms : Macros} (x : Macros) {n : Nat} (h : (ms.get? n).isSome) :
    ((ms ++ x).get? n).isSome := by
  rw [get?_append]
  cases hm : ms.get? n with
  | none => simp [hm] at h
  | some m => simp

theorem get?_isSome_append_self (ms : Macros) (n : Nat) (t : Tree) :
    ((ms ++ [(n, t)]).get? n).isSome := by
  rw [get?_append]
  cases ms.get? n with
  | none => simp [Macros.get?]
  | some m => simp

theorem get?_mem {ms : Macros} {n : Nat} {m : Tree} (h : ms.get? n = some m) : (n, m) ∈ ms := by
  unfold Macros.get? at h
  cases hf : List.find? (fun x => x.1 == n) ms with
  | none => simp [hf] at h
  | some p =>
    simp [hf] at h
    have h1 := List.find?_some hf
    have h2 := List.mem_of_find?_eq_some hf
    simp at h1
    rcases p with ⟨a, b⟩
    simp at h1 h
    subst h1; subst h
    exact h2

/-- a MACRO whose name is already taken makes the collection fail -/
theorem collect_dup (l : List Tree) (ms : Macros) (acc : List Tree) (t₂ : Tree) (hmem : t₂ ∈ l)
    (hk : t₂.dir.kind = Gen.Kind.Macro) (hs : (ms.get? t₂.dir.name).isSome) :
    ∃ e, collectMacro l ms acc = .error e := by
  induction l generalizing ms acc with
  | nil => cases hmem
  | cons t r ih =>
    rw [collectMacro]
    by_cases hkt : t.dir.kind = Gen.Kind.Macro
    · simp only [hkt, beq_self_eq_true, if_true]
      split
      · exact ⟨_, rfl⟩
      · split
        · exact ⟨_, rfl⟩
        · split
          · exact ⟨_, rfl⟩
          · split
            · exact ⟨_, rfl⟩
            · rename_i hns
              rcases List.mem_cons.mp hmem with rfl | hmem
              · exact absurd hs hns
              · exact ih _ _ hmem (get?_isSome_append_left _ hs)
    · have : (t.dir.kind == Gen.Kind.Macro) = false := by simpa using hkt
      simp only [this]
      rcases List.mem_cons.mp hmem with rfl | hmem
      · exact absurd hk hkt
      · exact ih _ _ hmem hs

theorem collect_dup2 (pre : List Tree) (t₁ : Tree) (mid : List Tree) (t₂ : Tree) (post : List Tree)
    (ms : Macros) (acc : List Tree)
    (h₁ : t₁.dir.kind = Gen.Kind.Macro) (h₂ : t₂.dir.kind = Gen.Kind.Macro)
    (hn : t₁.dir.name = t₂.dir.name) :
    ∃ e, collectMacro (pre ++ t₁ :: (mid ++ t₂ :: post)) ms acc = .error e := by
  induction pre generalizing ms acc with
  | nil =>
    rw [List.nil_append, collectMacro]
    simp only [h₁, beq_self_eq_true, if_true]
    split
    · exact ⟨_, rfl⟩
    · split
      · exact ⟨_, rfl⟩
      · split
        · exact ⟨_, rfl⟩
        · split
          · exact ⟨_, rfl⟩
          · apply collect_dup _ _ _ t₂ (by simp) h₂
            rw [← hn]
            exact get?_isSome_append_self _ _ _
  | cons t r ih =>
    rw [List.cons_append, collectMacro]
    split
    · split
      · exact ⟨_, rfl⟩
      · split
        · exact ⟨_, rfl⟩
        · split
          · exact ⟨_, rfl⟩
          · split
            · exact ⟨_, rfl⟩
            · exact ih _ _
    · exact ih _ _

/-- every PASTE of a tree that the expansion went through names a defined macro -/
theorem expand_defined (ms : Macros) : ∀ fuel : Nat,
    (∀ outer st t st', expandTree ms fuel outer st t = .ok st' →
      ∀ n ∈ pastes t, (ms.get? n).isSome) ∧
    (∀ outer st l st', expandList ms fuel outer st l = .ok st' →
      ∀ n ∈ pastes.pastesL l, (ms.get? n).isSome) := by
  intro fuel
  induction fuel with
  | zero =>
    constructor
    · intro outer st t st' h; simp [expandTree] at h
    · intro outer st l st' h; simp [expandList] at h
  | succ fuel ih =>
    rcases ih with ⟨ihT, ihL⟩
    constructor
    · intro outer st t st' h n hn
      rcases t with ⟨d, kids⟩
      rw [expandTree] at h
      rw [pastes] at hn
      split at h
      · rename_i hk
        simp only [hk, if_true, List.mem_singleton] at hn
        subst hn
        split at h
        · cases h
        · split at h
          · cases h
          · split at h
            · cases h
            · rename_i m hm
              simp [hm]
      · rename_i hk
        simp only [hk] at hn
        split at h
        · cases h
        · split at h
          · cases h
          · rename_i st2 hl
            exact ihL _ _ _ _ hl n hn
    · intro outer st l st' h n hn
      cases l with
      | nil => simp [pastes.pastesL] at hn
      | cons t r =>
        rw [expandList] at h
        split at h
        · cases h
        · rename_i st1 ht
          rw [pastes.pastesL] at hn
          rcases List.mem_append.mp hn with hn | hn
          · exact ihT _ _ _ _ ht n hn
          · exact ihL _ _ _ _ h n hn

/-- the fuel `expand` gives to the expansion -/
def expandFuel (ms : Macros) (rest : List Tree) : Nat :=
  (macrosSize ms + 2) * (macrosSize ms + expand.TreeSize.forest rest + 2) + 2

theorem expand_ok {roots f : List Tree} (h : expand roots = .ok f) :
    ∃ ms rest st, collectMacro roots [] [] = .ok (ms, rest) ∧ checkRecursion ms = .ok () ∧
      expandList ms (expandFuel ms rest) none {} rest = .ok st ∧
      f = closeAll st.ctx.frames st.ctx.roots := by
  unfold expand at h
  split at h
  · cases h
  · rename_i ms rest hc
    split at h
    · cases h
    · rename_i u hr
      simp only at h
      split at h
      · cases h
      · rename_i st hl
        cases h
        exact ⟨ms, rest, st, hc, hr, hl, rfl⟩

theorem expand_of_parts {roots : List Tree} {ms : Macros} {rest : List Tree}
    (hc : collectMacro roots [] [] = .ok (ms, rest)) (hr : checkRecursion ms = .ok ()) :
    expand roots = match expandList ms (expandFuel ms rest) none {} rest with
      | .error e => .error e
      | .ok st => .ok (closeAll st.ctx.frames st.ctx.roots) := by
  unfold expand
  simp only [hc, hr]
  rfl

/-! ## 3. The recursion check is a complete DFS -/

/-- what a successful `findPaste` has established: `visited` only grows; every PASTE of the tree is
    visited and is not the target; every macro visited during the call has all its PASTEs visited, none
    of them the target -/
theorem findPaste_closed (ms : Macros) (tgt : Nat) : ∀ fuel : Nat,
    (∀ t v v', findPaste ms tgt fuel t v = .ok v' →
      (∀ x ∈ v, x ∈ v') ∧ (∀ n ∈ pastes t, n ∈ v' ∧ n ≠ tgt) ∧
      (∀ x ∈ v', x ∉ v → ∀ m, ms.get? x = some m → ∀ n ∈ pastes m, n ∈ v' ∧ n ≠ tgt)) ∧
    (∀ l v v', findPasteList ms tgt fuel l v = .ok v' →
      (∀ x ∈ v, x ∈ v') ∧ (∀ n ∈ pastes.pastesL l, n ∈ v' ∧ n ≠ tgt) ∧
      (∀ x ∈ v', x ∉ v → ∀ m, ms.get? x = some m → ∀ n ∈ pastes m, n ∈ v' ∧ n ≠ tgt)) := by
  intro fuel
  induction fuel with
  | zero =>
    constructor
    · intro t v v' h; simp [findPaste] at h
    · intro l v v' h; simp [findPasteList] at h
  | succ fuel ih =>
    rcases ih with ⟨ihT, ihL⟩
    constructor
    · intro t v v' h
      rcases t with ⟨d, kids⟩
      rw [findPaste] at h
      rw [pastes]
      split at h
      · rename_i hk
        simp only [hk, if_true, List.mem_singleton, forall_eq]
        split at h
        · cases h
        · split at h
          · cases h
          · rename_i hz ht
            have hne : d.name ≠ tgt := by simpa using ht
            split at h
            · rename_i hv
              cases h
              exact ⟨fun x hx => hx, ⟨by simpa using hv, hne⟩, fun x hx hnx => absurd hx hnx⟩
            · rename_i hv
              split at h
              · rename_i m hm
                rcases ihT _ _ _ h with ⟨h1, h2, h3⟩
                refine ⟨fun x hx => h1 x (List.mem_cons_of_mem _ hx),
                  ⟨h1 _ (List.mem_cons_self ..), hne⟩, ?_⟩
                intro x hx hnx mx hmx
                by_cases hxd : x = d.name
                · subst hxd
                  rw [hm] at hmx
                  cases hmx
                  exact h2
                · apply h3 x hx _ mx hmx
                  intro hc
                  rcases List.mem_cons.mp hc with hc | hc
                  · exact hxd hc
                  · exact hnx hc
              · cases h
      · rename_i hk
        simp only [hk]
        exact ihL _ _ _ h
    · intro l v v' h
      cases l with
      | nil =>
        rw [findPasteList] at h
        cases h
        exact ⟨fun x hx => hx, by simp [pastes.pastesL], fun x hx hnx => absurd hx hnx⟩
      | cons t r =>
        rw [findPasteList] at h
        split at h
        · cases h
        · rename_i v1 ht
          rcases ihT _ _ _ ht with ⟨a1, a2, a3⟩
          rcases ihL _ _ _ h with ⟨b1, b2, b3⟩
          refine ⟨fun x hx => b1 x (a1 x hx), ?_, ?_⟩
          · intro n hn
            rw [pastes.pastesL] at hn
            rcases List.mem_append.mp hn with hn | hn
            · exact ⟨b1 _ (a2 n hn).1, (a2 n hn).2⟩
            · exact b2 n hn
          · intro x hx hnx mx hmx n hn
            by_cases hx1 : x ∈ v1
            · exact ⟨b1 _ (a3 x hx1 hnx mx hmx n hn).1, (a3 x hx1 hnx mx hmx n hn).2⟩
            · exact b3 x hx hx1 mx hmx n hn

theorem go_ok (ms : Macros) : ∀ l : Macros, checkRecursion.go ms l = .ok () →
    ∀ p ∈ l, ∃ v', findPaste ms p.1 (2 * macrosSize ms + 2) p.2 [p.1] = .ok v' := by
  intro l
  induction l with
  | nil => intro _ p hp; cases hp
  | cons q r ih =>
    intro h p hp
    rcases q with ⟨name, m⟩
    rw [checkRecursion.go] at h
    split at h
    · cases h
    · rename_i v' hf
      rcases List.mem_cons.mp hp with rfl | hp
      · exact ⟨v', hf⟩
      · exact ih h p hp

/-- if the check passes then from every defined macro `a` the set of macros reachable through PASTEs is
    closed and none of them pastes `a` -/
theorem check_closed {ms : Macros} (h : checkRecursion ms = .ok ()) {a : Nat} {m : Tree}
    (hm : ms.get? a = some m) :
    ∃ S : Nat → Prop, S a ∧
      ∀ x, S x → ∀ mx, ms.get? x = some mx → ∀ n ∈ pastes mx, S n ∧ n ≠ a := by
  rcases go_ok ms ms h (a, m) (get?_mem hm) with ⟨v', hv⟩
  rcases (findPaste_closed ms a _).1 _ _ _ hv with ⟨h1, h2, h3⟩
  refine ⟨fun x => x ∈ v', h1 a (List.mem_singleton.mpr rfl), ?_⟩
  intro x hx mx hmx
  by_cases hxa : x = a
  · subst hxa
    rw [hm] at hmx
    cases hmx
    exact h2
  · exact h3 x hx (by simpa using hxa) mx hmx

/-- transitive closure of "macro `a` is defined and its body contains `PASTE @b`" -/
inductive Reach (ms : Macros) : Nat → Nat → Prop where
  | single {a b : Nat} : (∃ m, ms.get? a = some m ∧ b ∈ pastes m) → Reach ms a b
  | tail {a b c : Nat} : Reach ms a b → (∃ m, ms.get? b = some m ∧ c ∈ pastes m) → Reach ms a c

theorem Reach.defined {ms : Macros} {x y : Nat} (h : Reach ms x y) : ∃ m, ms.get? x = some m := by
  induction h with
  | single e => rcases e with ⟨m, hm, _⟩; exact ⟨m, hm⟩
  | tail _ _ ih => exact ih

/-- a passed check means that the PASTE graph of the macros has no cycle -/
theorem check_acyclic {ms : Macros} (hc : checkRecursion ms = .ok ()) (a : Nat) : ¬ Reach ms a a := by
  intro h
  rcases h.defined with ⟨m, hm⟩
  rcases check_closed hc hm with ⟨S, hSa, hS⟩
  have key : ∀ x y, Reach ms x y → S x → S y ∧ y ≠ a := by
    intro x y hxy
    induction hxy with
    | single e =>
      intro hx
      rcases e with ⟨mx, hmx, hy⟩
      exact hS _ hx mx hmx _ hy
    | tail _ e ih =>
      intro hx
      rcases e with ⟨mb, hmb, hy⟩
      exact hS _ (ih hx).1 mb hmb _ hy
  exact (key a a h hSa).2 rfl

/-! ## 4. Fuel -/

/-- weight of the macros whose name is not in `v` -/
def unv : Macros → List Nat → Nat
  | [], _ => 0
  | (n, m) :: r, v => (if n ∈ v then 0 else 2 * treeSize m + 1) + unv r v

theorem unv_mono (ms : Macros) {v v' : List Nat} (h : ∀ x ∈ v, x ∈ v') : unv ms v' ≤ unv ms v := by
  induction ms with
  | nil => simp [unv]
  | cons p r ih =>
    rcases p with ⟨n, m⟩
    simp only [unv]
    by_cases hn : n ∈ v
    · simp only [hn, h n hn, if_true]; omega
    · by_cases hn' : n ∈ v'
      · simp only [hn, hn', if_true, if_false]; omega
      · simp only [hn, hn', if_false]; omega

theorem unv_visit {ms : Macros} {n : Nat} {m : Tree} {v : List Nat} (hmem : (n, m) ∈ ms) (hn : n ∉ v) :
    unv ms (n :: v) + 2 * treeSize m + 1 ≤ unv ms v := by
  induction ms with
  | nil => cases hmem
  | cons p r ih =>
    rcases p with ⟨k, t⟩
    simp only [unv]
    rcases List.mem_cons.mp hmem with heq | hmem
    · cases heq
      have := unv_mono r (v := v) (v' := n :: v) (fun x hx => List.mem_cons_of_mem _ hx)
      simp only [List.mem_cons, true_or, if_true, hn, if_false]
      omega
    · have := ih hmem
      by_cases hk : k ∈ v
      · simp only [hk, List.mem_cons, or_true, if_true]; omega
      · by_cases hkn : k = n
        · simp only [hkn, List.mem_cons, true_or, if_true]; omega
        · simp only [hk, hkn, List.mem_cons, false_or, if_false]; omega

theorem foldl_size (l : Macros) (k : Nat) :
    l.foldl (fun n m => n + treeSize m.2 + 1) k = k + l.foldl (fun n m => n + treeSize m.2 + 1) 0 := by
  induction l generalizing k with
  | nil => simp
  | cons p r ih =>
    simp only [List.foldl_cons]
    rw [ih (k + treeSize p.2 + 1), ih (0 + treeSize p.2 + 1)]
    omega

theorem macrosSize_cons (p : Nat × Tree) (r : Macros) :
    macrosSize (p :: r) = treeSize p.2 + 1 + macrosSize r := by
  unfold macrosSize
  rw [List.foldl_cons, foldl_size]
  omega

theorem unv_nil_le (ms : Macros) : unv ms [] ≤ 2 * macrosSize ms := by
  induction ms with
  | nil => simp [unv]
  | cons p r ih =>
    rcases p with ⟨n, m⟩
    rw [macrosSize_cons]
    simp only [unv, List.not_mem_nil, if_false]
    omega

theorem treeSize_node (d : Dir) (kids : List Tree) :
    treeSize (.node d kids) = 1 + treeSize.sizeList kids := by rw [treeSize]

theorem treeSize_pos (t : Tree) : 1 ≤ treeSize t := by
  rcases t with ⟨d, kids⟩; rw [treeSize_node]; omega

theorem treeSize_kids (t : Tree) : treeSize t = 1 + treeSize.sizeList t.kids := by
  rcases t with ⟨d, kids⟩; rw [treeSize_node]; rfl

/-- the DFS of the recursion check never runs out of fuel when given twice the size of what is unvisited -/
theorem findPaste_fuel (ms : Macros) (tgt : Nat) : ∀ fuel : Nat,
    (∀ t v, 2 * treeSize t + unv ms v ≤ fuel → findPaste ms tgt fuel t v ≠ .error .fuel) ∧
    (∀ l v, 2 * treeSize.sizeList l + 1 + unv ms v ≤ fuel →
      findPasteList ms tgt fuel l v ≠ .error .fuel) := by
  intro fuel
  induction fuel with
  | zero =>
    constructor
    · intro t v h; have := treeSize_pos t; omega
    · intro l v h; omega
  | succ fuel ih =>
    rcases ih with ⟨ihT, ihL⟩
    constructor
    · intro t v hf
      rcases t with ⟨d, kids⟩
      rw [treeSize_node] at hf
      rw [findPaste]
      split
      · split
        · simp
        · split
          · simp
          · split
            · simp
            · rename_i hv
              split
              · rename_i m hm
                apply ihT
                have := unv_visit (get?_mem hm) (v := v) (by simpa using hv)
                omega
              · simp
      · apply ihL
        omega
    · intro l v hf
      cases l with
      | nil => rw [findPasteList]; simp
      | cons t r =>
        rw [treeSize.sizeList] at hf
        rw [findPasteList]
        have h1 := ihT t v (by omega)
        split
        · rename_i e he
          intro hc
          cases hc
          exact h1 he
        · rename_i v1 hv1
          apply ihL
          have := unv_mono ms ((findPaste_closed ms tgt fuel).1 _ _ _ hv1).1
          have := treeSize_pos t
          omega

theorem go_no_fuel (ms : Macros) : ∀ l : Macros, (∀ p ∈ l, p ∈ ms) →
    checkRecursion.go ms l ≠ .error .fuel := by
  intro l
  induction l with
  | nil => intro _; rw [checkRecursion.go]; simp
  | cons q r ih =>
    intro hsub
    rcases q with ⟨name, m⟩
    rw [checkRecursion.go]
    have hmem : (name, m) ∈ ms := hsub _ (List.mem_cons_self ..)
    have h1 := (findPaste_fuel ms name (2 * macrosSize ms + 2)).1 m [name] (by
      have := unv_visit hmem (v := []) (by simp)
      have := unv_nil_le ms
      omega)
    split
    · rename_i e he
      intro hc
      cases hc
      exact h1 he
    · exact ih (fun p hp => hsub p (List.mem_cons_of_mem _ hp))

theorem checkRecursion_no_fuel (ms : Macros) : checkRecursion ms ≠ .error .fuel :=
  go_no_fuel ms ms (fun _ h => h)

theorem pastes_of_not_paste {m : Tree} (h : m.dir.kind ≠ Gen.Kind.Paste) :
    pastes m = pastes.pastesL m.kids := by
  rcases m with ⟨d, kids⟩
  have : (d.kind == Gen.Kind.Paste) = false := by simpa [Tree.dir] using h
  rw [pastes]
  simp [this, Tree.kids]

/-- with an acyclic PASTE graph the expansion never runs out of fuel when given twice the size of the
    tree plus twice the size of the macros that are not being expanded already (`path`) -/
theorem expand_fuel (ms : Macros) (hk : ∀ p ∈ ms, p.2.dir.kind ≠ Gen.Kind.Paste)
    (hac : ∀ a, ¬ Reach ms a a) : ∀ fuel : Nat,
    (∀ path outer st t, (∀ n ∈ pastes t, ∀ p ∈ path, Reach ms p n) →
      2 * treeSize t + unv ms path ≤ fuel → expandTree ms fuel outer st t ≠ .error .fuel) ∧
    (∀ path outer st l, (∀ n ∈ pastes.pastesL l, ∀ p ∈ path, Reach ms p n) →
      2 * treeSize.sizeList l + 1 + unv ms path ≤ fuel →
      expandList ms fuel outer st l ≠ .error .fuel) := by
  intro fuel
  induction fuel with
  | zero =>
    constructor
    · intro path outer st t _ h; have := treeSize_pos t; omega
    · intro path outer st l _ h; omega
  | succ fuel ih =>
    rcases ih with ⟨ihT, ihL⟩
    constructor
    · intro path outer st t hreach hf
      rcases t with ⟨d, kids⟩
      rw [treeSize_node] at hf
      rw [pastes] at hreach
      rw [expandTree]
      split
      · rename_i hkd
        simp only [hkd, if_true, List.mem_singleton, forall_eq] at hreach
        simp only
        split
        · simp
        · split
          · simp
          · split
            · simp
            · rename_i m hm
              have hmem := get?_mem hm
              have hnp : d.name ∉ path := fun hin => hac _ (hreach _ hin)
              have hedge : ∀ n ∈ pastes.pastesL m.kids, ∃ m', ms.get? d.name = some m' ∧ n ∈ pastes m' :=
                fun n hn => ⟨m, hm, by rw [pastes_of_not_paste (hk _ hmem)]; exact hn⟩
              have h1 := ihL (d.name :: path) (some (outer.getD d.id)) st m.kids
                (by
                  intro n hn p hp
                  rcases List.mem_cons.mp hp with rfl | hp
                  · exact .single (hedge n hn)
                  · exact .tail (hreach p hp) (hedge n hn))
                (by
                  have := unv_visit hmem hnp
                  have := treeSize_kids m
                  omega)
              split
              · rename_i he; exact absurd he h1
              · simp
              · simp
      · rename_i hkd
        simp only [hkd] at hreach
        split
        · split <;> simp
        · rename_i c1 hp
          simp only
          have h1 := ihL path outer { st with ctx := c1 } kids hreach (by omega)
          split
          · rename_i e he
            intro hc
            cases hc
            exact h1 he
          · split <;> simp
    · intro path outer st l hreach hf
      cases l with
      | nil => rw [expandList]; simp
      | cons t r =>
        rw [treeSize.sizeList] at hf
        rw [pastes.pastesL] at hreach
        rw [expandList]
        have h1 := ihT path outer st t (fun n hn => hreach n (List.mem_append_left _ hn)) (by omega)
        split
        · rename_i e he
          intro hc
          cases hc
          exact h1 he
        · apply ihL path _ _ _ (fun n hn => hreach n (List.mem_append_right _ hn))
          have := treeSize_pos t
          omega

theorem forest_eq_sizeList (l : List Tree) : expand.TreeSize.forest l = treeSize.sizeList l := by
  induction l with
  | nil => rfl
  | cons t r ih => rw [expand.TreeSize.forest, treeSize.sizeList, ih]

theorem expandFuel_enough (ms : Macros) (rest : List Tree) :
    2 * treeSize.sizeList rest + 1 + unv ms [] ≤ expandFuel ms rest := by
  have h1 := unv_nil_le ms
  have h2 : 2 * (macrosSize ms + expand.TreeSize.forest rest + 2) ≤
      (macrosSize ms + 2) * (macrosSize ms + expand.TreeSize.forest rest + 2) :=
    Nat.mul_le_mul_right _ (by omega)
  rw [forest_eq_sizeList] at h2
  unfold expandFuel
  rw [forest_eq_sizeList]
  omega

/-- what `collectMacro` adds to the macro table: MACRO trees under their own names -/
theorem collect_entries (l : List Tree) (ms : Macros) (acc : List Tree) (ms' : Macros) (rest : List Tree)
    (h : collectMacro l ms acc = .ok (ms', rest)) :
    ∀ p ∈ ms', p ∈ ms ∨ (p.2 ∈ l ∧ p.2.dir.kind = Gen.Kind.Macro ∧ p.1 = p.2.dir.name) := by
  induction l generalizing ms acc with
  | nil =>
    rw [collectMacro] at h
    cases h
    exact fun p hp => .inl hp
  | cons t r ih =>
    rw [collectMacro] at h
    split at h
    · rename_i hkt
      split at h
      · cases h
      · split at h
        · cases h
        · split at h
          · cases h
          · split at h
            · cases h
            · intro p hp
              rcases ih _ _ h p hp with h1 | ⟨h1, h2, h3⟩
              · rcases List.mem_append.mp h1 with h1 | h1
                · exact .inl h1
                · rw [List.mem_singleton] at h1
                  subst h1
                  exact .inr ⟨List.mem_cons_self .., by simpa using hkt, rfl⟩
              · exact .inr ⟨List.mem_cons_of_mem _ h1, h2, h3⟩
    · intro p hp
      rcases ih _ _ h p hp with h1 | ⟨h1, h2, h3⟩
      · exact .inl h1
      · exact .inr ⟨List.mem_cons_of_mem _ h1, h2, h3⟩

theorem collect_no_fuel (l : List Tree) (ms : Macros) (acc : List Tree) :
    collectMacro l ms acc ≠ .error .fuel := by
  induction l generalizing ms acc with
  | nil => rw [collectMacro]; simp
  | cons t r ih =>
    rw [collectMacro]
    split
    · split
      · simp
      · split
        · simp
        · split
          · simp
          · split
            · simp
            · exact ih _ _
    · exact ih _ _

theorem collect_kinds {roots : List Tree} {ms : Macros} {rest : List Tree}
    (h : collectMacro roots [] [] = .ok (ms, rest)) : ∀ p ∈ ms, p.2.dir.kind ≠ Gen.Kind.Paste := by
  intro p hp
  rcases collect_entries _ _ _ _ _ h p hp with h1 | ⟨_, h2, _⟩
  · cases h1
  · rw [h2]; decide

/-- the expansion proper never runs out of the fuel that `expand` gives it -/
theorem expandList_no_fuel {ms : Macros} (hk : ∀ p ∈ ms, p.2.dir.kind ≠ Gen.Kind.Paste)
    (hr : checkRecursion ms = .ok ()) (rest : List Tree) (st : PState) :
    expandList ms (expandFuel ms rest) none st rest ≠ .error .fuel :=
  (expand_fuel ms hk (check_acyclic hr) _).2 [] none st rest
    (fun _ _ p hp => by cases hp) (expandFuel_enough ms rest)

/-! ## 5. Removing a macro that nothing pastes -/

theorem collect_append (pre l : List Tree) (ms : Macros) (acc : List Tree) :
    collectMacro (pre ++ l) ms acc = match collectMacro pre ms acc with
      | .ok (ms1, acc1) => collectMacro l ms1 acc1
      | .error e => .error e := by
  induction pre generalizing ms acc with
  | nil => rw [List.nil_append, collectMacro]
  | cons t r ih =>
    rw [List.cons_append, collectMacro, collectMacro]
    split
    · split
      · rfl
      · split
        · rfl
        · split
          · rfl
          · split
            · rfl
            · exact ih _ _
    · exact ih _ _

theorem get?_cons (x : Nat × Tree) (B : Macros) (n : Nat) :
    Macros.get? (x :: B) n = if x.1 == n then some x.2 else B.get? n := by
  unfold Macros.get?
  rw [List.find?_cons]
  cases h : x.1 == n <;> simp

theorem get?_drop (A : Macros) (x : Nat × Tree) (C : Macros) {n : Nat} (h : n ≠ x.1) :
    (A ++ x :: C).get? n = (A ++ C).get? n := by
  rw [get?_append, get?_append, get?_cons]
  have : (x.1 == n) = false := by simpa using fun e => h e.symm
  simp [this]

theorem get?_isSome_insert (A : Macros) (x : Nat × Tree) (B : Macros) {n : Nat}
    (h : ((A ++ B).get? n).isSome) : ((A ++ x :: B).get? n).isSome := by
  rw [get?_append] at h ⊢
  rw [get?_cons]
  cases hA : A.get? n with
  | some a => simp
  | none =>
    simp only [hA, Option.none_or] at h ⊢
    split
    · rfl
    · exact h

/-- the collection started with one entry less behaves the same and yields one entry less -/
theorem collect_drop (l : List Tree) (A : Macros) (x : Nat × Tree) (B : Macros) (acc : List Tree)
    (ms' : Macros) (rest : List Tree) (h : collectMacro l (A ++ x :: B) acc = .ok (ms', rest)) :
    ∃ C, ms' = A ++ x :: (B ++ C) ∧ collectMacro l (A ++ B) acc = .ok (A ++ (B ++ C), rest) := by
  induction l generalizing B acc with
  | nil =>
    rw [collectMacro] at h
    cases h
    exact ⟨[], by simp, by rw [collectMacro]; simp⟩
  | cons t r ih =>
    rw [collectMacro] at h
    rw [collectMacro]
    split at h
    · rename_i hkt
      simp only [hkt, if_true]
      split at h
      · cases h
      · rename_i h1
        split at h
        · cases h
        · rename_i h2
          split at h
          · cases h
          · rename_i h3
            split at h
            · cases h
            · rename_i h4
              have h4' : ¬ ((A ++ B).get? t.dir.name).isSome = true :=
                fun hc => h4 (get?_isSome_insert A x B hc)
              simp only [h1, h2, h3, h4']
              have e1 : A ++ x :: B ++ [(t.dir.name, t)] = A ++ x :: (B ++ [(t.dir.name, t)]) := by simp
              rw [e1] at h
              rcases ih _ _ h with ⟨C, hC1, hC2⟩
              refine ⟨(t.dir.name, t) :: C, by simpa using hC1, ?_⟩
              have e2 : A ++ B ++ [(t.dir.name, t)] = A ++ (B ++ [(t.dir.name, t)]) := by simp
              rw [e2, hC2]
              simp
    · rename_i hkt
      simp only [hkt]
      exact ih _ _ h

theorem collect_rest (l : List Tree) (ms : Macros) (acc : List Tree) (ms' : Macros) (rest : List Tree)
    (h : collectMacro l ms acc = .ok (ms', rest)) : ∀ t ∈ rest, t ∈ acc ∨ t ∈ l := by
  induction l generalizing ms acc with
  | nil =>
    rw [collectMacro] at h
    cases h
    exact fun t ht => .inl ht
  | cons t r ih =>
    rw [collectMacro] at h
    split at h
    · split at h
      · cases h
      · split at h
        · cases h
        · split at h
          · cases h
          · split at h
            · cases h
            · intro u hu
              rcases ih _ _ h u hu with h1 | h1
              · exact .inl h1
              · exact .inr (List.mem_cons_of_mem _ h1)
    · intro u hu
      rcases ih _ _ h u hu with h1 | h1
      · rcases List.mem_append.mp h1 with h1 | h1
        · exact .inl h1
        · exact .inr (by rw [List.mem_singleton] at h1; subst h1; exact List.mem_cons_self ..)
      · exact .inr (List.mem_cons_of_mem _ h1)

/-- splitting the collection at a MACRO `m` that the source can do without -/
theorem collect_remove {pre post : List Tree} {m : Tree} {ms : Macros} {rest : List Tree}
    (hm : m.dir.kind = Gen.Kind.Macro)
    (h : collectMacro (pre ++ m :: post) [] [] = .ok (ms, rest)) :
    ∃ A C, ms = A ++ (m.dir.name, m) :: C ∧ collectMacro (pre ++ post) [] [] = .ok (A ++ C, rest) := by
  rw [collect_append] at h
  split at h
  · rename_i ms1 acc1 hpre
    rw [collectMacro] at h
    simp only [hm, beq_self_eq_true, if_true] at h
    split at h
    · cases h
    · split at h
      · cases h
      · split at h
        · cases h
        · split at h
          · cases h
          · have e : ms1 ++ [(m.dir.name, m)] = ms1 ++ (m.dir.name, m) :: [] := rfl
            rw [e] at h
            rcases collect_drop _ _ _ _ _ _ _ h with ⟨C, hC1, hC2⟩
            refine ⟨ms1, C, by simpa using hC1, ?_⟩
            rw [collect_append, hpre]
            simpa using hC2
  · cases h

theorem not_mem_pastesL {a : Nat} {l : List Tree} (h : ∀ t ∈ l, a ∉ pastes t) : a ∉ pastes.pastesL l := by
  induction l with
  | nil => simp [pastes.pastesL]
  | cons t r ih =>
    rw [pastes.pastesL]
    intro hc
    rcases List.mem_append.mp hc with hc | hc
    · exact h t (List.mem_cons_self ..) hc
    · exact ih (fun u hu => h u (List.mem_cons_of_mem _ hu)) hc

theorem macrosSize_append (A B : Macros) : macrosSize (A ++ B) = macrosSize A + macrosSize B := by
  induction A with
  | nil => simp [macrosSize]
  | cons p r ih => rw [List.cons_append, macrosSize_cons, macrosSize_cons, ih]; omega

/-- on trees that do not paste `x`, the recursion check does not see `x` -/
theorem findPaste_drop (A : Macros) (x : Nat × Tree) (C : Macros) (tgt : Nat)
    (hclean : ∀ p ∈ A ++ C, x.1 ∉ pastes p.2) : ∀ fuel : Nat,
    (∀ t v, x.1 ∉ pastes t →
      findPaste (A ++ x :: C) tgt fuel t v = findPaste (A ++ C) tgt fuel t v) ∧
    (∀ l v, x.1 ∉ pastes.pastesL l →
      findPasteList (A ++ x :: C) tgt fuel l v = findPasteList (A ++ C) tgt fuel l v) := by
  intro fuel
  induction fuel with
  | zero => exact ⟨fun t v _ => by simp [findPaste], fun l v _ => by simp [findPasteList]⟩
  | succ fuel ih =>
    rcases ih with ⟨ihT, ihL⟩
    constructor
    · intro t v hx
      rcases t with ⟨d, kids⟩
      rw [pastes] at hx
      rw [findPaste, findPaste]
      by_cases hk : (d.kind == Gen.Kind.Paste) = true
      · simp only [hk, if_true, List.mem_singleton] at hx ⊢
        rw [get?_drop A x C (fun e => hx e.symm)]
        cases hm : (A ++ C).get? d.name with
        | none => rfl
        | some m =>
          simp only
          rw [ihT m _ (hclean _ (get?_mem hm))]
      · simp only [hk] at hx ⊢
        exact ihL _ _ hx
    · intro l v hx
      cases l with
      | nil => rw [findPasteList, findPasteList]
      | cons t r =>
        rw [pastes.pastesL] at hx
        rw [findPasteList, findPasteList, ihT t v (fun h => hx (List.mem_append_left _ h))]
        cases findPaste (A ++ C) tgt fuel t v with
        | error e => rfl
        | ok v1 => exact ihL r v1 (fun h => hx (List.mem_append_right _ h))

/-- more fuel does not change a result that is not "out of fuel" -/
theorem findPaste_succ (ms : Macros) (tgt : Nat) : ∀ fuel : Nat,
    (∀ t v r, findPaste ms tgt fuel t v = r → r ≠ .error .fuel → findPaste ms tgt (fuel + 1) t v = r) ∧
    (∀ l v r, findPasteList ms tgt fuel l v = r → r ≠ .error .fuel →
      findPasteList ms tgt (fuel + 1) l v = r) := by
  intro fuel
  induction fuel with
  | zero =>
    constructor
    · intro t v r h hr; rw [findPaste] at h; exact absurd h.symm hr
    · intro l v r h hr; rw [findPasteList] at h; exact absurd h.symm hr
  | succ fuel ih =>
    rcases ih with ⟨ihT, ihL⟩
    constructor
    · intro t v r h hr
      rcases t with ⟨d, kids⟩
      rw [findPaste] at h ⊢
      by_cases hk : (d.kind == Gen.Kind.Paste) = true
      · simp only [hk, if_true] at h ⊢
        cases hm : ms.get? d.name with
        | none => simpa [hm] using h
        | some m =>
          simp only [hm] at h ⊢
          split
          · rename_i h1
            simp only [h1, if_true] at h
            exact h
          · rename_i h1
            split
            · rename_i h2
              simp only [h1, h2, if_true] at h
              exact h
            · rename_i h2
              split
              · rename_i h3
                simp only [h1, h2, h3, if_true] at h
                exact h
              · rename_i h3
                simp only [h1, h2, h3] at h
                exact ihT _ _ _ h hr
      · simp only [hk] at h ⊢
        exact ihL _ _ _ h hr
    · intro l v r h hr
      cases l with
      | nil => rw [findPasteList] at h ⊢; exact h
      | cons t u =>
        rw [findPasteList] at h ⊢
        cases ht : findPaste ms tgt fuel t v with
        | error e =>
          rw [ht] at h
          simp only at h
          have he : (Except.error e : Except PasteErr (List Nat)) ≠ .error .fuel := by
            rw [h]; exact hr
          rw [ihT _ _ _ ht he]
          exact h
        | ok v1 =>
          rw [ht] at h
          simp only at h
          rw [ihT _ _ _ ht (by simp)]
          exact ihL _ _ _ h hr

theorem findPaste_le (ms : Macros) (tgt : Nat) {fuel fuel' : Nat} (hle : fuel ≤ fuel') (t : Tree)
    (v : List Nat) (h : findPaste ms tgt fuel t v ≠ .error .fuel) :
    findPaste ms tgt fuel' t v = findPaste ms tgt fuel t v := by
  induction hle with
  | refl => rfl
  | step _ ih => exact (findPaste_succ ms tgt _).1 t v _ ih h

theorem go_of_ok (ms : Macros) : ∀ l : Macros,
    (∀ p ∈ l, ∃ v', findPaste ms p.1 (2 * macrosSize ms + 2) p.2 [p.1] = .ok v') →
    checkRecursion.go ms l = .ok () := by
  intro l
  induction l with
  | nil => intro _; rw [checkRecursion.go]
  | cons q r ih =>
    intro h
    rcases q with ⟨name, m⟩
    rcases h (name, m) (List.mem_cons_self ..) with ⟨v', hv⟩
    rw [checkRecursion.go]
    simp only at hv
    rw [hv]
    exact ih (fun p hp => h p (List.mem_cons_of_mem _ hp))

/-- the recursion check still passes without a macro that nothing pastes -/
theorem check_drop (A : Macros) (x : Nat × Tree) (C : Macros)
    (hclean : ∀ p ∈ A ++ C, x.1 ∉ pastes p.2) (h : checkRecursion (A ++ x :: C) = .ok ()) :
    checkRecursion (A ++ C) = .ok () := by
  apply go_of_ok
  intro p hp
  have hp' : p ∈ A ++ x :: C := by
    rcases List.mem_append.mp hp with hp | hp
    · exact List.mem_append_left _ hp
    · exact List.mem_append_right _ (List.mem_cons_of_mem _ hp)
  rcases go_ok _ _ h p hp' with ⟨v', hv⟩
  rw [(findPaste_drop A x C p.1 hclean _).1 _ _ (hclean p hp)] at hv
  have hsz : 2 * macrosSize (A ++ C) + 2 ≤ 2 * macrosSize (A ++ x :: C) + 2 := by
    rw [macrosSize_append, macrosSize_append, macrosSize_cons]; omega
  have hnf := (findPaste_fuel (A ++ C) p.1 (2 * macrosSize (A ++ C) + 2)).1 p.2 [p.1] (by
    have := unv_visit (ms := A ++ C) (n := p.1) (m := p.2) (v := []) hp (by simp)
    have := unv_nil_le (A ++ C)
    omega)
  rw [findPaste_le _ _ hsz _ _ hnf] at hv
  exact ⟨v', hv⟩

/-- on trees that do not paste `x`, the expansion does not see `x` -/
theorem expand_drop (A : Macros) (x : Nat × Tree) (C : Macros)
    (hclean : ∀ p ∈ A ++ C, x.1 ∉ pastes.pastesL p.2.kids) : ∀ fuel : Nat,
    (∀ t, x.1 ∉ pastes t → ∀ outer st,
      expandTree (A ++ x :: C) fuel outer st t = expandTree (A ++ C) fuel outer st t) ∧
    (∀ l, x.1 ∉ pastes.pastesL l → ∀ outer st,
      expandList (A ++ x :: C) fuel outer st l = expandList (A ++ C) fuel outer st l) := by
  intro fuel
  induction fuel with
  | zero => exact ⟨fun t _ outer st => by simp [expandTree], fun l _ outer st => by simp [expandList]⟩
  | succ fuel ih =>
    rcases ih with ⟨ihT, ihL⟩
    constructor
    · intro t hx outer st
      rcases t with ⟨d, kids⟩
      rw [pastes] at hx
      rw [expandTree, expandTree]
      by_cases hk : (d.kind == Gen.Kind.Paste) = true
      · simp only [hk, if_true, List.mem_singleton] at hx ⊢
        rw [get?_drop A x C (fun e => hx e.symm)]
        cases hm : (A ++ C).get? d.name with
        | none => rfl
        | some m =>
          have e := ihL m.kids (hclean _ (get?_mem hm))
          simp only [e]
      · simp only [hk, Bool.false_eq_true, if_false] at hx ⊢
        have e := ihL kids hx
        simp only [e]
    · intro l hx outer st
      cases l with
      | nil => rw [expandList, expandList]
      | cons t r =>
        rw [pastes.pastesL] at hx
        rw [expandList, expandList, ihT t (fun h => hx (List.mem_append_left _ h))]
        cases expandTree (A ++ C) fuel outer st t with
        | error e => rfl
        | ok st1 => exact ihL r (fun h => hx (List.mem_append_right _ h)) _ _

/-- more fuel does not change a result that is not "out of fuel" -/
theorem expand_succ (ms : Macros) : ∀ fuel : Nat,
    (∀ outer st t r, expandTree ms fuel outer st t = r → r ≠ .error .fuel →
      expandTree ms (fuel + 1) outer st t = r) ∧
    (∀ outer st l r, expandList ms fuel outer st l = r → r ≠ .error .fuel →
      expandList ms (fuel + 1) outer st l = r) := by
  intro fuel
  induction fuel with
  | zero =>
    constructor
    · intro outer st t r h hr; rw [expandTree] at h; exact absurd h.symm hr
    · intro outer st l r h hr; rw [expandList] at h; exact absurd h.symm hr
  | succ fuel ih =>
    rcases ih with ⟨ihT, ihL⟩
    constructor
    · intro outer st t r h hr
      rcases t with ⟨d, kids⟩
      rw [expandTree] at h ⊢
      by_cases hk : (d.kind == Gen.Kind.Paste) = true
      · simp only [hk, if_true] at h ⊢
        split
        · rename_i h1
          simp only [h1, if_true] at h
          exact h
        · rename_i h1
          split
          · rename_i h2
            simp only [h1, h2, if_true] at h
            exact h
          · rename_i h2
            simp only [h1, h2] at h
            cases hm : ms.get? d.name with
            | none => simpa [hm] using h
            | some m =>
              simp only [hm] at h ⊢
              cases hl : expandList ms fuel (some (outer.getD d.id)) st m.kids with
              | error e =>
                rw [hl] at h
                have he : (Except.error e : Except PasteErr PState) ≠ .error .fuel := by
                  intro hc
                  cases hc
                  exact hr h.symm
                rw [ihL _ _ _ _ hl he]
                exact h
              | ok st' =>
                rw [hl] at h
                rw [ihL _ _ _ _ hl (by simp)]
                exact h
      · simp only [hk, Bool.false_eq_true, if_false] at h ⊢
        cases hp : place st.ctx.frames st.ctx.roots d with
        | error e => simpa [hp] using h
        | ok c1 =>
          simp only [hp] at h ⊢
          cases hl : expandList ms fuel outer { st with ctx := c1 } kids with
          | error e =>
            rw [hl] at h
            simp only at h
            have he : (Except.error e : Except PasteErr PState) ≠ .error .fuel := by
              rw [h]; exact hr
            rw [ihL _ _ _ _ hl he]
            exact h
          | ok st2 =>
            rw [hl] at h
            rw [ihL _ _ _ _ hl (by simp)]
            exact h
    · intro outer st l r h hr
      cases l with
      | nil => rw [expandList] at h ⊢; exact h
      | cons t u =>
        rw [expandList] at h ⊢
        cases ht : expandTree ms fuel outer st t with
        | error e =>
          rw [ht] at h
          simp only at h
          have he : (Except.error e : Except PasteErr PState) ≠ .error .fuel := by
            rw [h]; exact hr
          rw [ihT _ _ _ _ ht he]
          exact h
        | ok st1 =>
          rw [ht] at h
          simp only at h
          rw [ihT _ _ _ _ ht (by simp)]
          exact ihL _ _ _ _ h hr

theorem expandList_le (ms : Macros) {fuel fuel' : Nat} (hle : fuel ≤ fuel') (outer : Option Nat)
    (st : PState) (l : List Tree) (h : expandList ms fuel outer st l ≠ .error .fuel) :
    expandList ms fuel' outer st l = expandList ms fuel outer st l := by
  induction hle with
  | refl => rfl
  | step _ ih => exact (expand_succ ms _).2 outer st l _ ih h

theorem expandFuel_mono {ms ms' : Macros} (h : macrosSize ms' ≤ macrosSize ms) (rest : List Tree) :
    expandFuel ms' rest ≤ expandFuel ms rest := by
  unfold expandFuel
  apply Nat.add_le_add_right
  exact Nat.mul_le_mul (by omega) (by omega)

/-- (6) at the level of the collected macro table -/
theorem expandList_drop (A : Macros) (x : Nat × Tree) (C : Macros) (rest : List Tree)
    (hkA : ∀ p ∈ A ++ x :: C, p.2.dir.kind ≠ Gen.Kind.Paste)
    (hclean : ∀ p ∈ A ++ C, x.1 ∉ pastes p.2) (hrest : x.1 ∉ pastes.pastesL rest)
    (hr : checkRecursion (A ++ x :: C) = .ok ()) (st : PState)
    (h : expandList (A ++ x :: C) (expandFuel (A ++ x :: C) rest) none {} rest = .ok st) :
    checkRecursion (A ++ C) = .ok () ∧
      expandList (A ++ C) (expandFuel (A ++ C) rest) none {} rest = .ok st := by
  have hr' := check_drop A x C hclean hr
  have hsub : ∀ p ∈ A ++ C, p ∈ A ++ x :: C := by
    intro p hp
    rcases List.mem_append.mp hp with hp | hp
    · exact List.mem_append_left _ hp
    · exact List.mem_append_right _ (List.mem_cons_of_mem _ hp)
  have hk' : ∀ p ∈ A ++ C, p.2.dir.kind ≠ Gen.Kind.Paste := fun p hp => hkA p (hsub p hp)
  have hclean' : ∀ p ∈ A ++ C, x.1 ∉ pastes.pastesL p.2.kids := by
    intro p hp
    rw [← pastes_of_not_paste (hk' p hp)]
    exact hclean p hp
  refine ⟨hr', ?_⟩
  have hnf := expandList_no_fuel hk' hr' rest {}
  have hsz : macrosSize (A ++ C) ≤ macrosSize (A ++ x :: C) := by
    rw [macrosSize_append, macrosSize_append, macrosSize_cons]; omega
  rw [← expandList_le _ (expandFuel_mono hsz rest) _ _ _ hnf,
    ← (expand_drop A x C hclean' _).2 rest hrest]
  exact h

/-! ## 5b. Undefined macros inside macro bodies (the recursion check reports them: "macro not found") -/

theorem get?_isSome_of_mem {ms : Macros} {n : Nat} {m : Tree} (h : (n, m) ∈ ms) :
    (ms.get? n).isSome := by
  induction ms with
  | nil => cases h
  | cons x r ih =>
    rw [get?_cons]
    rcases List.mem_cons.mp h with h | h
    · subst h
      simp
    · split
      · rfl
      · exact ih h

theorem get?_none_of_keys {ms : Macros} {n : Nat} (h : ∀ p ∈ ms, p.1 ≠ n) : ms.get? n = none := by
  induction ms with
  | nil => rfl
  | cons x r ih =>
    rw [get?_cons]
    have hx : (x.1 == n) = false := by simpa using h x (List.mem_cons_self ..)
    simp only [hx, Bool.false_eq_true, if_false]
    exact ih (fun p hp => h p (List.mem_cons_of_mem _ hp))

theorem mem_pastesL {t : Tree} {l : List Tree} {n : Nat} (ht : t ∈ l) (hn : n ∈ pastes t) :
    n ∈ pastes.pastesL l := by
  induction l with
  | nil => cases ht
  | cons a r ih =>
    rw [pastes.pastesL]
    rcases List.mem_cons.mp ht with rfl | ht
    · exact List.mem_append_left _ hn
    · exact List.mem_append_right _ (ih ht)

/-- what a successful `findPaste` has established about definedness: every name that entered `visited`
    is a defined macro, and every PASTE of the tree has a name, which was visited before or is defined -/
theorem findPaste_defined (ms : Macros) (tgt : Nat) : ∀ fuel : Nat,
    (∀ t v v', findPaste ms tgt fuel t v = .ok v' →
      (∀ x ∈ v', x ∈ v ∨ (ms.get? x).isSome) ∧
      (∀ n ∈ pastes t, n ≠ 0 ∧ (n ∈ v ∨ (ms.get? n).isSome))) ∧
    (∀ l v v', findPasteList ms tgt fuel l v = .ok v' →
      (∀ x ∈ v', x ∈ v ∨ (ms.get? x).isSome) ∧
      (∀ n ∈ pastes.pastesL l, n ≠ 0 ∧ (n ∈ v ∨ (ms.get? n).isSome))) := by
  intro fuel
  induction fuel with
  | zero =>
    constructor
    · intro t v v' h; simp [findPaste] at h
    · intro l v v' h; simp [findPasteList] at h
  | succ fuel ih =>
    rcases ih with ⟨ihT, ihL⟩
    constructor
    · intro t v v' h
      rcases t with ⟨d, kids⟩
      rw [findPaste] at h
      rw [pastes]
      split at h
      · rename_i hk
        simp only [hk, if_true, List.mem_singleton, forall_eq]
        split at h
        · cases h
        · rename_i hz
          have hz' : d.name ≠ 0 := by simpa using hz
          split at h
          · cases h
          · split at h
            · rename_i hv
              cases h
              exact ⟨fun x hx => .inl hx, hz', .inl (by simpa using hv)⟩
            · split at h
              · rename_i m hm
                rcases ihT _ _ _ h with ⟨h1, _⟩
                have hd : (ms.get? d.name).isSome := by rw [hm]; rfl
                refine ⟨?_, hz', .inr hd⟩
                intro x hx
                rcases h1 x hx with hx | hx
                · rcases List.mem_cons.mp hx with hx | hx
                  · subst hx
                    exact .inr hd
                  · exact .inl hx
                · exact .inr hx
              · cases h
      · rename_i hk
        simp only [hk]
        exact ihL _ _ _ h
    · intro l v v' h
      cases l with
      | nil =>
        rw [findPasteList] at h
        cases h
        exact ⟨fun x hx => .inl hx, by simp [pastes.pastesL]⟩
      | cons t r =>
        rw [findPasteList] at h
        split at h
        · cases h
        · rename_i v1 ht
          rcases ihT _ _ _ ht with ⟨a1, a2⟩
          rcases ihL _ _ _ h with ⟨b1, b2⟩
          refine ⟨?_, ?_⟩
          · intro x hx
            rcases b1 x hx with hx | hx
            · exact a1 x hx
            · exact .inr hx
          · intro n hn
            rw [pastes.pastesL] at hn
            rcases List.mem_append.mp hn with hn | hn
            · exact a2 n hn
            · rcases b2 n hn with ⟨hn0, hn | hn⟩
              · exact ⟨hn0, a1 n hn⟩
              · exact ⟨hn0, .inr hn⟩

/-- if the check passes then every PASTE in the body of every macro — pasted somewhere or not — has a
    name, and the name is that of a defined macro -/
theorem check_defined {ms : Macros} (h : checkRecursion ms = .ok ()) :
    ∀ p ∈ ms, ∀ n ∈ pastes p.2, n ≠ 0 ∧ (ms.get? n).isSome := by
  intro p hp n hn
  rcases go_ok ms ms h p hp with ⟨v', hv⟩
  rcases ((findPaste_defined ms p.1 _).1 _ _ _ hv).2 n hn with ⟨h0, h1 | h1⟩
  · refine ⟨h0, ?_⟩
    rw [List.mem_singleton] at h1
    rw [h1]
    exact get?_isSome_of_mem (m := p.2) hp
  · exact ⟨h0, h1⟩

/-- `collectMacro` loses nothing: the table only grows, every MACRO of the list is entered under its own
    name, every other tree is kept -/
theorem collect_complete (l : List Tree) (ms : Macros) (acc : List Tree) (ms' : Macros) (rest : List Tree)
    (h : collectMacro l ms acc = .ok (ms', rest)) :
    (∀ p ∈ ms, p ∈ ms') ∧ (∀ t ∈ acc, t ∈ rest) ∧
    (∀ t ∈ l, t.dir.kind = Gen.Kind.Macro → (t.dir.name, t) ∈ ms') ∧
    (∀ t ∈ l, t.dir.kind ≠ Gen.Kind.Macro → t ∈ rest) := by
  induction l generalizing ms acc with
  | nil =>
    rw [collectMacro] at h
    cases h
    exact ⟨fun p hp => hp, fun t ht => ht, fun t ht => (by cases ht), fun t ht => (by cases ht)⟩
  | cons t r ih =>
    rw [collectMacro] at h
    split at h
    · rename_i hkt
      have hkt' : t.dir.kind = Gen.Kind.Macro := by simpa using hkt
      split at h
      · cases h
      · split at h
        · cases h
        · split at h
          · cases h
          · split at h
            · cases h
            · rcases ih _ _ h with ⟨i1, i2, i3, i4⟩
              refine ⟨fun p hp => i1 p (List.mem_append_left _ hp), i2, ?_, ?_⟩
              · intro u hu hku
                rcases List.mem_cons.mp hu with rfl | hu
                · exact i1 _ (List.mem_append_right _ (List.mem_singleton.mpr rfl))
                · exact i3 u hu hku
              · intro u hu hku
                rcases List.mem_cons.mp hu with rfl | hu
                · exact absurd hkt' hku
                · exact i4 u hu hku
    · rename_i hkt
      have hkt' : t.dir.kind ≠ Gen.Kind.Macro := by simpa using hkt
      rcases ih _ _ h with ⟨i1, i2, i3, i4⟩
      refine ⟨i1, fun u hu => i2 u (List.mem_append_left _ hu), ?_, ?_⟩
      · intro u hu hku
        rcases List.mem_cons.mp hu with rfl | hu
        · exact absurd hku hkt'
        · exact i3 u hu hku
      · intro u hu hku
        rcases List.mem_cons.mp hu with rfl | hu
        · exact i2 _ (List.mem_append_right _ (List.mem_singleton.mpr rfl))
        · exact i4 u hu hku

/-- a name that no MACRO of the source bears is not in the collected table -/
theorem collect_get?_none {roots : List Tree} {ms : Macros} {rest : List Tree} {n : Nat}
    (hc : collectMacro roots [] [] = .ok (ms, rest))
    (hu : ∀ t ∈ roots, t.dir.kind = Gen.Kind.Macro → t.dir.name ≠ n) : ms.get? n = none := by
  apply get?_none_of_keys
  intro p hp
  rcases collect_entries _ _ _ _ _ hc p hp with h1 | ⟨h1, h2, h3⟩
  · cases h1
  · rw [h3]
    exact hu _ h1 h2

/-! ## 6. Decidable equality of forests and results (only for the closing `example`s of the Props file;
      not global instances) -/

mutual
  def decTree : (a b : Tree) → Decidable (a = b)
    | .node d k, .node d' k' =>
      if hd : d = d' then
        match decForest k k' with
        | isTrue hk => isTrue (by rw [hd, hk])
        | isFalse hk => isFalse (by intro h; cases h; exact hk rfl)
      else isFalse (by intro h; cases h; exact hd rfl)
  def decForest : (a b : List Tree) → Decidable (a = b)
    | [], [] => isTrue rfl
    | [], _ :: _ => isFalse (by intro h; cases h)
    | _ :: _, [] => isFalse (by intro h; cases h)
    | a :: as, b :: bs =>
      match decTree a b, decForest as bs with
      | isTrue h1, isTrue h2 => isTrue (by rw [h1, h2])
      | isFalse h1, _ => isFalse (by intro h; cases h; exact h1 rfl)
      | _, isFalse h2 => isFalse (by intro h; cases h; exact h2 rfl)
end

def decExcept {ε α : Type} [DecidableEq ε] [DecidableEq α] : DecidableEq (Except ε α)
  | .ok a, .ok b => if h : a = b then isTrue (by rw [h]) else isFalse (by intro h'; cases h'; exact h rfl)
  | .error a, .error b =>
    if h : a = b then isTrue (by rw [h]) else isFalse (by intro h'; cases h'; exact h rfl)
  | .ok _, .error _ => isFalse (by intro h; cases h)
  | .error _, .ok _ => isFalse (by intro h; cases h)

end JSight.C07
