import JSight.Model.Descr
/-!
C15 — helper lemmas for the description / annotation properties (core Lean only).
-/
namespace JSight.C15
open JSight

/-! ### normNL -/

theorem normNL_no_cr' (b : Bytes) : B.cr ∉ normNL b := by
  fun_induction normNL b with
  | case1 => simp
  | case2 c h => simp [B.cr, B.lf]
  | case3 c h => simp at h; simp; exact fun h' => h h'.symm
  | case4 c d r hc hd ih => simp [B.cr, B.lf]; exact ih
  | case5 c d r hc hd ih => simp [B.cr, B.lf]; exact ih
  | case6 c d r hc ih =>
    simp at hc
    intro hm
    rcases List.mem_cons.mp hm with h | h
    · exact hc h.symm
    · exact ih h

theorem normNL_id_of_no_cr (b : Bytes) (h : B.cr ∉ b) : normNL b = b := by
  fun_induction normNL b with
  | case1 => rfl
  | case2 c hc => simp at hc; simp [hc] at h
  | case3 c hc => rfl
  | case4 c d r hc hd ih => simp at hc; simp [hc] at h
  | case5 c d r hc hd ih => simp at hc; simp [hc] at h
  | case6 c d r hc ih =>
    rw [ih]
    intro hm
    exact h (List.mem_cons_of_mem _ hm)

/-! ### trims -/

theorem trimLeft_suffix (p : UInt8 → Bool) (b : Bytes) : trimLeft p b <:+ b :=
  List.dropWhile_suffix p

theorem trimRight_prefix (p : UInt8 → Bool) (b : Bytes) : trimRight p b <+: b := by
  unfold trimRight
  have h := List.dropWhile_suffix p (l := b.reverse)
  have h2 := List.reverse_prefix.mpr h
  rwa [List.reverse_reverse] at h2

theorem trimLeft_sublist (p : UInt8 → Bool) (b : Bytes) : (trimLeft p b).Sublist b :=
  (trimLeft_suffix p b).sublist

theorem trimRight_sublist (p : UInt8 → Bool) (b : Bytes) : (trimRight p b).Sublist b :=
  (trimRight_prefix p b).sublist

theorem trimBoth_sublist (p : UInt8 → Bool) (b : Bytes) : (trimBoth p b).Sublist b :=
  (trimRight_sublist p _).trans (trimLeft_sublist p b)

theorem trimLeft_head (p : UInt8 → Bool) (b : Bytes) (c : UInt8)
    (h : (trimLeft p b).head? = some c) : p c = false := by
  have := List.head?_dropWhile_not p b
  unfold trimLeft at h
  rw [h] at this
  exact this

theorem trimRight_last (p : UInt8 → Bool) (b : Bytes) (c : UInt8)
    (h : (trimRight p b).getLast? = some c) : p c = false := by
  unfold trimRight at h
  rw [List.getLast?_reverse] at h
  have := List.head?_dropWhile_not p b.reverse
  rw [h] at this
  exact this

theorem trimLeft_eq_self (p : UInt8 → Bool) (b : Bytes)
    (h : ∀ c, b.head? = some c → p c = false) : trimLeft p b = b := by
  cases b with
  | nil => rfl
  | cons a t =>
    have := h a rfl
    simp [trimLeft, this]

theorem trimRight_eq_self (p : UInt8 → Bool) (b : Bytes)
    (h : ∀ c, b.getLast? = some c → p c = false) : trimRight p b = b := by
  unfold trimRight
  have h2 : b.reverse.dropWhile p = b.reverse := by
    apply trimLeft_eq_self
    intro c hc
    rw [List.head?_reverse] at hc
    exact h c hc
  rw [h2, List.reverse_reverse]

/-! ### trimming of byte sequences (generic in the list of sequences) -/

/-- what the generic lemmas need of a list of sequences: none is empty, none is a proper prefix of another -/
structure SeqsOK (P : List Bytes) : Prop where
  ne : ∀ p ∈ P, p ≠ []
  pf : ∀ p ∈ P, ∀ q ∈ P, p <+: q → p = q

theorem spaceSeqs_ok : SeqsOK spaceSeqs := by
  constructor
  · decide
  · have h : ∀ p ∈ spaceSeqs, ∀ q ∈ spaceSeqs, p.isPrefixOf q = true → p = q := by decide
    intro p hp q hq hpq
    exact h p hp q hq (List.isPrefixOf_iff_prefix.mpr hpq)

theorem spaceSeqsRev_ok : SeqsOK spaceSeqsRev := by
  constructor
  · decide
  · have h : ∀ p ∈ spaceSeqsRev, ∀ q ∈ spaceSeqsRev, p.isPrefixOf q = true → p = q := by decide
    intro p hp q hq hpq
    exact h p hp q hq (List.isPrefixOf_iff_prefix.mpr hpq)

theorem find_of_none (P : List Bytes) (b : Bytes) (h : ∀ p ∈ P, ¬ p <+: b) :
    P.find? (·.isPrefixOf b) = none := by
  apply List.find?_eq_none.mpr
  intro p hp hpb
  exact h p hp (List.isPrefixOf_iff_prefix.mp hpb)

theorem find_of_mem (P : List Bytes) (hP : SeqsOK P) (p b : Bytes) (hp : p ∈ P) (hpb : p <+: b) :
    P.find? (·.isPrefixOf b) = some p := by
  cases hf : P.find? (·.isPrefixOf b) with
  | none =>
    have := List.find?_eq_none.mp hf p hp
    exact absurd (List.isPrefixOf_iff_prefix.mpr hpb) this
  | some p' =>
    have hm : p' ∈ P := List.mem_of_find?_eq_some hf
    have hpre : p' <+: b := List.isPrefixOf_iff_prefix.mp (List.find?_some (p := fun x : Bytes => x.isPrefixOf b) hf)
    rcases List.prefix_or_prefix_of_prefix hpre hpb with h | h
    · rw [hP.pf p' hm p hp h]
    · rw [hP.pf p hp p' hm h]

theorem tls_go_succ_eq (P : List Bytes) (b : Bytes) (f : Nat) :
    trimLeftSeqs.go P b (f + 1) =
      match P.find? (·.isPrefixOf b) with
      | some p => trimLeftSeqs.go P (b.drop p.length) f
      | none => b := rfl

theorem tls_go_succ (P : List Bytes) (hP : SeqsOK P) (f : Nat) (b : Bytes) (hf : b.length ≤ f) :
    trimLeftSeqs.go P b (f + 1) = trimLeftSeqs.go P b f := by
  induction f generalizing b with
  | zero =>
    have : b = [] := List.eq_nil_of_length_eq_zero (Nat.le_zero.mp hf)
    subst this
    rw [tls_go_succ_eq, find_of_none]
    · rfl
    · intro p hp hpb
      exact hP.ne p hp (List.prefix_nil.mp hpb)
  | succ n ih =>
    rw [tls_go_succ_eq P b (n + 1), tls_go_succ_eq P b n]
    cases hfind : P.find? (·.isPrefixOf b) with
    | none => rfl
    | some p =>
      simp only
      apply ih
      have := List.length_pos_iff.mpr (hP.ne p (List.mem_of_find?_eq_some hfind))
      rw [List.length_drop]
      omega

theorem tls_go_eq (P : List Bytes) (hP : SeqsOK P) (f : Nat) (b : Bytes) (hf : b.length ≤ f) :
    trimLeftSeqs.go P b f = trimLeftSeqs P b := by
  induction f with
  | zero =>
    have : b = [] := List.eq_nil_of_length_eq_zero (Nat.le_zero.mp hf)
    subst this
    rfl
  | succ n ih =>
    by_cases h : b.length = n + 1
    · unfold trimLeftSeqs; rw [h]
    · rw [tls_go_succ P hP n b (by omega), ih (by omega)]

/-- nothing to drop -/
theorem tls_of_none (P : List Bytes) (b : Bytes) (h : ∀ p ∈ P, ¬ p <+: b) : trimLeftSeqs P b = b := by
  unfold trimLeftSeqs
  cases b.length with
  | zero => rfl
  | succ n => rw [tls_go_succ_eq, find_of_none P b h]

/-- a leading sequence is dropped -/
theorem tls_of_mem (P : List Bytes) (hP : SeqsOK P) (p x : Bytes) (hp : p ∈ P) :
    trimLeftSeqs P (p ++ x) = trimLeftSeqs P x := by
  have hpos := List.length_pos_iff.mpr (hP.ne p hp)
  obtain ⟨k, hk⟩ : ∃ k, (p ++ x).length = k + 1 := ⟨(p ++ x).length - 1, by rw [List.length_append]; omega⟩
  have hx : x.length ≤ k := by rw [List.length_append] at hk; omega
  unfold trimLeftSeqs
  rw [hk, tls_go_succ_eq, find_of_mem P hP p (p ++ x) hp (List.prefix_append p x)]
  simp only [List.drop_left]
  exact tls_go_eq P hP k x hx

theorem tls_go_suffix (P : List Bytes) (f : Nat) (b : Bytes) : trimLeftSeqs.go P b f <:+ b := by
  induction f generalizing b with
  | zero => exact List.suffix_refl _
  | succ n ih =>
    rw [tls_go_succ_eq]
    split
    · exact (ih _).trans (List.drop_suffix _ _)
    · exact List.suffix_refl _

theorem tls_suffix (P : List Bytes) (b : Bytes) : trimLeftSeqs P b <:+ b := tls_go_suffix P _ b

theorem tls_go_noPre (P : List Bytes) (hP : SeqsOK P) (f : Nat) (b : Bytes) (hf : b.length ≤ f) :
    ∀ p ∈ P, ¬ p <+: trimLeftSeqs.go P b f := by
  induction f generalizing b with
  | zero =>
    have : b = [] := List.eq_nil_of_length_eq_zero (Nat.le_zero.mp hf)
    subst this
    intro p hp hpb
    exact hP.ne p hp (List.prefix_nil.mp hpb)
  | succ n ih =>
    rw [tls_go_succ_eq]
    cases hfind : P.find? (·.isPrefixOf b) with
    | none =>
      intro p hp hpb
      exact List.find?_eq_none.mp hfind p hp (List.isPrefixOf_iff_prefix.mpr hpb)
    | some p =>
      simp only
      apply ih
      have := List.length_pos_iff.mpr (hP.ne p (List.mem_of_find?_eq_some hfind))
      rw [List.length_drop]
      omega

/-- the result starts with none of the sequences -/
theorem tls_noPre (P : List Bytes) (hP : SeqsOK P) (b : Bytes) : ∀ p ∈ P, ¬ p <+: trimLeftSeqs P b :=
  tls_go_noPre P hP _ b (Nat.le_refl _)

/-- A sequence appended to a text that starts with none of the sequences does not create one at the start, provided
that the first byte of the appended sequence occurs in no sequence at a later position. -/
theorem noPre_append (P : List Bytes) (s q : Bytes) (hs : ∀ p ∈ P, ¬ p <+: s) (hne : s ≠ [])
    (hq : ∀ p ∈ P, ∀ h ∈ q.head?, h ∉ p.tail) : ∀ p ∈ P, ¬ p <+: s ++ q := by
  intro p hp hpre
  rcases List.prefix_or_prefix_of_prefix hpre (List.prefix_append s q) with h | h
  · exact hs p hp h
  · rcases h with ⟨y, rfl⟩
    have hy : y <+: q := (List.prefix_append_right_inj s).mp hpre
    cases y with
    | nil => exact hs _ hp (by simp)
    | cons c y =>
      cases s with
      | nil => exact hne rfl
      | cons a s =>
        rcases hy with ⟨z, rfl⟩
        exact hq _ hp c (by simp) (by simp)

theorem tls_append_seq (P : List Bytes) (hP : SeqsOK P) (q : Bytes) (hqP : q ∈ P)
    (hq : ∀ p ∈ P, ∀ h ∈ q.head?, h ∉ p.tail) (n : Nat) (s : Bytes) (hn : s.length ≤ n) :
    trimLeftSeqs P (s ++ q) = if trimLeftSeqs P s = [] then [] else trimLeftSeqs P s ++ q := by
  induction n generalizing s with
  | zero =>
    have : s = [] := List.eq_nil_of_length_eq_zero (Nat.le_zero.mp hn)
    subst this
    have h0 : trimLeftSeqs P ([] : Bytes) = [] := rfl
    have := tls_of_mem P hP q [] hqP
    rw [List.append_nil] at this
    rw [List.nil_append, this, h0]
    rfl
  | succ n ih =>
    by_cases h : ∃ p ∈ P, p <+: s
    · rcases h with ⟨p, hp, x, rfl⟩
      have hpos := List.length_pos_iff.mpr (hP.ne p hp)
      rw [List.append_assoc, tls_of_mem P hP p _ hp, tls_of_mem P hP p _ hp]
      apply ih
      rw [List.length_append] at hn
      omega
    · have hs : ∀ p ∈ P, ¬ p <+: s := fun p hp hps => h ⟨p, hp, hps⟩
      rw [tls_of_none P s hs]
      by_cases he : s = []
      · subst he
        have h0 : trimLeftSeqs P ([] : Bytes) = [] := rfl
        have := tls_of_mem P hP q [] hqP
        rw [List.append_nil] at this
        rw [List.nil_append, this, h0]
        rfl
      · rw [if_neg he]
        exact tls_of_none P _ (noPre_append P s q hs he hq)

/-! ### `trimSpaceU` -/

/-- the text starts with none of the space sequences -/
def NoPre (t : Bytes) : Prop := ∀ p ∈ spaceSeqs, ¬ p <+: t

/-- the text ends with none of the space sequences -/
def NoSuf (t : Bytes) : Prop := ∀ p ∈ spaceSeqs, ¬ p <:+ t

theorem mem_spaceSeqsRev (p : Bytes) (h : p ∈ spaceSeqs) : p.reverse ∈ spaceSeqsRev :=
  List.mem_map_of_mem h

theorem of_mem_spaceSeqsRev (p : Bytes) (h : p ∈ spaceSeqsRev) : p.reverse ∈ spaceSeqs := by
  rcases List.mem_map.mp h with ⟨q, hq, rfl⟩
  rwa [List.reverse_reverse]

/-- the first byte of a space sequence (a start byte) is at no later position of a space sequence (continuation bytes) -/
theorem spaceSeqs_head : ∀ p ∈ spaceSeqs, ∀ q ∈ spaceSeqs, ∀ h ∈ q.head?, h ∉ p.tail := by
  have h : ∀ p ∈ spaceSeqs, ∀ q ∈ spaceSeqs, ∀ h ∈ q.take 1, h ∉ p.tail := by decide
  intro p hp q hq c hc
  apply h p hp q hq c
  cases q with
  | nil => cases hc
  | cons a q => simp at hc; simp [hc]

theorem trimLeftU_suffix (b : Bytes) : trimLeftU b <:+ b := tls_suffix _ b

theorem trimRightU_prefix (b : Bytes) : trimRightU b <+: b := by
  unfold trimRightU
  have h := tls_suffix spaceSeqsRev b.reverse
  have h2 := List.reverse_prefix.mpr h
  rwa [List.reverse_reverse] at h2

theorem trimSpaceU_infix (b : Bytes) : ∃ pre post, b = pre ++ trimSpaceU b ++ post := by
  rcases trimLeftU_suffix b with ⟨pre, hpre⟩
  rcases trimRightU_prefix (trimLeftU b) with ⟨post, hpost⟩
  refine ⟨pre, post, ?_⟩
  unfold trimSpaceU
  rw [List.append_assoc, hpost, hpre]

/-- the one-byte space sequences are the ASCII white space -/
theorem asciiSpace_iff_mem (c : UInt8) : isAsciiSpace c = true ↔ [c] ∈ spaceSeqs := by
  simp [isAsciiSpace, spaceSeqs, or_assoc]

theorem trimSpaceU_sublist (b : Bytes) : (trimSpaceU b).Sublist b :=
  (trimRightU_prefix _).sublist.trans (trimLeftU_suffix b).sublist

theorem trimLeftU_noPre (b : Bytes) : NoPre (trimLeftU b) := tls_noPre _ spaceSeqs_ok b

theorem trimRightU_noSuf (b : Bytes) : NoSuf (trimRightU b) := by
  intro p hp hs
  unfold trimRightU at hs
  have h := List.reverse_prefix.mpr hs
  rw [List.reverse_reverse] at h
  exact tls_noPre _ spaceSeqsRev_ok b.reverse p.reverse (mem_spaceSeqsRev p hp) h

theorem noPre_of_prefix (t l : Bytes) (h : t <+: l) (hl : NoPre l) : NoPre t :=
  fun p hp hpt => hl p hp (hpt.trans h)

theorem trimSpaceU_noPre (b : Bytes) : NoPre (trimSpaceU b) :=
  noPre_of_prefix _ _ (trimRightU_prefix _) (trimLeftU_noPre b)

theorem trimSpaceU_noSuf (b : Bytes) : NoSuf (trimSpaceU b) := trimRightU_noSuf _

theorem trimLeftU_eq_self (t : Bytes) (h : NoPre t) : trimLeftU t = t := tls_of_none _ t h

theorem trimRightU_eq_self (t : Bytes) (h : NoSuf t) : trimRightU t = t := by
  unfold trimRightU
  rw [tls_of_none, List.reverse_reverse]
  intro p hp hpre
  apply h p.reverse (of_mem_spaceSeqsRev p hp)
  have := List.reverse_suffix.mpr hpre
  rwa [List.reverse_reverse] at this

/-- a text that neither starts nor ends with a space sequence is left alone -/
theorem trimSpaceU_eq_self (t : Bytes) (h1 : NoPre t) (h2 : NoSuf t) : trimSpaceU t = t := by
  unfold trimSpaceU
  rw [trimLeftU_eq_self t h1, trimRightU_eq_self t h2]

theorem trimLeftU_seq (p x : Bytes) (hp : p ∈ spaceSeqs) : trimLeftU (p ++ x) = trimLeftU x :=
  tls_of_mem _ spaceSeqs_ok p x hp

theorem trimRightU_seq (q x : Bytes) (hq : q ∈ spaceSeqs) : trimRightU (x ++ q) = trimRightU x := by
  unfold trimRightU
  rw [List.reverse_append, tls_of_mem _ spaceSeqsRev_ok _ _ (mem_spaceSeqsRev q hq)]

theorem trimLeftU_append_seq (s q : Bytes) (hq : q ∈ spaceSeqs) :
    trimLeftU (s ++ q) = if trimLeftU s = [] then [] else trimLeftU s ++ q :=
  tls_append_seq _ spaceSeqs_ok q hq (fun p hp => spaceSeqs_head p hp q hq) _ s (Nat.le_refl _)

/-- a space sequence in front and a space sequence behind are trimmed away -/
theorem trimSpaceU_surround (p q s : Bytes) (hp : p ∈ spaceSeqs) (hq : q ∈ spaceSeqs) :
    trimSpaceU (p ++ (s ++ q)) = trimSpaceU s := by
  unfold trimSpaceU
  rw [trimLeftU_seq p _ hp, trimLeftU_append_seq s q hq]
  split
  · rename_i h; rw [h]
  · exact trimRightU_seq q _ hq

/-! ### splitLines / joinLines -/

theorem splitLines_ne_nil (b : Bytes) : splitLines b ≠ [] := by
  cases b with
  | nil => simp [splitLines]
  | cons c r =>
    unfold splitLines
    split
    · simp
    · split <;> simp

theorem joinLines_cons_cons (a : Bytes) (b : Bytes) (r : List Bytes) :
    joinLines (a :: b :: r) = a ++ B.lf :: joinLines (b :: r) := rfl

theorem joinLines_cons_of_ne_nil (a : Bytes) (r : List Bytes) (h : r ≠ []) :
    joinLines (a :: r) = a ++ B.lf :: joinLines r := by
  cases r with
  | nil => exact absurd rfl h
  | cons b r => rfl

theorem joinLines_push (c : UInt8) (h : Bytes) (t : List Bytes) :
    joinLines ((c :: h) :: t) = c :: joinLines (h :: t) := by
  cases t <;> rfl

theorem joinLines_splitLines (b : Bytes) : joinLines (splitLines b) = b := by
  induction b with
  | nil => rfl
  | cons c r ih =>
    unfold splitLines
    split
    · rename_i hc
      have hc' : c = B.lf := by simpa using hc
      rw [joinLines_cons_of_ne_nil _ _ (splitLines_ne_nil r), ih, hc']
      rfl
    · split
      · rename_i heq
        exact absurd heq (splitLines_ne_nil r)
      · rename_i h t heq
        rw [joinLines_push, ← heq, ih]

theorem splitLines_no_lf (b : Bytes) : ∀ l ∈ splitLines b, B.lf ∉ l := by
  induction b with
  | nil => simp [splitLines]
  | cons c r ih =>
    unfold splitLines
    split
    · intro l hl
      rcases List.mem_cons.mp hl with rfl | hl
      · simp
      · exact ih l hl
    · rename_i hc
      have hne : B.lf ≠ c := by
        intro h; apply hc; rw [h]; exact beq_self_eq_true c
      split
      · rename_i heq
        exact absurd heq (splitLines_ne_nil r)
      · rename_i h t heq
        rw [heq] at ih
        intro l hl
        rcases List.mem_cons.mp hl with rfl | hl
        · intro hm
          rcases List.mem_cons.mp hm with h' | h'
          · exact hne h'
          · exact ih h (List.mem_cons_self) h'
        · exact ih l (List.mem_cons_of_mem _ hl)

theorem splitLines_cons_ne (c : UInt8) (r h : Bytes) (t : List Bytes) (hc : (c == B.lf) = false)
    (heq : splitLines r = h :: t) : splitLines (c :: r) = (c :: h) :: t := by
  rw [splitLines, hc, heq]
  rfl

theorem splitLines_of_no_lf (a : Bytes) (h : B.lf ∉ a) : splitLines a = [a] := by
  induction a with
  | nil => rfl
  | cons c r ih =>
    have hc : (c == B.lf) = false := by
      cases hc : c == B.lf
      · rfl
      · exfalso; apply h; rw [eq_of_beq hc]; exact List.mem_cons_self
    have hr : B.lf ∉ r := fun hm => h (List.mem_cons_of_mem _ hm)
    exact splitLines_cons_ne c r r [] hc (ih hr)

theorem splitLines_append_lf (a r : Bytes) (h : B.lf ∉ a) :
    splitLines (a ++ B.lf :: r) = a :: splitLines r := by
  induction a with
  | nil =>
    show splitLines (B.lf :: r) = _
    rw [splitLines]; simp
  | cons c t ih =>
    have hc : (c == B.lf) = false := by
      cases hc : c == B.lf
      · rfl
      · exfalso; apply h; rw [eq_of_beq hc]; exact List.mem_cons_self
    have hr : B.lf ∉ t := fun hm => h (List.mem_cons_of_mem _ hm)
    exact splitLines_cons_ne c _ t _ hc (ih hr)

theorem splitLines_joinLines (ls : List Bytes) (hne : ls ≠ []) (h : ∀ l ∈ ls, B.lf ∉ l) :
    splitLines (joinLines ls) = ls := by
  induction ls with
  | nil => exact absurd rfl hne
  | cons a r ih =>
    cases r with
    | nil => exact splitLines_of_no_lf a (h a List.mem_cons_self)
    | cons b r =>
      rw [joinLines_cons_cons, splitLines_append_lf _ _ (h a List.mem_cons_self),
        ih (by simp) (fun l hl => h l (List.mem_cons_of_mem _ hl))]

theorem mem_joinLines_of_mem (ls : List Bytes) (l : Bytes) (c : UInt8) (hl : l ∈ ls) (hc : c ∈ l) :
    c ∈ joinLines ls := by
  induction ls with
  | nil => cases hl
  | cons a r ih =>
    cases r with
    | nil =>
      rcases List.mem_cons.mp hl with rfl | hl
      · exact hc
      · cases hl
    | cons b r =>
      rw [joinLines_cons_cons]
      rcases List.mem_cons.mp hl with rfl | hl
      · exact List.mem_append_left _ hc
      · exact List.mem_append_right _ (List.mem_cons_of_mem _ (ih hl))

theorem mem_of_mem_joinLines (ls : List Bytes) (c : UInt8) (hc : c ∈ joinLines ls) :
    c = B.lf ∨ ∃ l ∈ ls, c ∈ l := by
  induction ls with
  | nil => cases hc
  | cons a r ih =>
    cases r with
    | nil => exact Or.inr ⟨a, List.mem_cons_self, hc⟩
    | cons b r =>
      rw [joinLines_cons_cons] at hc
      rcases List.mem_append.mp hc with h | h
      · exact Or.inr ⟨a, List.mem_cons_self, h⟩
      · rcases List.mem_cons.mp h with h | h
        · exact Or.inl h
        · rcases ih h with h | ⟨l, hl, hcl⟩
          · exact Or.inl h
          · exact Or.inr ⟨l, List.mem_cons_of_mem _ hl, hcl⟩

theorem mem_of_mem_splitLines (b l : Bytes) (c : UInt8) (hl : l ∈ splitLines b) (hc : c ∈ l) :
    c ∈ b := by
  have := mem_joinLines_of_mem _ l c hl hc
  rwa [joinLines_splitLines] at this

/-! ### the steps of `description` only remove bytes -/

theorem removeParens_sublist (x y : Bytes) (h : removeParens x = .ok y) : y.Sublist x := by
  unfold removeParens at h
  simp only at h
  split at h
  · split at h
    · split at h
      · injection h with h
        subst h
        refine (trimBoth_sublist _ _).trans ((trimBoth_sublist _ _).trans ?_)
        exact (List.dropLast_sublist _).trans ((List.drop_sublist _ _).trans (trimSpaceU_sublist _))
      · cases h
    · cases h
  · injection h with h
    subst h
    exact List.Sublist.refl _

theorem tlb_go_suffix (fuel : Nat) (b : Bytes) : trimLeadingBlankLines.go b fuel <:+ b := by
  induction fuel generalizing b with
  | zero => exact List.suffix_refl _
  | succ n ih =>
    unfold trimLeadingBlankLines.go
    simp only
    split
    · exact (ih _).trans (List.drop_suffix _ _)
    · exact List.suffix_refl _

theorem tlb_suffix (b : Bytes) : trimLeadingBlankLines b <:+ b := tlb_go_suffix _ _

theorem trimPrefix_suffix (pre l : Bytes) : trimPrefix pre l <:+ l := by
  unfold trimPrefix
  split
  · exact List.drop_suffix _ _
  · exact List.suffix_refl _

theorem mem_description (b d : Bytes) (h : description b = .ok d) (c : UInt8) (hc : c ∈ d) :
    c = B.lf ∨ c ∈ normNL b := by
  unfold description at h
  split at h
  · cases h
  · rename_i b1 hb1
    simp only at h
    injection h with h
    subst h
    rcases mem_of_mem_joinLines _ c hc with h | ⟨l, hl, hcl⟩
    · exact Or.inl h
    · right
      rcases List.mem_map.mp hl with ⟨l', hl', rfl⟩
      have h1 : c ∈ l' := (trimPrefix_suffix _ _).sublist.subset hcl
      have h2 := mem_of_mem_splitLines _ _ _ hl' h1
      have h3 := (trimRight_sublist _ _).subset h2
      have h4 := (tlb_suffix _).sublist.subset h3
      exact (removeParens_sublist _ _ hb1).subset h4

theorem description_no_cr' (b d : Bytes) (h : description b = .ok d) : B.cr ∉ d := by
  intro hc
  rcases mem_description b d h _ hc with h | h
  · cases h
  · exact normNL_no_cr' b h

/-! ### annotation -/

theorem reSpace_asciiSpace (c : UInt8) (h : isAsciiSpace c = false) : isReSpace c = false := by
  simp only [isAsciiSpace, Bool.or_eq_false_iff] at h
  simp only [isReSpace, Bool.or_eq_false_iff]
  exact ⟨⟨⟨⟨h.1.1.1.1.1, h.1.1.1.1.2⟩, h.1.1.2⟩, h.1.2⟩, h.2⟩

theorem isReSpace_sp : isReSpace B.sp = true := by decide

theorem isAsciiSpace_sp : isAsciiSpace B.sp = true := by decide

theorem collapseWsAux_idem (f : Bool) (l : Bytes) :
    collapseWsAux f (collapseWsAux f l) = collapseWsAux f l := by
  induction l generalizing f with
  | nil => rfl
  | cons c r ih =>
    by_cases hc : isReSpace c = true
    · cases f
      · simp only [collapseWsAux, hc, if_true, Bool.false_eq_true, if_false, isReSpace_sp]
        rw [ih]
      · simp only [collapseWsAux, hc, if_true]
        exact ih true
    · simp only [collapseWsAux, hc, Bool.false_eq_true, if_false]
      rw [ih]

theorem collapseWsAux_snoc (f : Bool) (l : Bytes) (c : UInt8) (hc : isReSpace c = false) :
    collapseWsAux f (l ++ [c]) = collapseWsAux f l ++ [c] := by
  induction l generalizing f with
  | nil => simp [collapseWsAux, hc]
  | cons a r ih =>
    by_cases ha : isReSpace a = true
    · cases f
      · simp only [List.cons_append, collapseWsAux, ha, if_true, Bool.false_eq_true, if_false]
        rw [ih]
      · simp only [List.cons_append, collapseWsAux, ha, if_true]
        exact ih true
    · simp only [List.cons_append, collapseWsAux, ha, Bool.false_eq_true, if_false]
      rw [ih]

theorem trimBoth_head (p : UInt8 → Bool) (s : Bytes) (c : UInt8)
    (h : (trimBoth p s).head? = some c) : p c = false := by
  apply trimLeft_head p s c
  have hp : trimBoth p s <+: trimLeft p s := trimRight_prefix p _
  rcases hp with ⟨t, ht⟩
  rw [← ht]
  cases hT : trimBoth p s with
  | nil => rw [hT] at h; cases h
  | cons a T => rw [hT] at h; simpa using h

theorem trimBoth_last (p : UInt8 → Bool) (s : Bytes) (c : UInt8)
    (h : (trimBoth p s).getLast? = some c) : p c = false :=
  trimRight_last p _ c h

theorem trimBoth_eq_self (p : UInt8 → Bool) (l : Bytes)
    (hh : ∀ c, l.head? = some c → p c = false) (hl : ∀ c, l.getLast? = some c → p c = false) :
    trimBoth p l = l := by
  unfold trimBoth
  rw [trimLeft_eq_self p l hh, trimRight_eq_self p l hl]

/-- every space sequence is either one byte of the regexp class `\s`, or has no such byte -/
theorem spaceSeqs_class : ∀ p ∈ spaceSeqs,
    (p.length = 1 ∧ p.all isReSpace = true) ∨ p.all (fun x => !isReSpace x) = true := by decide

theorem reSpace_mem (c : UInt8) (h : isReSpace c = true) : [c] ∈ spaceSeqs := by
  simp only [isReSpace, Bool.or_eq_true, beq_iff_eq] at h
  rcases h with (((rfl | rfl) | rfl) | rfl) | rfl <;> decide

theorem collapseWsAux_cons_of_not (f : Bool) (a : UInt8) (r : Bytes) (ha : isReSpace a = false) :
    collapseWsAux f (a :: r) = a :: collapseWsAux false r := by
  simp [collapseWsAux, ha]

/-- a prefix without `\s` bytes of the collapsed text is a prefix of the text -/
theorem prefix_collapse (p t : Bytes) (hp : ∀ x ∈ p, isReSpace x = false)
    (h : p <+: collapseWsAux false t) : p <+: t := by
  induction p generalizing t with
  | nil => exact List.nil_prefix
  | cons x p ih =>
    cases t with
    | nil => simp [collapseWsAux] at h
    | cons a r =>
      by_cases ha : isReSpace a = true
      · simp only [collapseWsAux, ha, if_true, Bool.false_eq_true, if_false] at h
        have hx := (List.cons_prefix_cons.mp h).1
        have := hp x List.mem_cons_self
        rw [hx, isReSpace_sp] at this
        cases this
      · have ha' : isReSpace a = false := by simpa using ha
        rw [collapseWsAux_cons_of_not _ _ _ ha'] at h
        have h' := List.cons_prefix_cons.mp h
        rw [h'.1]
        exact List.cons_prefix_cons.mpr ⟨rfl, ih r (fun y hy => hp y (List.mem_cons_of_mem _ hy)) h'.2⟩

/-- a collapsed text without `\s` bytes is the text itself -/
theorem collapse_id (r : Bytes) (h : ∀ x ∈ collapseWsAux false r, isReSpace x = false) :
    collapseWsAux false r = r := by
  induction r with
  | nil => rfl
  | cons a r ih =>
    by_cases ha : isReSpace a = true
    · simp only [collapseWsAux, ha, if_true, Bool.false_eq_true, if_false] at h
      have := h B.sp List.mem_cons_self
      rw [isReSpace_sp] at this
      cases this
    · have ha' : isReSpace a = false := by simpa using ha
      rw [collapseWsAux_cons_of_not _ _ _ ha'] at h ⊢
      rw [ih (fun y hy => h y (List.mem_cons_of_mem _ hy))]

/-- a non-empty suffix without `\s` bytes of the collapsed text is a suffix of the text -/
theorem suffix_collapse (f : Bool) (p t : Bytes) (hp : ∀ x ∈ p, isReSpace x = false) (hne : p ≠ [])
    (h : p <:+ collapseWsAux f t) : p <:+ t := by
  induction t generalizing f with
  | nil =>
    have : p = [] := by simpa [collapseWsAux] using h
    exact absurd this hne
  | cons a r ih =>
    by_cases ha : isReSpace a = true
    · cases f
      · simp only [collapseWsAux, ha, if_true, Bool.false_eq_true, if_false] at h
        rcases List.suffix_cons_iff.mp h with h | h
        · cases p with
          | nil => exact absurd rfl hne
          | cons x p =>
            injection h with hx _
            have := hp x List.mem_cons_self
            rw [hx, isReSpace_sp] at this
            cases this
        · exact (ih true h).trans (List.suffix_cons a r)
      · simp only [collapseWsAux, ha, if_true] at h
        exact (ih true h).trans (List.suffix_cons a r)
    · have ha' : isReSpace a = false := by simpa using ha
      rw [collapseWsAux_cons_of_not _ _ _ ha'] at h
      rcases List.suffix_cons_iff.mp h with h | h
      · cases p with
        | nil => exact absurd rfl hne
        | cons x p =>
          injection h with hx hp'
          have hid : collapseWsAux false r = r := by
            apply collapse_id
            rw [← hp']
            exact fun y hy => hp y (List.mem_cons_of_mem _ hy)
          rw [hx, hp', hid]
          exact List.suffix_refl _
      · exact (ih false h).trans (List.suffix_cons a r)

theorem collapseWs_noPre (t : Bytes) (h : NoPre t) : NoPre (collapseWs t) := by
  intro p hp hpre
  rcases spaceSeqs_class p hp with ⟨hl, ha⟩ | ha
  · rcases List.length_eq_one_iff.mp hl with ⟨c, rfl⟩
    have hc : isReSpace c = true := by simpa using ha
    cases t with
    | nil => simp [collapseWs, collapseWsAux] at hpre
    | cons a r =>
      by_cases har : isReSpace a = true
      · exact h [a] (reSpace_mem a har) (List.cons_prefix_cons.mpr ⟨rfl, List.nil_prefix⟩)
      · have ha' : isReSpace a = false := by simpa using har
        rw [collapseWs, collapseWsAux_cons_of_not _ _ _ ha'] at hpre
        have := (List.cons_prefix_cons.mp hpre).1
        rw [this, ha'] at hc
        cases hc
  · apply h p hp
    apply prefix_collapse p t _ hpre
    intro x hx
    simpa using List.all_eq_true.mp ha x hx

theorem collapseWs_noSuf (t : Bytes) (h : NoSuf t) : NoSuf (collapseWs t) := by
  intro p hp hsuf
  rcases spaceSeqs_class p hp with ⟨hl, ha⟩ | ha
  · rcases List.length_eq_one_iff.mp hl with ⟨c, rfl⟩
    have hc : isReSpace c = true := by simpa using ha
    rcases List.eq_nil_or_concat t with rfl | ⟨r, e, rfl⟩
    · simp [collapseWs, collapseWsAux] at hsuf
    · by_cases her : isReSpace e = true
      · apply h [e] (reSpace_mem e her)
        rw [List.concat_eq_append]
        exact List.suffix_append r [e]
      · have he' : isReSpace e = false := by simpa using her
        rw [collapseWs, List.concat_eq_append, collapseWsAux_snoc _ _ _ he'] at hsuf
        rcases hsuf with ⟨u, hu⟩
        have := congrArg List.getLast? hu
        simp at this
        rw [this, he'] at hc
        cases hc
  · apply h p hp
    apply suffix_collapse false p t _ (spaceSeqs_ok.ne p hp) hsuf
    intro x hx
    simpa using List.all_eq_true.mp ha x hx

theorem annotation_idempotent' (s : Bytes) : annotation (annotation s) = annotation s := by
  show collapseWs (trimSpaceU (annotation s)) = annotation s
  rw [trimSpaceU_eq_self (annotation s) (collapseWs_noPre _ (trimSpaceU_noPre s))
    (collapseWs_noSuf _ (trimSpaceU_noSuf s))]
  exact collapseWsAux_idem false _

theorem dropWhile_snoc_pos (p : UInt8 → Bool) (s : Bytes) (c : UInt8) (hc : p c = true) :
    (s ++ [c]).dropWhile p = if s.dropWhile p = [] then [] else s.dropWhile p ++ [c] := by
  induction s with
  | nil => simp [hc]
  | cons a r ih =>
    by_cases ha : p a = true
    · simp only [List.cons_append, List.dropWhile_cons, ha, if_true]
      exact ih
    · simp [ha]

theorem trimRight_snoc_pos (p : UInt8 → Bool) (x : Bytes) (c : UInt8) (hc : p c = true) :
    trimRight p (x ++ [c]) = trimRight p x := by
  unfold trimRight
  rw [List.reverse_append]
  simp [hc]

theorem trimBoth_surround (p : UInt8 → Bool) (s : Bytes) (c : UInt8) (hc : p c = true) :
    trimBoth p (c :: (s ++ [c])) = trimBoth p s := by
  unfold trimBoth
  have h1 : trimLeft p (c :: (s ++ [c])) = trimLeft p (s ++ [c]) := by
    simp [trimLeft, hc]
  rw [h1]
  unfold trimLeft
  rw [dropWhile_snoc_pos p s c hc]
  split
  · rename_i h; rw [h]
  · exact trimRight_snoc_pos p _ c hc

theorem sp_mem_spaceSeqs : [B.sp] ∈ spaceSeqs := by decide

theorem annotation_surrounding_blanks' (s : Bytes) :
    annotation (B.sp :: (s ++ [B.sp])) = annotation s := by
  unfold annotation
  have := trimSpaceU_surround [B.sp] [B.sp] s sp_mem_spaceSeqs sp_mem_spaceSeqs
  rw [List.singleton_append] at this
  rw [this]

/-- any white-space sequence of `TrimSpace` in front and behind (ASCII or Unicode) is immaterial -/
theorem annotation_surrounding_spaces' (p q s : Bytes) (hp : p ∈ spaceSeqs) (hq : q ∈ spaceSeqs) :
    annotation (p ++ s ++ q) = annotation s := by
  unfold annotation
  rw [List.append_assoc, trimSpaceU_surround p q s hp hq]

theorem collapseWsAux_mem (f : Bool) (l : Bytes) :
    ∀ c ∈ collapseWsAux f l, c = B.sp ∨ isReSpace c = false := by
  induction l generalizing f with
  | nil => intro c h; cases h
  | cons a r ih =>
    by_cases ha : isReSpace a = true
    · cases f
      · simp only [collapseWsAux, ha, if_true, Bool.false_eq_true, if_false]
        intro c h
        rcases List.mem_cons.mp h with h | h
        · exact Or.inl h
        · exact ih true c h
      · simp only [collapseWsAux, ha, if_true]
        exact ih true
    · simp only [collapseWsAux, ha, Bool.false_eq_true, if_false]
      intro c h
      rcases List.mem_cons.mp h with h | h
      · right; rw [h]; simpa using ha
      · exact ih false c h

theorem collapseWsAux_true_head (l : Bytes) (c : UInt8) (post : Bytes)
    (h : collapseWsAux true l = c :: post) : isReSpace c = false := by
  induction l with
  | nil => cases h
  | cons a r ih =>
    by_cases ha : isReSpace a = true
    · simp only [collapseWsAux, ha, if_true] at h
      exact ih h
    · simp only [collapseWsAux, ha, Bool.false_eq_true, if_false] at h
      injection h with h1 h2
      rw [← h1]; simpa using ha

theorem collapseWsAux_no_double (f : Bool) (l pre post : Bytes) :
    collapseWsAux f l ≠ pre ++ B.sp :: B.sp :: post := by
  induction l generalizing f pre with
  | nil => cases pre <;> simp [collapseWsAux]
  | cons a r ih =>
    by_cases ha : isReSpace a = true
    · cases f
      · simp only [collapseWsAux, ha, if_true, Bool.false_eq_true, if_false]
        cases pre with
        | nil =>
          intro h
          injection h with _ h
          have := collapseWsAux_true_head r B.sp post h
          rw [isReSpace_sp] at this; cases this
        | cons x pre' =>
          intro h
          injection h with _ h
          exact ih true pre' h
      · simp only [collapseWsAux, ha, if_true]
        exact ih true pre
    · simp only [collapseWsAux, ha, Bool.false_eq_true, if_false]
      cases pre with
      | nil =>
        intro h
        injection h with h _
        rw [h, isReSpace_sp] at ha
        exact ha rfl
      | cons x pre' =>
        intro h
        injection h with _ h
        exact ih false pre' h

/-! ### firstPrefix -/

theorem fp_go_eq (acc l : Bytes) (h : l ≠ []) :
    firstPrefix.go acc l = acc ++ firstPrefix.go [] l := by
  induction l generalizing acc with
  | nil => exact absurd rfl h
  | cons c r ih =>
    cases r with
    | nil => simp [firstPrefix.go]
    | cons d r =>
      simp only [firstPrefix.go]
      split
      · simp
      · rw [ih (acc ++ [c]) (by simp), ih ([] ++ [c]) (by simp)]
        simp

theorem fp_nil : firstPrefix [] = [] := rfl

theorem fp_single (c : UInt8) : firstPrefix [c] = [] := rfl

theorem fp_cons (c d : UInt8) (r : Bytes) :
    firstPrefix (c :: d :: r) = if isBlankHT c then c :: firstPrefix (d :: r) else [] := by
  unfold firstPrefix
  simp only [firstPrefix.go]
  cases isBlankHT c
  · simp
  · simp only [Bool.not_true, Bool.false_eq_true, if_false, if_true]
    rw [fp_go_eq _ _ (by simp)]
    rfl

theorem fp_all_blank (l : Bytes) : ∀ c ∈ firstPrefix l, isBlankHT c = true := by
  induction l with
  | nil => intro c h; cases h
  | cons a r ih =>
    cases r with
    | nil => intro c h; cases h
    | cons d r =>
      rw [fp_cons]
      cases ha : isBlankHT a
      · intro c h; cases h
      · intro c h
        rcases List.mem_cons.mp h with h | h
        · rw [h]; exact ha
        · exact ih c h

theorem fp_prefix (l : Bytes) : firstPrefix l <+: l := by
  induction l with
  | nil => exact List.prefix_refl _
  | cons a r ih =>
    cases r with
    | nil => exact List.nil_prefix
    | cons d r =>
      rw [fp_cons]
      cases isBlankHT a
      · exact List.nil_prefix
      · exact (List.prefix_cons_inj a).mpr ih

theorem fp_drop (l q : Bytes) (h : q <+: firstPrefix l) :
    firstPrefix (l.drop q.length) = (firstPrefix l).drop q.length := by
  induction q generalizing l with
  | nil => rfl
  | cons x q ih =>
    cases l with
    | nil => rw [fp_nil] at h; simp at h
    | cons a r =>
      cases r with
      | nil => rw [fp_single] at h; simp at h
      | cons d r =>
        rw [fp_cons] at h ⊢
        cases ha : isBlankHT a
        · rw [ha] at h; simp at h
        · rw [ha] at h
          simp only [if_true] at h ⊢
          rw [List.cons_prefix_cons] at h
          simp only [List.length_cons, List.drop_succ_cons]
          exact ih _ h.2

/-! ### shrinkTo -/

theorem shrink_go_prefix (l pre : Bytes) (fuel : Nat) : shrinkTo.go l pre fuel <+: pre := by
  induction fuel generalizing pre with
  | zero => exact List.prefix_refl _
  | succ n ih =>
    unfold shrinkTo.go
    split
    · exact List.prefix_refl _
    · exact (ih _).trans (List.dropLast_prefix _)

theorem shrink_go_prefix_l (l pre : Bytes) (fuel : Nat) (hf : pre.length ≤ fuel) :
    shrinkTo.go l pre fuel <+: l := by
  induction fuel generalizing pre with
  | zero =>
    have : pre = [] := List.eq_nil_of_length_eq_zero (Nat.le_zero.mp hf)
    subst this
    exact List.nil_prefix
  | succ n ih =>
    unfold shrinkTo.go
    split
    · rename_i h; exact List.isPrefixOf_iff_prefix.mp h
    · apply ih
      rw [List.length_dropLast]
      omega

theorem prefix_dropLast_of_ne (q pre : Bytes) (h : q <+: pre) (hne : q ≠ pre) : q <+: pre.dropLast := by
  have hlen : q.length < pre.length := by
    rcases Nat.lt_or_ge q.length pre.length with h' | h'
    · exact h'
    · exact absurd (h.eq_of_length (Nat.le_antisymm h.length_le h')) hne
  apply List.prefix_of_prefix_length_le h (List.dropLast_prefix _)
  rw [List.length_dropLast]
  omega

theorem shrink_go_max (l pre q : Bytes) (fuel : Nat) (h1 : q <+: pre) (h2 : q <+: l) :
    q <+: shrinkTo.go l pre fuel := by
  induction fuel generalizing pre with
  | zero => exact h1
  | succ n ih =>
    unfold shrinkTo.go
    split
    · exact h1
    · rename_i hp
      apply ih
      apply prefix_dropLast_of_ne q pre h1
      intro he
      subst he
      exact hp (List.isPrefixOf_iff_prefix.mpr h2)

theorem shrinkTo_prefix (l pre : Bytes) : shrinkTo l pre <+: pre := shrink_go_prefix l pre _

theorem shrinkTo_prefix_l (l pre : Bytes) : shrinkTo l pre <+: l :=
  shrink_go_prefix_l l pre _ (Nat.le_refl _)

theorem shrinkTo_max (l pre q : Bytes) (h1 : q <+: pre) (h2 : q <+: l) : q <+: shrinkTo l pre :=
  shrink_go_max l pre q _ h1 h2

/-! ### the fold of `longestWhitespacePrefix` -/

/-- the loop body of `longestWhitespacePrefix` -/
def step (pre l : Bytes) : Bytes :=
  if pre.isEmpty then [] else if l.all isBlankHT then pre else shrinkTo l pre

theorem step_prefix (pre l : Bytes) : step pre l <+: pre := by
  unfold step
  split
  · exact List.nil_prefix
  · split
    · exact List.prefix_refl _
    · exact shrinkTo_prefix l pre

theorem step_prefix_l (pre l : Bytes) (hl : l.all isBlankHT = false) : step pre l <+: l := by
  unfold step
  split
  · exact List.nil_prefix
  · rw [hl]
    simp only [Bool.false_eq_true, if_false]
    exact shrinkTo_prefix_l l pre

theorem step_max (pre l q : Bytes) (h1 : q <+: pre) (h2 : l.all isBlankHT = false → q <+: l) :
    q <+: step pre l := by
  unfold step
  split
  · rename_i he
    have : pre = [] := by simpa using he
    rw [this] at h1
    exact h1
  · split
    · exact h1
    · rename_i hb
      have hb' : l.all isBlankHT = false := by simpa using hb
      exact shrinkTo_max l pre q h1 (h2 hb')

theorem fold_prefix (p : Bytes) (rest : List Bytes) : rest.foldl step p <+: p := by
  induction rest generalizing p with
  | nil => exact List.prefix_refl _
  | cons l rest ih => exact (ih _).trans (step_prefix p l)

theorem fold_prefix_l (p : Bytes) (rest : List Bytes) :
    ∀ l ∈ rest, l.all isBlankHT = false → rest.foldl step p <+: l := by
  induction rest generalizing p with
  | nil => intro l h; cases h
  | cons a rest ih =>
    intro l hl hb
    rcases List.mem_cons.mp hl with rfl | hl
    · exact (fold_prefix _ rest).trans (step_prefix_l p l hb)
    · exact ih _ l hl hb

theorem fold_max (p q : Bytes) (rest : List Bytes) (h1 : q <+: p)
    (h2 : ∀ l ∈ rest, l.all isBlankHT = false → q <+: l) : q <+: rest.foldl step p := by
  induction rest generalizing p with
  | nil => exact h1
  | cons a rest ih =>
    apply ih
    · exact step_max p a q h1 (h2 a List.mem_cons_self)
    · intro l hl; exact h2 l (List.mem_cons_of_mem _ hl)

theorem lwp_cons (l0 : Bytes) (rest : List Bytes) :
    longestWhitespacePrefix (l0 :: rest) = rest.foldl step (firstPrefix l0) := by
  unfold longestWhitespacePrefix
  simp only
  split
  · rename_i he
    have he' : firstPrefix l0 = [] := by simpa using he
    rw [he']
    have := fold_prefix [] rest
    exact (List.prefix_nil.mp this).symm
  · rfl

/-! ### the dedent step -/

theorem trimPrefix_of_prefix (pre l : Bytes) (h : pre <+: l) : trimPrefix pre l = l.drop pre.length := by
  unfold trimPrefix
  rw [if_pos (List.isPrefixOf_iff_prefix.mpr h)]

theorem trimPrefix_nil (l : Bytes) : trimPrefix [] l = l := by
  simp [trimPrefix]

theorem all_blank_drop (pre l : Bytes) (hp : ∀ c ∈ pre, isBlankHT c = true) (h : pre <+: l)
    (hl : l.all isBlankHT = false) : (l.drop pre.length).all isBlankHT = false := by
  have he := List.prefix_iff_eq_append.mp h
  rw [← he, List.all_append] at hl
  have : pre.all isBlankHT = true := List.all_eq_true.mpr hp
  rw [this, Bool.true_and] at hl
  exact hl

theorem all_blank_trimPrefix (pre l : Bytes) (hp : ∀ c ∈ pre, isBlankHT c = true)
    (hl : l.all isBlankHT = false) : (trimPrefix pre l).all isBlankHT = false := by
  unfold trimPrefix
  split
  · rename_i h
    exact all_blank_drop pre l hp (List.isPrefixOf_iff_prefix.mp h) hl
  · exact hl

theorem fold_all_blank (l0 : Bytes) (rest : List Bytes) :
    ∀ c ∈ rest.foldl step (firstPrefix l0), isBlankHT c = true := by
  intro c hc
  exact fp_all_blank l0 c ((fold_prefix _ rest).sublist.subset hc)

theorem lwp_all_blank (lines : List Bytes) : ∀ c ∈ longestWhitespacePrefix lines, isBlankHT c = true := by
  cases lines with
  | nil => intro c h; cases h
  | cons l0 rest => rw [lwp_cons]; exact fold_all_blank l0 rest

/-- after removing the longest common white-space prefix, the longest common white-space prefix is empty -/
theorem lwp_dedent (lines : List Bytes) :
    longestWhitespacePrefix (lines.map (trimPrefix (longestWhitespacePrefix lines))) = [] := by
  cases lines with
  | nil => rfl
  | cons l0 rest =>
    rw [lwp_cons, List.map_cons, lwp_cons]
    generalize hpre : rest.foldl step (firstPrefix l0) = pre
    have hblank : ∀ c ∈ pre, isBlankHT c = true := by rw [← hpre]; exact fold_all_blank l0 rest
    have hp0 : pre <+: firstPrefix l0 := by rw [← hpre]; exact fold_prefix _ rest
    have hl0 : pre <+: l0 := hp0.trans (fp_prefix l0)
    rw [trimPrefix_of_prefix pre l0 hl0, fp_drop l0 pre hp0]
    generalize hR : (rest.map (trimPrefix pre)).foldl step ((firstPrefix l0).drop pre.length) = R
    have hR1 : R <+: (firstPrefix l0).drop pre.length := by rw [← hR]; exact fold_prefix _ _
    have hq : pre ++ R <+: pre := by
      rw [← hpre]
      apply fold_max
      · rw [hpre]
        have := (List.prefix_append_right_inj pre).mpr hR1
        rwa [List.prefix_iff_eq_append.mp hp0] at this
      · intro l hl hb
        rw [hpre]
        have hpl : pre <+: l := by rw [← hpre]; exact fold_prefix_l _ rest l hl hb
        have hmem : l.drop pre.length ∈ rest.map (trimPrefix pre) :=
          List.mem_map.mpr ⟨l, hl, trimPrefix_of_prefix pre l hpl⟩
        have hb' := all_blank_drop pre l hblank hpl hb
        have hRl : R <+: l.drop pre.length := by
          rw [← hR]; exact fold_prefix_l _ _ _ hmem hb'
        have := (List.prefix_append_right_inj pre).mpr hRl
        rwa [List.prefix_iff_eq_append.mp hpl] at this
    have hlen := hq.length_le
    rw [List.length_append] at hlen
    exact List.eq_nil_of_length_eq_zero (by omega)

/-! ### trimLeadingBlankLines -/

/-- the first line is not a blank line followed by LF -/
def FirstLineOK (x : Bytes) : Prop :=
  ¬ ((x.takeWhile (· != B.lf)).length < x.length ∧ (x.takeWhile (· != B.lf)).all isBlankHT = true)

theorem tlb_go_ok (fuel : Nat) (b : Bytes) (hf : b.length ≤ fuel) :
    FirstLineOK (trimLeadingBlankLines.go b fuel) := by
  induction fuel generalizing b with
  | zero =>
    have : b = [] := List.eq_nil_of_length_eq_zero (Nat.le_zero.mp hf)
    subst this
    intro h
    exact absurd h.1 (by simp [trimLeadingBlankLines.go])
  | succ n ih =>
    unfold trimLeadingBlankLines.go
    simp only
    split
    · apply ih
      rw [List.length_drop]
      omega
    · rename_i h
      exact h

theorem tlb_ok (b : Bytes) : FirstLineOK (trimLeadingBlankLines b) := tlb_go_ok _ b (Nat.le_refl _)

theorem tlb_eq_self (b : Bytes) (h : FirstLineOK b) : trimLeadingBlankLines b = b := by
  unfold trimLeadingBlankLines
  cases b.length with
  | zero => rfl
  | succ n =>
    unfold trimLeadingBlankLines.go
    simp only
    rw [if_neg h]

theorem tw_no_lf (y : Bytes) (h : B.lf ∉ y) : y.takeWhile (· != B.lf) = y := by
  induction y with
  | nil => rfl
  | cons a r ih =>
    have ha : (a != B.lf) = true := by
      simp only [bne_iff_ne, ne_eq]
      intro he; apply h; rw [he]; exact List.mem_cons_self
    rw [List.takeWhile_cons, ha]
    simp only [if_true]
    rw [ih (fun hm => h (List.mem_cons_of_mem _ hm))]

theorem tw_append_lf (A Bs : Bytes) (h : B.lf ∉ A) : (A ++ B.lf :: Bs).takeWhile (· != B.lf) = A := by
  induction A with
  | nil => simp
  | cons a r ih =>
    have ha : (a != B.lf) = true := by
      simp only [bne_iff_ne, ne_eq]
      intro he; apply h; rw [he]; exact List.mem_cons_self
    rw [List.cons_append, List.takeWhile_cons, ha]
    simp only [if_true]
    rw [ih (fun hm => h (List.mem_cons_of_mem _ hm))]

theorem split_first_lf (y : Bytes) (h : B.lf ∈ y) : ∃ A Bs, y = A ++ B.lf :: Bs ∧ B.lf ∉ A := by
  induction y with
  | nil => cases h
  | cons a r ih =>
    by_cases ha : a = B.lf
    · exact ⟨[], r, by rw [ha]; rfl, by simp⟩
    · rcases List.mem_cons.mp h with h | h
      · exact absurd h.symm ha
      · rcases ih h with ⟨A, Bs, he, hA⟩
        refine ⟨a :: A, Bs, by rw [he]; rfl, ?_⟩
        intro hm
        rcases List.mem_cons.mp hm with h' | h'
        · exact ha h'.symm
        · exact hA h'

theorem firstLineOK_prefix (x y : Bytes) (hp : y <+: x) (hx : FirstLineOK x) : FirstLineOK y := by
  by_cases hm : B.lf ∈ y
  · rcases split_first_lf y hm with ⟨A, Bs, he, hA⟩
    rcases hp with ⟨t, ht⟩
    have hxe : x = A ++ B.lf :: (Bs ++ t) := by rw [← ht, he]; simp
    intro hy
    apply hx
    rw [he, tw_append_lf A Bs hA] at hy
    rw [hxe, tw_append_lf A _ hA]
    refine ⟨?_, hy.2⟩
    rw [List.length_append]
    simp
  · intro hy
    rw [tw_no_lf y hm] at hy
    exact Nat.lt_irrefl _ hy.1

theorem firstLineOK_joinLines_elim (l0 : Bytes) (rest : List Bytes) (h0 : B.lf ∉ l0)
    (h : FirstLineOK (joinLines (l0 :: rest))) : rest = [] ∨ l0.all isBlankHT = false := by
  cases rest with
  | nil => exact Or.inl rfl
  | cons b r =>
    right
    rw [joinLines_cons_cons] at h
    unfold FirstLineOK at h
    rw [tw_append_lf l0 _ h0] at h
    cases hb : l0.all isBlankHT
    · rfl
    · exfalso
      apply h
      refine ⟨?_, hb⟩
      rw [List.length_append]
      simp

theorem firstLineOK_joinLines_intro (l0 : Bytes) (rest : List Bytes) (h0 : B.lf ∉ l0)
    (h : rest = [] ∨ l0.all isBlankHT = false) : FirstLineOK (joinLines (l0 :: rest)) := by
  cases rest with
  | nil =>
    show FirstLineOK l0
    intro hy
    rw [tw_no_lf l0 h0] at hy
    exact Nat.lt_irrefl _ hy.1
  | cons b r =>
    rcases h with h | h
    · cases h
    · rw [joinLines_cons_cons]
      intro hy
      rw [tw_append_lf l0 _ h0, h] at hy
      cases hy.2

/-! ### the last byte -/

theorem blank_trimRightSet (c : UInt8) (h : isBlankHT c = true) : isTrimRightSet c = true := by
  simp only [isBlankHT, Bool.or_eq_true] at h
  simp only [isTrimRightSet, Bool.or_eq_true]
  rcases h with h | h
  · exact Or.inr h
  · exact Or.inl (Or.inr h)

theorem getLast?_append_cons_some (a J : Bytes) (x c : UInt8) (h : J.getLast? = some c) :
    (a ++ x :: J).getLast? = some c := by
  rw [List.getLast?_append, List.getLast?_cons, h]
  rfl

theorem getLast?_append_cons_none (a J : Bytes) (x : UInt8) (h : J.getLast? = none) :
    (a ++ x :: J).getLast? = some x := by
  rw [List.getLast?_append, List.getLast?_cons, h]
  rfl

theorem trimPrefix_last (pre a : Bytes) (c : UInt8) (hp : ∀ c ∈ pre, isBlankHT c = true)
    (h : a.getLast? = some c) (hc : isTrimRightSet c = false) : (trimPrefix pre a).getLast? = some c := by
  unfold trimPrefix
  split
  · rename_i hpa
    have he := List.prefix_iff_eq_append.mp (List.isPrefixOf_iff_prefix.mp hpa)
    rw [← he, List.getLast?_append] at h
    cases hd : (a.drop pre.length).getLast? with
    | none =>
      rw [hd] at h
      simp only [Option.none_or] at h
      have hm : c ∈ pre := List.mem_of_getLast? h
      have := blank_trimRightSet c (hp c hm)
      rw [hc] at this; cases this
    | some c' =>
      rw [hd] at h
      simpa using h
  · exact h

theorem joinLines_map_last (ls : List Bytes) (pre : Bytes) (hp : ∀ c ∈ pre, isBlankHT c = true) :
    (∃ c, (joinLines ls).getLast? = some c ∧ isTrimRightSet c = false) →
    ∃ c, (joinLines (ls.map (trimPrefix pre))).getLast? = some c ∧ isTrimRightSet c = false := by
  induction ls with
  | nil => rintro ⟨c, h, _⟩; cases h
  | cons a r ih =>
    cases r with
    | nil =>
      rintro ⟨c, h, hc⟩
      exact ⟨c, trimPrefix_last pre a c hp h hc, hc⟩
    | cons b r =>
      rintro ⟨c, h, hc⟩
      rw [joinLines_cons_cons] at h
      cases hJ : (joinLines (b :: r)).getLast? with
      | none =>
        rw [getLast?_append_cons_none _ _ _ hJ] at h
        injection h with h
        rw [← h] at hc
        cases hc
      | some c' =>
        rw [getLast?_append_cons_some _ _ _ _ hJ] at h
        injection h with h
        subst h
        rcases ih ⟨c', hJ, hc⟩ with ⟨c'', h'', hc''⟩
        refine ⟨c'', ?_, hc''⟩
        rw [List.map_cons, List.map_cons, joinLines_cons_cons]
        rw [List.map_cons] at h''
        exact getLast?_append_cons_some _ _ _ _ h''

/-! ### normal form of `description` -/

/-- the normal form reached by `description` -/
structure NF (d : Bytes) : Prop where
  no_cr : B.cr ∉ d
  no_blank_head : trimLeadingBlankLines d = d
  no_trail : trimRight isTrimRightSet d = d
  no_indent : longestWhitespacePrefix (splitLines d) = []

theorem trimPrefix_no_lf (pre l : Bytes) (h : B.lf ∉ l) : B.lf ∉ trimPrefix pre l :=
  fun hm => h ((trimPrefix_suffix pre l).sublist.subset hm)

theorem splitLines_dedent (x pre : Bytes) :
    splitLines (joinLines ((splitLines x).map (trimPrefix pre))) = (splitLines x).map (trimPrefix pre) := by
  apply splitLines_joinLines
  · intro h
    exact splitLines_ne_nil x (List.map_eq_nil_iff.mp h)
  · intro l hl
    rcases List.mem_map.mp hl with ⟨l', hl', rfl⟩
    exact trimPrefix_no_lf pre l' (splitLines_no_lf x l' hl')

/-- the dedent step, applied to a text without leading blank line and without trailing white space -/
theorem dedent_nf (x : Bytes) (h1 : FirstLineOK x)
    (h2 : ∀ c, x.getLast? = some c → isTrimRightSet c = false) :
    FirstLineOK (joinLines ((splitLines x).map (trimPrefix (longestWhitespacePrefix (splitLines x))))) ∧
    (∀ c, (joinLines ((splitLines x).map (trimPrefix (longestWhitespacePrefix (splitLines x))))).getLast?
        = some c → isTrimRightSet c = false) ∧
    longestWhitespacePrefix (splitLines
      (joinLines ((splitLines x).map (trimPrefix (longestWhitespacePrefix (splitLines x)))))) = [] := by
  have hblank := lwp_all_blank (splitLines x)
  refine ⟨?_, ?_, ?_⟩
  · cases hs : splitLines x with
    | nil => exact absurd hs (splitLines_ne_nil x)
    | cons l0 rest =>
      have hl0 : B.lf ∉ l0 := splitLines_no_lf x l0 (by rw [hs]; exact List.mem_cons_self)
      have hx : FirstLineOK (joinLines (l0 :: rest)) := by rw [← hs, joinLines_splitLines]; exact h1
      rw [hs] at hblank
      rw [List.map_cons]
      apply firstLineOK_joinLines_intro _ _ (trimPrefix_no_lf _ _ hl0)
      rcases firstLineOK_joinLines_elim l0 rest hl0 hx with h | h
      · left; rw [h]; rfl
      · right; exact all_blank_trimPrefix _ _ hblank h
  · cases hx : x.getLast? with
    | none =>
      have : x = [] := List.getLast?_eq_none_iff.mp hx
      subst this
      intro c hc
      have hd : joinLines ((splitLines []).map (trimPrefix (longestWhitespacePrefix (splitLines [])))) = [] := by
        decide
      rw [hd] at hc
      cases hc
    | some c0 =>
      have hc0 := h2 c0 hx
      have hex : ∃ c, (joinLines (splitLines x)).getLast? = some c ∧ isTrimRightSet c = false := by
        rw [joinLines_splitLines]; exact ⟨c0, hx, hc0⟩
      rcases joinLines_map_last (splitLines x) _ hblank hex with ⟨c1, hc1, ht1⟩
      intro c hc
      rw [hc1] at hc
      injection hc with hc
      rw [← hc]; exact ht1
  · rw [splitLines_dedent]
    exact lwp_dedent (splitLines x)

theorem description_nf (b d : Bytes) (h : description b = .ok d) : NF d := by
  have hcr := description_no_cr' b d h
  unfold description at h
  split at h
  · cases h
  · rename_i b1 hb1
    simp only at h
    injection h with h
    have hx1 : FirstLineOK (trimRight isTrimRightSet (trimLeadingBlankLines b1)) :=
      firstLineOK_prefix _ _ (trimRight_prefix _ _) (tlb_ok b1)
    have hx2 := trimRight_last isTrimRightSet (trimLeadingBlankLines b1)
    rcases dedent_nf _ hx1 hx2 with ⟨n1, n2, n3⟩
    rw [h] at n1 n2 n3
    exact ⟨hcr, tlb_eq_self d n1, trimRight_eq_self _ d n2, n3⟩

theorem removeParens_of_not_shaped (d : Bytes)
    (hp : ¬ (2 ≤ (trimSpaceU d).length ∧ (trimSpaceU d).head? = some B.lpar ∧
      (trimSpaceU d).getLast? = some B.rpar)) : removeParens d = .ok d := by
  unfold removeParens
  simp only
  rw [if_neg hp]

theorem description_nf_fixed' (d : Bytes) (hn : NF d)
    (hp : ¬ (2 ≤ (trimSpaceU d).length ∧ (trimSpaceU d).head? = some B.lpar ∧
      (trimSpaceU d).getLast? = some B.rpar)) : description d = .ok d := by
  unfold description
  rw [normNL_id_of_no_cr d hn.no_cr, removeParens_of_not_shaped d hp]
  simp only
  rw [hn.no_blank_head, hn.no_trail, hn.no_indent]
  have : (splitLines d).map (trimPrefix []) = splitLines d := by
    rw [List.map_congr_left (fun l _ => trimPrefix_nil l), List.map_id']
  rw [this, joinLines_splitLines]

theorem description_last (b d : Bytes) (h : description b = .ok d) :
    d.getLast?.all (fun c => !isTrimRightSet c) = true := by
  have hn := description_nf b d h
  have hl := trimRight_last isTrimRightSet d
  rw [hn.no_trail] at hl
  cases hd : d.getLast? with
  | none => rfl
  | some c => simp [hl c hd]

end JSight.C15
