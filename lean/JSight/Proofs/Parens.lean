import JSight.Model.Context
/-!
Helpers for C05 "explicit parentheses are immaterial" (`Props/C05_Parens.lean`).  Self-contained: imports only
the model (the unfolding equations of the three well-founded loops through one "leave the innermost frame"
step `pop`, the induction principle along it and the token-stream invariant are restated here).

`markForestP p F` sets the parenthesis flag on every directive selected by `p`.  `insertParens p c toks`
is the token-level rewriting: every directive gets its flag, and one ")" is inserted for each *newly*
parenthesised directive at the point where the resolution of the original stream leaves it (before the
token whose walk-up passes it, before the ")" that closes an enclosing one, or at the end of input).

Main result `resolve_sim`: if the original stream resolves to `F`, the rewritten one resolves to
`markForestP p F`.  `resolve_flatten` then identifies the rewritten stream with the pre-order stream of the
flagged forest.

Parametric in the admissibility tables (`rootAdmits/admits/isHTTPMethod` never unfolded).  Core Lean only.
-/
namespace JSight.C05P
open JSight Gen

/-! ### the loops, uniformly -/
@[simp] theorem attach_d (t : Tree) (p : Frame) : (attach t p).d = p.d := rfl
@[simp] theorem attach_kids (t : Tree) (p : Frame) : (attach t p).kids = p.kids ++ [t] := rfl
@[simp] theorem tree_eq (f : Frame) : f.tree = .node f.d f.kids := rfl

/-- leave the innermost open frame `f`: its finished subtree goes to the frame below, or to the roots -/
def pop (f : Frame) (below : List Frame) (roots : List Tree) : List Frame × List Tree :=
  match below with
  | [] => ([], roots ++ [f.tree])
  | p :: rest => (attach f.tree p :: rest, roots)

@[simp] theorem pop_map_d (f : Frame) (below : List Frame) (roots : List Tree) :
    (pop f below roots).1.map (·.d) = below.map (·.d) := by
  cases below <;> simp [pop]

@[simp] theorem pop_length (f : Frame) (below : List Frame) (roots : List Tree) :
    (pop f below roots).1.length = below.length := by
  cases below <;> simp [pop]

theorem anyExplicit_eq (frames : List Frame) :
    anyExplicit frames = (frames.map (·.d)).any (·.explicit) := by
  simp [anyExplicit, List.any_map, Function.comp_def]

@[simp] theorem anyExplicit_nil : anyExplicit [] = false := rfl

@[simp] theorem anyExplicit_cons (f : Frame) (below : List Frame) :
    anyExplicit (f :: below) = (f.d.explicit || anyExplicit below) := by
  simp [anyExplicit]

@[simp] theorem pop_anyExplicit (f : Frame) (below : List Frame) (roots : List Tree) :
    anyExplicit (pop f below roots).1 = anyExplicit below := by
  rw [anyExplicit_eq, anyExplicit_eq, pop_map_d]

/-- induction along the `pop` step -/
theorem frames_ind {motive : List Frame → List Tree → Prop}
    (nil : ∀ roots, motive [] roots)
    (cons : ∀ f below roots, motive (pop f below roots).1 (pop f below roots).2 → motive (f :: below) roots) :
    ∀ frames roots, motive frames roots := by
  intro frames
  generalize hn : frames.length = n
  induction n generalizing frames with
  | zero =>
    intro roots
    cases frames with
    | nil => exact nil roots
    | cons f below => simp at hn
  | succ n ih =>
    intro roots
    cases frames with
    | nil => simp at hn
    | cons f below =>
      exact cons f below roots (ih _ (by simp at hn; simp [hn]) _)

/-! ### unfolding equations -/

theorem closeAll_nil (roots : List Tree) : closeAll [] roots = roots := by
  rw [closeAll]

theorem closeAll_cons (f : Frame) (below : List Frame) (roots : List Tree) :
    closeAll (f :: below) roots = closeAll (pop f below roots).1 (pop f below roots).2 := by
  cases below with
  | nil => rw [closeAll]; simp [pop, closeAll_nil]
  | cons p rest => rw [closeAll]; rfl

theorem closeExplicit_nil (roots : List Tree) :
    closeExplicit [] roots = .error .noExplicitToClose := by
  rw [closeExplicit]

theorem closeExplicit_cons (f : Frame) (below : List Frame) (roots : List Tree) :
    closeExplicit (f :: below) roots =
      if f.d.explicit then .ok { frames := (pop f below roots).1, roots := (pop f below roots).2 }
      else closeExplicit (pop f below roots).1 (pop f below roots).2 := by
  cases below with
  | nil => rw [closeExplicit]; simp [pop, closeExplicit_nil]
  | cons p rest => rw [closeExplicit]; rfl

/-! ### the token-stream invariant -/

@[simp] theorem flattenForest_nil : flattenForest [] = [] := by
  rw [flattenForest]

@[simp] theorem flattenForest_cons (t : Tree) (r : List Tree) :
    flattenForest (t :: r) = flattenTree t ++ flattenForest r := by
  rw [flattenForest]

@[simp] theorem flattenTree_node (d : Dir) (kids : List Tree) :
    flattenTree (.node d kids) =
      Tok.dir d :: (flattenForest kids ++ (if d.explicit then [Tok.close] else [])) := by
  rw [flattenTree]

@[simp] theorem flattenForest_append (a b : List Tree) :
    flattenForest (a ++ b) = flattenForest a ++ flattenForest b := by
  induction a with
  | nil => simp
  | cons t r ih => simp [ih]

/-- the tokens of the open frames, outermost first: the directive and its finished children -/
def openFlatten : List Frame → List Tok
  | [] => []
  | f :: rest => openFlatten rest ++ (Tok.dir f.d :: flattenForest f.kids)

/-- the tokens accounted for by a context -/
def flat (frames : List Frame) (roots : List Tree) : List Tok :=
  flattenForest roots ++ openFlatten frames

/-- leaving a frame keeps the stream, and emits the pending ")" of a parenthesised one -/
theorem flat_pop (f : Frame) (below : List Frame) (roots : List Tree) :
    flat (pop f below roots).1 (pop f below roots).2 =
      flat (f :: below) roots ++ (if f.d.explicit then [Tok.close] else []) := by
  cases below with
  | nil => simp [pop, flat, openFlatten]
  | cons p rest => simp [pop, flat, openFlatten]

theorem closeAll_flat (frames : List Frame) (roots : List Tree) :
    anyExplicit frames = false → flattenForest (closeAll frames roots) = flat frames roots := by
  induction frames, roots using frames_ind with
  | nil roots => intro _; simp [closeAll_nil, flat, openFlatten]
  | cons f below roots ih =>
    intro h
    simp at h
    rw [closeAll_cons, ih (by simp [h]), flat_pop]
    simp [h]

theorem closeExplicit_flat (frames : List Frame) (roots : List Tree) (c : Ctx) :
    closeExplicit frames roots = .ok c → flat c.frames c.roots = flat frames roots ++ [Tok.close] := by
  induction frames, roots using frames_ind with
  | nil roots => rw [closeExplicit_nil]; intro h; cases h
  | cons f below roots ih =>
    rw [closeExplicit_cons]
    split
    · rename_i hx
      intro h; cases h
      simp only []
      rw [flat_pop]; simp [hx]
    · rename_i hx
      intro h
      rw [ih h, flat_pop]; simp [hx]

/-! ### the walk-up loop -/

theorem place_nil (roots : List Tree) (d : Dir) :
    place [] roots d =
      if rootAdmits d.kind then .ok { frames := [{ d := d }], roots := roots }
      else .error (.incorrectContext d.id) := by
  rw [place]

/-- the successful runs of the loop: the first frame either takes the directive, or is left -/
theorem place_cons_ok (f : Frame) (below : List Frame) (roots : List Tree) (d : Dir) (c : Ctx) :
    place (f :: below) roots d = .ok c ↔
      if admitsDir f.d d then c = { frames := { d := d } :: f :: below, roots := roots }
      else f.d.explicit = false ∧ place (pop f below roots).1 (pop f below roots).2 d = .ok c := by
  cases below with
  | nil =>
    rw [place]
    cases ha : admitsDir f.d d with
    | true => simp only [↓reduceIte, Except.ok.injEq]; exact eq_comm
    | false =>
      cases hx : f.d.explicit with
      | true => simp only [Bool.false_eq_true, ↓reduceIte]; split <;> simp
      | false => simp [pop]
  | cons p rest =>
    rw [place]
    cases ha : admitsDir f.d d with
    | true => simp only [↓reduceIte, Except.ok.injEq]; exact eq_comm
    | false =>
      cases hx : f.d.explicit with
      | true => simp only [Bool.false_eq_true, ↓reduceIte]; split <;> simp
      | false => simp [pop]

theorem place_flat (frames : List Frame) (roots : List Tree) (d : Dir) (c : Ctx) :
    place frames roots d = .ok c → flat c.frames c.roots = flat frames roots ++ [Tok.dir d] := by
  induction frames, roots using frames_ind with
  | nil roots =>
    rw [place_nil]
    split
    · intro h; cases h; simp [flat, openFlatten]
    · intro h; cases h
  | cons f below roots ih =>
    rw [place_cons_ok]
    split
    · intro h; subst h; simp [flat, openFlatten]
    · intro ⟨hx, h⟩
      rw [ih h, flat_pop]
      simp [hx]

theorem consume_flat (c : Ctx) (t : Tok) (c' : Ctx) :
    consume c t = .ok c' → flat c'.frames c'.roots = flat c.frames c.roots ++ [t] := by
  cases t with
  | dir d => exact place_flat _ _ _ _
  | close => exact closeExplicit_flat _ _ _

theorem consumeAll_flat (toks : List Tok) (c c' : Ctx) :
    consumeAll c toks = .ok c' → flat c'.frames c'.roots = flat c.frames c.roots ++ toks := by
  induction toks generalizing c with
  | nil => intro h; simp [consumeAll] at h; cases h; simp
  | cons t r ih =>
    intro h
    rw [consumeAll] at h
    split at h
    · rename_i c1 h1
      rw [ih _ h, consume_flat _ _ _ h1]; simp
    · cases h

/-- nothing is lost or reordered: the pre-order token stream of the resulting forest is the input stream -/
theorem resolve_flatten (toks : List Tok) (f : List Tree) (h : resolve toks = .ok f) : flattenForest f = toks := by
  unfold resolve at h
  split at h
  · cases h
  · rename_i c hc
    split at h
    · cases h
    · rename_i hx
      cases h
      rw [closeAll_flat _ _ (by simpa using hx), consumeAll_flat _ _ _ hc]
      simp [flat, openFlatten]

/-! ### marking -/

/-- the directive with its parenthesis flag set when selected -/
def mk (p : Dir → Bool) (d : Dir) : Dir := if p d then { d with explicit := true } else d

/-- selected and not parenthesised already -/
def nw (p : Dir → Bool) (d : Dir) : Bool := p d && !d.explicit

mutual
  def markTreeP (p : Dir → Bool) : Tree → Tree
    | .node d kids => .node (mk p d) (markForestP p kids)
  def markForestP (p : Dir → Bool) : List Tree → List Tree
    | [] => []
    | t :: r => markTreeP p t :: markForestP p r
end

@[simp] theorem markForestP_nil (p : Dir → Bool) : markForestP p [] = [] := by rw [markForestP]
@[simp] theorem markForestP_cons (p : Dir → Bool) (t : Tree) (r : List Tree) :
    markForestP p (t :: r) = markTreeP p t :: markForestP p r := by rw [markForestP]
@[simp] theorem markTreeP_node (p : Dir → Bool) (d : Dir) (kids : List Tree) :
    markTreeP p (.node d kids) = .node (mk p d) (markForestP p kids) := by rw [markTreeP]

@[simp] theorem markForestP_append (p : Dir → Bool) (a b : List Tree) :
    markForestP p (a ++ b) = markForestP p a ++ markForestP p b := by
  induction a with
  | nil => simp
  | cons t r ih => simp [ih]

@[simp] theorem mk_kind (p : Dir → Bool) (d : Dir) : (mk p d).kind = d.kind := by
  unfold mk; split <;> rfl
@[simp] theorem mk_hasPath (p : Dir → Bool) (d : Dir) : (mk p d).hasPath = d.hasPath := by
  unfold mk; split <;> rfl
@[simp] theorem mk_id (p : Dir → Bool) (d : Dir) : (mk p d).id = d.id := by
  unfold mk; split <;> rfl
theorem mk_explicit (p : Dir → Bool) (d : Dir) : (mk p d).explicit = (d.explicit || nw p d) := by
  unfold mk nw; split <;> simp [*]
@[simp] theorem admitsDir_mk (p : Dir → Bool) (f d : Dir) : admitsDir (mk p f) (mk p d) = admitsDir f d := by
  simp [admitsDir, pathMethodUnderURL]

def mkFrame (p : Dir → Bool) (f : Frame) : Frame := { d := mk p f.d, kids := markForestP p f.kids }
def mkFrames (p : Dir → Bool) (fs : List Frame) : List Frame := fs.map (mkFrame p)
def mkCtx (p : Dir → Bool) (c : Ctx) : Ctx := { frames := mkFrames p c.frames, roots := markForestP p c.roots }

@[simp] theorem mkFrame_d (p : Dir → Bool) (f : Frame) : (mkFrame p f).d = mk p f.d := rfl
@[simp] theorem mkFrame_kids (p : Dir → Bool) (f : Frame) : (mkFrame p f).kids = markForestP p f.kids := rfl
@[simp] theorem mkFrames_nil (p : Dir → Bool) : mkFrames p [] = [] := rfl
@[simp] theorem mkFrames_cons (p : Dir → Bool) (f : Frame) (r : List Frame) :
    mkFrames p (f :: r) = mkFrame p f :: mkFrames p r := rfl
@[simp] theorem mkCtx_frames (p : Dir → Bool) (c : Ctx) : (mkCtx p c).frames = mkFrames p c.frames := rfl
@[simp] theorem mkCtx_roots (p : Dir → Bool) (c : Ctx) : (mkCtx p c).roots = markForestP p c.roots := rfl

theorem mkCtx_empty (p : Dir → Bool) : mkCtx p {} = {} := by
  simp [mkCtx]

theorem mkFrame_tree (p : Dir → Bool) (f : Frame) : (mkFrame p f).tree = markTreeP p f.tree := by
  simp [Frame.tree]

theorem mkFrame_attach (p : Dir → Bool) (t : Tree) (g : Frame) :
    mkFrame p (attach t g) = attach (markTreeP p t) (mkFrame p g) := by
  simp [mkFrame, attach]

theorem mk_pop (p : Dir → Bool) (f : Frame) (below : List Frame) (roots : List Tree) :
    pop (mkFrame p f) (mkFrames p below) (markForestP p roots) =
      (mkFrames p (pop f below roots).1, markForestP p (pop f below roots).2) := by
  cases below with
  | nil => simp [pop]
  | cons g rest => simp [pop, mkFrame_attach]

theorem closeAll_mk (p : Dir → Bool) (S : List Frame) (roots : List Tree) :
    closeAll (mkFrames p S) (markForestP p roots) = markForestP p (closeAll S roots) := by
  induction S, roots using frames_ind with
  | nil roots => simp [closeAll_nil]
  | cons f below roots ih =>
    rw [mkFrames_cons, closeAll_cons, closeAll_cons, mk_pop]
    exact ih

/-- number of newly parenthesised directives in a stack -/
def pend (p : Dir → Bool) : List Dir → Nat
  | [] => 0
  | d :: r => (if nw p d then 1 else 0) + pend p r

theorem anyExplicit_mk_false (p : Dir → Bool) (S : List Frame)
    (hx : anyExplicit S = false) (hp : pend p (S.map (·.d)) = 0) : anyExplicit (mkFrames p S) = false := by
  induction S with
  | nil => rfl
  | cons f r ih =>
    simp only [anyExplicit_cons, Bool.or_eq_false_iff] at hx
    simp only [List.map_cons, pend] at hp
    have h1 : nw p f.d = false := by
      cases h : nw p f.d with
      | false => rfl
      | true => simp [h] at hp
    have h2 : pend p (r.map (·.d)) = 0 := by omega
    simp [mkFrames_cons, anyExplicit_cons, mk_explicit, hx.1, h1, ih hx.2 h2]

/-! ### runs -/

theorem consumeAll_nil (c : Ctx) : consumeAll c [] = .ok c := rfl

theorem consumeAll_cons (c : Ctx) (t : Tok) (r : List Tok) :
    consumeAll c (t :: r) = match consume c t with
      | .ok c' => consumeAll c' r
      | .error e => .error e := rfl

theorem consumeAll_cons_ok (c c' : Ctx) (t : Tok) (r : List Tok) (h : consume c t = .ok c') :
    consumeAll c (t :: r) = consumeAll c' r := by
  rw [consumeAll_cons, h]

theorem consumeAll_append (c c' : Ctx) (a b : List Tok) (h : consumeAll c a = .ok c') :
    consumeAll c (a ++ b) = consumeAll c' b := by
  induction a generalizing c with
  | nil => rw [consumeAll_nil] at h; cases h; rfl
  | cons t r ih =>
    rw [consumeAll_cons] at h
    rw [List.cons_append, consumeAll_cons]
    split at h
    · exact ih _ h
    · cases h

theorem close_skip (g : Frame) (below : List Frame) (roots : List Tree) (hx : g.d.explicit = false) :
    closeExplicit (g :: below) roots = closeExplicit (pop g below roots).1 (pop g below roots).2 := by
  rw [closeExplicit_cons]; simp [hx]

theorem close_top (g : Frame) (below : List Frame) (roots : List Tree) (hx : g.d.explicit = true) :
    closeExplicit (g :: below) roots = .ok { frames := (pop g below roots).1, roots := (pop g below roots).2 } := by
  rw [closeExplicit_cons]; simp [hx]

/-- a ")" on a stack whose innermost frame is not parenthesised first leaves that frame -/
theorem skip_close (g : Frame) (below : List Frame) (roots : List Tree) (hx : g.d.explicit = false)
    (r : List Tok) :
    consumeAll { frames := g :: below, roots := roots } (Tok.close :: r) =
      consumeAll { frames := (pop g below roots).1, roots := (pop g below roots).2 } (Tok.close :: r) := by
  rw [consumeAll_cons, consumeAll_cons]
  simp only [consume]
  rw [close_skip _ _ _ hx]

/-- so does a directive the frame does not take -/
theorem skip_run (g : Frame) (below : List Frame) (roots : List Tree) (hx : g.d.explicit = false)
    (d : Dir) (ha : admitsDir g.d d = false) (k : Nat) (c : Ctx)
    (h : consumeAll { frames := (pop g below roots).1, roots := (pop g below roots).2 }
        (List.replicate k Tok.close ++ [Tok.dir d]) = .ok c) :
    consumeAll { frames := g :: below, roots := roots } (List.replicate k Tok.close ++ [Tok.dir d]) = .ok c := by
  cases k with
  | zero =>
    simp only [List.replicate_zero, List.nil_append] at h ⊢
    rw [consumeAll_cons] at h ⊢
    simp only [consume] at h ⊢
    split at h
    · rename_i c' hc
      have : place (g :: below) roots d = .ok c' := by
        rw [place_cons_ok]; simp only [ha, Bool.false_eq_true, ↓reduceIte]; exact ⟨hx, hc⟩
      rw [this]; exact h
    · cases h
  | succ k =>
    rw [List.replicate_succ, List.cons_append] at h ⊢
    rw [skip_close g below roots hx]; exact h

theorem skip_run_close (g : Frame) (below : List Frame) (roots : List Tree) (hx : g.d.explicit = false)
    (k : Nat) :
    consumeAll { frames := g :: below, roots := roots } (List.replicate k Tok.close ++ [Tok.close]) =
      consumeAll { frames := (pop g below roots).1, roots := (pop g below roots).2 }
        (List.replicate k Tok.close ++ [Tok.close]) := by
  cases k with
  | zero => exact skip_close g below roots hx _
  | succ k =>
    rw [List.replicate_succ, List.cons_append]
    exact skip_close g below roots hx _

/-- a ")" on a marked stack whose innermost frame is newly parenthesised leaves exactly that frame -/
theorem close_marked_top (p : Dir → Bool) (f : Frame) (below : List Frame) (roots : List Tree)
    (hn : nw p f.d = true) (r : List Tok) :
    consumeAll (mkCtx p { frames := f :: below, roots := roots }) (Tok.close :: r) =
      consumeAll (mkCtx p { frames := (pop f below roots).1, roots := (pop f below roots).2 }) r := by
  rw [consumeAll_cons]
  simp only [consume, mkCtx_frames, mkCtx_roots, mkFrames_cons]
  rw [close_top _ _ _ (by simp [mk_explicit, hn]), mk_pop]
  rfl

/-- a frame that is neither parenthesised nor newly so stays unparenthesised -/
theorem mk_not_explicit (p : Dir → Bool) (d : Dir) (hx : d.explicit = false) (hn : nw p d = false) :
    (mk p d).explicit = false := by
  simp [mk_explicit, hx, hn]

/-! ### where the ")" go -/

/-- number of ")" to insert before the directive `d`: the newly parenthesised directives its walk-up leaves -/
def closesFor (p : Dir → Bool) : List Dir → Dir → Nat
  | [], _ => 0
  | f :: below, d => if admitsDir f d then 0 else (if nw p f then 1 else 0) + closesFor p below d

/-- number of ")" to insert before an original ")": the newly parenthesised directives it leaves -/
def closesForClose (p : Dir → Bool) : List Dir → Nat
  | [] => 0
  | f :: below => if f.explicit then 0 else (if nw p f then 1 else 0) + closesForClose p below

def closesBefore (p : Dir → Bool) (ds : List Dir) : Tok → Nat
  | .dir d => closesFor p ds d
  | .close => closesForClose p ds

def mkTok (p : Dir → Bool) : Tok → Tok
  | .dir d => .dir (mk p d)
  | .close => .close

/-- the rewritten stream, from the state `c` of the original run -/
def insertParens (p : Dir → Bool) (c : Ctx) : List Tok → List Tok
  | [] => List.replicate (pend p (c.frames.map (·.d))) Tok.close
  | t :: r =>
    match consume c t with
    | .ok c' => List.replicate (closesBefore p (c.frames.map (·.d)) t) Tok.close ++ mkTok p t :: insertParens p c' r
    | .error _ => []

/-! ### one step of the simulation -/

/-- a directive: after the pending ")" the marked run places the marked directive where the original did -/
theorem place_sim (p : Dir → Bool) (frames : List Frame) (roots : List Tree) (d : Dir) (c1 : Ctx) :
    place frames roots d = .ok c1 →
    consumeAll (mkCtx p { frames := frames, roots := roots })
        (List.replicate (closesFor p (frames.map (·.d)) d) Tok.close ++ [Tok.dir (mk p d)]) =
      .ok (mkCtx p c1) := by
  induction frames, roots using frames_ind with
  | nil roots =>
    intro h
    rw [place_nil] at h
    split at h
    · rename_i hr
      cases h
      simp only [List.map_nil, closesFor, List.replicate_zero, List.nil_append]
      rw [consumeAll_cons]
      simp only [consume, mkCtx_frames, mkCtx_roots, mkFrames_nil]
      rw [place_nil]
      simp only [mk_kind, hr, ↓reduceIte]
      rw [consumeAll_nil]
      simp [mkCtx, mkFrame]
    · cases h
  | cons f below roots ih =>
    intro h
    rw [place_cons_ok] at h
    simp only [List.map_cons, closesFor]
    cases ha : admitsDir f.d d with
    | true =>
      simp only [ha, ↓reduceIte] at h ⊢
      subst h
      simp only [List.replicate_zero, List.nil_append]
      rw [consumeAll_cons]
      simp only [consume, mkCtx_frames, mkCtx_roots, mkFrames_cons]
      have : place (mkFrame p f :: mkFrames p below) (markForestP p roots) (mk p d) =
          .ok { frames := { d := mk p d } :: mkFrame p f :: mkFrames p below, roots := markForestP p roots } := by
        rw [place_cons_ok]; simp [ha]
      rw [this]
      simp only []
      rw [consumeAll_nil]
      simp [mkCtx, mkFrame]
    | false =>
      simp only [ha, Bool.false_eq_true, ↓reduceIte] at h ⊢
      obtain ⟨hx, h⟩ := h
      have ih' := ih h
      rw [pop_map_d] at ih'
      cases hn : nw p f.d with
      | true =>
        simp only [↓reduceIte]
        rw [Nat.add_comm, List.replicate_succ, List.cons_append, close_marked_top p f below roots hn]
        exact ih'
      | false =>
        simp only [Bool.false_eq_true, ↓reduceIte, Nat.zero_add]
        simp only [mkCtx, mkFrames_cons]
        apply skip_run (mkFrame p f) (mkFrames p below) (markForestP p roots)
          (mk_not_explicit p _ hx hn) (mk p d) (by simpa using ha) (closesFor p (below.map (·.d)) d)
        rw [mk_pop]
        exact ih'

/-- an original ")": after the pending ")" the marked run closes the same parenthesised directive -/
theorem close_sim (p : Dir → Bool) (frames : List Frame) (roots : List Tree) (c1 : Ctx) :
    closeExplicit frames roots = .ok c1 →
    consumeAll (mkCtx p { frames := frames, roots := roots })
        (List.replicate (closesForClose p (frames.map (·.d))) Tok.close ++ [Tok.close]) =
      .ok (mkCtx p c1) := by
  induction frames, roots using frames_ind with
  | nil roots => intro h; rw [closeExplicit_nil] at h; cases h
  | cons f below roots ih =>
    intro h
    rw [closeExplicit_cons] at h
    simp only [List.map_cons, closesForClose]
    cases hx : f.d.explicit with
    | true =>
      simp only [hx, ↓reduceIte] at h ⊢
      cases h
      simp only [List.replicate_zero, List.nil_append]
      rw [consumeAll_cons]
      simp only [consume, mkCtx_frames, mkCtx_roots, mkFrames_cons]
      rw [close_top _ _ _ (by simp [mk_explicit, hx]), mk_pop]
      rfl
    | false =>
      simp only [hx, Bool.false_eq_true, ↓reduceIte] at h ⊢
      have ih' := ih h
      rw [pop_map_d] at ih'
      cases hn : nw p f.d with
      | true =>
        simp only [↓reduceIte]
        rw [Nat.add_comm, List.replicate_succ, List.cons_append, close_marked_top p f below roots hn]
        exact ih'
      | false =>
        simp only [Bool.false_eq_true, ↓reduceIte, Nat.zero_add]
        have := skip_run_close (mkFrame p f) (mkFrames p below) (markForestP p roots)
          (mk_not_explicit p _ hx hn) (closesForClose p (below.map (·.d)))
        rw [mk_pop] at this
        simp only [mkCtx, mkFrames_cons]
        rw [this]
        exact ih'

theorem consume_sim (p : Dir → Bool) (c c1 : Ctx) (t : Tok) (h : consume c t = .ok c1) :
    consumeAll (mkCtx p c) (List.replicate (closesBefore p (c.frames.map (·.d)) t) Tok.close ++ [mkTok p t]) =
      .ok (mkCtx p c1) := by
  cases t with
  | dir d => exact place_sim p c.frames c.roots d c1 h
  | close => exact close_sim p c.frames c.roots c1 h

/-- end of input: the pending ")" close every newly parenthesised directive still open -/
theorem closes_all (p : Dir → Bool) (S : List Frame) (roots : List Tree) :
    anyExplicit S = false →
    ∃ c2, consumeAll (mkCtx p { frames := S, roots := roots }) (List.replicate (pend p (S.map (·.d))) Tok.close) = .ok c2 ∧
      anyExplicit c2.frames = false ∧ closeAll c2.frames c2.roots = markForestP p (closeAll S roots) := by
  induction S, roots using frames_ind with
  | nil roots =>
    intro _
    exact ⟨_, rfl, rfl, by simp [mkCtx, closeAll_nil]⟩
  | cons f below roots ih =>
    intro hx
    simp only [anyExplicit_cons, Bool.or_eq_false_iff] at hx
    have ih' := ih (by rw [pop_anyExplicit]; exact hx.2)
    rw [pop_map_d] at ih'
    rw [closeAll_cons]
    simp only [List.map_cons, pend]
    cases hn : nw p f.d with
    | true =>
      simp only [↓reduceIte]
      rw [Nat.add_comm, List.replicate_succ, close_marked_top p f below roots hn]
      exact ih'
    | false =>
      simp only [Bool.false_eq_true, ↓reduceIte, Nat.zero_add]
      cases hk : pend p (below.map (·.d)) with
      | zero =>
        refine ⟨_, rfl, ?_, ?_⟩
        · simp only [mkCtx_frames]
          exact anyExplicit_mk_false p (f :: below) (by simp [hx]) (by simp [pend, hn, hk])
        · simp only [mkCtx_frames, mkCtx_roots]
          rw [closeAll_mk, closeAll_cons]
      | succ k =>
        rw [hk] at ih'
        have := skip_close (mkFrame p f) (mkFrames p below) (markForestP p roots)
          (mk_not_explicit p _ hx.1 hn) (List.replicate k Tok.close)
        rw [mk_pop] at this
        rw [List.replicate_succ]
        simp only [mkCtx, mkFrames_cons]
        rw [this, ← List.replicate_succ]
        exact ih'

/-! ### the whole run -/

theorem run_sim (p : Dir → Bool) (toks : List Tok) (c c1 : Ctx) :
    consumeAll c toks = .ok c1 → anyExplicit c1.frames = false →
    ∃ c2, consumeAll (mkCtx p c) (insertParens p c toks) = .ok c2 ∧
      anyExplicit c2.frames = false ∧
      closeAll c2.frames c2.roots = markForestP p (closeAll c1.frames c1.roots) := by
  induction toks generalizing c with
  | nil =>
    intro h hx
    rw [consumeAll_nil] at h
    cases h
    exact closes_all p _ _ hx
  | cons t r ih =>
    intro h hx
    cases hc : consume c t with
    | error e => rw [consumeAll_cons, hc] at h; cases h
    | ok c' =>
      rw [consumeAll_cons, hc] at h
      simp only [insertParens, hc]
      have h1 := consume_sim p c c' t hc
      have : List.replicate (closesBefore p (c.frames.map (·.d)) t) Tok.close ++ mkTok p t :: insertParens p c' r =
          (List.replicate (closesBefore p (c.frames.map (·.d)) t) Tok.close ++ [mkTok p t]) ++ insertParens p c' r := by
        simp
      rw [this, consumeAll_append _ _ _ _ h1]
      exact ih c' h hx

/-- the rewritten stream resolves to the marked forest -/
theorem resolve_sim (p : Dir → Bool) (toks : List Tok) (F : List Tree) (h : resolve toks = .ok F) :
    resolve (insertParens p {} toks) = .ok (markForestP p F) := by
  unfold resolve at h
  split at h
  · cases h
  · rename_i c hc
    split at h
    · cases h
    · rename_i hx
      cases h
      obtain ⟨c2, h2, hx2, hF⟩ := run_sim p toks {} c hc (by simpa using hx)
      rw [mkCtx_empty] at h2
      unfold resolve
      rw [h2]
      simp [hx2, hF]

/-! ### the rewriting keeps the directives -/

def dirsOf : List Tok → List Dir
  | [] => []
  | .dir d :: r => d :: dirsOf r
  | .close :: r => dirsOf r

theorem dirsOf_append (a b : List Tok) : dirsOf (a ++ b) = dirsOf a ++ dirsOf b := by
  induction a with
  | nil => rfl
  | cons t r ih => cases t <;> simp [dirsOf, ih]

theorem dirsOf_replicate_close (n : Nat) : dirsOf (List.replicate n Tok.close) = [] := by
  induction n with
  | zero => rfl
  | succ n ih => simp [List.replicate_succ, dirsOf, ih]

def closesOf : List Tok → Nat
  | [] => 0
  | .dir _ :: r => closesOf r
  | .close :: r => closesOf r + 1

theorem closesOf_append (a b : List Tok) : closesOf (a ++ b) = closesOf a + closesOf b := by
  induction a with
  | nil => simp [closesOf]
  | cons t r ih => cases t <;> simp [closesOf, ih] <;> omega

theorem closesOf_replicate_close (n : Nat) : closesOf (List.replicate n Tok.close) = n := by
  induction n with
  | zero => rfl
  | succ n ih => simp [List.replicate_succ, closesOf, ih]

/-- the directives of the rewritten stream are the original ones, flagged -/
theorem dirsOf_insertParens (p : Dir → Bool) (toks : List Tok) (c c1 : Ctx) (h : consumeAll c toks = .ok c1) :
    dirsOf (insertParens p c toks) = (dirsOf toks).map (mk p) := by
  induction toks generalizing c with
  | nil => simp [insertParens, dirsOf_replicate_close, dirsOf]
  | cons t r ih =>
    cases hc : consume c t with
    | error e => rw [consumeAll_cons, hc] at h; cases h
    | ok c' =>
      rw [consumeAll_cons, hc] at h
      simp only [insertParens, hc]
      rw [dirsOf_append, dirsOf_replicate_close]
      cases t with
      | dir d => simp [mkTok, dirsOf, ih c' h]
      | close => simp [mkTok, dirsOf, ih c' h]

/-- number of newly parenthesised directives of a stream -/
def nwCount (p : Dir → Bool) : List Tok → Nat
  | [] => 0
  | .dir d :: r => (if nw p d then 1 else 0) + nwCount p r
  | .close :: r => nwCount p r

/-- a directive step: the inserted ")" are the newly parenthesised directives that stop being open -/
theorem place_pend (p : Dir → Bool) (frames : List Frame) (roots : List Tree) (d : Dir) (c1 : Ctx) :
    place frames roots d = .ok c1 →
    closesFor p (frames.map (·.d)) d + pend p (c1.frames.map (·.d)) =
      pend p (frames.map (·.d)) + (if nw p d then 1 else 0) := by
  induction frames, roots using frames_ind with
  | nil roots =>
    intro h
    rw [place_nil] at h
    split at h
    · cases h; simp [closesFor, pend]
    · cases h
  | cons f below roots ih =>
    intro h
    rw [place_cons_ok] at h
    simp only [List.map_cons, closesFor]
    split at h
    · rename_i ha
      subst h; simp [ha, pend]; omega
    · rename_i ha
      have := ih h.2
      rw [pop_map_d] at this
      simp only [ha, Bool.false_eq_true, ↓reduceIte, pend]
      omega

theorem close_pend (p : Dir → Bool) (frames : List Frame) (roots : List Tree) (c1 : Ctx) :
    closeExplicit frames roots = .ok c1 →
    closesForClose p (frames.map (·.d)) + pend p (c1.frames.map (·.d)) = pend p (frames.map (·.d)) := by
  induction frames, roots using frames_ind with
  | nil roots => intro h; rw [closeExplicit_nil] at h; cases h
  | cons f below roots ih =>
    intro h
    rw [closeExplicit_cons] at h
    simp only [List.map_cons, closesForClose, pend]
    split at h
    · rename_i hx
      cases h
      simp only [pop_map_d, hx, ↓reduceIte]
      have : nw p f.d = false := by simp [nw, hx]
      simp [this]
    · rename_i hx
      have := ih h
      rw [pop_map_d] at this
      simp only [hx, Bool.false_eq_true, ↓reduceIte]
      omega

/-- exactly one ")" is inserted for each newly parenthesised directive -/
theorem closesOf_insertParens (p : Dir → Bool) (toks : List Tok) (c c1 : Ctx) (h : consumeAll c toks = .ok c1) :
    closesOf (insertParens p c toks) = closesOf toks + nwCount p toks + pend p (c.frames.map (·.d)) := by
  induction toks generalizing c with
  | nil => simp [insertParens, closesOf_replicate_close, closesOf, nwCount]
  | cons t r ih =>
    cases hc : consume c t with
    | error e => rw [consumeAll_cons, hc] at h; cases h
    | ok c' =>
      rw [consumeAll_cons, hc] at h
      simp only [insertParens, hc]
      rw [closesOf_append, closesOf_replicate_close]
      cases t with
      | dir d =>
        have := place_pend p c.frames c.roots d c' hc
        simp only [mkTok, closesOf, closesBefore, nwCount, ih c' h]
        omega
      | close =>
        have := close_pend p c.frames c.roots c' hc
        simp only [mkTok, closesOf, closesBefore, nwCount, ih c' h]
        omega

/-! ### decidable equality of forests and results (only for the closing `example`s of the Props file) -/

mutual
  def decTree : (a b : Tree) → Decidable (a = b)
    | .node d k, .node d' k' =>
      if hd : d = d' then
        match decForest k k' with
        | isTrue hk => isTrue (by rw [hd, hk])
        | isFalse hk => isFalse (by intro h; cases h; exact hk rfl)
      else isFalse (by intro h; cases h; exact hd rfl)
  def decForest : (a b : List Tree) → Decidable (a = b)
    | [], [] => isTrue rfl
    | [], _ :: _ => isFalse (by intro h; cases h)
    | _ :: _, [] => isFalse (by intro h; cases h)
    | a :: as, b :: bs =>
      match decTree a b, decForest as bs with
      | isTrue h1, isTrue h2 => isTrue (by rw [h1, h2])
      | isFalse h1, _ => isFalse (by intro h; cases h; exact h1 rfl)
      | _, isFalse h2 => isFalse (by intro h; cases h; exact h2 rfl)
end

instance treeDecEq : DecidableEq Tree := decTree

instance exceptDecEq {ε α : Type} [DecidableEq ε] [DecidableEq α] : DecidableEq (Except ε α)
  | .ok a, .ok b => if h : a = b then isTrue (by rw [h]) else isFalse (by intro h'; cases h'; exact h rfl)
  | .error a, .error b => if h : a = b then isTrue (by rw [h]) else isFalse (by intro h'; cases h'; exact h rfl)
  | .ok _, .error _ => isFalse (by intro h; cases h)
  | .error _, .ok _ => isFalse (by intro h; cases h)


end JSight.C05P
