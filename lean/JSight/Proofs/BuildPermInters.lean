import JSight.Model.Build
import JSight.Proofs.BuildPerm
/-!
Helpers of `Props/C10_Inters.lean` (C10, catalog construction): exchanging two neighbouring INTERACTION blocks of
the top level.  After such an exchange the interactions, the automatically created tags and the id lists inside
the tags come out in another order, and the run-wide bookkeeping (`similar`, `uniqURL`, `protoURLs`) is equal only
as a finite map / as sets.

* part A: `similar` as a finite map (`MapEq`, `checkSimilar_perm`);
* part B: the tags up to order (`TagEqv`, `TagsRel`);
* part C: the simulation relation `Sim` and what every `add…` function does to it (`addDirective_sim`, `lift_sim`);
* part D: the checks after the fold (`finish_sim`).
-/
set_option linter.unusedSimpArgs false
set_option linter.unusedVariables false

namespace JSight.BuildPermI
open JSight JSight.Build JSight.Gen JSight.BuildInv JSight.BuildPerm

/-! ### relations between optional values -/

def ORel {α : Type} (Q : α → α → Prop) : Option α → Option α → Prop
  | some a, some b => Q a b
  | none, none => True
  | _, _ => False

theorem ORel.none_iff {α : Type} {Q : α → α → Prop} {o o' : Option α} (h : ORel Q o o') : o' = none ↔ o = none := by
  cases o <;> cases o' <;> simp_all [ORel]

/-! ### part A: `similar` is a finite map -/

/-- the two association lists are the same finite map -/
def MapEq (m m' : List (Bytes × Bytes)) : Prop := ∀ k, lookup m' k = lookup m k

theorem MapEq.refl (m : List (Bytes × Bytes)) : MapEq m m := fun _ => rfl
theorem MapEq.symm {m m' : List (Bytes × Bytes)} (h : MapEq m m') : MapEq m' m := fun k => (h k).symm
theorem MapEq.trans {m m' m'' : List (Bytes × Bytes)} (h : MapEq m m') (h' : MapEq m' m'') : MapEq m m'' :=
  fun k => (h' k).trans (h k)

theorem lookup_cons (k v : Bytes) (m : List (Bytes × Bytes)) (q : Bytes) :
    lookup ((k, v) :: m) q = if k == q then some v else lookup m q := by
  unfold lookup
  simp only [List.find?_cons]
  by_cases h : (k == q) = true
  · simp [h]
  · simp [h]

theorem MapEq.cons {m m' : List (Bytes × Bytes)} (h : MapEq m m') (k v : Bytes) :
    MapEq ((k, v) :: m) ((k, v) :: m') := by
  intro q; rw [lookup_cons, lookup_cons, h q]

/-- one step of `checkSimilar` -/
def simStep (m : List (Bytes × Bytes)) (k v : Bytes) : Option (List (Bytes × Bytes)) :=
  match lookup m k with
  | some w => if w != v then none else some ((k, v) :: m)
  | none => some ((k, v) :: m)

theorem checkSimilar_cons (m : List (Bytes × Bytes)) (path par : Bytes) (r : List (Bytes × Bytes)) :
    checkSimilar m ((path, par) :: r) = (simStep m (removeLastSegment path) par).bind (checkSimilar · r) := by
  rw [checkSimilar]; unfold simStep
  cases lookup m (removeLastSegment path) with
  | none => rfl
  | some w => simp only []; split <;> rfl

theorem simStep_some {m : List (Bytes × Bytes)} {k v : Bytes} {s : List (Bytes × Bytes)} :
    simStep m k v = some s ↔ (s = (k, v) :: m ∧ ∀ w, lookup m k = some w → w = v) := by
  unfold simStep
  cases h : lookup m k with
  | none => simp [eq_comm]
  | some w =>
    simp only []
    by_cases hw : w = v
    · subst hw; simp [eq_comm]
    · simp [hw]

theorem simStep_none {m : List (Bytes × Bytes)} {k v : Bytes} :
    simStep m k v = none ↔ ∃ w, lookup m k = some w ∧ w ≠ v := by
  unfold simStep
  cases h : lookup m k with
  | none => simp
  | some w =>
    simp only []
    by_cases hw : w = v
    · subst hw; simp
    · simp [hw]

/-- a key is never bound to another value: the verdict of one step depends on the finite map only -/
theorem simStep_mapEq {m m' : List (Bytes × Bytes)} (h : MapEq m m') (k v : Bytes) :
    ORel MapEq (simStep m k v) (simStep m' k v) := by
  unfold simStep
  rw [h k]
  cases lookup m k with
  | none => exact h.cons k v
  | some w =>
    simp only []
    split
    · trivial
    · exact h.cons k v

theorem checkSimilar_mapEq : ∀ (pp : List (Bytes × Bytes)) {m m' : List (Bytes × Bytes)}, MapEq m m' →
    ORel MapEq (checkSimilar m pp) (checkSimilar m' pp)
  | [], m, m', h => by rw [checkSimilar, checkSimilar]; exact h
  | (path, par) :: r, m, m', h => by
    rw [checkSimilar_cons, checkSimilar_cons]
    have := simStep_mapEq h (removeLastSegment path) par
    cases h1 : simStep m (removeLastSegment path) par with
    | none =>
      rw [h1] at this
      cases h2 : simStep m' (removeLastSegment path) par with
      | none => trivial
      | some s' => rw [h2] at this; cases this
    | some s =>
      rw [h1] at this
      cases h2 : simStep m' (removeLastSegment path) par with
      | none => rw [h2] at this; cases this
      | some s' => rw [h2] at this; exact checkSimilar_mapEq r this

theorem ORel.trans_map {o o' o'' : Option (List (Bytes × Bytes))} (h : ORel MapEq o o') (h' : ORel MapEq o' o'') :
    ORel MapEq o o'' := by
  cases o <;> cases o' <;> cases o'' <;> simp_all [ORel]
  exact h.trans h'

/-- two steps in either order -/
theorem simStep_swap {m m' : List (Bytes × Bytes)} (h : MapEq m m') (k1 v1 k2 v2 : Bytes) :
    ORel MapEq ((simStep m k1 v1).bind (simStep · k2 v2)) ((simStep m' k2 v2).bind (simStep · k1 v1)) := by
  have key : ∀ q, lookup ((k2, v2) :: (k1, v1) :: m) q = lookup ((k1, v1) :: (k2, v2) :: m') q ∨
      (k1 = k2 ∧ v1 ≠ v2) := by
    intro q
    by_cases e : k1 = k2 ∧ v1 ≠ v2
    · exact Or.inr e
    · left
      simp only [lookup_cons, h q]
      by_cases h1 : (k1 == q) = true <;> by_cases h2 : (k2 == q) = true <;> simp [h1, h2]
      have e1 : k1 = q := by simpa using h1
      have e2 : k2 = q := by simpa using h2
      by_cases hv : v1 = v2
      · exact hv.symm
      · exact absurd ⟨e1.trans e2.symm, hv⟩ e
  cases h1 : simStep m k1 v1 with
  | none =>
    obtain ⟨w, hw, hne⟩ := simStep_none.1 h1
    simp only [Option.bind_none]
    cases h2 : simStep m' k2 v2 with
    | none => trivial
    | some s2 =>
      obtain ⟨rfl, h2'⟩ := simStep_some.1 h2
      simp only [Option.bind_some]
      have : simStep ((k2, v2) :: m') k1 v1 = none := by
        rw [simStep_none, lookup_cons]
        by_cases hk : (k2 == k1) = true
        · have hk' : k2 = k1 := by simpa using hk
          simp only [hk, if_true]
          refine ⟨v2, rfl, ?_⟩
          intro e; subst e
          apply hne
          apply h2' w
          rw [h k2, hk']; exact hw
        · simp only [hk, if_false, Bool.false_eq_true]
          exact ⟨w, by rw [h k1]; exact hw, hne⟩
      rw [this]; trivial
  | some s1 =>
    obtain ⟨rfl, h1'⟩ := simStep_some.1 h1
    simp only [Option.bind_some]
    cases h12 : simStep ((k1, v1) :: m) k2 v2 with
    | none =>
      obtain ⟨w, hw, hne⟩ := simStep_none.1 h12
      rw [lookup_cons] at hw
      cases h2 : simStep m' k2 v2 with
      | none => trivial
      | some s2 =>
        obtain ⟨rfl, h2'⟩ := simStep_some.1 h2
        simp only [Option.bind_some]
        by_cases hk : (k1 == k2) = true
        · have hk' : k1 = k2 := by simpa using hk
          simp only [hk, if_true, Option.some.injEq] at hw
          subst hw
          have : simStep ((k2, v2) :: m') k1 v1 = none := by
            rw [simStep_none, lookup_cons]
            refine ⟨v2, by simp [hk'], fun e => hne e.symm⟩
          rw [this]; trivial
        · simp only [hk, if_false, Bool.false_eq_true] at hw
          exact absurd (h2' w (by rw [h k2]; exact hw)) hne
    | some s12 =>
      obtain ⟨rfl, h12'⟩ := simStep_some.1 h12
      have h2 : simStep m' k2 v2 = some ((k2, v2) :: m') := by
        rw [simStep_some]
        refine ⟨rfl, fun w hw => ?_⟩
        apply h12' w
        rw [lookup_cons]
        by_cases hk : (k1 == k2) = true
        · have hk' : k1 = k2 := by simpa using hk
          simp only [hk, if_true, Option.some.injEq]
          subst hk'
          exact (h1' w (by rw [← h k1]; exact hw)).symm
        · simp only [hk, if_false, Bool.false_eq_true]; rw [← h k2]; exact hw
      have h21 : simStep ((k2, v2) :: m') k1 v1 = some ((k1, v1) :: (k2, v2) :: m') := by
        rw [simStep_some]
        refine ⟨rfl, fun w hw => ?_⟩
        rw [lookup_cons] at hw
        by_cases hk : (k2 == k1) = true
        · have hk' : k2 = k1 := by simpa using hk
          simp only [hk, if_true, Option.some.injEq] at hw
          subst hw
          exact (h12' v1 (by rw [lookup_cons]; simp [hk'])).symm
        · simp only [hk, if_false, Bool.false_eq_true] at hw
          exact h1' w (by rw [← h k1]; exact hw)
      rw [h2]; simp only [Option.bind_some]; rw [h21]
      intro q
      rcases key q with e | ⟨e1, e2⟩
      · exact e.symm
      · exfalso
        apply e2
        exact h12' v1 (by rw [lookup_cons]; simp [e1])

/-- the verdict of `checkSimilar` and the resulting finite map do not depend on the order of the entries -/
theorem checkSimilar_perm {pp pp' : List (Bytes × Bytes)} (hp : pp.Perm pp') :
    ∀ {m m' : List (Bytes × Bytes)}, MapEq m m' → ORel MapEq (checkSimilar m pp) (checkSimilar m' pp') := by
  induction hp with
  | nil => intro m m' h; rw [checkSimilar, checkSimilar]; exact h
  | cons x _ ih =>
    intro m m' h
    obtain ⟨path, par⟩ := x
    rw [checkSimilar_cons, checkSimilar_cons]
    have := simStep_mapEq h (removeLastSegment path) par
    cases h1 : simStep m (removeLastSegment path) par with
    | none =>
      rw [h1] at this
      cases h2 : simStep m' (removeLastSegment path) par with
      | none => trivial
      | some s' => rw [h2] at this; cases this
    | some s =>
      rw [h1] at this
      cases h2 : simStep m' (removeLastSegment path) par with
      | none => rw [h2] at this; cases this
      | some s' => rw [h2] at this; exact ih this
  | swap x y l =>
    intro m m' h
    obtain ⟨p1, v1⟩ := x
    obtain ⟨p2, v2⟩ := y
    rw [checkSimilar_cons, checkSimilar_cons]
    have := simStep_swap h (removeLastSegment p2) v2 (removeLastSegment p1) v1
    cases h1 : simStep m (removeLastSegment p2) v2 with
    | none =>
      rw [h1] at this
      simp only [Option.bind_none] at this ⊢
      cases h2 : simStep m' (removeLastSegment p1) v1 with
      | none => trivial
      | some s2 =>
        rw [h2] at this
        simp only [Option.bind_some] at this ⊢
        rw [checkSimilar_cons]
        cases h3 : simStep s2 (removeLastSegment p2) v2 with
        | none => trivial
        | some s3 => rw [h3] at this; cases this
    | some s1 =>
      rw [h1] at this
      simp only [Option.bind_some] at this ⊢
      rw [checkSimilar_cons]
      cases h12 : simStep s1 (removeLastSegment p1) v1 with
      | none =>
        rw [h12] at this
        simp only [Option.bind_none]
        cases h2 : simStep m' (removeLastSegment p1) v1 with
        | none => trivial
        | some s2 =>
          rw [h2] at this
          simp only [Option.bind_some] at this ⊢
          rw [checkSimilar_cons]
          cases h3 : simStep s2 (removeLastSegment p2) v2 with
          | none => trivial
          | some s3 => rw [h3] at this; cases this
      | some s12 =>
        rw [h12] at this
        simp only [Option.bind_some]
        cases h2 : simStep m' (removeLastSegment p1) v1 with
        | none => rw [h2] at this; cases this
        | some s2 =>
          rw [h2] at this
          simp only [Option.bind_some] at this ⊢
          rw [checkSimilar_cons]
          cases h3 : simStep s2 (removeLastSegment p2) v2 with
          | none => rw [h3] at this; cases this
          | some s3 =>
            rw [h3] at this
            simp only [Option.bind_some]
            exact checkSimilar_mapEq l this
  | trans _ _ ih1 ih2 =>
    intro m m' h
    exact (ih1 h).trans_map (ih2 (MapEq.refl m'))

theorem checkSimilar_append (m : List (Bytes × Bytes)) (p q : List (Bytes × Bytes)) :
    checkSimilar m (p ++ q) = (checkSimilar m p).bind (checkSimilar · q) := by
  induction p generalizing m with
  | nil => rw [List.nil_append, checkSimilar]; rfl
  | cons x p ih =>
    obtain ⟨path, par⟩ := x
    rw [List.cons_append, checkSimilar_cons, checkSimilar_cons]
    cases simStep m (removeLastSegment path) par with
    | none => rfl
    | some s => simp only [Option.bind_some]; exact ih s

/-- the parameters of two paths checked in either order -/
theorem checkSimilar_comm {m : List (Bytes × Bytes)} {p q : List (Bytes × Bytes)} {s1 s12 : List (Bytes × Bytes)}
    (h1 : checkSimilar m p = some s1) (h2 : checkSimilar s1 q = some s12) :
    ∃ s2 s21, checkSimilar m q = some s2 ∧ checkSimilar s2 p = some s21 ∧ MapEq s12 s21 := by
  have := checkSimilar_perm (List.perm_append_comm : (p ++ q).Perm (q ++ p)) (MapEq.refl m)
  rw [checkSimilar_append, checkSimilar_append, h1] at this
  simp only [Option.bind_some] at this
  rw [h2] at this
  cases h3 : checkSimilar m q with
  | none => rw [h3] at this; cases this
  | some s2 =>
    rw [h3] at this
    simp only [Option.bind_some] at this
    cases h4 : checkSimilar s2 p with
    | none => rw [h4] at this; cases this
    | some s21 => rw [h4] at this; exact ⟨s2, s21, rfl, h4, this⟩

/-! ### part B: the tags up to order -/

/-- the same tag: name, title, declaration flag, description; the id lists up to order -/
structure TagEqv (t t' : TagM) : Prop where
  name : t'.name = t.name
  title : t'.title = t.title
  declared : t'.declared = t.declared
  descr : t'.descr = t.descr
  http : t'.http.Perm t.http
  rpc : t'.rpc.Perm t.rpc

theorem TagEqv.refl (t : TagM) : TagEqv t t := ⟨rfl, rfl, rfl, rfl, List.Perm.refl _, List.Perm.refl _⟩
theorem TagEqv.symm {t t' : TagM} (h : TagEqv t t') : TagEqv t' t :=
  ⟨h.1.symm, h.2.symm, h.3.symm, h.4.symm, h.5.symm, h.6.symm⟩
theorem TagEqv.trans {t t' t'' : TagM} (h : TagEqv t t') (h' : TagEqv t' t'') : TagEqv t t'' :=
  ⟨h'.1.trans h.1, h'.2.trans h.2, h'.3.trans h.3, h'.4.trans h.4, h'.5.trans h.5, h'.6.trans h.6⟩

theorem TagEqv.attach {t t' : TagM} (h : TagEqv t t') (i : IId) :
    TagEqv (Build.attach i t) (Build.attach i t') := by
  unfold Build.attach
  cases i.proto
  · exact ⟨h.1, h.2, h.3, h.4, h.5.append_right _, h.6⟩
  · exact ⟨h.1, h.2, h.3, h.4, h.5, h.6.append_right _⟩

theorem TagEqv.attach_comm (t : TagM) (i j : IId) :
    TagEqv (Build.attach j (Build.attach i t)) (Build.attach i (Build.attach j t)) := by
  unfold Build.attach
  cases i.proto <;> cases j.proto
  · exact ⟨rfl, rfl, rfl, rfl, perm_snoc2 _ _ _, List.Perm.refl _⟩
  · exact TagEqv.refl _
  · exact TagEqv.refl _
  · exact ⟨rfl, rfl, rfl, rfl, List.Perm.refl _, perm_snoc2 _ _ _⟩

/-- the two tag lists hold the same tags (`TagEqv`) under the same, unique, names -/
structure TagsRel (G G' : List TagM) : Prop where
  nd : (G.map (·.name)).Nodup
  nd' : (G'.map (·.name)).Nodup
  look : ∀ n : Bytes, ORel TagEqv (G.find? (fun x => x.name == n)) (G'.find? (fun x => x.name == n))

theorem TagsRel.refl {G : List TagM} (h : (G.map (·.name)).Nodup) : TagsRel G G :=
  ⟨h, h, fun n => by cases G.find? (fun x => x.name == n) <;> simp [ORel, TagEqv.refl]⟩

theorem find_upd (G : List TagM) (m n : Bytes) (u : TagM → TagM) (hu : ∀ x, (u x).name = x.name) :
    (G.map fun x => if x.name == m then u x else x).find? (fun x => x.name == n) =
      (G.find? (fun x => x.name == n)).map (fun x => if x.name == m then u x else x) := by
  rw [List.find?_map]
  have : ((fun x : TagM => x.name == n) ∘ fun x => if (x.name == m) = true then u x else x)
      = (fun x => x.name == n) := by
    funext x; simp only [Function.comp]; split
    · rw [hu]
    · rfl
  rw [this]

theorem find_name {G : List TagM} {n : Bytes} {t : TagM} (h : G.find? (fun x => x.name == n) = some t) :
    t.name = n := by simpa using List.find?_some h

/-- an update of the tag named `m` by a function that respects `TagEqv` -/
theorem TagsRel.upd {G G' : List TagM} (h : TagsRel G G') (m : Bytes) (u : TagM → TagM)
    (hu : ∀ x, (u x).name = x.name) (hr : ∀ t t', TagEqv t t' → TagEqv (u t) (u t')) :
    TagsRel (G.map fun x => if x.name == m then u x else x) (G'.map fun x => if x.name == m then u x else x) := by
  refine ⟨?_, ?_, ?_⟩
  · rw [map_name_upd]; exact h.nd
    intro x; split
    · exact hu x
    · rfl
  · rw [map_name_upd]; exact h.nd'
    intro x; split
    · exact hu x
    · rfl
  · intro n
    rw [find_upd G m n u hu, find_upd G' m n u hu]
    have := h.look n
    cases h1 : G.find? (fun x => x.name == n) with
    | none =>
      rw [h1] at this
      cases h2 : G'.find? (fun x => x.name == n) with
      | none => trivial
      | some t' => rw [h2] at this; cases this
    | some t =>
      rw [h1] at this
      cases h2 : G'.find? (fun x => x.name == n) with
      | none => rw [h2] at this; cases this
      | some t' =>
        rw [h2] at this
        have e : TagEqv t t' := this
        simp only [Option.map_some]
        show TagEqv _ _
        rw [e.name]
        split
        · exact hr t t' e
        · exact e

/-- a tag of a new name at the end -/
theorem TagsRel.app {G G' : List TagM} (h : TagsRel G G') (t : TagM)
    (hf : G.find? (fun x => x.name == t.name) = none) : TagsRel (G ++ [t]) (G' ++ [t]) := by
  have hf' : G'.find? (fun x => x.name == t.name) = none := (h.look t.name).none_iff.2 hf
  refine ⟨?_, ?_, ?_⟩
  · apply nodup_snoc _ _ _ h.nd
    intro x hx
    simpa using List.find?_eq_none.1 hf x hx
  · apply nodup_snoc _ _ _ h.nd'
    intro x hx
    simpa using List.find?_eq_none.1 hf' x hx
  · intro n
    rw [List.find?_append, List.find?_append]
    have := h.look n
    cases h1 : G.find? (fun x => x.name == n) with
    | none =>
      rw [h1] at this
      cases h2 : G'.find? (fun x => x.name == n) with
      | none =>
        simp only [Option.none_or, List.find?_cons, List.find?_nil]
        split
        · exact TagEqv.refl t
        · trivial
      | some t' => rw [h2] at this; cases this
    | some t1 =>
      rw [h1] at this
      cases h2 : G'.find? (fun x => x.name == n) with
      | none => rw [h2] at this; cases this
      | some t' => rw [h2] at this; exact this

theorem tagFrame_rel : TagFrame TagsRel where
  find := by
    intro G G' h m
    have := h.look m
    cases h1 : G.find? (fun x => x.name == m) with
    | none =>
      rw [h1] at this
      cases h2 : G'.find? (fun x => x.name == m) with
      | none => rfl
      | some t' => rw [h2] at this; cases this
    | some t =>
      rw [h1] at this
      cases h2 : G'.find? (fun x => x.name == m) with
      | none => rw [h2] at this; cases this
      | some t' =>
        rw [h2] at this
        have e : TagEqv t t' := this
        simp [e.declared]
  upd h m i := h.upd m (attach i) (attach_name i) (fun _ _ e => e.attach i)
  app h t hf := h.app t hf

/-! ### part C: the simulation relation -/

theorem find?_perm_key {α κ : Type} [BEq κ] [LawfulBEq κ] (nm : α → κ) {l l' : List α} (hp : l'.Perm l) :
    (l.map nm).Nodup → ∀ n, l'.find? (fun x => nm x == n) = l.find? (fun x => nm x == n) := by
  induction hp with
  | nil => intros; rfl
  | cons x _ ih =>
    intro hn n
    simp only [List.map_cons, List.nodup_cons] at hn
    simp only [List.find?_cons]
    rw [ih hn.2]
  | swap x y l =>
    intro hn n
    simp only [List.map_cons, List.nodup_cons, List.mem_cons, not_or] at hn
    simp only [List.find?_cons]
    by_cases hx : (nm x == n) = true <;> by_cases hy : (nm y == n) = true
    · exfalso
      have e1 : nm x = n := by simpa using hx
      have e2 : nm y = n := by simpa using hy
      exact hn.1.1 (e1.trans e2.symm)
    · simp [hx, hy]
    · simp [hx, hy]
    · simp [hx, hy]
  | trans h1 h2 ih1 ih2 =>
    intro hn n
    rw [ih1 (((h2.map nm).nodup_iff).2 hn) n, ih2 hn n]

/-- the two catalogs are the same up to the order of the interactions, of the tags and of the id lists inside the
tags; `similar` is the same finite map, `uniqURL` and `protoURLs` the same sets -/
structure Sim (c c' : Cat) : Prop where
  jsight : c'.jsight = c.jsight
  info : c'.info = c.info
  servers : c'.servers = c.servers
  types : c'.types = c.types
  inters : c'.inters.Perm c.inters
  keys : (c.inters.map (·.iid)).Nodup
  tags : TagsRel c.tags c'.tags
  uniq : ∀ p : Bytes, c'.uniqURL.contains p = c.uniqURL.contains p
  similar : MapEq c.similar c'.similar
  proto : ∀ n : Nat, c'.protoURLs.contains n = c.protoURLs.contains n

theorem Sim.getInter {c c' : Cat} (h : Sim c c') (i : IId) : c'.getInter i = c.getInter i :=
  find?_perm_key (fun x : InterM => x.iid) h.inters h.keys i

theorem Sim.hasInter {c c' : Cat} (h : Sim c c') (i : IId) : c'.hasInter i = c.hasInter i := h.inters.any_eq

def Keeps (f : InterM → InterM) : Prop := ∀ x, (f x).iid = x.iid

theorem Sim.mapInters {c c' : Cat} (h : Sim c c') (g : InterM → InterM) (hg : Keeps g) :
    Sim { c with inters := c.inters.map g } { c' with inters := c'.inters.map g } := by
  refine ⟨h.jsight, h.info, h.servers, h.types, h.inters.map g, ?_, h.tags, h.uniq, h.similar, h.proto⟩
  show ((c.inters.map g).map _).Nodup
  rw [List.map_map]
  have : ((fun x : InterM => x.iid) ∘ g) = (fun x => x.iid) := by funext x; exact hg x
  rw [this]; exact h.keys

theorem keeps_upd (i : IId) {f : InterM → InterM} (hf : Keeps f) : Keeps (fun x => if x.iid == i then f x else x) := by
  intro x
  show (if x.iid == i then f x else x).iid = x.iid
  split
  · exact hf x
  · rfl

theorem Sim.updInter {c c' : Cat} (h : Sim c c') (i : IId) {f : InterM → InterM} (hf : Keeps f) :
    Sim (c.updInter i f) (c'.updInter i f) := h.mapInters _ (keeps_upd i hf)

theorem hasInter_false {c : Cat} {i : IId} (h : c.hasInter i = false) : i ∉ c.inters.map (·.iid) := by
  intro hm
  obtain ⟨x, hx, rfl⟩ := List.mem_map.1 hm
  have := List.any_eq_false.1 h x hx
  simp at this

theorem Sim.snoc {c c' : Cat} (h : Sim c c') (x : InterM) (hf : c.hasInter x.iid = false) :
    Sim { c with inters := c.inters ++ [x] } { c' with inters := c'.inters ++ [x] } := by
  refine ⟨h.jsight, h.info, h.servers, h.types, h.inters.append_right _, ?_, h.tags, h.uniq, h.similar, h.proto⟩
  show ((c.inters ++ [x]).map _).Nodup
  rw [List.map_append, List.nodup_append]
  refine ⟨h.keys, by simp, ?_⟩
  intro a ha b hb
  simp only [List.map_cons, List.map_nil, List.mem_singleton] at hb
  subst hb
  intro e; subst e
  exact hasInter_false hf ha

theorem Sim.setTags {c c' : Cat} (h : Sim c c') {G G' : List TagM} (hg : TagsRel G G') :
    Sim { c with tags := G } { c' with tags := G' } :=
  ⟨h.jsight, h.info, h.servers, h.types, h.inters, h.keys, hg, h.uniq, h.similar, h.proto⟩

theorem Sim.setSimilar {c c' : Cat} (h : Sim c c') {s s' : List (Bytes × Bytes)} (hs : MapEq s s') :
    Sim { c with similar := s } { c' with similar := s' } :=
  ⟨h.jsight, h.info, h.servers, h.types, h.inters, h.keys, h.tags, h.uniq, hs, h.proto⟩

theorem nodup_of_map {α β : Type} (f : α → β) : ∀ l : List α, (l.map f).Nodup → l.Nodup
  | [], _ => List.nodup_nil
  | a :: l, h => by
    simp only [List.map_cons, List.nodup_cons] at h ⊢
    exact ⟨fun ha => h.1 (List.mem_map_of_mem ha), nodup_of_map f l h.2⟩

theorem Sim.refl {c : Cat} (h : Inv c) : Sim c c := by
  refine ⟨rfl, rfl, rfl, rfl, List.Perm.refl _, ?_, TagsRel.refl h.tags_nodup, fun _ => rfl, MapEq.refl _, fun _ => rfl⟩
  have := h.keys_nodup
  have e : c.inters.map (·.iid.text) = (c.inters.map (·.iid)).map (·.text) := by rw [List.map_map]; rfl
  rw [e] at this
  exact nodup_of_map _ _ this

/-! #### functions that read and write `jsight`, `info`, `servers`, `types` only -/

def put4 (c r : Cat) : Cat := { c with jsight := r.jsight, info := r.info, servers := r.servers, types := r.types }

structure Eq4 (c c' : Cat) : Prop where
  jsight : c'.jsight = c.jsight
  info : c'.info = c.info
  servers : c'.servers = c.servers
  types : c'.types = c.types

def Gen4 (f : Cat → R Cat) : Prop := ∀ c c', Eq4 c c' → f c' = rmap (put4 c') (f c)

macro "gen4_tac" h:ident : tactic => `(tactic| (
  simp only [bind_eq, pure_eq, rmap, put4, ($h).jsight, ($h).info, ($h).servers, ($h).types]
  repeat' (first | rfl | split)))

theorem addJSight_gen4 (d : BDir) : Gen4 (addJSight d) := by
  intro c c' h; unfold addJSight; gen4_tac h
theorem addInfo_gen4 (d : BDir) : Gen4 (addInfo d) := by
  intro c c' h; unfold addInfo; gen4_tac h
theorem addTitle_gen4 (d : BDir) : Gen4 (addTitle d) := by
  intro c c' h; unfold addTitle; gen4_tac h
theorem addVersion_gen4 (d : BDir) : Gen4 (addVersion d) := by
  intro c c' h; unfold addVersion; gen4_tac h
theorem addServer_gen4 (d : BDir) : Gen4 (addServer d) := by
  intro c c' h; unfold addServer; gen4_tac h
theorem addBaseUrl_gen4 (d : BDir) (anc : List Up) : Gen4 (addBaseUrl d anc) := by
  intro c c' h; unfold addBaseUrl; gen4_tac h
theorem addType_gen4 (d : BDir) : Gen4 (addType d) := by
  intro c c' h; unfold addType liftAt; gen4_tac h

theorem gen4_sim {f : Cat → R Cat} (hf : Gen4 f) {c c' : Cat} (h : Sim c c') : RRel Sim (f c) (f c') := by
  rw [hf c c' ⟨h.jsight, h.info, h.servers, h.types⟩]
  cases hd : f c with
  | error e => trivial
  | ok d =>
    have e := hf c c ⟨rfl, rfl, rfl, rfl⟩
    rw [hd] at e
    simp only [rmap_ok] at e
    have e' : d = put4 c d := Except.ok.inj e
    have e1 : d.inters = c.inters := (congrArg Cat.inters e' : d.inters = _)
    have e2 : d.tags = c.tags := (congrArg Cat.tags e' : d.tags = _)
    have e3 : d.uniqURL = c.uniqURL := (congrArg Cat.uniqURL e' : d.uniqURL = _)
    have e4 : d.similar = c.similar := (congrArg Cat.similar e' : d.similar = _)
    have e5 : d.protoURLs = c.protoURLs := (congrArg Cat.protoURLs e' : d.protoURLs = _)
    refine ⟨rfl, rfl, rfl, rfl, ?_, ?_, ?_, ?_, ?_, ?_⟩
    · show c'.inters.Perm d.inters
      rw [e1]; exact h.inters
    · rw [e1]; exact h.keys
    · show TagsRel d.tags c'.tags
      rw [e2]; exact h.tags
    · show ∀ p, c'.uniqURL.contains p = d.uniqURL.contains p
      rw [e3]; exact h.uniq
    · show MapEq d.similar c'.similar
      rw [e4]; exact h.similar
    · show ∀ n, c'.protoURLs.contains n = d.protoURLs.contains n
      rw [e5]; exact h.proto

/-! #### functions that read and write one interaction -/


theorem updInter_id (c : Cat) (i : IId) : c.updInter i (fun x => x) = c := by
  unfold Cat.updInter
  have : (c.inters.map fun x => if x.iid == i then x else x) = c.inters := by
    conv => rhs; rw [← List.map_id c.inters]
    apply List.map_congr_left
    intro x _; split <;> rfl
  rw [this]

theorem getInter_updInter (c : Cat) (i j : IId) {f : InterM → InterM} (hf : Keeps f) :
    (c.updInter i f).getInter j = (c.getInter j).map (fun x => if x.iid == i then f x else x) := by
  unfold Cat.updInter Cat.getInter
  simp only []
  rw [List.find?_map]
  have : ((fun x : InterM => x.iid == j) ∘ fun x => if (x.iid == i) = true then f x else x)
      = (fun x => x.iid == j) := by
    funext x; simp only [Function.comp]; split
    · rw [hf]
    · rfl
  rw [this]

theorem getInter_iid {c : Cat} {i : IId} {x : InterM} (h : c.getInter i = some x) : x.iid = i := by
  unfold Cat.getInter at h
  simpa using List.find?_some h

theorem getInter_updInter_same (c : Cat) (i : IId) {f : InterM → InterM} (hf : Keeps f) :
    (c.updInter i f).getInter i = (c.getInter i).map f := by
  rw [getInter_updInter c i i hf]
  cases h : c.getInter i with
  | none => rfl
  | some x => simp [getInter_iid h]

theorem getInter_updInter_other (c : Cat) {i j : IId} (hij : i ≠ j) {f : InterM → InterM} (hf : Keeps f) :
    (c.updInter i f).getInter j = c.getInter j := by
  rw [getInter_updInter c i j hf]
  cases h : c.getInter j with
  | none => rfl
  | some x =>
    have : x.iid ≠ i := by rw [getInter_iid h]; exact Ne.symm hij
    simp [this]

theorem updInter_updInter (c : Cat) (i : IId) {f : InterM → InterM} (g : InterM → InterM) (hf : Keeps f) :
    (c.updInter i f).updInter i g = c.updInter i (fun x => g (f x)) := by
  unfold Cat.updInter
  simp only [List.map_map]
  congr 1
  apply List.map_congr_left
  intro x _
  simp only [Function.comp]
  by_cases h : (x.iid == i) = true
  · simp [h, hf x]
  · simp [h]

theorem updInter_comm (c : Cat) {i j : IId} (hij : i ≠ j) {f g : InterM → InterM} (hf : Keeps f) (hg : Keeps g) :
    (c.updInter i f).updInter j g = (c.updInter j g).updInter i f := by
  unfold Cat.updInter
  simp only [List.map_map]
  congr 1
  apply List.map_congr_left
  intro x _
  simp only [Function.comp]
  by_cases h1 : (x.iid == i) = true <;> by_cases h2 : (x.iid == j) = true
  · exfalso; apply hij
    have e1 : x.iid = i := by simpa using h1
    have e2 : x.iid = j := by simpa using h2
    exact e1.symm.trans e2
  · simp [h1, h2, hf x]
  · simp [h1, h2, hg x]
  · simp [h1, h2]

/-- whether the tag `n` is there and DECLARED (what `tagsFromDirective` reads of a catalog) -/
def declOf (c : Cat) (n : Bytes) : Bool :=
  match c.getTag n with
  | some t => t.declared
  | none => false

/-- the same declared tag names -/
def DeclEq (c c' : Cat) : Prop := ∀ n, declOf c' n = declOf c n

theorem DeclEq.refl (c : Cat) : DeclEq c c := fun _ => rfl
theorem DeclEq.trans {c c' c'' : Cat} (h : DeclEq c c') (h' : DeclEq c' c'') : DeclEq c c'' :=
  fun n => (h' n).trans (h n)
theorem DeclEq.of_tags {c c' : Cat} (h : c'.tags = c.tags) : DeclEq c c' := by
  intro n; unfold declOf Cat.getTag; rw [h]

theorem tagsFromDirective_decl {c c' : Cat} (h : DeclEq c c') (td : BDir) :
    tagsFromDirective c' td = tagsFromDirective c td := by
  unfold tagsFromDirective
  refine ite_congr rfl (fun _ => rfl) (fun _ => ite_congr rfl (fun _ => rfl) (fun _ =>
    ite_congr ?_ (fun _ => rfl) (fun _ => rfl)))
  congr 2
  funext n
  exact h n

/-- `F` reads the interaction `i` (and the names of the declared tags) only and answers by an update of that
interaction -/
def LocalAt (i : IId) (F : Cat → R Cat) : Prop :=
  ∀ c c' : Cat, c'.getInter i = c.getInter i → DeclEq c c' →
    (∃ e e', F c = .error e ∧ F c' = .error e') ∨
    (∃ f, Keeps f ∧ F c = .ok (c.updInter i f) ∧ F c' = .ok (c'.updInter i f))

theorem LocalAt.err {i : IId} (e : BErr) : LocalAt i (fun _ => .error e) :=
  fun _ _ _ _ => Or.inl ⟨e, e, rfl, rfl⟩

theorem LocalAt.ok {i : IId} : LocalAt i (fun c => .ok c) :=
  fun c c' _ _ => Or.inr ⟨fun x => x, fun _ => rfl, by rw [updInter_id], by rw [updInter_id]⟩

theorem LocalAt.congr {i : IId} {F G : Cat → R Cat} (hG : LocalAt i G) (h : ∀ c, F c = G c) : LocalAt i F := by
  have : F = G := funext h
  rw [this]; exact hG

theorem LocalAt.bind {i : IId} {F G : Cat → R Cat} (hF : LocalAt i F) (hG : LocalAt i G) :
    LocalAt i (fun c => F c >>= G) := by
  intro c c' hg hd
  rcases hF c c' hg hd with ⟨e, e', h1, h2⟩ | ⟨f, hf, h1, h2⟩
  · left; simp only [h1, h2]; exact ⟨e, e', rfl, rfl⟩
  · simp only [h1, h2, ok_bind]
    have hg' : (c'.updInter i f).getInter i = (c.updInter i f).getInter i := by
      rw [getInter_updInter_same _ _ hf, getInter_updInter_same _ _ hf, hg]
    rcases hG _ _ hg' (fun n => hd n) with ⟨e, e', h3, h4⟩ | ⟨g, hg2, h3, h4⟩
    · left; exact ⟨e, e', h3, h4⟩
    · right
      refine ⟨fun x => g (f x), fun x => (hg2 (f x)).trans (hf x), ?_, ?_⟩
      · rw [h3, updInter_updInter _ _ _ hf]
      · rw [h4, updInter_updInter _ _ _ hf]

theorem LocalAt.bind_static {i : IId} {α : Type} (x : R α) {K : α → Cat → R Cat} (hK : ∀ a, LocalAt i (K a)) :
    LocalAt i (fun c => x >>= fun a => K a c) := by
  cases x with
  | error e => exact LocalAt.err e
  | ok a => exact hK a

theorem LocalAt.ite {i : IId} (p : Prop) [Decidable p] {F G : Cat → R Cat} (hF : LocalAt i F) (hG : LocalAt i G) :
    LocalAt i (fun c => if p then F c else G c) := by
  by_cases h : p
  · simp only [h, if_true]; exact hF
  · simp only [h, if_false]; exact hG

/-- look the interaction up, refuse it or update it -/
theorem LocalAt.lookup {i : IId} (e1 : BErr) (chk : InterM → Option BErr) (f : InterM → InterM) (hf : Keeps f) :
    LocalAt i (fun c => match c.getInter i with
      | none => .error e1
      | some x => match chk x with
        | some e => .error e
        | none => .ok (c.updInter i f)) := by
  intro c c' hg _
  simp only [hg]
  cases c.getInter i with
  | none => exact Or.inl ⟨_, _, rfl, rfl⟩
  | some x =>
    simp only []
    cases chk x with
    | some e => exact Or.inl ⟨_, _, rfl, rfl⟩
    | none => exact Or.inr ⟨f, hf, rfl, rfl⟩

theorem Sim.declEq {c c' : Cat} (h : Sim c c') : DeclEq c c' := by
  intro n
  have e := tagFrame_rel.find h.tags n
  unfold declOf Cat.getTag
  cases h1 : c'.tags.find? (fun x => x.name == n) <;> cases h2 : c.tags.find? (fun x => x.name == n) <;>
    simp_all

theorem localAt_sim {i : IId} {F : Cat → R Cat} (hF : LocalAt i F) {c c' : Cat} (h : Sim c c') :
    RRel Sim (F c) (F c') := by
  rcases hF c c' (h.getInter i) h.declEq with ⟨e, e', h1, h2⟩ | ⟨f, hf, h1, h2⟩
  · rw [h1, h2]; trivial
  · rw [h1, h2]; exact h.updInter i hf

/-- the id the functions below compute from the chain of ancestors -/
def idOr (r : Except Msg IId) : IId :=
  match r with
  | .ok j => j
  | .error _ => ⟨.http, [], []⟩

theorem idOr_spec (r : Except Msg IId) : ∀ j, r = .ok j → j = idOr r := by
  intro j h; rw [h]; rfl

theorem addQuery_local (d : BDir) (anc : List Up) (i : IId)
    (hi : ∀ j, httpIdOf (d :: anc.map (·.d)) = .ok j → j = i) : LocalAt i (addQuery d anc) := by
  cases hh : httpIdOf (d :: anc.map (·.d)) with
  | error m =>
    intro c c' _ _
    left
    unfold addQuery
    simp only [hh, liftAt, bind_eq, fail]
    repeat' split
    all_goals exact ⟨_, _, rfl, rfl⟩
  | ok j =>
    cases hi j hh
    refine LocalAt.congr (LocalAt.ite (!d.annot.isEmpty) (LocalAt.err ⟨d.id, .annotationForbidden⟩)
      (LocalAt.ite (d.body.isNone) (LocalAt.err ⟨d.id, .emptyBody⟩)
        (LocalAt.lookup ⟨d.id, .resourceNotFound⟩
          (fun x => if x.query.isSome then some ⟨d.id, .notUnique⟩ else none)
          (fun x => { x with query := some { format := if (d.param "Format").isEmpty then htmlFormEncoded else d.param "Format",
                                             ex := d.param "QueryExample" } }) (fun _ => rfl)))) ?_
    intro c
    unfold addQuery
    simp only [hh, liftAt, bind_eq, pure_eq, fail]
    repeat' split
    all_goals first | rfl | simp_all


macro "local_tac" hh:ident hg:ident : tactic => `(tactic| (
  simp only [$hh:ident, liftAt, bind_eq, pure_eq, fail, $hg:ident]
  repeat' split
  all_goals first
    | exact Or.inl ⟨_, _, rfl, rfl⟩
    | (refine Or.inr ⟨_, ?_, rfl, rfl⟩; exact fun _ => rfl)
    | (refine Or.inr ⟨fun x => x, fun _ => rfl, ?_, ?_⟩ <;> rw [updInter_id])))

theorem addRpcSchema_local (b : Bool) (d : BDir) (anc : List Up) (i : IId)
    (hi : ∀ j, rpcIdOf (d :: anc.map (·.d)) = .ok j → j = i) : LocalAt i (addRpcSchema b d anc) := by
  intro c c' hg _
  unfold addRpcSchema
  cases hh : rpcIdOf (d :: anc.map (·.d)) with
  | error m => local_tac hh hg
  | ok j => cases hi j hh; local_tac hh hg

theorem addRequestBody_local (d : BDir) (anc : List Up) (b : BodyM) (i : IId)
    (hi : ∀ j, httpIdOf (d :: anc.map (·.d)) = .ok j → j = i) : LocalAt i (addRequestBody d anc b) := by
  intro c c' hg _
  unfold addRequestBody
  cases hh : httpIdOf (d :: anc.map (·.d)) with
  | error m => local_tac hh hg
  | ok j => cases hi j hh; local_tac hh hg

theorem addResponseBody_local (d : BDir) (anc : List Up) (b : BodyM) (i : IId)
    (hi : ∀ j, httpIdOf (d :: anc.map (·.d)) = .ok j → j = i) : LocalAt i (addResponseBody d anc b) := by
  intro c c' hg _
  unfold addResponseBody
  cases hh : httpIdOf (d :: anc.map (·.d)) with
  | error m => local_tac hh hg
  | ok j => cases hi j hh; local_tac hh hg

theorem addHeaders_local (d : BDir) (anc : List Up) (i : IId)
    (hi : ∀ j, httpIdOf (d :: anc.map (·.d)) = .ok j → j = i) : LocalAt i (addHeaders d anc) := by
  intro c c' hg _
  unfold addHeaders
  cases hh : httpIdOf (d :: anc.map (·.d)) with
  | error m => local_tac hh hg
  | ok j => cases hi j hh; local_tac hh hg

theorem addTags_local (d : BDir) (anc : List Up) (i : IId) : LocalAt i (addTags d anc) := by
  intro c c' _ hd
  unfold addTags
  split; · exact Or.inl ⟨_, _, rfl, rfl⟩
  rw [tagsFromDirective_decl hd d]
  cases tagsFromDirective c d with
  | error e => exact Or.inl ⟨_, _, rfl, rfl⟩
  | ok ns =>
    right
    refine ⟨fun x => x, fun _ => rfl, ?_, ?_⟩ <;> rw [updInter_id] <;> rfl

/-- the first half of `addRequest`: a Request directive opens the request of its method -/
def reqStage (d : BDir) (anc : List Up) (c : Cat) : R Cat :=
  if d.kind == .Request then do
    let i ← liftAt d (httpIdOf (d :: anc.map (·.d)))
    match c.getInter i with
    | some x =>
      if x.request.isSome then fail d .notUnique
      else pure (c.updInter i fun x => { x with request := some { id := d.id } })
    | none => pure c
  else pure c

/-- the second half: the body -/
def reqTail (d : BDir) (anc : List Up) (nt : Bytes) (c : Cat) : R Cat :=
  let typ := d.param "Type"
  let b : BodyM := { format := formatOf nt, nota := nt }
  if nt == nJsight && !typ.isEmpty && d.body.isNone then addRequestBody d anc b c
  else if nt == nJsight && typ.isEmpty && d.body.isSome then addRequestBody d anc b c
  else if nt == nRegex && typ.isEmpty && d.body.isSome then addRequestBody d anc b c
  else if isAnyOrEmpty nt && d.body.isNone then addRequestBody d anc b c
  else if d.kind == .Body then fail d .incorrectRequest
  else pure c

theorem addRequest_eq (d : BDir) (anc : List Up) (c : Cat) : addRequest d anc c =
    if !d.annot.isEmpty then fail d .annotationForbidden
    else if !(d.param "SchemaNotation").isEmpty && !(d.param "Type").isEmpty then fail d .typeAndNotation
    else liftAt d (newNotation (d.param "SchemaNotation")) >>= fun nt => reqStage d anc c >>= reqTail d anc nt := by
  unfold addRequest reqStage reqTail
  simp only []
  split
  · rfl
  split
  · rfl
  cases liftAt d (newNotation (d.param "SchemaNotation")) with
  | error e => rfl
  | ok nt =>
    by_cases hk : (d.kind == Kind.Request) = true
    · simp only [hk, if_true]
      cases liftAt d (httpIdOf (d :: anc.map (·.d))) with
      | error e => rfl
      | ok i =>
        cases hx : c.getInter i with
        | none => simp only [ok_bind, hx]
        | some x =>
          simp only [ok_bind, hx]
          split <;> rfl
    · simp only [hk]; rfl

theorem reqStage_local (d : BDir) (anc : List Up) (i : IId)
    (hi : ∀ j, httpIdOf (d :: anc.map (·.d)) = .ok j → j = i) : LocalAt i (reqStage d anc) := by
  intro c c' hg _
  unfold reqStage
  cases hh : httpIdOf (d :: anc.map (·.d)) with
  | error m => local_tac hh hg
  | ok j => cases hi j hh; local_tac hh hg

theorem reqTail_local (d : BDir) (anc : List Up) (nt : Bytes) (i : IId)
    (hi : ∀ j, httpIdOf (d :: anc.map (·.d)) = .ok j → j = i) : LocalAt i (reqTail d anc nt) := by
  unfold reqTail
  have hb := addRequestBody_local d anc { format := formatOf nt, nota := nt } i hi
  exact LocalAt.ite _ hb (LocalAt.ite _ hb (LocalAt.ite _ hb (LocalAt.ite _ hb
    (LocalAt.ite _ (LocalAt.err _) LocalAt.ok))))

theorem addRequest_local (d : BDir) (anc : List Up) (i : IId)
    (hi : ∀ j, httpIdOf (d :: anc.map (·.d)) = .ok j → j = i) : LocalAt i (addRequest d anc) := by
  refine LocalAt.congr ?_ (addRequest_eq d anc)
  exact LocalAt.ite _ (LocalAt.err _) (LocalAt.ite _ (LocalAt.err _)
    (LocalAt.bind_static _ (fun nt => LocalAt.bind (reqStage_local d anc i hi) (reqTail_local d anc nt i hi))))

/-- the first half of `addResponse`: a response directive opens a response of its method -/
def respStage (d : BDir) (anc : List Up) (c : Cat) : R Cat :=
  if d.kind == .HTTPResponseCode then do
    let i ← liftAt d (httpIdOf (d :: anc.map (·.d)))
    pure (c.updInter i fun x =>
      { x with responses := x.responses ++ [{ id := d.id, code := d.keyword, annot := d.annot }] })
  else pure c

def respTail (d : BDir) (anc : List Up) (nt : Bytes) (c : Cat) : R Cat :=
  let typ := d.param "Type"
  let b : BodyM := { format := formatOf nt, nota := nt }
  if !typ.isEmpty then addResponseBody d anc b c
  else if d.body.isSome then addResponseBody d anc b c
  else if isAnyOrEmpty nt then addResponseBody d anc b c
  else if d.kind == .Body then fail d .bodyIsEmpty
  else pure c

def respClash (d : BDir) (anc : List Up) : Bool :=
  d.kind == .Body && (match anc with
    | p :: _ => p.d.kind == .HTTPResponseCode && !(d.param "Type").isEmpty && !(p.d.param "Type").isEmpty
    | [] => false)

theorem addResponse_eq (d : BDir) (anc : List Up) (c : Cat) : addResponse d anc c =
    if d.kind == .Body && !d.annot.isEmpty then fail d .annotationForbidden
    else if !(d.param "SchemaNotation").isEmpty && !(d.param "Type").isEmpty then fail d .typeAndNotation
    else liftAt d (newNotation (d.param "SchemaNotation")) >>= fun nt =>
      if respClash d anc then fail d .userTypeWithBody
      else respStage d anc c >>= respTail d anc nt := by
  unfold addResponse respStage respTail respClash
  simp only []
  split
  · rfl
  split
  · rfl
  cases liftAt d (newNotation (d.param "SchemaNotation")) with
  | error e => rfl
  | ok nt =>
    simp only [ok_bind]
    cases anc with
    | nil =>
      simp only []
      by_cases hk : (d.kind == Kind.HTTPResponseCode) = true
      · simp only [hk, if_true]
        cases liftAt d (httpIdOf (d :: ([] : List Up).map (·.d))) <;> rfl
      · simp only [hk]; rfl
    | cons p r =>
      simp only []
      split
      · rfl
      by_cases hk : (d.kind == Kind.HTTPResponseCode) = true
      · simp only [hk, if_true]
        cases liftAt d (httpIdOf (d :: (p :: r).map (·.d))) <;> rfl
      · simp only [hk]; rfl

theorem respStage_local (d : BDir) (anc : List Up) (i : IId)
    (hi : ∀ j, httpIdOf (d :: anc.map (·.d)) = .ok j → j = i) : LocalAt i (respStage d anc) := by
  intro c c' hg _
  unfold respStage
  cases hh : httpIdOf (d :: anc.map (·.d)) with
  | error m => local_tac hh hg
  | ok j => cases hi j hh; local_tac hh hg

theorem respTail_local (d : BDir) (anc : List Up) (nt : Bytes) (i : IId)
    (hi : ∀ j, httpIdOf (d :: anc.map (·.d)) = .ok j → j = i) : LocalAt i (respTail d anc nt) := by
  unfold respTail
  have hb := addResponseBody_local d anc { format := formatOf nt, nota := nt } i hi
  exact LocalAt.ite _ hb (LocalAt.ite _ hb (LocalAt.ite _ hb (LocalAt.ite _ (LocalAt.err _) LocalAt.ok)))

theorem addResponse_local (d : BDir) (anc : List Up) (i : IId)
    (hi : ∀ j, httpIdOf (d :: anc.map (·.d)) = .ok j → j = i) : LocalAt i (addResponse d anc) := by
  refine LocalAt.congr ?_ (addResponse_eq d anc)
  exact LocalAt.ite _ (LocalAt.err _) (LocalAt.ite _ (LocalAt.err _) (LocalAt.bind_static _ (fun nt =>
    LocalAt.ite _ (LocalAt.err _) (LocalAt.bind (respStage_local d anc i hi) (respTail_local d anc nt i hi)))))

theorem addBody_local (d : BDir) (anc : List Up) (i : IId)
    (hi : ∀ j, httpIdOf (d :: anc.map (·.d)) = .ok j → j = i) : LocalAt i (addBody d anc) := by
  cases anc with
  | nil => exact LocalAt.congr (LocalAt.err ⟨d.id, .internal⟩) (fun c => by unfold addBody; rfl)
  | cons p r =>
    refine LocalAt.congr (LocalAt.ite (!p.d.named.isEmpty && p.d.kind != .Macro) (LocalAt.err ⟨p.d.id, .parentParameters⟩)
      (LocalAt.ite (p.d.kind == .Request) (addRequest_local d (p :: r) i hi)
        (LocalAt.ite (p.d.kind == .HTTPResponseCode) (addResponse_local d (p :: r) i hi) LocalAt.ok))) ?_
    intro c; unfold addBody; rfl


/-! #### the other functions -/

theorem orel_cases {α : Type} {Q : α → α → Prop} {o o' : Option α} (h : ORel Q o o') :
    (o = none ∧ o' = none) ∨ ∃ a b, o = some a ∧ o' = some b ∧ Q a b := by
  cases o <;> cases o'
  · exact Or.inl ⟨rfl, rfl⟩
  · cases h
  · cases h
  · exact Or.inr ⟨_, _, rfl, rfl, h⟩

theorem addURL_sim (d : BDir) (kids : List BDir) (anc : List Up) {c c' : Cat} (h : Sim c c') :
    RRel Sim (addURL d kids anc c) (addURL d kids anc c') := by
  unfold addURL
  split
  · exact RRel.fail
  · apply RRel.bind_same; intro path
    apply RRel.bind_same; intro pp
    rw [h.uniq path]
    rcases orel_cases (checkSimilar_mapEq pp h.similar) with ⟨h1, h2⟩ | ⟨s, s', h1, h2, hs⟩
    · rw [h1, h2]; exact RRel.fail
    · rw [h1, h2]
      simp only []
      split
      · exact RRel.fail
      · split
        · exact RRel.fail
        · refine ⟨h.jsight, h.info, h.servers, h.types, h.inters, h.keys, h.tags, ?_, hs, h.proto⟩
          intro p
          show (path :: c'.uniqURL).contains p = (path :: c.uniqURL).contains p
          rw [List.contains_cons, List.contains_cons, h.uniq p]

theorem addProtocol_sim (d : BDir) (anc : List Up) {c c' : Cat} (h : Sim c c') :
    RRel Sim (addProtocol d anc c) (addProtocol d anc c') := by
  unfold addProtocol
  split
  · exact RRel.fail
  split
  · exact RRel.fail
  split
  · exact RRel.fail
  split
  · exact RRel.fail
  · rename_i p r
    rw [h.proto p.d.id]
    split
    · exact RRel.fail
    · refine ⟨h.jsight, h.info, h.servers, h.types, h.inters, h.keys, h.tags, h.uniq, h.similar, ?_⟩
      intro n
      show (p.d.id :: c'.protoURLs).contains n = (p.d.id :: c.protoURLs).contains n
      rw [List.contains_cons, List.contains_cons, h.proto n]

theorem addTags_sim (d : BDir) (anc : List Up) {c c' : Cat} (h : Sim c c') :
    RRel Sim (addTags d anc c) (addTags d anc c') := by
  unfold addTags
  split; · exact RRel.fail
  rw [tagsFromDirective_rel tagFrame_rel h.tags d]
  apply RRel.bind_same; intro _
  exact h

theorem autoCat_inters (c : Cat) (i : IId) : (autoCat c i).inters = c.inters := by
  unfold autoCat; split <;> rfl

theorem attachAll_inters (c : Cat) (i : IId) (ns : List Bytes) : (attachAll c i ns).inters = c.inters := by
  rw [attachAll_eq]

theorem autoCat_sim {c c' : Cat} (h : Sim c c') (i : IId) : Sim (autoCat c i) (autoCat c' i) := by
  unfold autoCat Cat.getTag
  rcases orel_cases (h.tags.look (autoName i)) with ⟨h1, h2⟩ | ⟨a, b, h1, h2, _⟩
  · rw [h1, h2]
    exact h.setTags (h.tags.app _ h1)
  · rw [h1, h2]; exact h

theorem attachAll_sim (i : IId) : ∀ (ns : List Bytes) {c c' : Cat}, Sim c c' → Sim (attachAll c i ns) (attachAll c' i ns)
  | [], c, c', h => h
  | n :: r, c, c', h => by
    unfold attachAll
    apply attachAll_sim i r
    exact h.setTags (h.tags.upd n (attach i) (attach_name i) (fun _ _ e => e.attach i))

theorem fin_sim {c c' : Cat} (h : Sim c c') (d : BDir) (i : IId) (ns : List Bytes) (hf : c.hasInter i = false) :
    Sim (fin d i ns c) (fin d i ns c') :=
  h.snoc { iid := i, annot := d.annot, tags := ns } hf

theorem tagStage_sim (d : BDir) (kids : List BDir) (anc : List Up) (i : IId) {c c' : Cat} (h : Sim c c')
    (hf : c.hasInter i = false) : RRel Sim (tagStage d kids anc i c) (tagStage d kids anc i c') := by
  unfold tagStage
  cases tagsSource kids anc with
  | some td =>
    simp only []
    rw [tagsFromDirective_rel tagFrame_rel h.tags td]
    cases tagsFromDirective c td with
    | error e => trivial
    | ok ns =>
      refine fin_sim (attachAll_sim i ns h) d i ns ?_
      unfold Cat.hasInter; rw [attachAll_inters]; exact hf
  | none =>
    refine fin_sim (attachAll_sim i _ (autoCat_sim h i)) d i _ ?_
    unfold Cat.hasInter; rw [attachAll_inters, autoCat_inters]; exact hf

theorem addHTTPMethod_sim (d : BDir) (kids : List BDir) (anc : List Up) {c c' : Cat} (h : Sim c c') :
    RRel Sim (addHTTPMethod d kids anc c) (addHTTPMethod d kids anc c') := by
  rw [addHTTPMethod_eq, addHTTPMethod_eq]
  apply RRel.bind_same; intro path
  apply RRel.bind_same; intro pp
  rcases orel_cases (checkSimilar_mapEq pp h.similar) with ⟨h1, h2⟩ | ⟨s, s', h1, h2, hs⟩
  · rw [h1, h2]; exact RRel.fail
  · rw [h1, h2]
    simp only []
    apply RRel.bind_same; intro i
    rw [h.hasInter i]
    split
    · exact RRel.fail
    · rename_i hn
      exact tagStage_sim d kids anc i (h.setSimilar hs) (show c.hasInter i = false by simpa using hn)

theorem addJsonRpcMethod_sim (d : BDir) (kids : List BDir) (anc : List Up) {c c' : Cat} (h : Sim c c') :
    RRel Sim (addJsonRpcMethod d kids anc c) (addJsonRpcMethod d kids anc c') := by
  rw [addJsonRpcMethod_eq, addJsonRpcMethod_eq]
  split
  · exact RRel.fail
  · split
    · exact RRel.fail
    · split
      · exact RRel.fail
      · apply RRel.bind_same; intro i
        rw [h.hasInter i, h.inters.any_eq]
        split
        · exact RRel.fail
        · rename_i hn
          refine tagStage_sim d kids _ i h ?_
          cases hh : c.hasInter i with
          | false => rfl
          | true => simp [hh] at hn

theorem Sim.setInfo {c c' : Cat} (h : Sim c c') (v : Option InfoM) :
    Sim { c with info := v } { c' with info := v } :=
  ⟨h.jsight, rfl, h.servers, h.types, h.inters, h.keys, h.tags, h.uniq, h.similar, h.proto⟩

theorem descrTag_sim (d : BDir) (n text : Bytes) {c c' : Cat} (h : Sim c c') :
    RRel Sim
      (match c.getTag n with
        | none => fail d .tagNotFound
        | some t => if t.descr.isSome then fail d .notUnique else .ok (c.updTag n fun t => { t with descr := some text }))
      (match c'.getTag n with
        | none => fail d .tagNotFound
        | some t => if t.descr.isSome then fail d .notUnique else .ok (c'.updTag n fun t => { t with descr := some text })) := by
  unfold Cat.getTag
  rcases orel_cases (h.tags.look n) with ⟨h1, h2⟩ | ⟨a, b, h1, h2, e⟩
  · rw [h1, h2]; exact RRel.fail
  · rw [h1, h2]
    simp only [e.descr]
    split
    · exact RRel.fail
    · exact h.setTags (h.tags.upd n (fun t => { t with descr := some text }) (fun _ => rfl)
        (fun t t' e => ⟨e.1, e.2, e.3, rfl, e.5, e.6⟩))

theorem addDescription_sim (d : BDir) (anc : List Up) {c c' : Cat} (h : Sim c c') :
    RRel Sim (addDescription d anc c) (addDescription d anc c') := by
  unfold addDescription
  rw [h.info]
  split
  · exact RRel.fail
  · split
    · exact RRel.fail
    · split
      · exact RRel.fail
      · split
        · exact RRel.fail
        · split
          · exact RRel.fail
          · rename_i text _ p r
            split
            · split
              · exact RRel.fail
              · split
                · exact RRel.fail
                · exact h.setInfo _
            · split
              · apply RRel.bind_same; intro i
                rw [h.getInter i]
                split
                · exact RRel.fail
                · split
                  · exact RRel.fail
                  · exact h.updInter i (fun _ => rfl)
              · split
                · apply RRel.bind_same; intro i
                  rw [h.getInter i]
                  split
                  · exact RRel.fail
                  · split
                    · exact RRel.fail
                    · exact h.updInter i (fun _ => rfl)
                · split
                  · exact descrTag_sim d _ _ h
                  · exact RRel.fail

theorem addDirective_sim (banned : List Kind) (d : BDir) (kids : List BDir) (anc : List Up) {c c' : Cat}
    (h : Sim c c') : RRel Sim (addDirective banned d kids anc c) (addDirective banned d kids anc c') := by
  unfold addDirective
  split
  · exact RRel.fail
  · split
    all_goals first
      | exact gen4_sim (addJSight_gen4 d) h
      | exact gen4_sim (addInfo_gen4 d) h
      | exact gen4_sim (addTitle_gen4 d) h
      | exact gen4_sim (addVersion_gen4 d) h
      | exact addDescription_sim d anc h
      | exact gen4_sim (addServer_gen4 d) h
      | exact gen4_sim (addBaseUrl_gen4 d anc) h
      | exact gen4_sim (addType_gen4 d) h
      | exact addURL_sim d kids anc h
      | exact addHTTPMethod_sim d kids anc h
      | exact localAt_sim (addQuery_local d anc _ (idOr_spec _)) h
      | exact localAt_sim (addRequest_local d anc _ (idOr_spec _)) h
      | exact localAt_sim (addResponse_local d anc _ (idOr_spec _)) h
      | exact localAt_sim (addHeaders_local d anc _ (idOr_spec _)) h
      | exact localAt_sim (addBody_local d anc _ (idOr_spec _)) h
      | exact addProtocol_sim d anc h
      | exact addJsonRpcMethod_sim d kids anc h
      | exact localAt_sim (addRpcSchema_local _ d anc _ (idOr_spec _)) h
      | exact addTags_sim d anc h
      | exact RRel.ok h

/-- the simulation is kept by the fold over a forest -/
theorem lift_sim (banned : List Kind) (anc : List Up) (ts : List BTree) (c : Cat) :
    ∀ c', Sim c c' → RRel Sim (addForest banned anc ts c) (addForest banned anc ts c') := by
  apply addForest.induct banned
    (motive_1 := fun anc t c => ∀ c', Sim c c' → RRel Sim (addBranch banned anc t c) (addBranch banned anc t c'))
    (motive_2 := fun anc ts c => ∀ c', Sim c c' → RRel Sim (addForest banned anc ts c) (addForest banned anc ts c'))
  · intro anc d kids c e he c' h
    have := addDirective_sim banned d (kids.map BTree.dir) anc h
    rw [addBranch, addBranch, he]
    rw [he] at this
    cases h2 : addDirective banned d (kids.map BTree.dir) anc c' with
    | error e' => trivial
    | ok x => rw [h2] at this; cases this
  · intro anc d kids c c1 he ih c' h
    have := addDirective_sim banned d (kids.map BTree.dir) anc h
    rw [addBranch, addBranch, he]
    rw [he] at this
    cases h2 : addDirective banned d (kids.map BTree.dir) anc c' with
    | error e' => rw [h2] at this; cases this
    | ok x => rw [h2] at this; exact ih x this
  · intro anc c c' h
    rw [addForest, addForest]; exact h
  · intro anc t r c e he ih c' h
    have := ih c' h
    rw [addForest, addForest, he]
    rw [he] at this
    cases h2 : addBranch banned anc t c' with
    | error e' => trivial
    | ok x => rw [h2] at this; cases this
  · intro anc t r c c1 he ih1 ih2 c' h
    have := ih1 c' h
    rw [addForest, addForest, he]
    rw [he] at this
    cases h2 : addBranch banned anc t c' with
    | error e' => rw [h2] at this; cases this
    | ok x => rw [h2] at this; exact ih2 x this

/-! ### part D: the checks after the fold -/

theorem validateRequestBody_ok_iff (l : List InterM) :
    validateRequestBody l = .ok () ↔ ∀ x ∈ l, ∀ q, x.request = some q → q.body.isSome = true := by
  induction l with
  | nil => rw [validateRequestBody]; simp
  | cons y r ih =>
    rw [validateRequestBody]
    cases hq : y.request with
    | none =>
      simp only []
      rw [ih]
      constructor
      · intro h x hx
        rcases List.mem_cons.1 hx with rfl | hx
        · intro q hq'; rw [hq] at hq'; cases hq'
        · exact h x hx
      · intro h x hx; exact h x (List.mem_cons_of_mem _ hx)
    | some q =>
      simp only []
      split
      · rename_i hb
        constructor
        · intro h; cases h
        · intro h
          have := h y List.mem_cons_self q hq
          rw [Option.isNone_iff_eq_none] at hb
          rw [hb] at this; cases this
      · rename_i hb
        rw [ih]
        constructor
        · intro h x hx
          rcases List.mem_cons.1 hx with rfl | hx
          · intro q' hq'
            rw [hq] at hq'; cases hq'
            cases hb' : q.body with
            | none => simp [hb'] at hb
            | some _ => rfl
          · exact h x hx
        · intro h x hx; exact h x (List.mem_cons_of_mem _ hx)

theorem firstBodyless_none_iff (l : List RespM) : firstBodyless l = none ↔ ∀ r ∈ l, r.body.isSome = true := by
  induction l with
  | nil => rw [firstBodyless]; simp
  | cons y r ih =>
    rw [firstBodyless]
    split
    · rename_i hb
      constructor
      · intro h; cases h
      · intro h
        have := h y List.mem_cons_self
        rw [Option.isNone_iff_eq_none] at hb
        rw [hb] at this; cases this
    · rename_i hb
      rw [ih]
      constructor
      · intro h x hx
        rcases List.mem_cons.1 hx with rfl | hx
        · cases hb' : x.body with
          | none => simp [hb'] at hb
          | some _ => rfl
        · exact h x hx
      · intro h x hx; exact h x (List.mem_cons_of_mem _ hx)

theorem validateResponseBody_ok_iff (l : List InterM) :
    validateResponseBody l = .ok () ↔ ∀ x ∈ l, ∀ r ∈ x.responses, r.body.isSome = true := by
  induction l with
  | nil => rw [validateResponseBody]; simp
  | cons y r ih =>
    rw [validateResponseBody]
    cases hf : firstBodyless y.responses with
    | some q =>
      simp only []
      constructor
      · intro h; cases h
      · intro h
        have := (firstBodyless_none_iff y.responses).2 (h y List.mem_cons_self)
        rw [hf] at this; cases this
    | none =>
      simp only []
      rw [ih]
      constructor
      · intro h x hx
        rcases List.mem_cons.1 hx with rfl | hx
        · exact (firstBodyless_none_iff _).1 hf
        · exact h x hx
      · intro h x hx; exact h x (List.mem_cons_of_mem _ hx)

/-- the three checks accept the one catalog iff they accept the other one -/
theorem chk_sim {c c' : Cat} (h : Sim c c') : chk c = .ok () ↔ chk c' = .ok () := by
  have e1 : validateRequestBody c.inters = .ok () ↔ validateRequestBody c'.inters = .ok () := by
    rw [validateRequestBody_ok_iff, validateRequestBody_ok_iff]
    constructor
    · intro hh x hx; exact hh x (h.inters.mem_iff.1 hx)
    · intro hh x hx; exact hh x (h.inters.mem_iff.2 hx)
  have e2 : validateResponseBody c.inters = .ok () ↔ validateResponseBody c'.inters = .ok () := by
    rw [validateResponseBody_ok_iff, validateResponseBody_ok_iff]
    constructor
    · intro hh x hx; exact hh x (h.inters.mem_iff.1 hx)
    · intro hh x hx; exact hh x (h.inters.mem_iff.2 hx)
  have ei : validateInfo c' = validateInfo c := by unfold validateInfo; rw [h.info]
  unfold chk
  rw [ei]
  cases validateInfo c with
  | error e =>
    rw [error_bind, error_bind]
  | ok u =>
    cases u
    rw [ok_bind, ok_bind]
    cases h1 : validateRequestBody c.inters with
    | error e =>
      cases h2 : validateRequestBody c'.inters with
      | error e' => rw [error_bind, error_bind]; exact ⟨fun h => (by cases h), fun h => (by cases h)⟩
      | ok u => cases u; rw [e1.2 h2] at h1; cases h1
    | ok u =>
      cases u
      rw [e1.1 h1, ok_bind, ok_bind]
      exact e2

theorem finish_sim {c c' : Cat} (h : Sim c c') : RRel Sim (finish c) (finish c') := by
  rw [finish_eq, finish_eq]
  have := chk_sim h
  cases h1 : chk c with
  | error e =>
    cases h2 : chk c' with
    | error e' => trivial
    | ok u => cases u; rw [this.2 h2] at h1; cases h1
  | ok u =>
    cases u
    rw [this.1 h1]
    exact h

end JSight.BuildPermI
