import JSight.Model.Build
import JSight.Proofs.BuildPermInters2
/-!
Helpers of `Props/C10_Inters.lean`, third part: interaction blocks of any of the shapes `Gen.childAllowed` allows
(a method with its Tags; a URL with Tags, Path, Paste and HTTP methods, or with Protocol and JSON-RPC Methods) commute.

* part J: `Sim` is an equivalence on catalogs with unique keys; commutation up to `Sim` (`Comm`) of sequences;
* part K: creators (`Cr`) and blocks (`IsBlk`): a block is a creator followed by operations on the interactions
  it created; two blocks commute when their creators do (`blk_comm`);
* part L: the atoms the creators are made of and their pairwise commutation (`atom_comm`);
* part M: the trees (`block_blk`, `comm_blocks`) and the stages of `compile` (`swap_blocks_rrel`).
-/
set_option linter.unusedSimpArgs false
set_option linter.unusedVariables false

namespace JSight.BuildPermI
open JSight JSight.Build JSight.Gen JSight.BuildInv JSight.BuildPerm

/-! ### part J -/

theorem ORel.symm_tag {o o' : Option TagM} (h : ORel TagEqv o o') : ORel TagEqv o' o := by
  cases o <;> cases o' <;> simp_all [ORel]
  exact h.symm

theorem ORel.trans_tag {o o' o'' : Option TagM} (h : ORel TagEqv o o') (h' : ORel TagEqv o' o'') :
    ORel TagEqv o o'' := by
  cases o <;> cases o' <;> cases o'' <;> simp_all [ORel]
  exact h.trans h'

theorem TagsRel.symm {G G' : List TagM} (h : TagsRel G G') : TagsRel G' G :=
  ⟨h.nd', h.nd, fun n => (h.look n).symm_tag⟩

theorem TagsRel.trans {G G' G'' : List TagM} (h : TagsRel G G') (h' : TagsRel G' G'') : TagsRel G G'' :=
  ⟨h.nd, h'.nd', fun n => (h.look n).trans_tag (h'.look n)⟩

theorem Sim.symm {c c' : Cat} (h : Sim c c') : Sim c' c :=
  ⟨h.jsight.symm, h.info.symm, h.servers.symm, h.types.symm, h.inters.symm,
    ((h.inters.map _).nodup_iff).2 h.keys, h.tags.symm, fun p => (h.uniq p).symm, h.similar.symm,
    fun n => (h.proto n).symm⟩

theorem Sim.trans {c c' c'' : Cat} (h : Sim c c') (h' : Sim c' c'') : Sim c c'' :=
  ⟨h'.jsight.trans h.jsight, h'.info.trans h.info, h'.servers.trans h.servers, h'.types.trans h.types,
    h'.inters.trans h.inters, h.keys, h.tags.trans h'.tags, fun p => (h'.uniq p).trans (h.uniq p),
    h.similar.trans h'.similar, fun n => (h'.proto n).trans (h.proto n)⟩

theorem rsim_trans {r r' r'' : R Cat} (h : RRel Sim r r') (h' : RRel Sim r' r'') : RRel Sim r r'' := by
  cases r <;> cases r' <;> cases r'' <;> simp_all [RRel]
  exact h.trans h'

theorem rsim_symm {r r' : R Cat} (h : RRel Sim r r') : RRel Sim r' r := by
  cases r <;> cases r' <;> simp_all [RRel]
  exact h.symm

/-- unique interaction ids and unique tag names -/
structure Nd (c : Cat) : Prop where
  keys : (c.inters.map (·.iid)).Nodup
  tags : (c.tags.map (·.name)).Nodup

theorem Nd.of_inv {c : Cat} (h : Inv c) : Nd c := ⟨iid_nodup_of_inv h, h.tags_nodup⟩

theorem Sim.rfl' {c : Cat} (h : Nd c) : Sim c c :=
  ⟨rfl, rfl, rfl, rfl, List.Perm.refl _, h.keys, TagsRel.refl h.tags, fun _ => rfl, MapEq.refl _, fun _ => rfl⟩

theorem Sim.nd {c c' : Cat} (h : Sim c c') : Nd c := ⟨h.keys, h.tags.nd⟩

/-- `M` keeps the simulation -/
def Lifts (M : Cat → R Cat) : Prop := ∀ c c', Sim c c' → RRel Sim (M c) (M c')

theorem Lifts.nd {M : Cat → R Cat} (hM : Lifts M) {c c2 : Cat} (h : M c = .ok c2) (hc : Nd c) : Nd c2 := by
  have := hM c c (Sim.rfl' hc)
  rw [h] at this
  exact Sim.nd this

def seq (M N : Cat → R Cat) : Cat → R Cat := fun c => M c >>= N

theorem Lifts.seq {M N : Cat → R Cat} (hM : Lifts M) (hN : Lifts N) : Lifts (seq M N) :=
  fun c c' h => RRel.bind (hM c c' h) (fun x y hxy => hN x y hxy)

/-- the two operations may be exchanged, from any catalog with unique keys -/
def Comm (M N : Cat → R Cat) : Prop := ∀ x, Nd x → RRel Sim (M x >>= N) (N x >>= M)

theorem Comm.symm {M N : Cat → R Cat} (h : Comm M N) : Comm N M := fun x hx => rsim_symm (h x hx)

theorem rsim_bind_left (r : R Cat) {K K' : Cat → R Cat} (h : ∀ c, r = .ok c → RRel Sim (K c) (K' c)) :
    RRel Sim (r >>= K) (r >>= K') := by
  cases r with
  | error e => trivial
  | ok x => exact h x rfl

theorem comm_seq_left {M1 M2 N : Cat → R Cat} (h1 : Comm M1 N) (h2 : Comm M2 N) (l1 : Lifts M1) (l2 : Lifts M2) :
    Comm (seq M1 M2) N := by
  intro x hx
  unfold seq
  have sA : RRel Sim ((M1 x >>= M2) >>= N) ((M1 x >>= N) >>= M2) := by
    rw [bind_bind, bind_bind]
    exact rsim_bind_left _ (fun c1 hc1 => h2 c1 (l1.nd hc1 hx))
  have sB : RRel Sim ((M1 x >>= N) >>= M2) ((N x >>= M1) >>= M2) :=
    RRel.bind (h1 x hx) (fun u v huv => l2 u v huv)
  have e : ((N x >>= M1) >>= M2) = (N x >>= fun c => M1 c >>= M2) := bind_bind _ _ _
  rw [e] at sB
  exact rsim_trans sA sB

theorem comm_seq_right {M N1 N2 : Cat → R Cat} (h1 : Comm M N1) (h2 : Comm M N2) (l1 : Lifts N1) (l2 : Lifts N2) :
    Comm M (seq N1 N2) :=
  (comm_seq_left h1.symm h2.symm l1 l2).symm

/-- a list of operations, one after the other -/
def runL : List (Cat → R Cat) → Cat → R Cat
  | [], c => .ok c
  | a :: r, c => a c >>= runL r

theorem runL_cons (a : Cat → R Cat) (r : List (Cat → R Cat)) : runL (a :: r) = seq a (runL r) := rfl

theorem runL_append (l r : List (Cat → R Cat)) (c : Cat) : runL (l ++ r) c = runL l c >>= runL r := by
  induction l generalizing c with
  | nil => rfl
  | cons a l ih =>
    show a c >>= runL (l ++ r) = (a c >>= runL l) >>= runL r
    rw [bind_bind]
    cases a c with
    | error e => rfl
    | ok x => exact ih x

theorem lifts_runL {L : List (Cat → R Cat)} (h : ∀ a ∈ L, Lifts a) : Lifts (runL L) := by
  induction L with
  | nil => intro c c' hs; exact hs
  | cons a r ih =>
    rw [runL_cons]
    exact Lifts.seq (h a List.mem_cons_self) (ih (fun b hb => h b (List.mem_cons_of_mem _ hb)))

theorem comm_id_left {N : Cat → R Cat} (l : Lifts N) : Comm (fun c => .ok c) N := by
  intro x hx
  rw [ok_bind, bind_ok_right]
  exact l x x (Sim.rfl' hx)

theorem comm_one {a : Cat → R Cat} (la : Lifts a) : ∀ (LB : List (Cat → R Cat)), (∀ b ∈ LB, Lifts b) →
    (∀ b ∈ LB, Comm a b) → Comm a (runL LB)
  | [], _, _ => (comm_id_left la).symm
  | b :: r, hB, ha => by
    rw [runL_cons]
    exact comm_seq_right (ha b List.mem_cons_self)
      (comm_one la r (fun b hb => hB b (List.mem_cons_of_mem _ hb)) (fun b hb => ha b (List.mem_cons_of_mem _ hb)))
      (hB b List.mem_cons_self) (lifts_runL (L := r) (fun b hb => hB b (List.mem_cons_of_mem _ hb)))

theorem comm_runL {LA LB : List (Cat → R Cat)} (hA : ∀ a ∈ LA, Lifts a) (hB : ∀ b ∈ LB, Lifts b)
    (h : ∀ a ∈ LA, ∀ b ∈ LB, Comm a b) : Comm (runL LA) (runL LB) := by
  have one : ∀ a, Lifts a → (∀ b ∈ LB, Comm a b) → Comm a (runL LB) := fun a la ha => comm_one la LB hB ha
  induction LA with
  | nil => exact comm_id_left (lifts_runL hB)
  | cons a r ih =>
    rw [runL_cons]
    exact comm_seq_left (one a (hA a List.mem_cons_self) (h a List.mem_cons_self))
      (ih (fun b hb => hA b (List.mem_cons_of_mem _ hb)) (fun a ha => h a (List.mem_cons_of_mem _ ha)))
      (hA a List.mem_cons_self) (lifts_runL (L := r) (fun b hb => hA b (List.mem_cons_of_mem _ hb)))

/-! ### part K: creators and blocks -/

/-- an operation that is not disturbed by an update of an interaction that is there, keeps the interactions that
are there and the names of the declared tags, and keeps the simulation -/
structure Cr (M : Cat → R Cat) : Prop where
  upd : ∀ (i : IId) (c : Cat) (f : InterM → InterM), Keeps f → c.hasInter i = true →
    M (c.updInter i f) = rmap (·.updInter i f) (M c)
  get : ∀ (i : IId) (c c2 : Cat), M c = .ok c2 → c.hasInter i = true → c2.getInter i = c.getInter i
  decl : ∀ c c2, M c = .ok c2 → DeclEq c c2
  lifts : Lifts M

theorem Cr.has {M : Cat → R Cat} (h : Cr M) {i : IId} {c c2 : Cat} (hm : M c = .ok c2) (hi : c.hasInter i = true) :
    c2.hasInter i = true := by
  rw [hasInter_iff_getInter, h.get i c c2 hm hi, ← hasInter_iff_getInter]; exact hi

theorem Cr.seq {M N : Cat → R Cat} (hM : Cr M) (hN : Cr N) : Cr (seq M N) where
  upd i c f hf hi := by
    unfold JSight.BuildPermI.seq
    rw [hM.upd i c f hf hi]
    cases hm : M c with
    | error e => rfl
    | ok c1 =>
      simp only [rmap_ok, ok_bind]
      exact hN.upd i c1 f hf (hM.has hm hi)
  get i c c2 h hi := by
    obtain ⟨c1, h1, h2⟩ := bind_ok h
    rw [hN.get i c1 c2 h2 (hM.has h1 hi), hM.get i c c1 h1 hi]
  decl c c2 h := by
    obtain ⟨c1, h1, h2⟩ := bind_ok h
    exact (hM.decl c c1 h1).trans (hN.decl c1 c2 h2)
  lifts := hM.lifts.seq hN.lifts

theorem cr_id : Cr (fun c => .ok c) where
  upd _ _ _ _ _ := rfl
  get _ _ _ h _ := by cases h; rfl
  decl _ _ h := by cases h; exact DeclEq.refl _
  lifts := fun _ _ h => h

theorem cr_runL {L : List (Cat → R Cat)} (h : ∀ a ∈ L, Cr a) : Cr (runL L) := by
  induction L with
  | nil => exact cr_id
  | cons a r ih =>
    rw [runL_cons]
    exact (h a List.mem_cons_self).seq (ih (fun b hb => h b (List.mem_cons_of_mem _ hb)))

theorem REq.trans {r r' r'' : R Cat} (h : REq r r') (h' : REq r' r'') : REq r r'' := by
  cases r <;> cases r' <;> cases r'' <;> simp_all [REq, RRel]

theorem REq.of_eq {r r' : R Cat} (h : r = r') : REq r r' := by rw [h]; exact REq.refl _

/-- the ids `I` are there -/
def Has (I : List IId) (c : Cat) : Prop := ∀ i ∈ I, c.hasInter i = true

/-- every operation of the list works on one of the interactions `I` -/
def Locals (I : List IId) (L : List (Cat → R Cat)) : Prop := ∀ K ∈ L, ∃ i ∈ I, LocalAt i K

theorem localAt_run {i : IId} {K : Cat → R Cat} (hK : LocalAt i K) {c c2 : Cat} (h : K c = .ok c2) :
    ∃ f, Keeps f ∧ c2 = c.updInter i f := by
  rcases hK c c rfl (DeclEq.refl c) with ⟨e, _, h1, _⟩ | ⟨f, hf, h1, _⟩
  · rw [h] at h1; cases h1
  · rw [h] at h1; cases h1; exact ⟨f, hf, rfl⟩

theorem Has.local {I : List IId} {i : IId} {K : Cat → R Cat} (hK : LocalAt i K) {c c2 : Cat} (h : K c = .ok c2)
    (hc : Has I c) : Has I c2 := by
  obtain ⟨f, hf, rfl⟩ := localAt_run hK h
  intro j hj
  rw [hasInter_updInter c j i hf]; exact hc j hj

/-- operations on interactions that are there, and a creator -/
theorem locals_creator_comm {I : List IId} {M : Cat → R Cat} (hM : Cr M) : ∀ (L : List (Cat → R Cat)), Locals I L →
    ∀ c, Has I c → REq (runL L c >>= M) (M c >>= runL L)
  | [], _, c, _ => by
    show REq (M c) (M c >>= fun c => .ok c)
    rw [bind_ok_right]; exact REq.refl _
  | K :: r, hL, c, hc => by
    obtain ⟨i, hi, hK⟩ := hL K List.mem_cons_self
    have hr : Locals I r := fun K' h' => hL K' (List.mem_cons_of_mem _ h')
    show REq ((K c >>= runL r) >>= M) (M c >>= fun c => K c >>= runL r)
    have s1 : REq ((K c >>= runL r) >>= M) ((K c >>= M) >>= runL r) := by
      rw [bind_bind, bind_bind]
      apply REq.bind_left
      intro c1 h1
      exact locals_creator_comm hM r hr c1 (Has.local hK h1 hc)
    have s2 : REq ((K c >>= M) >>= runL r) ((M c >>= K) >>= runL r) :=
      (local_creator_comm hK (hM.upd i) (hM.get i) hM.decl c (hc i hi)).bind_right _
    have e : ((M c >>= K) >>= runL r) = (M c >>= fun c => K c >>= runL r) := bind_bind _ _ _
    rw [e] at s2
    exact s1.trans s2

/-- one operation on the interaction `i` and operations on other interactions -/
theorem local_locals_comm {i : IId} {K : Cat → R Cat} (hK : LocalAt i K) {J : List IId} (hJ : i ∉ J) :
    ∀ (L : List (Cat → R Cat)), Locals J L → ∀ c, REq (K c >>= runL L) (runL L c >>= K)
  | [], _, c => by
    show REq (K c >>= fun c => .ok c) (K c)
    rw [bind_ok_right]; exact REq.refl _
  | K2 :: r, hL, c => by
    obtain ⟨j, hj, hK2⟩ := hL K2 List.mem_cons_self
    have hr : Locals J r := fun K' h' => hL K' (List.mem_cons_of_mem _ h')
    have hne : i ≠ j := fun e => hJ (e ▸ hj)
    show REq (K c >>= fun c => K2 c >>= runL r) ((K2 c >>= runL r) >>= K)
    have s1 : REq (K c >>= fun c => K2 c >>= runL r) ((K2 c >>= K) >>= runL r) := by
      rw [← bind_bind]
      exact (local_local_comm hK hK2 hne c).bind_right _
    have s2 : REq ((K2 c >>= K) >>= runL r) ((K2 c >>= runL r) >>= K) := by
      rw [bind_bind, bind_bind]
      apply REq.bind_left
      intro c1 _
      exact local_locals_comm hK hJ r hr c1
    exact s1.trans s2

theorem locals_locals_comm {I J : List IId} (hIJ : ∀ i ∈ I, i ∉ J) {LB : List (Cat → R Cat)} (hB : Locals J LB) :
    ∀ (LA : List (Cat → R Cat)), Locals I LA → ∀ c, REq (runL LA c >>= runL LB) (runL LB c >>= runL LA)
  | [], _, c => by
    show REq (runL LB c) (runL LB c >>= fun c => .ok c)
    rw [bind_ok_right]; exact REq.refl _
  | K :: r, hA, c => by
    obtain ⟨i, hi, hK⟩ := hA K List.mem_cons_self
    have hr : Locals I r := fun K' h' => hA K' (List.mem_cons_of_mem _ h')
    show REq ((K c >>= runL r) >>= runL LB) (runL LB c >>= fun c => K c >>= runL r)
    have s1 : REq ((K c >>= runL r) >>= runL LB) ((K c >>= runL LB) >>= runL r) := by
      rw [bind_bind, bind_bind]
      apply REq.bind_left
      intro c1 _
      exact locals_locals_comm hIJ hB r hr c1
    have s2 : REq ((K c >>= runL LB) >>= runL r) ((runL LB c >>= K) >>= runL r) :=
      (local_locals_comm hK (hIJ i hi) LB hB c).bind_right _
    have e : ((runL LB c >>= K) >>= runL r) = (runL LB c >>= fun c => K c >>= runL r) := bind_bind _ _ _
    rw [e] at s2
    exact s1.trans s2

theorem lifts_locals {I : List IId} : ∀ (L : List (Cat → R Cat)), Locals I L → Lifts (runL L)
  | [], _ => fun _ _ h => h
  | K :: r, hL => by
    obtain ⟨i, _, hK⟩ := hL K List.mem_cons_self
    rw [runL_cons]
    exact Lifts.seq (fun c c' h => localAt_sim hK h) (lifts_locals r (fun K' h' => hL K' (List.mem_cons_of_mem _ h')))

/-- `F` is the creator `C`, which creates the interactions `I`, followed by operations on those interactions -/
structure IsBlk (F C : Cat → R Cat) (L : List (Cat → R Cat)) (I : List IId) : Prop where
  cr : Cr C
  locals : Locals I L
  creates : ∀ c c2, C c = .ok c2 → ∀ i ∈ I, c2.hasInter i = true ∧ c.hasInter i = false
  eq : ∀ c, REq (F c) (C c >>= runL L)

theorem hasInter_mono {M : Cat → R Cat} (hM : Cr M) {c c2 : Cat} (h : M c = .ok c2) {i : IId}
    (hn : c2.hasInter i = false) : c.hasInter i = false := by
  cases hh : c.hasInter i with
  | false => rfl
  | true => rw [hM.has h hh] at hn; cases hn

theorem Locals.mono {I J : List IId} {L : List (Cat → R Cat)} (h : Locals I L) (hIJ : ∀ i ∈ I, i ∈ J) : Locals J L :=
  fun K hK => by obtain ⟨i, hi, hl⟩ := h K hK; exact ⟨i, hIJ i hi, hl⟩

/-- two blocks one after the other are a block -/
theorem IsBlk.seq {F1 C1 F2 C2 : Cat → R Cat} {L1 L2 : List (Cat → R Cat)} {I1 I2 : List IId}
    (h1 : IsBlk F1 C1 L1 I1) (h2 : IsBlk F2 C2 L2 I2) :
    IsBlk (seq F1 F2) (seq C1 C2) (L1 ++ L2) (I1 ++ I2) where
  cr := h1.cr.seq h2.cr
  locals := by
    intro K hK
    rcases List.mem_append.1 hK with hK | hK
    · obtain ⟨i, hi, hl⟩ := h1.locals K hK; exact ⟨i, List.mem_append_left _ hi, hl⟩
    · obtain ⟨i, hi, hl⟩ := h2.locals K hK; exact ⟨i, List.mem_append_right _ hi, hl⟩
  creates := by
    intro c c2 h i hi
    obtain ⟨c1, e1, e2⟩ := bind_ok h
    rcases List.mem_append.1 hi with hi | hi
    · obtain ⟨a, b⟩ := h1.creates c c1 e1 i hi
      exact ⟨h2.cr.has e2 a, b⟩
    · obtain ⟨a, b⟩ := h2.creates c1 c2 e2 i hi
      exact ⟨a, hasInter_mono h1.cr e1 b⟩
  eq := by
    intro c
    unfold JSight.BuildPermI.seq
    have s1 : REq (F1 c >>= F2) ((C1 c >>= runL L1) >>= F2) := (h1.eq c).bind_right _
    have s2 : REq ((C1 c >>= runL L1) >>= F2) ((C1 c >>= runL L1) >>= fun x => C2 x >>= runL L2) :=
      REq.bind_left _ (fun x _ => h2.eq x)
    have s3 : REq ((C1 c >>= runL L1) >>= fun x => C2 x >>= runL L2)
        ((C1 c >>= C2) >>= runL (L1 ++ L2)) := by
      rw [bind_bind, bind_bind]
      apply REq.bind_left
      intro c1 e1
      have hc1 : Has I1 c1 := fun i hi => (h1.creates c c1 e1 i hi).1
      have := (locals_creator_comm h2.cr L1 h1.locals c1 hc1).bind_right (runL L2)
      have e : (C2 c1 >>= runL (L1 ++ L2)) = ((C2 c1 >>= runL L1) >>= runL L2) := by
        rw [bind_bind]; congr 1; funext x; exact runL_append L1 L2 x
      rw [e]
      rw [← bind_bind]
      exact this
    exact (s1.trans s2).trans s3

/-- (the core) two blocks commute when their creators do -/
theorem blk_comm {FA CA FB CB : Cat → R Cat} {LA LB : List (Cat → R Cat)} {IA IB : List IId}
    (hA : IsBlk FA CA LA IA) (hB : IsBlk FB CB LB IB) (hc : Comm CA CB) (x : Cat) (hx : Nd x) :
    RRel Sim (FA x >>= FB) (FB x >>= FA) := by
  have eAB := (hA.seq hB).eq x
  have eBA := (hB.seq hA).eq x
  unfold JSight.BuildPermI.seq at eAB eBA
  -- the operations of A and of B work on different interactions
  have hswap : REq ((CA x >>= CB) >>= runL (LA ++ LB)) ((CA x >>= CB) >>= runL (LB ++ LA)) := by
    apply REq.bind_left
    intro c2 h2
    obtain ⟨c1, e1, e2⟩ := bind_ok h2
    have hdis : ∀ i ∈ IA, i ∉ IB := by
      intro i hi hi'
      have a := (hA.creates x c1 e1 i hi).1
      have b := (hB.creates c1 c2 e2 i hi').2
      rw [a] at b; cases b
    rw [runL_append, runL_append]
    exact locals_locals_comm hdis hB.locals LA hA.locals c2
  have hmid : RRel Sim ((CA x >>= CB) >>= runL (LB ++ LA)) ((CB x >>= CA) >>= runL (LB ++ LA)) :=
    RRel.bind (hc x hx) (fun u v huv => lifts_locals (I := IB ++ IA) (LB ++ LA) (hB.seq hA).locals u v huv)
  exact rrel_compose (eAB.trans hswap) hmid eBA

/-! ### part L: the atoms -/

def errS (e : BErr) : Cat → R Cat := fun _ => .error e

def simS (e : BErr) (pp : List (Bytes × Bytes)) (c : Cat) : R Cat :=
  match checkSimilar c.similar pp with
  | none => .error e
  | some s => .ok { c with similar := s }

def uniqS (e : BErr) (path : Bytes) (c : Cat) : R Cat :=
  if c.uniqURL.contains path then .error e else .ok { c with uniqURL := path :: c.uniqURL }

def tagChk (td : BDir) (c : Cat) : R Cat := tagsFromDirective c td >>= fun _ => .ok c

/-- `tagStage` with the Tags directive that names the tags given -/
def tagStageS (d : BDir) (i : IId) (src : Option BDir) (c : Cat) : R Cat :=
  match src with
  | some td =>
    match tagsFromDirective c td with
    | .ok ns => .ok (fin d i ns (attachAll c i ns))
    | .error e => .error e
  | none => .ok (fin d i [autoName i] (attachAll (autoCat c i) i [autoName i]))

theorem tagStage_eq_S (d : BDir) (kids : List BDir) (anc : List Up) (i : IId) (c : Cat) :
    tagStage d kids anc i c = tagStageS d i (tagsSource kids anc) c := by
  unfold tagStage tagStageS
  cases tagsSource kids anc <;> rfl

/-- the id is taken: it is there, or (a JSON-RPC id, `addJsonRpcMethod`) an interaction with the same text is -/
def taken (c : Cat) (i : IId) : Bool :=
  c.hasInter i || (i.proto == .rpc && c.inters.any (fun x => x.iid.text == i.text))

theorem taken_false {c : Cat} {i : IId} (h : taken c i = false) : c.hasInter i = false := by
  unfold taken at h
  cases hh : c.hasInter i with
  | false => rfl
  | true => rw [hh] at h; cases h

theorem taken_http {c : Cat} {i : IId} (hp : i.proto = .http) : taken c i = c.hasInter i := by
  unfold taken; rw [hp]; simp

theorem taken_rpc {c : Cat} {i : IId} (hp : i.proto = .rpc) :
    taken c i = (c.hasInter i || c.inters.any (fun x => x.iid.text == i.text)) := by
  unfold taken; rw [hp]; simp

theorem taken_updInter (c : Cat) (i j : IId) {f : InterM → InterM} (hf : Keeps f) :
    taken (c.updInter j f) i = taken c i := by
  unfold taken
  rw [hasInter_updInter c i j hf]
  congr 2
  unfold Cat.updInter
  simp only [List.any_map]
  congr 1
  funext x
  simp only [Function.comp]
  split
  · rw [hf]
  · rfl

theorem Sim.taken {c c' : Cat} (h : Sim c c') (i : IId) : taken c' i = taken c i := by
  unfold JSight.BuildPermI.taken
  rw [h.hasInter i, h.inters.any_eq]

/-- a new interaction: refused when the id is taken or a named tag is not declared -/
def interS (e : BErr) (d : BDir) (i : IId) (src : Option BDir) (c : Cat) : R Cat :=
  if taken c i then .error e else tagStageS d i src c

theorem cr_err (e : BErr) : Cr (errS e) where
  upd _ _ _ _ _ := rfl
  get _ _ _ h _ := by cases h
  decl _ _ h := by cases h
  lifts := fun _ _ _ => trivial

theorem cr_sim (e : BErr) (pp : List (Bytes × Bytes)) : Cr (simS e pp) where
  upd i c f hf hi := by
    unfold simS
    have e0 : (c.updInter i f).similar = c.similar := rfl
    rw [e0]
    cases checkSimilar c.similar pp <;> rfl
  get i c c2 h hi := by
    unfold simS at h
    cases hs : checkSimilar c.similar pp with
    | none => rw [hs] at h; cases h
    | some s => rw [hs] at h; cases h; rfl
  decl c c2 h := by
    unfold simS at h
    cases hs : checkSimilar c.similar pp with
    | none => rw [hs] at h; cases h
    | some s => rw [hs] at h; cases h; exact DeclEq.of_tags rfl
  lifts := by
    intro c c' h
    unfold simS
    rcases orel_cases (checkSimilar_mapEq pp h.similar) with ⟨h1, h2⟩ | ⟨s, s', h1, h2, hs⟩
    · rw [h1, h2]; trivial
    · rw [h1, h2]; exact h.setSimilar hs

theorem cr_uniq (e : BErr) (path : Bytes) : Cr (uniqS e path) where
  upd i c f hf hi := by
    unfold uniqS
    have e0 : (c.updInter i f).uniqURL = c.uniqURL := rfl
    rw [e0]
    split <;> rfl
  get i c c2 h hi := by
    unfold uniqS at h
    split at h
    · cases h
    · cases h; rfl
  decl c c2 h := by
    unfold uniqS at h
    split at h
    · cases h
    · cases h; exact DeclEq.of_tags rfl
  lifts := by
    intro c c' h
    unfold uniqS
    rw [h.uniq path]
    split
    · trivial
    · refine ⟨h.jsight, h.info, h.servers, h.types, h.inters, h.keys, h.tags, ?_, h.similar, h.proto⟩
      intro p
      show (path :: c'.uniqURL).contains p = (path :: c.uniqURL).contains p
      rw [List.contains_cons, List.contains_cons, h.uniq p]

theorem cr_tagChk (td : BDir) : Cr (tagChk td) where
  upd i c f hf hi := by
    unfold tagChk
    have e0 : tagsFromDirective (c.updInter i f) td = tagsFromDirective c td :=
      tagsFromDirective_decl (DeclEq.of_tags rfl) td
    rw [e0]
    cases tagsFromDirective c td <;> rfl
  get i c c2 h hi := by
    obtain ⟨_, _, h2⟩ := bind_ok h
    cases h2; rfl
  decl c c2 h := by
    obtain ⟨_, _, h2⟩ := bind_ok h
    cases h2; exact DeclEq.refl _
  lifts := by
    intro c c' h
    unfold tagChk
    rw [tagsFromDirective_decl h.declEq td]
    cases tagsFromDirective c td with
    | error e => trivial
    | ok ns => exact h

/-! #### the effect of `interS` -/

theorem tfd_ns {c : Cat} {td : BDir} {ns : List Bytes} (h : tagsFromDirective c td = .ok ns) : ns = td.unnamed := by
  unfold tagsFromDirective at h
  repeat' split at h
  all_goals first | (cases h; rfl) | cases h

def nsOf (i : IId) (src : Option BDir) : List Bytes :=
  match src with
  | none => [autoName i]
  | some td => td.unnamed

def tagsEff (i : IId) (src : Option BDir) (G : List TagM) : List TagM :=
  match src with
  | none => effTags i G
  | some td => G.map (attachList i td.unnamed)

def effG (d : BDir) (i : IId) (src : Option BDir) (c : Cat) : Cat :=
  { c with tags := tagsEff i src c.tags, inters := c.inters ++ [{ iid := i, annot := d.annot, tags := nsOf i src }] }

def srcOK (c : Cat) (src : Option BDir) : Prop :=
  match src with
  | none => True
  | some td => tagsFromDirective c td = .ok td.unnamed

theorem tagStageS_ok {d : BDir} {i : IId} {src : Option BDir} {c c2 : Cat} (h : tagStageS d i src c = .ok c2) :
    srcOK c src ∧ c2 = effG d i src c := by
  cases src with
  | none =>
    have := tagStage_auto d [] [] i c (by unfold tagsSource tagsChild; rfl)
    rw [tagStage_eq_S] at this
    have e : tagsSource [] [] = none := by unfold tagsSource tagsChild; rfl
    rw [e] at this
    rw [this] at h
    cases h
    exact ⟨trivial, rfl⟩
  | some td =>
    unfold tagStageS at h
    simp only [] at h
    cases ht : tagsFromDirective c td with
    | error e => rw [ht] at h; cases h
    | ok ns =>
      rw [ht] at h
      cases h
      have := tfd_ns ht
      subst this
      refine ⟨ht, ?_⟩
      unfold fin effG tagsEff nsOf
      rw [attachAll_eq]

theorem tagStageS_of {d : BDir} {i : IId} {src : Option BDir} {c : Cat} (h : srcOK c src) :
    tagStageS d i src c = .ok (effG d i src c) := by
  cases src with
  | none =>
    have := tagStage_auto d [] [] i c (by unfold tagsSource tagsChild; rfl)
    rw [tagStage_eq_S] at this
    have e : tagsSource [] [] = none := by unfold tagsSource tagsChild; rfl
    rw [e] at this
    rw [this]; rfl
  | some td =>
    unfold tagStageS
    have h' : tagsFromDirective c td = .ok td.unnamed := h
    simp only [h']
    unfold fin effG tagsEff nsOf
    rw [attachAll_eq]

theorem interS_ok {e : BErr} {d : BDir} {i : IId} {src : Option BDir} {c c2 : Cat} (h : interS e d i src c = .ok c2) :
    taken c i = false ∧ srcOK c src ∧ c2 = effG d i src c := by
  unfold interS at h
  split at h
  · cases h
  · rename_i hn
    exact ⟨by simpa using hn, tagStageS_ok h⟩

theorem interS_of {e : BErr} {d : BDir} {i : IId} {src : Option BDir} {c : Cat} (hn : taken c i = false)
    (hs : srcOK c src) : interS e d i src c = .ok (effG d i src c) := by
  unfold interS
  simp only [hn, Bool.false_eq_true, if_false]
  exact tagStageS_of hs

theorem effG_hasInter (d : BDir) (i : IId) (src : Option BDir) (c : Cat) (j : IId) :
    (effG d i src c).hasInter j = (c.hasInter j || i == j) := by
  unfold effG Cat.hasInter
  simp [List.any_append]

theorem effG_taken (d : BDir) (i : IId) (src : Option BDir) (c : Cat) (j : IId) :
    taken (effG d i src c) j = (taken c j || i == j || (j.proto == .rpc && i.text == j.text)) := by
  unfold taken
  rw [effG_hasInter]
  unfold effG Cat.hasInter
  simp only [List.any_append, List.any_cons, List.any_nil, Bool.or_false]
  cases (c.inters.any fun x => x.iid == j) <;> cases (i == j) <;> cases (j.proto == Proto.rpc) <;>
    cases (c.inters.any fun x => x.iid.text == j.text) <;> cases (i.text == j.text) <;> rfl

theorem effG_getInter (d : BDir) (i : IId) (src : Option BDir) (c : Cat) (j : IId) (hj : c.hasInter j = true) :
    (effG d i src c).getInter j = c.getInter j := by
  rw [hasInter_iff_getInter] at hj
  unfold effG Cat.getInter at *
  simp only [List.find?_append]
  cases h : c.inters.find? (fun x => x.iid == j) with
  | none => rw [h] at hj; cases hj
  | some x => rfl

theorem attachList_declared (i : IId) : ∀ (ns : List Bytes) (t : TagM), (attachList i ns t).declared = t.declared
  | [], _ => rfl
  | n :: r, t => by
    rw [attachList_cons, attachList_declared i r]
    split
    · exact attach_declared i t
    · rfl

theorem find_map_name (G : List TagM) (g : TagM → TagM) (hg : ∀ x, (g x).name = x.name) (n : Bytes) :
    (G.map g).find? (fun x => x.name == n) = (G.find? (fun x => x.name == n)).map g := by
  rw [List.find?_map]
  have : ((fun x : TagM => x.name == n) ∘ g) = (fun x => x.name == n) := by
    funext x; simp only [Function.comp, hg]
  rw [this]

/-- the tag of the name `n` after `interS` -/
def lkG (i : IId) (src : Option BDir) (n : Bytes) (o : Option TagM) : Option TagM :=
  match src with
  | none => look1 i n o
  | some td => o.map (attachList i td.unnamed)

theorem find_tagsEff (i : IId) (src : Option BDir) (G : List TagM) (n : Bytes) :
    (tagsEff i src G).find? (fun x => x.name == n) = lkG i src n (G.find? (fun x => x.name == n)) := by
  cases src with
  | none => exact find_effTags i G n
  | some td => exact find_map_name G _ (attachList_name i td.unnamed) n

theorem tagsEff_nodup (i : IId) (src : Option BDir) {G : List TagM} (h : (G.map (·.name)).Nodup) :
    ((tagsEff i src G).map (·.name)).Nodup := by
  cases src with
  | none => exact effTags_nodup i h
  | some td =>
    show ((G.map (attachList i td.unnamed)).map (·.name)).Nodup
    rw [map_name_upd _ _ (attachList_name i td.unnamed)]; exact h

theorem effG_decl (d : BDir) (i : IId) (src : Option BDir) (c : Cat) : DeclEq c (effG d i src c) := by
  cases src with
  | none => exact eff_decl d i c
  | some td =>
    intro n
    unfold declOf Cat.getTag effG
    simp only []
    rw [find_tagsEff]
    unfold lkG
    cases c.tags.find? (fun x => x.name == n) with
    | some t => simp [attachList_declared]
    | none => rfl

theorem srcOK_decl {c c' : Cat} (h : DeclEq c c') (src : Option BDir) : srcOK c' src ↔ srcOK c src := by
  cases src with
  | none => exact Iff.rfl
  | some td => unfold srcOK; simp only []; rw [tagsFromDirective_decl h td]

theorem tagStageS_sim (d : BDir) (i : IId) (src : Option BDir) {c c' : Cat} (h : Sim c c')
    (hf : c.hasInter i = false) : RRel Sim (tagStageS d i src c) (tagStageS d i src c') := by
  unfold tagStageS
  cases src with
  | some td =>
    simp only []
    rw [tagsFromDirective_rel tagFrame_rel h.tags td]
    cases tagsFromDirective c td with
    | error e => trivial
    | ok ns =>
      refine fin_sim (attachAll_sim i ns h) d i ns ?_
      unfold Cat.hasInter; rw [attachAll_inters]; exact hf
  | none =>
    refine fin_sim (attachAll_sim i _ (autoCat_sim h i)) d i _ ?_
    unfold Cat.hasInter; rw [attachAll_inters, autoCat_inters]; exact hf

theorem cr_inter (e : BErr) (d : BDir) (i : IId) (src : Option BDir) : Cr (interS e d i src) where
  upd j c f hf hj := by
    cases hm : interS e d i src c with
    | ok c2 =>
      obtain ⟨hn, hs, rfl⟩ := interS_ok hm
      have hij : i ≠ j := by
        intro e'; subst e'; rw [taken_false hn] at hj; cases hj
      have hn' : taken (c.updInter j f) i = false := by rw [taken_updInter c i j hf]; exact hn
      have hs' : srcOK (c.updInter j f) src := (srcOK_decl (DeclEq.of_tags rfl) src).2 hs
      rw [interS_of hn' hs']
      simp only [rmap_ok]
      congr 1
      unfold effG Cat.updInter
      simp only [List.map_append, List.map_cons, List.map_nil]
      have : (i == j) = false := by simpa using hij
      simp only [this, Bool.false_eq_true, if_false]
    | error e1 =>
      cases hm' : interS e d i src (c.updInter j f) with
      | error e2 =>
        show Except.error e2 = Except.error e1
        unfold interS at hm hm'
        rw [taken_updInter c i j hf] at hm'
        split at hm
        · rename_i hh; rw [if_pos hh] at hm'; rw [← hm, ← hm']
        · rename_i hh
          rw [if_neg hh] at hm'
          cases src with
          | none => unfold tagStageS at hm; cases hm
          | some td =>
            unfold tagStageS at hm hm'
            simp only [] at hm hm'
            have e0 : tagsFromDirective (c.updInter j f) td = tagsFromDirective c td :=
              tagsFromDirective_decl (DeclEq.of_tags rfl) td
            rw [e0] at hm'
            cases ht : tagsFromDirective c td with
            | ok ns => rw [ht] at hm; cases hm
            | error e3 => rw [ht] at hm hm'; cases hm; cases hm'; rfl
      | ok c2 =>
        obtain ⟨hn, hs, _⟩ := interS_ok hm'
        rw [taken_updInter c i j hf] at hn
        have hs' : srcOK c src := (srcOK_decl (DeclEq.of_tags rfl) src).1 hs
        rw [interS_of hn hs'] at hm; cases hm
  get j c c2 h hj := by
    obtain ⟨_, _, rfl⟩ := interS_ok h
    exact effG_getInter d i src c j hj
  decl c c2 h := by
    obtain ⟨_, _, rfl⟩ := interS_ok h
    exact effG_decl d i src c
  lifts := by
    intro c c' h
    unfold interS
    rw [h.taken i]
    split
    · trivial
    · rename_i hn
      exact tagStageS_sim d i src h (taken_false (by simpa using hn))

/-! #### pairs of atoms -/

theorem comm_exact {M N : Cat → R Cat} (hM : Cr M) (hN : Cr N) (h : ∀ x, REq (M x >>= N) (N x >>= M)) : Comm M N := by
  intro x hx
  have := h x
  cases h1 : (M x >>= N) with
  | error e =>
    rw [h1] at this
    cases h2 : (N x >>= M) with
    | error _ => trivial
    | ok _ => rw [h2] at this; cases this
  | ok r =>
    rw [h1] at this
    cases h2 : (N x >>= M) with
    | error _ => rw [h2] at this; cases this
    | ok r' =>
      rw [h2] at this
      have e : r' = r := this
      subst e
      exact Sim.rfl' ((hN.lifts.seq hM.lifts).nd h2 hx)

theorem comm_err (e : BErr) (N : Cat → R Cat) : Comm (errS e) N := by
  intro x _
  show RRel Sim (Except.error e >>= N) (N x >>= errS e)
  cases N x <;> trivial

theorem tagChk_comm_eq (td : BDir) {M : Cat → R Cat} (hM : Cr M) (x : Cat) :
    REq (tagChk td x >>= M) (M x >>= tagChk td) := by
  unfold tagChk
  cases ht : tagsFromDirective x td with
  | error e =>
    rw [error_bind, error_bind]
    cases hm : M x with
    | error e' => trivial
    | ok c2 =>
      rw [ok_bind, tagsFromDirective_decl (hM.decl x c2 hm) td, ht]; trivial
  | ok ns =>
    rw [ok_bind, ok_bind]
    cases hm : M x with
    | error e' => trivial
    | ok c2 =>
      rw [ok_bind, tagsFromDirective_decl (hM.decl x c2 hm) td, ht]
      exact REq.refl _

theorem comm_tagChk (td : BDir) {M : Cat → R Cat} (hM : Cr M) : Comm (tagChk td) M :=
  comm_exact (cr_tagChk td) hM (tagChk_comm_eq td hM)

/-- an operation on one field and an operation that neither reads nor writes that field -/
def guardOp {α : Type} (g : Cat → Option α) (set : α → Cat → Cat) (e : BErr) (c : Cat) : R Cat :=
  match g c with
  | none => .error e
  | some v => .ok (set v c)

theorem comm_field {α : Type} {A N : Cat → R Cat} (g : Cat → Option α) (set : α → Cat → Cat) (e : BErr)
    (hA : ∀ c, A c = guardOp g set e c)
    (hN1 : ∀ v c, N (set v c) = rmap (set v) (N c))
    (hN2 : ∀ c c2, N c = .ok c2 → g c2 = g c) (x : Cat) : REq (A x >>= N) (N x >>= A) := by
  rw [hA x]
  unfold guardOp
  cases hg : g x with
  | none =>
    simp only [error_bind]
    cases hn : N x with
    | error e' => trivial
    | ok c2 => rw [ok_bind, hA c2]; unfold guardOp; rw [hN2 x c2 hn, hg]; trivial
  | some v =>
    simp only [ok_bind]
    rw [hN1 v x]
    cases hn : N x with
    | error e' => trivial
    | ok c2 => rw [ok_bind, hA c2]; unfold guardOp; rw [hN2 x c2 hn, hg]; exact REq.refl _

def setSim (s : List (Bytes × Bytes)) (c : Cat) : Cat := { c with similar := s }
def gSim (pp : List (Bytes × Bytes)) (c : Cat) : Option (List (Bytes × Bytes)) := checkSimilar c.similar pp
def setUniq (u : List Bytes) (c : Cat) : Cat := { c with uniqURL := u }
def gUniq (path : Bytes) (c : Cat) : Option (List Bytes) :=
  if c.uniqURL.contains path then none else some (path :: c.uniqURL)

theorem simS_eq (e : BErr) (pp : List (Bytes × Bytes)) (c : Cat) :
    simS e pp c = guardOp (gSim pp) setSim e c := by
  unfold simS guardOp gSim setSim; cases checkSimilar c.similar pp <;> rfl

theorem uniqS_eq (e : BErr) (path : Bytes) (c : Cat) :
    uniqS e path c = guardOp (gUniq path) setUniq e c := by
  unfold uniqS guardOp gUniq setUniq; split <;> rfl

theorem comm_sim_uniq (e : BErr) (pp : List (Bytes × Bytes)) (e' : BErr) (path : Bytes) :
    Comm (simS e pp) (uniqS e' path) :=
  comm_exact (cr_sim e pp) (cr_uniq e' path) (comm_field (gSim pp) setSim e (simS_eq e pp)
    (by intro v c; unfold uniqS setSim; simp only []; split <;> rfl)
    (by intro c c2 h; unfold uniqS at h; split at h
        · cases h
        · cases h; rfl))

theorem interS_set (e : BErr) (d : BDir) (i : IId) (src : Option BDir) (set : Cat → Cat)
    (h1 : ∀ c, taken (set c) i = taken c i)
    (h2 : ∀ c td, tagsFromDirective (set c) td = tagsFromDirective c td)
    (h3 : ∀ c, effG d i src (set c) = set (effG d i src c)) (c : Cat) :
    interS e d i src (set c) = rmap set (interS e d i src c) := by
  unfold interS
  rw [h1]
  split
  · rfl
  · cases hm : tagStageS d i src c with
    | ok c2 =>
      obtain ⟨hs, rfl⟩ := tagStageS_ok hm
      have hs' : srcOK (set c) src := by
        cases src with
        | none => trivial
        | some td => unfold srcOK; simp only []; rw [h2]; exact hs
      rw [tagStageS_of hs', h3]; rfl
    | error e1 =>
      cases src with
      | none => rw [tagStageS_of (src := none) trivial] at hm; cases hm
      | some td =>
        unfold tagStageS at hm ⊢
        simp only [] at hm ⊢
        rw [h2]
        cases ht : tagsFromDirective c td with
        | ok ns => rw [ht] at hm; cases hm
        | error e2 => rw [ht] at hm; cases hm; rfl

theorem interS_setSimilar (e : BErr) (d : BDir) (i : IId) (src : Option BDir) (s : List (Bytes × Bytes)) (c : Cat) :
    interS e d i src (setSim s c) = rmap (setSim s) (interS e d i src c) :=
  interS_set e d i src (setSim s) (fun _ => rfl) (fun _ _ => rfl) (fun _ => rfl) c

theorem interS_setUniq (e : BErr) (d : BDir) (i : IId) (src : Option BDir) (u : List Bytes) (c : Cat) :
    interS e d i src (setUniq u c) = rmap (setUniq u) (interS e d i src c) :=
  interS_set e d i src (setUniq u) (fun _ => rfl) (fun _ _ => rfl) (fun _ => rfl) c

theorem comm_sim_inter (e : BErr) (pp : List (Bytes × Bytes)) (e' : BErr) (d : BDir) (i : IId) (src : Option BDir) :
    Comm (simS e pp) (interS e' d i src) :=
  comm_exact (cr_sim e pp) (cr_inter e' d i src) (comm_field (gSim pp) setSim e (simS_eq e pp)
    (fun v c => interS_setSimilar e' d i src v c)
    (by intro c c2 h; obtain ⟨_, _, rfl⟩ := interS_ok h; rfl))

theorem comm_uniq_inter (e : BErr) (path : Bytes) (e' : BErr) (d : BDir) (i : IId) (src : Option BDir) :
    Comm (uniqS e path) (interS e' d i src) :=
  comm_exact (cr_uniq e path) (cr_inter e' d i src) (comm_field (gUniq path) setUniq e (uniqS_eq e path)
    (fun v c => interS_setUniq e' d i src v c)
    (by intro c c2 h; obtain ⟨_, _, rfl⟩ := interS_ok h; rfl))

theorem comm_sim_sim (e : BErr) (pp : List (Bytes × Bytes)) (e' : BErr) (qq : List (Bytes × Bytes)) :
    Comm (simS e pp) (simS e' qq) := by
  have two : ∀ (e e' : BErr) (pp qq : List (Bytes × Bytes)) (x : Cat),
      (∃ err, (simS e pp x >>= simS e' qq) = .error err ∧ checkSimilar x.similar (pp ++ qq) = none) ∨
      (∃ s, (simS e pp x >>= simS e' qq) = .ok { x with similar := s } ∧
        checkSimilar x.similar (pp ++ qq) = some s) := by
    intro e e' pp qq x
    rw [checkSimilar_append]
    unfold simS
    cases checkSimilar x.similar pp with
    | none => exact Or.inl ⟨_, rfl, rfl⟩
    | some s =>
      simp only [ok_bind, Option.bind_some]
      cases checkSimilar s qq with
      | none => exact Or.inl ⟨_, rfl, rfl⟩
      | some s' => exact Or.inr ⟨s', rfl, rfl⟩
  intro x hx
  have hp := checkSimilar_perm (List.perm_append_comm : (pp ++ qq).Perm (qq ++ pp)) (MapEq.refl x.similar)
  rcases two e e' pp qq x with ⟨_, h1, h2⟩ | ⟨s, h1, h2⟩ <;>
    rcases two e' e qq pp x with ⟨_, h3, h4⟩ | ⟨s', h3, h4⟩ <;> rw [h1, h3] <;> rw [h2, h4] at hp
  · trivial
  · cases hp
  · cases hp
  · exact (Sim.rfl' hx).setSimilar hp

theorem uniqS_mem {e : BErr} {p : Bytes} {c : Cat} (h : c.uniqURL.contains p = true) : uniqS e p c = .error e := by
  unfold uniqS; rw [if_pos h]

theorem uniqS_not {e : BErr} {p : Bytes} {c : Cat} (h : c.uniqURL.contains p = false) :
    uniqS e p c = .ok { c with uniqURL := p :: c.uniqURL } := by
  unfold uniqS; rw [h]; rfl

theorem comm_uniq_uniq (e : BErr) (p : Bytes) (e' : BErr) (q : Bytes) : Comm (uniqS e p) (uniqS e' q) := by
  intro x hx
  cases h1 : x.uniqURL.contains p <;> cases h2 : x.uniqURL.contains q
  · rw [uniqS_not h1, uniqS_not h2, ok_bind, ok_bind]
    by_cases h3 : p = q
    · subst h3
      have : ({ x with uniqURL := p :: x.uniqURL } : Cat).uniqURL.contains p = true := by
        show (p :: x.uniqURL).contains p = true
        simp [List.contains_cons]
      rw [uniqS_mem this, uniqS_mem this]; trivial
    · have a1 : ({ x with uniqURL := p :: x.uniqURL } : Cat).uniqURL.contains q = false := by
        show (p :: x.uniqURL).contains q = false
        rw [List.contains_cons, h2]; simpa using (Ne.symm h3)
      have a2 : ({ x with uniqURL := q :: x.uniqURL } : Cat).uniqURL.contains p = false := by
        show (q :: x.uniqURL).contains p = false
        rw [List.contains_cons, h1]; simpa using h3
      rw [uniqS_not a1, uniqS_not a2]
      have hs := Sim.rfl' hx
      refine ⟨rfl, rfl, rfl, rfl, hs.inters, hs.keys, hs.tags, ?_, hs.similar, hs.proto⟩
      intro r
      show (p :: q :: x.uniqURL).contains r = (q :: p :: x.uniqURL).contains r
      simp only [List.contains_cons]
      cases (r == p) <;> cases (r == q) <;> rfl
  · rw [uniqS_not h1, uniqS_mem h2, ok_bind, error_bind]
    have : ({ x with uniqURL := p :: x.uniqURL } : Cat).uniqURL.contains q = true := by
      show (p :: x.uniqURL).contains q = true
      rw [List.contains_cons, h2]; simp
    rw [uniqS_mem this]; trivial
  · rw [uniqS_mem h1, uniqS_not h2, ok_bind, error_bind]
    have : ({ x with uniqURL := q :: x.uniqURL } : Cat).uniqURL.contains p = true := by
      show (q :: x.uniqURL).contains p = true
      rw [List.contains_cons, h1]; simp
    rw [uniqS_mem this]; trivial
  · rw [uniqS_mem h1, uniqS_mem h2]; trivial

/-! #### two new interactions -/

theorem attachList_eqv (i : IId) : ∀ (ns : List Bytes) {t t' : TagM}, TagEqv t t' →
    TagEqv (attachList i ns t) (attachList i ns t')
  | [], _, _, h => h
  | n :: r, t, t', h => by
    rw [attachList_cons, attachList_cons, h.name]
    apply attachList_eqv i r
    split
    · exact h.attach i
    · exact h

theorem attach_attachList (i j : IId) : ∀ (ns : List Bytes) (t : TagM),
    TagEqv (attach j (attachList i ns t)) (attachList i ns (attach j t))
  | [], t => TagEqv.refl _
  | n :: r, t => by
    rw [attachList_cons, attachList_cons, attach_name]
    by_cases h : (t.name == n) = true
    · simp only [h, if_true]
      exact (attach_attachList i j r (attach i t)).trans (attachList_eqv i r (TagEqv.attach_comm t i j))
    · simp only [h, if_false]
      exact attach_attachList i j r t

theorem attachList_comm (i j : IId) (ns : List Bytes) : ∀ (ms : List Bytes) (t : TagM),
    TagEqv (attachList j ms (attachList i ns t)) (attachList i ns (attachList j ms t))
  | [], t => TagEqv.refl _
  | m :: r, t => by
    rw [attachList_cons, attachList_cons, attachList_name]
    by_cases h : (t.name == m) = true
    · simp only [h, if_true]
      exact (attachList_eqv j r (attach_attachList i j ns t)).trans (attachList_comm i j ns r (attach j t))
    · simp only [h, if_false]
      exact attachList_comm i j ns r t

theorem attachList_not_mem (i : IId) : ∀ (ns : List Bytes) (t : TagM), t.name ∉ ns → attachList i ns t = t
  | [], _, _ => rfl
  | n :: r, t, h => by
    rw [attachList_cons]
    have h1 : (t.name == n) = false := by
      simp only [List.mem_cons, not_or] at h; simpa using h.1
    simp only [h1, Bool.false_eq_true, if_false]
    exact attachList_not_mem i r t (fun hm => h (List.mem_cons_of_mem _ hm))

theorem updAt_attachList (i j : IId) (ns : List Bytes) (t : TagM) :
    TagEqv (updAt j (attachList i ns t)) (attachList i ns (updAt j t)) := by
  unfold updAt
  rw [attachList_name]
  split
  · exact attach_attachList i j ns t
  · exact TagEqv.refl _

/-- the names of an accepted Tags directive are there -/
theorem srcOK_present {c : Cat} {td : BDir} (h : tagsFromDirective c td = .ok td.unnamed) :
    ∀ m ∈ td.unnamed, ∃ t, c.tags.find? (fun x => x.name == m) = some t := by
  intro m hm
  obtain ⟨t, ht, e⟩ := (tagsFromDirective_spec h).2 m hm
  cases hf : c.tags.find? (fun x => x.name == m) with
  | some u => exact ⟨u, rfl⟩
  | none =>
    have := List.find?_eq_none.1 hf t ht
    simp [e] at this

theorem lkG_comm (iA iB : IId) (srcA srcB : Option BDir) (n : Bytes) (o : Option TagM)
    (ho : ∀ t, o = some t → t.name = n)
    (pA : ∀ td, srcA = some td → o = none → n ∉ td.unnamed)
    (pB : ∀ td, srcB = some td → o = none → n ∉ td.unnamed) :
    ORel TagEqv (lkG iB srcB n (lkG iA srcA n o)) (lkG iA srcA n (lkG iB srcB n o)) := by
  have mixed : ∀ (i j : IId) (td : BDir), (o = none → n ∉ td.unnamed) →
      ORel TagEqv ((look1 i n o).map (attachList j td.unnamed)) (look1 i n (o.map (attachList j td.unnamed))) := by
    intro i j td hp
    cases o with
    | some t =>
      simp only [look1, Option.some_or, Option.map_some]
      exact (updAt_attachList j i td.unnamed t).symm
    | none =>
      simp only [look1, Option.none_or, Option.map_none]
      by_cases e : autoName i = n
      · simp only [e, beq_self_eq_true, if_true, Option.map_some]
        show TagEqv _ _
        have : (updAt i (autoTag i)).name ∉ td.unnamed := by
          rw [updAt_name]; show autoName i ∉ _; rw [e]; exact hp rfl
        rw [attachList_not_mem j td.unnamed _ this]
        exact TagEqv.refl _
      · have e' : (autoName i == n) = false := by simpa using e
        simp only [e', Bool.false_eq_true, if_false, Option.map_none]
        trivial
  cases srcA with
  | none =>
    cases srcB with
    | none => exact look1_comm iA iB n o ho
    | some tdB => exact mixed iA iB tdB (pB tdB rfl)
  | some tdA =>
    cases srcB with
    | none => exact (mixed iB iA tdA (pA tdA rfl)).symm_tag
    | some tdB =>
      cases o with
      | none => trivial
      | some t =>
        simp only [lkG, Option.map_some]
        exact attachList_comm iA iB tdA.unnamed tdB.unnamed t

theorem srcOK_not_mem {c : Cat} {src : Option BDir} (h : srcOK c src) (n : Bytes) :
    ∀ td, src = some td → c.tags.find? (fun x => x.name == n) = none → n ∉ td.unnamed := by
  intro td e hn hm
  subst e
  obtain ⟨t, ht⟩ := srcOK_present h n hm
  rw [hn] at ht; cases ht

/-- two new interactions in either order: the accepted run -/
theorem interS_comm_ok (eA : BErr) (dA : BDir) (iA : IId) (srcA : Option BDir) (eB : BErr) (dB : BDir) (iB : IId)
    (srcB : Option BDir) (x : Cat) (hx : Nd x) {r : Cat}
    (h : (interS eA dA iA srcA x >>= interS eB dB iB srcB) = .ok r) :
    ∃ r', (interS eB dB iB srcB x >>= interS eA dA iA srcA) = .ok r' ∧ Sim r r' := by
  obtain ⟨x1, h1, h2⟩ := bind_ok h
  obtain ⟨hnA, hsA, rfl⟩ := interS_ok h1
  obtain ⟨hnB, hsB, rfl⟩ := interS_ok h2
  rw [effG_taken] at hnB
  simp only [Bool.or_eq_false_iff] at hnB
  obtain ⟨⟨hnB', hne⟩, htxt⟩ := hnB
  have hAB : iA ≠ iB := by
    intro e; subst e; simp at hne
  have hsB' : srcOK x srcB := (srcOK_decl (effG_decl dA iA srcA x) srcB).1 hsB
  have hB1 : interS eB dB iB srcB x = .ok (effG dB iB srcB x) := interS_of hnB' hsB'
  have hA2 : interS eA dA iA srcA (effG dB iB srcB x) = .ok (effG dA iA srcA (effG dB iB srcB x)) := by
    apply interS_of
    · rw [effG_taken, hnA]
      have h1 : (iB == iA) = false := by simpa using (Ne.symm hAB)
      have h2 : (iA.proto == Proto.rpc && iB.text == iA.text) = false := by
        cases hpA : iA.proto with
        | http => rfl
        | rpc =>
          cases hpB : iB.proto with
          | rpc =>
            rw [hpB] at htxt
            have : (iA.text == iB.text) = false := by simpa using htxt
            have hne' : iA.text ≠ iB.text := by simpa using this
            have : (iB.text == iA.text) = false := by simpa using (Ne.symm hne')
            simp [this]
          | http =>
            have : iB.text ≠ iA.text := by
              unfold IId.text; rw [hpA, hpB]; exact http_ne_rpc _ _ _ _
            simp [this]
      rw [h1, h2]; rfl
    · exact (srcOK_decl (effG_decl dB iB srcB x) srcA).2 hsA
  refine ⟨_, by rw [hB1, ok_bind, hA2], ?_⟩
  refine ⟨rfl, rfl, rfl, rfl, ?_, ?_, ?_, fun _ => rfl, MapEq.refl _, fun _ => rfl⟩
  · exact perm_snoc2 _ _ _
  · show ((x.inters ++ [({ iid := iA, annot := dA.annot, tags := nsOf iA srcA } : InterM)] ++
      [({ iid := iB, annot := dB.annot, tags := nsOf iB srcB } : InterM)]).map (·.iid)).Nodup
    simp only [List.map_append, List.map_cons, List.map_nil, List.append_assoc, List.cons_append, List.nil_append]
    rw [List.nodup_append]
    refine ⟨hx.keys, ?_, ?_⟩
    · simp [hAB]
    · intro a ha b hb
      simp only [List.mem_cons, List.not_mem_nil, or_false] at hb
      intro e; subst e
      rcases hb with rfl | rfl
      · exact hasInter_false (taken_false hnA) ha
      · exact hasInter_false (taken_false hnB') ha
  · show TagsRel (tagsEff iB srcB (tagsEff iA srcA x.tags)) (tagsEff iA srcA (tagsEff iB srcB x.tags))
    refine ⟨tagsEff_nodup iB srcB (tagsEff_nodup iA srcA hx.tags), tagsEff_nodup iA srcA (tagsEff_nodup iB srcB hx.tags),
      fun n => ?_⟩
    rw [find_tagsEff, find_tagsEff, find_tagsEff, find_tagsEff]
    exact lkG_comm iA iB srcA srcB n _ (fun t ht => find_name ht) (srcOK_not_mem hsA n) (srcOK_not_mem hsB' n)

theorem comm_inter_inter (eA : BErr) (dA : BDir) (iA : IId) (srcA : Option BDir) (eB : BErr) (dB : BDir) (iB : IId)
    (srcB : Option BDir) : Comm (interS eA dA iA srcA) (interS eB dB iB srcB) := by
  intro x hx
  cases h1 : (interS eA dA iA srcA x >>= interS eB dB iB srcB) with
  | ok r =>
    obtain ⟨r', h2, hs⟩ := interS_comm_ok eA dA iA srcA eB dB iB srcB x hx h1
    rw [h2]; exact hs
  | error e =>
    cases h2 : (interS eB dB iB srcB x >>= interS eA dA iA srcA) with
    | error e' => trivial
    | ok r' =>
      obtain ⟨r, h3, _⟩ := interS_comm_ok eB dB iB srcB eA dA iA srcA x hx h2
      rw [h1] at h3; cases h3

/-! #### the Protocol directive of a URL -/

def protoS (e : BErr) (n : Nat) (c : Cat) : R Cat :=
  if c.protoURLs.contains n then .error e else .ok { c with protoURLs := n :: c.protoURLs }

def setProto (u : List Nat) (c : Cat) : Cat := { c with protoURLs := u }
def gProto (n : Nat) (c : Cat) : Option (List Nat) :=
  if c.protoURLs.contains n then none else some (n :: c.protoURLs)

theorem protoS_eq (e : BErr) (n : Nat) (c : Cat) : protoS e n c = guardOp (gProto n) setProto e c := by
  unfold protoS guardOp gProto setProto; split <;> rfl

theorem protoS_mem {e : BErr} {n : Nat} {c : Cat} (h : c.protoURLs.contains n = true) : protoS e n c = .error e := by
  unfold protoS; rw [if_pos h]

theorem protoS_not {e : BErr} {n : Nat} {c : Cat} (h : c.protoURLs.contains n = false) :
    protoS e n c = .ok { c with protoURLs := n :: c.protoURLs } := by
  unfold protoS; rw [h]; rfl

theorem cr_proto (e : BErr) (n : Nat) : Cr (protoS e n) where
  upd i c f hf hi := by
    unfold protoS
    have e0 : (c.updInter i f).protoURLs = c.protoURLs := rfl
    rw [e0]
    split <;> rfl
  get i c c2 h hi := by
    unfold protoS at h
    split at h
    · cases h
    · cases h; rfl
  decl c c2 h := by
    unfold protoS at h
    split at h
    · cases h
    · cases h; exact DeclEq.of_tags rfl
  lifts := by
    intro c c' h
    unfold protoS
    rw [h.proto n]
    split
    · trivial
    · refine ⟨h.jsight, h.info, h.servers, h.types, h.inters, h.keys, h.tags, h.uniq, h.similar, ?_⟩
      intro m
      show (n :: c'.protoURLs).contains m = (n :: c.protoURLs).contains m
      rw [List.contains_cons, List.contains_cons, h.proto m]

theorem comm_sim_proto (e : BErr) (pp : List (Bytes × Bytes)) (e' : BErr) (n : Nat) :
    Comm (simS e pp) (protoS e' n) :=
  comm_exact (cr_sim e pp) (cr_proto e' n) (comm_field (gSim pp) setSim e (simS_eq e pp)
    (by intro v c; unfold protoS setSim; simp only []; split <;> rfl)
    (by intro c c2 h; unfold protoS at h; split at h
        · cases h
        · cases h; rfl))

theorem comm_uniq_proto (e : BErr) (path : Bytes) (e' : BErr) (n : Nat) :
    Comm (uniqS e path) (protoS e' n) :=
  comm_exact (cr_uniq e path) (cr_proto e' n) (comm_field (gUniq path) setUniq e (uniqS_eq e path)
    (by intro v c; unfold protoS setUniq; simp only []; split <;> rfl)
    (by intro c c2 h; unfold protoS at h; split at h
        · cases h
        · cases h; rfl))

theorem interS_setProto (e : BErr) (d : BDir) (i : IId) (src : Option BDir) (u : List Nat) (c : Cat) :
    interS e d i src (setProto u c) = rmap (setProto u) (interS e d i src c) :=
  interS_set e d i src (setProto u) (fun _ => rfl) (fun _ _ => rfl) (fun _ => rfl) c

theorem comm_proto_inter (e : BErr) (n : Nat) (e' : BErr) (d : BDir) (i : IId) (src : Option BDir) :
    Comm (protoS e n) (interS e' d i src) :=
  comm_exact (cr_proto e n) (cr_inter e' d i src) (comm_field (gProto n) setProto e (protoS_eq e n)
    (fun v c => interS_setProto e' d i src v c)
    (by intro c c2 h; obtain ⟨_, _, rfl⟩ := interS_ok h; rfl))

theorem comm_proto_proto (e : BErr) (p : Nat) (e' : BErr) (q : Nat) : Comm (protoS e p) (protoS e' q) := by
  intro x hx
  cases h1 : x.protoURLs.contains p <;> cases h2 : x.protoURLs.contains q
  · rw [protoS_not h1, protoS_not h2, ok_bind, ok_bind]
    by_cases h3 : p = q
    · subst h3
      have : ({ x with protoURLs := p :: x.protoURLs } : Cat).protoURLs.contains p = true := by
        show (p :: x.protoURLs).contains p = true
        simp [List.contains_cons]
      rw [protoS_mem this, protoS_mem this]; trivial
    · have a1 : ({ x with protoURLs := p :: x.protoURLs } : Cat).protoURLs.contains q = false := by
        show (p :: x.protoURLs).contains q = false
        rw [List.contains_cons, h2]; simpa using (Ne.symm h3)
      have a2 : ({ x with protoURLs := q :: x.protoURLs } : Cat).protoURLs.contains p = false := by
        show (q :: x.protoURLs).contains p = false
        rw [List.contains_cons, h1]; simpa using h3
      rw [protoS_not a1, protoS_not a2]
      have hs := Sim.rfl' hx
      refine ⟨rfl, rfl, rfl, rfl, hs.inters, hs.keys, hs.tags, hs.uniq, hs.similar, ?_⟩
      intro r
      show (p :: q :: x.protoURLs).contains r = (q :: p :: x.protoURLs).contains r
      simp only [List.contains_cons]
      cases (r == p) <;> cases (r == q) <;> rfl
  · rw [protoS_not h1, protoS_mem h2, ok_bind, error_bind]
    have : ({ x with protoURLs := p :: x.protoURLs } : Cat).protoURLs.contains q = true := by
      show (p :: x.protoURLs).contains q = true
      rw [List.contains_cons, h2]; simp
    rw [protoS_mem this]; trivial
  · rw [protoS_mem h1, protoS_not h2, ok_bind, error_bind]
    have : ({ x with protoURLs := q :: x.protoURLs } : Cat).protoURLs.contains p = true := by
      show (q :: x.protoURLs).contains p = true
      rw [List.contains_cons, h1]; simp
    rw [protoS_mem this]; trivial
  · rw [protoS_mem h1, protoS_mem h2]; trivial

/-- the operations the creators are made of -/
inductive Atom : (Cat → R Cat) → Prop
  | err (e : BErr) : Atom (errS e)
  | sim (e : BErr) (pp : List (Bytes × Bytes)) : Atom (simS e pp)
  | uniq (e : BErr) (path : Bytes) : Atom (uniqS e path)
  | chk (td : BDir) : Atom (tagChk td)
  | inter (e : BErr) (d : BDir) (i : IId) (src : Option BDir) : Atom (interS e d i src)
  | proto (e : BErr) (n : Nat) : Atom (protoS e n)

theorem Atom.cr {a : Cat → R Cat} (h : Atom a) : Cr a := by
  cases h with
  | err e => exact cr_err e
  | sim e pp => exact cr_sim e pp
  | uniq e p => exact cr_uniq e p
  | chk td => exact cr_tagChk td
  | inter e d i src => exact cr_inter e d i src
  | proto e n => exact cr_proto e n

theorem atom_comm {a b : Cat → R Cat} (ha : Atom a) (hb : Atom b) : Comm a b := by
  cases ha with
  | err e => exact comm_err e b
  | chk td => exact comm_tagChk td hb.cr
  | sim e pp =>
    cases hb with
    | err e' => exact (comm_err e' _).symm
    | chk td => exact (comm_tagChk td (cr_sim e pp)).symm
    | sim e' qq => exact comm_sim_sim e pp e' qq
    | uniq e' p => exact comm_sim_uniq e pp e' p
    | inter e' d i src => exact comm_sim_inter e pp e' d i src
    | proto e' n => exact comm_sim_proto e pp e' n
  | uniq e p =>
    cases hb with
    | err e' => exact (comm_err e' _).symm
    | chk td => exact (comm_tagChk td (cr_uniq e p)).symm
    | sim e' qq => exact (comm_sim_uniq e' qq e p).symm
    | uniq e' q => exact comm_uniq_uniq e p e' q
    | inter e' d i src => exact comm_uniq_inter e p e' d i src
    | proto e' n => exact comm_uniq_proto e p e' n
  | inter e d i src =>
    cases hb with
    | err e' => exact (comm_err e' _).symm
    | chk td => exact (comm_tagChk td (cr_inter e d i src)).symm
    | sim e' qq => exact (comm_sim_inter e' qq e d i src).symm
    | uniq e' q => exact (comm_uniq_inter e' q e d i src).symm
    | inter e' d' i' src' => exact comm_inter_inter e d i src e' d' i' src'
    | proto e' n => exact (comm_proto_inter e' n e d i src).symm
  | proto e n =>
    cases hb with
    | err e' => exact (comm_err e' _).symm
    | chk td => exact (comm_tagChk td (cr_proto e n)).symm
    | sim e' qq => exact (comm_sim_proto e' qq e n).symm
    | uniq e' q => exact (comm_uniq_proto e' q e n).symm
    | inter e' d i src => exact comm_proto_inter e n e' d i src
    | proto e' m => exact comm_proto_proto e n e' m

theorem comm_atoms {LA LB : List (Cat → R Cat)} (hA : ∀ a ∈ LA, Atom a) (hB : ∀ b ∈ LB, Atom b) :
    Comm (runL LA) (runL LB) :=
  comm_runL (fun a h => (hA a h).cr.lifts) (fun b h => (hB b h).cr.lifts) (fun a ha b hb => atom_comm (hA a ha) (hB b hb))

/-! ### part M: the trees -/

theorem IsBlk.congrC {F C C' : Cat → R Cat} {L : List (Cat → R Cat)} {I : List IId} (h : IsBlk F C L I) (e : C = C') :
    IsBlk F C' L I := by subst e; exact h

theorem IsBlk.congrF {F F' C : Cat → R Cat} {L : List (Cat → R Cat)} {I : List IId} (h : IsBlk F C L I) (e : F' = F) :
    IsBlk F' C L I := by subst e; exact h

/-- a run of atoms is a block that creates nothing -/
theorem blk_of_atoms {F : Cat → R Cat} {As : List (Cat → R Cat)} (hA : ∀ a ∈ As, Atom a)
    (h : ∀ c, REq (F c) (runL As c)) : IsBlk F (runL As) [] [] where
  cr := cr_runL (fun a ha => (hA a ha).cr)
  locals := fun K hK => by cases hK
  creates := fun _ _ _ i hi => by cases hi
  eq := fun c => by
    show REq (F c) (runL As c >>= fun c => .ok c)
    rw [bind_ok_right]; exact h c

theorem blk_fail {F : Cat → R Cat} (e : BErr) (h : ∀ c, ∃ e', F c = .error e') :
    ∃ As L I, (∀ a ∈ As, Atom a) ∧ IsBlk F (runL As) L I := by
  refine ⟨[errS e], [], [], ?_, blk_of_atoms ?_ ?_⟩
  · intro a ha; simp only [List.mem_singleton] at ha; subst ha; exact Atom.err e
  · intro a ha; simp only [List.mem_singleton] at ha; subst ha; exact Atom.err e
  · intro c; obtain ⟨e', he⟩ := h c; rw [he]; trivial

theorem runL_two (a b : Cat → R Cat) (c : Cat) : runL [a, b] c = a c >>= b := by
  show a c >>= (fun c => b c >>= fun c => .ok c) = a c >>= b
  congr 1; funext x; exact bind_ok_right _

theorem runL_one (a : Cat → R Cat) (c : Cat) : runL [a] c = a c := bind_ok_right _

/-! #### below a JSON-RPC Method directive -/

/-- the directives allowed below a Method directive (`Gen.childAllowed`) -/
def rpcKind (d : BDir) : Bool :=
  d.kind == .Description || d.kind == .Params || d.kind == .Result || d.kind == .Tags

theorem rpcKind_cases {d : BDir} (h : rpcKind d = true) :
    d.kind = .Description ∨ d.kind = .Params ∨ d.kind = .Result ∨ d.kind = .Tags := by
  simp only [rpcKind, Bool.or_eq_true, beq_iff_eq] at h
  rcases h with ((h | h) | h) | h
  all_goals simp [h]

theorem rpcKind_skip {d : BDir} (h : rpcKind d = true) :
    d.kind ≠ .URL ∧ isHTTP d.kind = false ∧ d.kind ≠ .Method ∧ d.kind ≠ .Info ∧ d.kind ≠ .TAG := by
  rcases rpcKind_cases h with h | h | h | h <;> rw [h] <;> exact ⟨by decide, by decide, by decide, by decide, by decide⟩

theorem rpcIdOf_skip (d : BDir) (rest : List BDir) (h1 : d.kind ≠ .URL) (h2 : isHTTP d.kind = false)
    (h3 : d.kind ≠ .Method) : rpcIdOf (d :: rest) = rpcIdOf rest := by
  have e1 : pathChain (d :: rest) = pathChain rest := by
    rw [pathChain]; simp [h1, h2]
  have e2 : rpcNameChain (d :: rest) = rpcNameChain rest := by
    rw [rpcNameChain]; simp [h3]
  unfold rpcIdOf
  rw [e1, e2]

theorem addDescription_local_rpc (d : BDir) (anc : List Up) (i : IId)
    (hi : ∀ j, rpcIdOf (d :: anc.map (·.d)) = .ok j → j = i)
    (hp : ∀ p r, anc = p :: r → p.d.kind ≠ .Info ∧ isHTTP p.d.kind = false ∧ p.d.kind ≠ .TAG) :
    LocalAt i (addDescription d anc) := by
  intro c c' hg _
  unfold addDescription
  cases anc with
  | nil =>
    simp only [fail]
    repeat' split
    all_goals exact Or.inl ⟨_, _, rfl, rfl⟩
  | cons p r =>
    obtain ⟨h1, h2, h3⟩ := hp p r rfl
    have e1 : (p.d.kind == Kind.Info) = false := by simpa using h1
    have e3 : (p.d.kind == Kind.TAG) = false := by simpa using h3
    simp only [e1, h2, e3, Bool.false_eq_true, if_false]
    cases hh : rpcIdOf (d :: (p :: r).map (·.d)) with
    | error m => local_tac hh hg
    | ok j => cases hi j hh; local_tac hh hg

theorem addDirective_local_rpc (banned : List Kind) (d : BDir) (kids : List BDir) (anc : List Up) (i : IId)
    (hl : rpcKind d = true) (hi : rpcIdOf (anc.map (·.d)) = .ok i)
    (hp : ∀ p r, anc = p :: r → rpcKind p.d = true ∨ p.d.kind = .Method) :
    LocalAt i (addDirective banned d kids anc) := by
  obtain ⟨s1, s2, s3, _, _⟩ := rpcKind_skip hl
  have hi' : ∀ j, rpcIdOf (d :: anc.map (·.d)) = .ok j → j = i := by
    intro j hj
    rw [rpcIdOf_skip d _ s1 s2 s3, hi] at hj
    cases hj; rfl
  by_cases hb : banned.contains d.kind = true
  · exact LocalAt.congr (LocalAt.err ⟨d.id, .notAllowed⟩) (fun c => by unfold addDirective; rw [if_pos hb]; rfl)
  · have hpar : ∀ p r, anc = p :: r → p.d.kind ≠ .Info ∧ isHTTP p.d.kind = false ∧ p.d.kind ≠ .TAG := by
      intro p r e
      rcases hp p r e with h | h
      · obtain ⟨_, a, _, b, c⟩ := rpcKind_skip h; exact ⟨b, a, c⟩
      · rw [h]; exact ⟨by decide, by decide, by decide⟩
    rcases rpcKind_cases hl with h | h | h | h
    · exact LocalAt.congr (addDescription_local_rpc d anc i hi' hpar) (fun c => by unfold addDirective; rw [if_neg hb, h])
    · exact LocalAt.congr (addRpcSchema_local true d anc i hi') (fun c => by unfold addDirective; rw [if_neg hb, h])
    · exact LocalAt.congr (addRpcSchema_local false d anc i hi') (fun c => by unfold addDirective; rw [if_neg hb, h])
    · exact LocalAt.congr (addTags_local d anc i) (fun c => by unfold addDirective; rw [if_neg hb, h])

mutual
  theorem branch_local_rpc (banned : List Kind) (i : IId) : ∀ (t : BTree) (anc : List Up), allT rpcKind t = true →
      rpcIdOf (anc.map (·.d)) = .ok i → (∀ p r, anc = p :: r → rpcKind p.d = true ∨ p.d.kind = .Method) →
      LocalAt i (addBranch banned anc t)
    | .node d kids, anc, ht, hi, hp => by
      rw [allT, Bool.and_eq_true] at ht
      obtain ⟨s1, s2, s3, _, _⟩ := rpcKind_skip ht.1
      refine LocalAt.congr (LocalAt.bind (addDirective_local_rpc banned d (kids.map BTree.dir) anc i ht.1 hi hp)
        (forest_local_rpc banned i kids (⟨d, kids.map BTree.dir⟩ :: anc) ht.2 ?_ ?_)) (fun c => addBranch_eq banned anc d kids c)
      · show rpcIdOf (d :: anc.map (·.d)) = .ok i
        rw [rpcIdOf_skip d _ s1 s2 s3]; exact hi
      · intro p r e; cases e; exact Or.inl ht.1
  theorem forest_local_rpc (banned : List Kind) (i : IId) : ∀ (ts : List BTree) (anc : List Up), allF rpcKind ts = true →
      rpcIdOf (anc.map (·.d)) = .ok i → (∀ p r, anc = p :: r → rpcKind p.d = true ∨ p.d.kind = .Method) →
      LocalAt i (addForest banned anc ts)
    | [], anc, _, _, _ => LocalAt.congr LocalAt.ok (fun c => addForest_nil banned anc c)
    | t :: r, anc, ht, hi, hp => by
      rw [allF, Bool.and_eq_true] at ht
      exact LocalAt.congr (LocalAt.bind (branch_local_rpc banned i t anc ht.1 hi hp) (forest_local_rpc banned i r anc ht.2 hi hp))
        (fun c => addForest_cons banned anc t r c)
end

/-- a JSON-RPC Method directive with everything below it -/
theorem rpc_method_blk (banned : List Kind) (d : BDir) (kids : List BTree) (anc : List Up) (hk : d.kind = .Method)
    (hkids : allF rpcKind kids = true) :
    ∃ As L I, (∀ a ∈ As, Atom a) ∧ IsBlk (addBranch banned anc (.node d kids)) (runL As) L I := by
  have eF : addBranch banned anc (.node d kids) = seq (addDirective banned d (kids.map BTree.dir) anc)
      (addForest banned (⟨d, kids.map BTree.dir⟩ :: anc) kids) := funext (addBranch_eq banned anc d kids)
  have e : ∀ c, addDirective banned d (kids.map BTree.dir) anc c =
      if banned.contains d.kind then fail d .notAllowed else addJsonRpcMethod d (kids.map BTree.dir) anc c := by
    intro c; unfold addDirective; rw [hk]
  have failD : (∀ c, ∃ e', addDirective banned d (kids.map BTree.dir) anc c = .error e') →
      ∃ As L I, (∀ a ∈ As, Atom a) ∧ IsBlk (addBranch banned anc (.node d kids)) (runL As) L I := by
    intro h
    apply blk_fail ⟨d.id, .internal⟩
    intro c; rw [eF]; obtain ⟨e', he⟩ := h c; exact ⟨e', by unfold seq; rw [he]; rfl⟩
  by_cases hb : banned.contains d.kind = true
  · apply failD; intro c; rw [e, if_pos hb]; exact ⟨_, rfl⟩
  by_cases hn : (d.param "MethodName").isEmpty = true
  · apply failD; intro c; rw [e, if_neg hb, addJsonRpcMethod_eq, if_pos hn]; exact ⟨_, rfl⟩
  cases anc with
  | nil => apply failD; intro c; rw [e, if_neg hb, addJsonRpcMethod_eq, if_neg hn]; exact ⟨_, rfl⟩
  | cons p r =>
    by_cases hpm : (!p.kids.any (·.kind == .Protocol)) = true
    · apply failD; intro c; rw [e, if_neg hb, addJsonRpcMethod_eq, if_neg hn]
      simp only [hpm, if_true]; exact ⟨_, rfl⟩
    cases hid : rpcIdOf (d :: (p :: r).map (·.d)) with
    | error m =>
      apply failD; intro c; rw [e, if_neg hb, addJsonRpcMethod_eq, if_neg hn]
      simp only [hpm, if_false, hid, liftAt]; exact ⟨_, rfl⟩
    | ok i =>
      have eD : ∀ c, addDirective banned d (kids.map BTree.dir) (p :: r) c =
          runL [interS ⟨d.id, .methodDefined⟩ d i (tagsSource (kids.map BTree.dir) (p :: r))] c := by
        intro c
        rw [runL_one, e, if_neg hb, addJsonRpcMethod_eq, if_neg hn]
        simp only [hpm, if_false, hid, liftAt, ok_bind]
        unfold interS
        rw [taken_rpc (rpcIdOf_spec hid)]
        by_cases hh : (c.hasInter i || c.inters.any (fun x => x.iid.text == i.text)) = true
        · rw [if_pos hh, if_pos hh]; rfl
        · rw [if_neg hh, if_neg hh]; exact tagStage_eq_S d _ _ i _
      have hA : ∀ a ∈ [interS ⟨d.id, .methodDefined⟩ d i (tagsSource (kids.map BTree.dir) (p :: r))], Atom a := by
        intro a ha
        simp only [List.mem_singleton] at ha
        subst ha
        exact Atom.inter _ _ _ _
      refine ⟨_, [addForest banned (⟨d, kids.map BTree.dir⟩ :: p :: r) kids], [i], hA, ?_⟩
      refine ⟨cr_runL (fun a ha => (hA a ha).cr), ?_, ?_, ?_⟩
      · intro K hK
        simp only [List.mem_singleton] at hK
        subst hK
        exact ⟨i, List.mem_singleton.2 rfl, forest_local_rpc banned i kids _ hkids hid
          (by intro p' r' e'; cases e'; exact Or.inr hk)⟩
      · intro c c2 h j hj
        simp only [List.mem_singleton] at hj
        subst hj
        rw [runL_one] at h
        obtain ⟨hn', _, rfl⟩ := interS_ok h
        exact ⟨by rw [effG_hasInter]; simp, taken_false hn'⟩
      · intro c
        rw [eF]
        unfold seq
        have e1 : runL [addForest banned (⟨d, kids.map BTree.dir⟩ :: p :: r) kids] =
            addForest banned (⟨d, kids.map BTree.dir⟩ :: p :: r) kids := funext (runL_one _)
        rw [eD c, e1]
        exact REq.refl _

/-- the Protocol directive -/
theorem proto_atom (d : BDir) (anc : List Up) : ∃ a, Atom a ∧ ∀ c, addProtocol d anc c = a c := by
  by_cases h1 : (!d.annot.isEmpty) = true
  · exact ⟨_, Atom.err ⟨d.id, .annotationForbidden⟩, fun c => by unfold addProtocol; rw [if_pos h1]; rfl⟩
  by_cases h2 : (d.param "ProtocolName").isEmpty = true
  · exact ⟨_, Atom.err ⟨d.id, .required "ProtocolName"⟩, fun c => by unfold addProtocol; rw [if_neg h1, if_pos h2]; rfl⟩
  by_cases h3 : (d.param "ProtocolName" != jsonRpc20) = true
  · exact ⟨_, Atom.err ⟨d.id, .protocolValue⟩, fun c => by
      unfold addProtocol; rw [if_neg h1, if_neg h2, if_pos h3]; rfl⟩
  cases anc with
  | nil => exact ⟨_, Atom.err ⟨d.id, .internal⟩, fun c => by
      unfold addProtocol; rw [if_neg h1, if_neg h2, if_neg h3]; rfl⟩
  | cons p r => exact ⟨_, Atom.proto ⟨d.id, .protocolNotUnique⟩ p.d.id, fun c => by
      unfold addProtocol protoS; rw [if_neg h1, if_neg h2, if_neg h3]; rfl⟩

/-- a method directive with everything below it -/
theorem method_blk (banned : List Kind) (d : BDir) (kids : List BTree) (anc : List Up) (hk : isHTTP d.kind = true)
    (hkids : allF localKindT kids = true) :
    ∃ As L I, (∀ a ∈ As, Atom a) ∧ IsBlk (addBranch banned anc (.node d kids)) (runL As) L I := by
  have eF : addBranch banned anc (.node d kids) = seq (addDirective banned d (kids.map BTree.dir) anc)
      (addForest banned (⟨d, kids.map BTree.dir⟩ :: anc) kids) := funext (addBranch_eq banned anc d kids)
  have e : ∀ c, addDirective banned d (kids.map BTree.dir) anc c =
      if banned.contains d.kind then fail d .notAllowed else addHTTPMethod d (kids.map BTree.dir) anc c := by
    intro c
    rcases isHTTP_cases hk with h | h | h | h | h <;> (unfold addDirective; rw [h])
  have failD : (∀ c, ∃ e', addDirective banned d (kids.map BTree.dir) anc c = .error e') →
      ∃ As L I, (∀ a ∈ As, Atom a) ∧ IsBlk (addBranch banned anc (.node d kids)) (runL As) L I := by
    intro h
    apply blk_fail ⟨d.id, .internal⟩
    intro c; rw [eF]; obtain ⟨e', he⟩ := h c; exact ⟨e', by unfold seq; rw [he]; rfl⟩
  by_cases hb : banned.contains d.kind = true
  · apply failD; intro c; rw [e, if_pos hb]; exact ⟨_, rfl⟩
  cases hp : pathChain (d :: anc.map (·.d)) with
  | error m =>
    apply failD; intro c; rw [e, if_neg hb, addHTTPMethod_eq]
    simp only [hp, liftAt]; exact ⟨_, rfl⟩
  | ok path =>
    cases hcp : checkedParams d path with
    | error m =>
      apply failD; intro c; rw [e, if_neg hb, addHTTPMethod_eq]
      simp only [hp, liftAt, ok_bind, hcp]; exact ⟨_, rfl⟩
    | ok pp =>
      cases hid : httpIdOf (d :: anc.map (·.d)) with
      | error m =>
        apply failD; intro c; rw [e, if_neg hb, addHTTPMethod_eq]
        simp only [hp, liftAt, ok_bind, hcp, hid]
        cases checkSimilar c.similar pp <;> exact ⟨_, rfl⟩
      | ok i =>
        have eD : ∀ c, addDirective banned d (kids.map BTree.dir) anc c =
            runL [simS ⟨d.id, .similarPaths⟩ pp, interS ⟨d.id, .methodDefined⟩ d i (tagsSource (kids.map BTree.dir) anc)] c := by
          intro c
          rw [runL_two, e, if_neg hb, addHTTPMethod_eq]
          simp only [hp, liftAt, ok_bind, hcp, hid]
          unfold simS interS
          cases checkSimilar c.similar pp with
          | none => rfl
          | some s =>
            simp only [ok_bind]
            have e1 : taken ({ c with similar := s } : Cat) i = c.hasInter i :=
              taken_http (httpIdOf_spec hid).1
            rw [e1]
            by_cases hh : c.hasInter i = true
            · rw [if_pos hh, if_pos hh]; rfl
            · rw [if_neg hh, if_neg hh]; exact tagStage_eq_S d _ anc i _
        have hA : ∀ a ∈ [simS ⟨d.id, .similarPaths⟩ pp,
            interS ⟨d.id, .methodDefined⟩ d i (tagsSource (kids.map BTree.dir) anc)], Atom a := by
          intro a ha
          simp only [List.mem_cons, List.not_mem_nil, or_false] at ha
          rcases ha with rfl | rfl
          · exact Atom.sim _ _
          · exact Atom.inter _ _ _ _
        refine ⟨_, [addForest banned (⟨d, kids.map BTree.dir⟩ :: anc) kids], [i], hA, ?_⟩
        refine ⟨cr_runL (fun a ha => (hA a ha).cr), ?_, ?_, ?_⟩
        · intro K hK
          simp only [List.mem_singleton] at hK
          subst hK
          exact ⟨i, List.mem_singleton.2 rfl, forest_local banned i kids _ hkids hid
            (by intro p r e'; cases e'; exact Or.inr hk)⟩
        · intro c c2 h j hj
          simp only [List.mem_singleton] at hj
          subst hj
          rw [runL_two] at h
          obtain ⟨c1, h1, h2⟩ := bind_ok h
          obtain ⟨hn, _, rfl⟩ := interS_ok h2
          unfold simS at h1
          cases hs : checkSimilar c.similar pp with
          | none => rw [hs] at h1; cases h1
          | some s =>
            rw [hs] at h1; cases h1
            exact ⟨by rw [effG_hasInter]; simp, taken_false hn⟩
        · intro c
          rw [eF]
          unfold seq
          have e1 : runL [addForest banned (⟨d, kids.map BTree.dir⟩ :: anc) kids] =
              addForest banned (⟨d, kids.map BTree.dir⟩ :: anc) kids := funext (runL_one _)
          rw [eD c, e1]
          exact REq.refl _

/-- the directives that create no interaction: Tags (a check of the declared names; a Tags directive that is not the
first one of its parent is an `errS` atom, F72), Path, Paste, Protocol (an
entry of `protoURLs`) -/
def quietKind (d : BDir) : Bool := d.kind == .Tags || d.kind == .Path || d.kind == .Paste || d.kind == .Protocol

mutual
  theorem quiet_tree (banned : List Kind) : ∀ (t : BTree) (anc : List Up), allT quietKind t = true →
      ∃ As, (∀ a ∈ As, Atom a) ∧ ∀ c, addBranch banned anc t c = runL As c
    | .node d kids, anc, h => by
      rw [allT, Bool.and_eq_true] at h
      obtain ⟨A2, hA2, e2⟩ := quiet_forest banned kids (⟨d, kids.map BTree.dir⟩ :: anc) h.2
      have hq := h.1
      simp only [quietKind, Bool.or_eq_true, beq_iff_eq] at hq
      by_cases hb : banned.contains d.kind = true
      · refine ⟨[errS ⟨d.id, .notAllowed⟩], ?_, ?_⟩
        · intro a ha; simp only [List.mem_singleton] at ha; subst ha; exact Atom.err _
        · intro c; rw [addBranch_eq]; unfold addDirective; rw [if_pos hb]; rfl
      · rcases hq with ((hq | hq) | hq) | hq
        · by_cases hsec : secondTags d anc = true
          · refine ⟨[errS ⟨d.id, .notUnique⟩], ?_, ?_⟩
            · intro a ha; simp only [List.mem_singleton] at ha; subst ha; exact Atom.err _
            · intro c; rw [addBranch_eq]; unfold addDirective; rw [if_neg hb, hq]
              show addTags d anc c >>= _ = _
              unfold addTags; rw [if_pos hsec]; rfl
          refine ⟨tagChk d :: A2, ?_, ?_⟩
          · intro a ha
            rcases List.mem_cons.1 ha with rfl | ha
            · exact Atom.chk d
            · exact hA2 a ha
          · intro c
            rw [addBranch_eq]
            have : addDirective banned d (kids.map BTree.dir) anc c = tagChk d c := by
              unfold addDirective; rw [if_neg hb, hq]
              show addTags d anc c = _
              unfold addTags; rw [if_neg hsec]; rfl
            rw [this]
            show tagChk d c >>= _ = tagChk d c >>= runL A2
            congr 1; funext x; exact e2 x
        · refine ⟨A2, hA2, ?_⟩
          intro c
          rw [addBranch_eq]
          have : addDirective banned d (kids.map BTree.dir) anc c = .ok c := by
            unfold addDirective; rw [if_neg hb, hq]
          rw [this, ok_bind]; exact e2 c
        · refine ⟨A2, hA2, ?_⟩
          intro c
          rw [addBranch_eq]
          have : addDirective banned d (kids.map BTree.dir) anc c = .ok c := by
            unfold addDirective; rw [if_neg hb, hq]
          rw [this, ok_bind]; exact e2 c
        · obtain ⟨a, ha, ea⟩ := proto_atom d anc
          refine ⟨a :: A2, ?_, ?_⟩
          · intro b hb'
            rcases List.mem_cons.1 hb' with rfl | hb'
            · exact ha
            · exact hA2 b hb'
          · intro c
            rw [addBranch_eq]
            have : addDirective banned d (kids.map BTree.dir) anc c = a c := by
              unfold addDirective; rw [if_neg hb, hq]; exact ea c
            rw [this]
            show a c >>= _ = a c >>= runL A2
            congr 1; funext x; exact e2 x
  theorem quiet_forest (banned : List Kind) : ∀ (ts : List BTree) (anc : List Up), allF quietKind ts = true →
      ∃ As, (∀ a ∈ As, Atom a) ∧ ∀ c, addForest banned anc ts c = runL As c
    | [], anc, _ => ⟨[], fun a ha => (by cases ha), fun c => addForest_nil banned anc c⟩
    | t :: r, anc, h => by
      rw [allF, Bool.and_eq_true] at h
      obtain ⟨A1, hA1, e1⟩ := quiet_tree banned t anc h.1
      obtain ⟨A2, hA2, e2⟩ := quiet_forest banned r anc h.2
      refine ⟨A1 ++ A2, ?_, ?_⟩
      · intro a ha
        rcases List.mem_append.1 ha with ha | ha
        · exact hA1 a ha
        · exact hA2 a ha
      · intro c
        rw [addForest_cons, runL_append, e1 c]
        congr 1; funext x; exact e2 x
end

/-- a child of a URL directive: an HTTP method or a JSON-RPC Method with everything below it, or Tags / Path /
Paste / Protocol -/
def isKid (t : BTree) : Bool :=
  (isHTTP t.dir.kind && allF localKindT t.kids) || (t.dir.kind == .Method && allF rpcKind t.kids) || allT quietKind t

theorem kid_blk (banned : List Kind) (t : BTree) (anc : List Up) (h : isKid t = true) :
    ∃ As L I, (∀ a ∈ As, Atom a) ∧ IsBlk (addBranch banned anc t) (runL As) L I := by
  unfold isKid at h
  rw [Bool.or_eq_true, Bool.or_eq_true] at h
  rcases h with (h | h) | h
  · cases t with
    | node d kids =>
      simp only [BTree.dir, BTree.kids, Bool.and_eq_true] at h
      exact method_blk banned d kids anc h.1 h.2
  · cases t with
    | node d kids =>
      simp only [BTree.dir, BTree.kids, Bool.and_eq_true, beq_iff_eq] at h
      exact rpc_method_blk banned d kids anc h.1 h.2
  · obtain ⟨As, hA, e⟩ := quiet_tree banned t anc h
    exact ⟨As, [], [], hA, blk_of_atoms hA (fun c => REq.of_eq (e c))⟩

theorem seq_runL (A1 A2 : List (Cat → R Cat)) : seq (runL A1) (runL A2) = runL (A1 ++ A2) := by
  funext c; unfold seq; rw [runL_append]

theorem kids_blk (banned : List Kind) (anc : List Up) : ∀ (ts : List BTree), ts.all isKid = true →
    ∃ As L I, (∀ a ∈ As, Atom a) ∧ IsBlk (addForest banned anc ts) (runL As) L I
  | [], _ => ⟨[], [], [], fun a ha => (by cases ha),
      blk_of_atoms (fun a ha => (by cases ha)) (fun c => REq.of_eq (addForest_nil banned anc c))⟩
  | t :: r, h => by
    simp only [List.all_cons, Bool.and_eq_true] at h
    obtain ⟨A1, L1, I1, hA1, b1⟩ := kid_blk banned t anc h.1
    obtain ⟨A2, L2, I2, hA2, b2⟩ := kids_blk banned anc r h.2
    refine ⟨A1 ++ A2, L1 ++ L2, I1 ++ I2, ?_, ?_⟩
    · intro a ha
      rcases List.mem_append.1 ha with ha | ha
      · exact hA1 a ha
      · exact hA2 a ha
    · exact ((b1.seq b2).congrC (seq_runL A1 A2)).congrF (funext (addForest_cons banned anc t r))

/-- the URL directive itself -/
theorem url_atoms (banned : List Kind) (d : BDir) (kd : List BDir) (anc : List Up) (hk : d.kind = .URL) :
    ∃ As, (∀ a ∈ As, Atom a) ∧ ∀ c, REq (addDirective banned d kd anc c) (runL As c) := by
  have e : ∀ c, addDirective banned d kd anc c =
      if banned.contains d.kind then fail d .notAllowed else addURL d kd anc c := by
    intro c; unfold addDirective; rw [hk]
  have failD : (∀ c, ∃ e', addDirective banned d kd anc c = .error e') →
      ∃ As, (∀ a ∈ As, Atom a) ∧ ∀ c, REq (addDirective banned d kd anc c) (runL As c) := by
    intro h
    refine ⟨[errS ⟨d.id, .internal⟩], ?_, ?_⟩
    · intro a ha; simp only [List.mem_singleton] at ha; subst ha; exact Atom.err _
    · intro c; obtain ⟨e', he⟩ := h c; rw [he]; trivial
  by_cases hb : banned.contains d.kind = true
  · apply failD; intro c; rw [e, if_pos hb]; exact ⟨_, rfl⟩
  by_cases ha : (!d.annot.isEmpty) = true
  · apply failD; intro c; rw [e, if_neg hb]; unfold addURL; rw [if_pos ha]; exact ⟨_, rfl⟩
  cases hp : pathChain (d :: anc.map (·.d)) with
  | error m =>
    apply failD; intro c; rw [e, if_neg hb]; unfold addURL; rw [if_neg ha]
    simp only [hp, liftAt]; exact ⟨_, rfl⟩
  | ok path =>
    cases hcp : checkedParams d path with
    | error m =>
      apply failD; intro c; rw [e, if_neg hb]; unfold addURL; rw [if_neg ha]
      simp only [hp, liftAt, ok_bind, hcp]; exact ⟨_, rfl⟩
    | ok pp =>
      cases hm : mixedChild kd with
      | some x =>
        apply failD; intro c; rw [e, if_neg hb]; unfold addURL; rw [if_neg ha]
        simp only [hp, liftAt, ok_bind, hcp, hm]
        cases checkSimilar c.similar pp with
        | none => exact ⟨_, rfl⟩
        | some s => simp only []; split <;> exact ⟨_, rfl⟩
      | none =>
        refine ⟨[simS ⟨d.id, .similarPaths⟩ pp, uniqS ⟨d.id, .nonUniqueURL⟩ path], ?_, ?_⟩
        · intro a ha'
          simp only [List.mem_cons, List.not_mem_nil, or_false] at ha'
          rcases ha' with rfl | rfl
          · exact Atom.sim _ _
          · exact Atom.uniq _ _
        · intro c
          apply REq.of_eq
          rw [runL_two, e, if_neg hb]; unfold addURL; rw [if_neg ha]
          simp only [hp, liftAt, ok_bind, hcp, hm]
          unfold simS uniqS
          cases checkSimilar c.similar pp with
          | none => rfl
          | some s =>
            simp only [ok_bind]
            split <;> rfl

/-- the interaction blocks of the top level: a method block, or a URL whose children are method blocks, Tags,
Path, Paste -/
def isInterBlockH (t : BTree) : Bool :=
  (isHTTP t.dir.kind && allF localKindT t.kids) || (t.dir.kind == .URL && t.kids.all isKid)

theorem block_blk (banned : List Kind) (t : BTree) (anc : List Up) (h : isInterBlockH t = true) :
    ∃ As L I, (∀ a ∈ As, Atom a) ∧ IsBlk (addBranch banned anc t) (runL As) L I := by
  unfold isInterBlockH at h
  rw [Bool.or_eq_true] at h
  cases t with
  | node d kids =>
    simp only [BTree.dir, BTree.kids, Bool.and_eq_true, beq_iff_eq] at h
    rcases h with h | h
    · exact method_blk banned d kids anc h.1 h.2
    · obtain ⟨A1, hA1, e1⟩ := url_atoms banned d (kids.map BTree.dir) anc h.1
      obtain ⟨A2, L2, I2, hA2, b2⟩ := kids_blk banned (⟨d, kids.map BTree.dir⟩ :: anc) kids h.2
      refine ⟨A1 ++ A2, [] ++ L2, [] ++ I2, ?_, ?_⟩
      · intro a ha
        rcases List.mem_append.1 ha with ha | ha
        · exact hA1 a ha
        · exact hA2 a ha
      · exact (((blk_of_atoms hA1 e1).seq b2).congrC (seq_runL A1 A2)).congrF
          (funext (addBranch_eq banned anc d kids))

/-- (the core) two neighbouring interaction blocks may be exchanged -/
theorem comm_blocks (banned : List Kind) (a b : BTree) (ha : isInterBlockH a = true) (hb : isInterBlockH b = true)
    (x : Cat) (hx : Inv x) : RRel Sim (addForest banned [] [a, b] x) (addForest banned [] [b, a] x) := by
  obtain ⟨AA, LA, IA, hAA, bA⟩ := block_blk banned a [] ha
  obtain ⟨AB, LB, IB, hAB, bB⟩ := block_blk banned b [] hb
  rw [pair_eq, pair_eq]
  exact blk_comm bA bB (comm_atoms hAA hAB) x (Nd.of_inv hx)

/-! #### the stages of `compile` -/

theorem swap_rrel_gen (banned : List Kind) (pre post : List BTree) (a b : BTree)
    (hka : a.dir.kind ≠ .TAG) (hkb : b.dir.kind ≠ .TAG) (hpre : pre ≠ [])
    (hcomm : ∀ x, BuildInv.Inv x → RRel Sim (addForest banned [] [a, b] x) (addForest banned [] [b, a] x))
    (hpaths : (pathsForest [] (pre ++ a :: b :: post) []).isOk = (pathsForest [] (pre ++ b :: a :: post) []).isOk) :
    RRel Sim (compile banned (pre ++ a :: b :: post)) (compile banned (pre ++ b :: a :: post)) := by
  rw [compile_eq, compile_eq, collectTags_swap_eq pre post a b hka hkb]
  cases hc : collectTags (pre ++ b :: a :: post) {} with
  | error e => trivial
  | ok c0 =>
    have hinv0 : Inv c0 := collectTags_inv _ {} c0 Inv.empty hc
    rw [ok_bind, ok_bind]
    have h2 := checkTypeNames_swap pre post a b
    cases ht : checkTypeNames (pre ++ a :: b :: post) with
    | error e =>
      cases ht' : checkTypeNames (pre ++ b :: a :: post) with
      | error e' => trivial
      | ok u => cases u; rw [ht'] at h2; rw [h2.2 rfl] at ht; cases ht
    | ok u =>
      cases u
      rw [h2.1 ht, ok_bind, ok_bind, headCheck_swap pre post a b hpre]
      cases hp1 : pathsForest [] (pre ++ a :: b :: post) [] with
      | error e =>
        cases hp2 : pathsForest [] (pre ++ b :: a :: post) [] with
        | error e' => trivial
        | ok l => rw [hp1, hp2] at hpaths; cases hpaths
      | ok l =>
        cases hp2 : pathsForest [] (pre ++ b :: a :: post) [] with
        | error e' => rw [hp1, hp2] at hpaths; cases hpaths
        | ok l' =>
          rw [ok_bind, ok_bind]
          cases headCheck (pre ++ b :: a :: post) with
          | error e => trivial
          | ok _ =>
            rw [ok_bind, ok_bind]
            refine RRel.bind ?_ (fun x y hxy => finish_sim hxy)
            have e1 : pre ++ a :: b :: post = pre ++ ([a, b] ++ post) := rfl
            have e2 : pre ++ b :: a :: post = pre ++ ([b, a] ++ post) := rfl
            rw [e1, e2, addForest_append, addForest_append]
            cases h1 : addForest banned [] pre c0 with
            | error e => trivial
            | ok x =>
              have hx : Inv x := addForest_inv banned [] pre c0 x hinv0 h1
              rw [ok_bind, ok_bind, addForest_append, addForest_append]
              exact RRel.bind (hcomm x hx) (fun u v huv => lift_sim banned [] post u v huv)


theorem swap_blocks_rrel (banned : List Kind) (pre post : List BTree) (a b : BTree)
    (ha : isInterBlockH a = true) (hb : isInterBlockH b = true) (hpre : pre ≠ [])
    (hpaths : (pathsForest [] (pre ++ a :: b :: post) []).isOk = (pathsForest [] (pre ++ b :: a :: post) []).isOk) :
    RRel Sim (compile banned (pre ++ a :: b :: post)) (compile banned (pre ++ b :: a :: post)) := by
  have root : ∀ t, isInterBlockH t = true → t.dir.kind ≠ .TAG := by
    intro t h e
    simp only [isInterBlockH, Bool.or_eq_true, Bool.and_eq_true, beq_iff_eq] at h
    rcases h with h | h
    · exact isHTTP_not_tag h.1 e
    · rw [e] at h; exact absurd h.1 (by decide)
  exact swap_rrel_gen banned pre post a b (root a ha) (root b hb) hpre
    (fun x hx => comm_blocks banned a b ha hb x hx) hpaths

end JSight.BuildPermI
